import McpModel.Conn.ObsLemmas
/-!
Preservation of `MonReqs` (the incoming-request part of `MonRel`) by the labels of the processResult
chain of one request: P1, P2, W1 (response), the transport Write of a response returning, W2 (response).
-/
namespace Conn

set_option linter.unusedVariables false

/-! Helper lemmas live in `Conn.ReqsB` (other `MonReqs*` files prove their own copies). -/
namespace ReqsB

/-! ### frame facts -/

@[simp] theorem tail_unotifs (s : St) : (tail s).unotifs = s.unotifs := congrArg NView.us (nview_tail s)
@[simp] theorem tail_cnotifs (s : St) : (tail s).cnotifs = s.cnotifs := congrArg NView.cs (nview_tail s)
@[simp] theorem markBroken_unotifs (s : St) : (markBroken s).unotifs = s.unotifs := congrArg NView.us (nview_markBroken s)
@[simp] theorem markBroken_cnotifs (s : St) : (markBroken s).cnotifs = s.cnotifs := congrArg NView.cs (nview_markBroken s)

@[simp] theorem modCore_unotifs (s : St) (r : Nat) (f : ReqCore → ReqCore) : (modCore s r f).unotifs = s.unotifs := rfl
@[simp] theorem modCore_cnotifs (s : St) (r : Nat) (f : ReqCore → ReqCore) : (modCore s r f).cnotifs = s.cnotifs := rfl
@[simp] theorem modMeta_unotifs (s : St) (r : Nat) (f : ReqMeta → ReqMeta) : (modMeta s r f).unotifs = s.unotifs := rfl
@[simp] theorem modMeta_cnotifs (s : St) (r : Nat) (f : ReqMeta → ReqMeta) : (modMeta s r f).cnotifs = s.cnotifs := rfl
@[simp] theorem cancelReq_unotifs (s : St) (r : Nat) (c : Cause) : (cancelReq s r c).unotifs = s.unotifs := rfl
@[simp] theorem cancelReq_cnotifs (s : St) (r : Nat) (c : Cause) : (cancelReq s r c).cnotifs = s.cnotifs := rfl
@[simp] theorem toP2_unotifs (s : St) (r : Nat) : (toP2 s r).unotifs = s.unotifs := rfl
@[simp] theorem toP2_cnotifs (s : St) (r : Nat) : (toP2 s r).cnotifs = s.cnotifs := rfl
@[simp] theorem toP2_byID (s : St) (r : Nat) : (toP2 s r).byID = s.byID := rfl
@[simp] theorem modCore_byID' (s : St) (r : Nat) (f : ReqCore → ReqCore) : (modCore s r f).byID = s.byID := rfl
@[simp] theorem modCore_metas' (s : St) (r : Nat) (f : ReqCore → ReqCore) : (modCore s r f).metas = s.metas := rfl
@[simp] theorem modCore_cores' (s : St) (r : Nat) (f : ReqCore → ReqCore) : (modCore s r f).cores = s.cores.modify r f := rfl
@[simp] theorem toP2_cores' (s : St) (r : Nat) :
    (toP2 s r).cores = s.cores.modify r (fun q => { q with pc := .p2 }) := rfl

theorem markBroken_writeErr (s : St) : (markBroken s).writeErr = true := by
  have := congrArg FV.writeErr (fview_markBroken s)
  simpa [fview] using this

theorem getNotif_congr {X s : St} (hu : X.unotifs = s.unotifs) (hc : X.cnotifs = s.cnotifs) (w : Who) :
    getNotif X w = getNotif s w := by
  cases w <;> simp [getNotif, hu, hc]

theorem getCall_congr {X s : St} (hc : X.calls = s.calls) (n : Nat) : getCall X n = getCall s n := by
  simp [getCall, hc]

theorem modify_get {α : Type} {l : List α} {r j : Nat} {g : α → α} {a' : α}
    (h : (l.modify r g)[j]? = some a') : ∃ a, l[j]? = some a ∧ a' = (if r = j then g a else a) := by
  rw [List.getElem?_modify] at h
  cases hl : l[j]? with
  | none => simp [hl] at h
  | some a => simp [hl] at h; exact ⟨a, rfl, h.symm⟩

/-! ### the generic single-request update -/

/-- Request `r` is updated (core by `g`, meta by `f`, the monitor's record by `h`); calls and
notifications are untouched; the monitor's flags only grow. -/
theorem monreqs_upd {m m' : Mon} {s s0 : St} (mr : MonReqs m s) (r : Nat)
    (g : ReqCore → ReqCore) (f : ReqMeta → ReqMeta) (h : MReq → MReq)
    (hcores : s0.cores = s.cores.modify r g) (hmetas : s0.metas = s.metas.modify r f)
    (hreqs : m'.reqs = m.reqs.modify r h)
    (hidx : m'.idx = s0.byID)
    (hrxs : m.rxSeen = true → m'.rxSeen = true) (hbs : m.brokenSeen = true → m'.brokenSeen = true)
    (hcalls : s0.calls = s.calls) (hun : s0.unotifs = s.unotifs) (hcn : s0.cnotifs = s.cnotifs)
    (hwe : s0.writeErr = s.writeErr)
    (hmt : ∀ mt, s.metas[r]? = some mt →
      ((f mt).cancelled = some .read → mt.cancelled = some .read) ∧
      ((f mt).cancelled = some .write → mt.cancelled = some .write))
    (hkk : ∀ k e, s.cores[r]? = some k → (g k).pc = .w2 e → m'.brokenSeen = true)
    (hrel : ∀ q k mt, m.reqs[r]? = some q → s.cores[r]? = some k → s.metas[r]? = some mt →
      ReqRel q k mt → ReqRel (h q) (g k) (f mt)) :
    MonReqs m' s0 := by
  refine ⟨?_, hidx, ?_, ?_, ?_, ?_, ?_, ?_, ?_⟩
  · rw [hreqs, hcores, List.length_modify, List.length_modify]; exact mr.nreqs
  · intro j mt0 hj hc
    rw [hmetas] at hj
    obtain ⟨mt, hmj, rfl⟩ := modify_get hj
    by_cases hrj : r = j
    · subst hrj; simp only [if_true] at hc
      exact hrxs (mr.rx r mt hmj ((hmt mt hmj).1 hc))
    · simp only [hrj, if_false] at hc; exact hrxs (mr.rx j mt hmj hc)
  · intro n c e hc hpc
    rw [getCall_congr hcalls] at hc
    exact hbs (mr.bc n c e hc hpc)
  · intro w nf e hw hpc
    rw [getNotif_congr hun hcn] at hw
    exact hbs (mr.bn w nf e hw hpc)
  · intro j k0 e hj hpc
    rw [hcores] at hj
    obtain ⟨k, hkj, rfl⟩ := modify_get hj
    by_cases hrj : r = j
    · subst hrj; simp only [if_true] at hpc
      exact hkk k e hkj hpc
    · simp only [hrj, if_false] at hpc; exact hbs (mr.bk j k e hkj hpc)
  · intro hw; rw [hwe] at hw; exact hbs (mr.bw hw)
  · intro j mt0 hj hc
    rw [hmetas] at hj
    obtain ⟨mt, hmj, rfl⟩ := modify_get hj
    rw [hwe]
    by_cases hrj : r = j
    · subst hrj; simp only [if_true] at hc
      exact mr.bx r mt hmj ((hmt mt hmj).2 hc)
    · simp only [hrj, if_false] at hc; exact mr.bx j mt hmj hc
  · intro j q0 k0 mt0 hq hk hm
    rw [hreqs] at hq; rw [hcores] at hk; rw [hmetas] at hm
    obtain ⟨q, hqj, rfl⟩ := modify_get hq
    obtain ⟨k, hkj, rfl⟩ := modify_get hk
    obtain ⟨mt, hmj, rfl⟩ := modify_get hm
    have rel := mr.req j q k mt hqj hkj hmj
    by_cases hrj : r = j
    · subst hrj; simp only [if_true]
      exact hrel q k mt hqj hkj hmj rel
    · simp only [hrj, if_false]; exact rel

/-- Only fields the relation does not mention differ. -/
theorem monreqs_congr {m : Mon} {s s0 : St} (mr : MonReqs m s)
    (hcores : s0.cores = s.cores) (hmetas : s0.metas = s.metas) (hby : s0.byID = s.byID)
    (hcalls : s0.calls = s.calls) (hun : s0.unotifs = s.unotifs) (hcn : s0.cnotifs = s.cnotifs)
    (hwe : s0.writeErr = s.writeErr) : MonReqs m s0 :=
  monreqs_upd mr 0 id id id (by rw [List.modify_id]; exact hcores) (by rw [List.modify_id]; exact hmetas)
    (by rw [List.modify_id]) (by rw [hby]; exact mr.idx) id id hcalls hun hcn hwe
    (fun _ _ => ⟨id, id⟩) (fun k e hk hpc => mr.bk 0 k e hk hpc) (fun _ _ _ _ _ _ rel => rel)

theorem monreqs_tail {m : Mon} {s : St} (mr : MonReqs m s) : MonReqs m (tail s) :=
  monreqs_congr mr (by simp) (by simp) (by simp) (by simp) (by simp) (by simp) (by simp)

end ReqsB
open ReqsB

/-! ### P1 -/

theorem monreqs_p1 {m : Mon} {s s0 : St} {p : Obs} {r : Nat} (mr : MonReqs m s) (i : Inv4 s)
    (hp : p.shuttingDown = s.shuttingDown) (h : step0 s (.p1 r) = some s0) :
    MonReqs (m.book p (evOf (.p1 r))) s0 := by
  simp only [step0] at h
  split at h
  · cases h
  · rename_i q hq
    split at h
    · cases h
    · rename_i hpc
      have hpc : q.pc = .p1 := by simpa using hpc
      have ri : RInv (reqView s) := i.base.base.base.reqs
      obtain ⟨o, hlen⟩ := ri.at (show (reqView s).cores[r]? = some q from hq)
      have hcall : q.isCall = true := by
        cases hc : q.isCall with
        | true => rfl
        | false => have := (o.notif hc).2.1; simp [hpc] at this
      cases h
      refine monreqs_upd mr r (fun k => { k with pc := .w1 }) id (fun q => { q with p1count := q.p1count + 1 })
        ?_ ?_ rfl ?_ id id ?_ ?_ ?_ ?_ (fun _ _ => ⟨id, id⟩) ?_ ?_
      · cases hid : q.id <;> simp [modCore]
      · cases hid : q.id <;> simp [modCore]
      · show m.idx.filter (fun e => e.2 ≠ r) = _
        rw [mr.idx]
        cases hid : q.id with
        | none =>
          simp only [tail_byID, modCore]
          rw [List.filter_eq_self]
          intro a ha
          simp only [ne_eq, decide_eq_true_eq]
          intro har
          have := ((o.idx a.1).mp (by rw [← har]; exact ha)).2.1
          simp [hid] at this
        | some id =>
          simp only [tail_byID, modCore]
          apply List.filter_congr
          intro a ha
          have hr : (id, r) ∈ s.byID := (o.idx id).mpr ⟨hcall, hid, by simp [hpc, ReqPc.indexed]⟩
          simp only [ne_eq, decide_eq_decide]
          apply not_congr
          constructor
          · intro har
            have := ((o.idx a.1).mp (by rw [← har]; exact ha)).2.1
            rw [hid] at this; injection this with this; exact this.symm
          · intro ha1
            have ha' : (id, a.2) ∈ s.byID := by rw [← ha1]; exact ha
            exact nodup_keys_unique ri.keys ha' hr
      · cases hid : q.id <;> simp [modCore]
      · cases hid : q.id <;> simp [modCore]
      · cases hid : q.id <;> simp [modCore]
      · cases hid : q.id <;> simp [modCore]
      · intro k e _ hk; simp at hk
      · intro q' k mt hq' hk hmt rel
        rw [hq] at hk; cases hk
        have hcf := rel.cfin
        constructor
        · exact rel.id
        · exact rel.idk
        · exact rel.cancelKind
        · exact rel.kind
        · simp
        · exact rel.w1
        · exact rel.ok
        · have := rel.p1; simp_all [ReqPc.afterP1]
        · exact rel.st
        · simp
        · exact rel.asyncd
        · have := rel.p2done; simp_all
        · simp [ReqPc.inPR]
        · exact rel.peer
        · exact rel.cpeer
        · simp
        · intro hc; have := rel.cfin hc; simp [hpc] at this

/-! ### P2 -/

theorem monreqs_p2 {m : Mon} {s s0 : St} {p : Obs} {r : Nat} (mr : MonReqs m s) (i : Inv4 s)
    (hp : p.shuttingDown = s.shuttingDown) (h : step0 s (.p2 r) = some s0) :
    MonReqs (m.book p (evOf (.p2 r))) s0 := by
  simp only [step0] at h
  split at h
  · cases h
  · rename_i q hq
    split at h
    · cases h
    · rename_i hpc
      have hpc : q.pc = .p2 := by simpa using hpc
      cases h
      have hrel : ∀ (f : ReqMeta → ReqMeta), (∀ mt, (f mt).cancelled = mt.cancelled ∧ (f mt).started = mt.started ∧
          (f mt).asyncCalled = mt.asyncCalled ∧ (f mt).seen = mt.seen) →
          ∀ q' k mt, m.reqs[r]? = some q' → s.cores[r]? = some k → s.metas[r]? = some mt →
          ReqRel q' k mt → ReqRel { q' with p2done := true } { k with pc := .fin } (f mt) := by
        intro f hf q' k mt hq' hk hmt rel
        rw [hq] at hk; cases hk
        obtain ⟨f1, f2, f3, f4⟩ := hf mt
        constructor
        · exact rel.id
        · exact rel.idk
        · exact rel.cancelKind
        · exact rel.kind
        · simp
        · exact rel.w1
        · exact rel.ok
        · have := rel.p1; simp_all [ReqPc.afterP1]
        · rw [f2]; exact rel.st
        · simp
        · rw [f3]; exact rel.asyncd
        · simp
        · simp
        · rw [f1]; exact rel.peer
        · rw [f1]; exact rel.cpeer
        · simp
        · simp
      cases hown : q.owner
      · refine monreqs_upd mr r (fun k => { k with pc := .fin }) id (fun q => { q with p2done := true })
          ?_ ?_ rfl ?_ id id ?_ ?_ ?_ ?_ (fun _ _ => ⟨id, id⟩) ?_ (hrel id (fun _ => ⟨rfl, rfl, rfl, rfl⟩))
        all_goals first
          | (intro k e _ hk; simp at hk; done)
          | (simp only [afterP2]; split <;> simp [modCore, evOf, Mon.book, modR, mr.idx]; done)
      · refine monreqs_upd mr r (fun k => { k with pc := .fin }) id (fun q => { q with p2done := true })
          ?_ ?_ rfl ?_ id id ?_ ?_ ?_ ?_ (fun _ _ => ⟨id, id⟩) ?_ (hrel id (fun _ => ⟨rfl, rfl, rfl, rfl⟩))
        all_goals first
          | (intro k e _ hk; simp at hk; done)
          | (simp only [afterP2]; split <;> simp [modCore, evOf, Mon.book, modR, mr.idx]; done)
      · refine monreqs_upd mr r (fun k => { k with pc := .fin }) (fun q => { q with released := true })
          (fun q => { q with p2done := true })
          ?_ ?_ rfl ?_ id id ?_ ?_ ?_ ?_ (fun _ _ => ⟨id, id⟩) ?_ (hrel _ (fun _ => ⟨rfl, rfl, rfl, rfl⟩))
        all_goals first
          | (intro k e _ hk; simp at hk; done)
          | (simp only [afterP2]; split <;> simp [modCore, modMeta, evOf, Mon.book, modR, mr.idx]; done)

namespace ReqsB

/-! ### inside the response write (W1, the transport Write, W2) -/

/-- `req.cancel(nil)` at the end of processResult: fills an empty cause with `finished`. -/
def cancelFin (q : ReqMeta) : ReqMeta := if q.cancelled.isSome then q else { q with cancelled := some .finished }

theorem cancelReq_metas (s : St) (r : Nat) : (cancelReq s r .finished).metas = s.metas.modify r cancelFin := rfl

theorem cancelFin_facts (mt : ReqMeta) :
    (cancelFin mt).started = mt.started ∧ (cancelFin mt).asyncCalled = mt.asyncCalled ∧ (cancelFin mt).seen = mt.seen ∧
    (cancelFin mt).cancelled.isSome = true ∧
    (∀ c, c ≠ Cause.finished → (cancelFin mt).cancelled = some c → mt.cancelled = some c) := by
  unfold cancelFin
  cases hc : mt.cancelled with
  | none => simp; intro c hc' h; exact absurd h.symm hc'
  | some c => simp [hc]

/-- A move inside the response write: pc from {w1, wr, w2} to {wr, w2} (meta unchanged) or to p2
(context cancelled with cause `finished`); only the two write counters change. -/
theorem reqrel_inWrite {q : MReq} {k k' : ReqCore} {mt mt' : ReqMeta} (rel : ReqRel q k mt) (w o : Nat)
    (hold : k.pc = .w1 ∨ k.pc = .wr ∨ ∃ e, k.pc = .w2 e)
    (hnew : ((k'.pc = .wr ∨ ∃ e, k'.pc = .w2 e) ∧ mt' = mt) ∨ (k'.pc = .p2 ∧ mt' = cancelFin mt))
    (hk : k'.id = k.id ∧ k'.isCall = k.isCall)
    (hw1 : w = k'.wrote) (hok : o = k'.responses) :
    ReqRel { q with w1count := w, okWrites := o } k' mt' := by
  obtain ⟨hid, hcall⟩ := hk
  have hA : k.pc.afterP1 = true := by rcases hold with h | h | ⟨e, h⟩ <;> simp [h, ReqPc.afterP1]
  have hA' : k'.pc.afterP1 = true ∧ k'.pc.inPR = true ∧ k'.pc ≠ .a1 ∧ k'.pc ≠ .running ∧ k'.pc ≠ .fin ∧
      k'.pc ≠ .a2 ∧ k'.pc ≠ .queued := by
    rcases hnew with ⟨h | ⟨e, h⟩, _⟩ | ⟨h, _⟩ <;> simp [h, ReqPc.afterP1, ReqPc.inPR]
  have hnf : k.pc ≠ .fin ∧ k.pc ≠ .p2 := by rcases hold with h | h | ⟨e, h⟩ <;> simp [h]
  obtain ⟨f1, f2, f3, f4, f5⟩ := cancelFin_facts mt
  have hm : mt'.started = mt.started ∧ mt'.asyncCalled = mt.asyncCalled ∧ mt'.seen = mt.seen := by
    rcases hnew with ⟨_, h⟩ | ⟨_, h⟩ <;> subst h <;> simp [f1, f2, f3]
  constructor
  · simp [hid]; exact rel.id
  · exact rel.idk
  · exact rel.cancelKind
  · simp [hcall]; exact rel.kind
  · intro _; exact hA'.2.2.1
  · exact hw1
  · exact hok
  · have := rel.p1; simp_all
  · simp [hm.1]; exact rel.st
  · intro h; exact absurd h hA'.2.2.2.1
  · simp [hm.2.1]; exact rel.asyncd
  · have := rel.p2done; simp_all
  · intro _; exact Or.inl hA'.2.1
  · intro h
    rcases hnew with ⟨_, e⟩ | ⟨_, e⟩ <;> subst e
    · exact rel.peer h
    · exact f4
  · intro h
    rcases hnew with ⟨_, e⟩ | ⟨_, e⟩ <;> subst e
    · exact rel.cpeer h
    · exact rel.cpeer (f5 _ (by simp) h)
  · intro h; rcases h with h | h | h
    · exact absurd h hA'.2.2.2.2.2.1
    · exact absurd h hA'.2.2.2.2.2.2
    · exact absurd h hA'.2.2.2.1
  · intro h
    rcases hnew with ⟨_, e⟩ | ⟨h2, e⟩
    · subst e; rcases rel.cfin h with h' | h'
      · exact absurd h' hnf.2
      · exact absurd h' hnf.1
    · exact Or.inl h2

theorem cancelFin_rw (mt : ReqMeta) :
    ((cancelFin mt).cancelled = some .read → mt.cancelled = some .read) ∧
    ((cancelFin mt).cancelled = some .write → mt.cancelled = some .write) :=
  ⟨(cancelFin_facts mt).2.2.2.2 _ (by simp), (cancelFin_facts mt).2.2.2.2 _ (by simp)⟩

end ReqsB

/-! ### W1 of a response -/

theorem monreqs_w1resp {m : Mon} {s s0 : St} {p : Obs} {r : Nat} (mr : MonReqs m s) (i : Inv4 s)
    (hp : p.shuttingDown = s.shuttingDown) (h : step0 s (.w1 (.resp r)) = some s0) :
    MonReqs (m.book p (evOf (.w1 (.resp r)))) s0 := by
  simp only [step0] at h
  split at h
  · cases h
  · rename_i q hq
    split at h
    · cases h
    · rename_i hpc
      have hpc : q.pc = .w1 := by simpa using hpc
      split at h
      · cases h
        refine monreqs_upd mr r ((fun k => { k with pc := .wr }) ∘ (fun k => { k with wrote := k.wrote + 1 })) id
          (fun q => { q with w1count := q.w1count + 1 }) ?_ ?_ rfl ?_ id id ?_ ?_ ?_ ?_ (fun _ _ => ⟨id, id⟩) ?_ ?_
        · simp [modCore, List.modify_modify_eq]
        · simp [modCore]
        · simp [modCore, evOf, Mon.book, modR, mr.idx]
        · simp [modCore]
        · simp [modCore]
        · simp [modCore]
        · simp [modCore]
        · intro k e _ hk; simp at hk
        · intro q' k mt hq' hk hmt rel
          rw [hq] at hk; cases hk
          exact reqrel_inWrite rel _ _ (Or.inl hpc) (Or.inl ⟨Or.inl rfl, rfl⟩) ⟨rfl, rfl⟩ (by simp [rel.w1]) rel.ok
      · cases h
        refine monreqs_upd mr r ((fun k => { k with pc := .p2 }) ∘ (fun k => { k with wrote := k.wrote + 1 })) cancelFin
          (fun q => { q with w1count := q.w1count + 1 }) ?_ ?_ rfl ?_ id id ?_ ?_ ?_ ?_ (fun mt _ => cancelFin_rw mt) ?_ ?_
        · simp [List.modify_modify_eq]
        · simp [toP2, cancelReq_metas]
        · simp [evOf, Mon.book, modR, mr.idx]
        · simp
        · simp
        · simp
        · simp
        · intro k e _ hk; simp at hk
        · intro q' k mt hq' hk hmt rel
          rw [hq] at hk; cases hk
          exact reqrel_inWrite rel _ _ (Or.inl hpc) (Or.inr ⟨rfl, rfl⟩) ⟨rfl, rfl⟩ (by simp [rel.w1]) rel.ok

/-! ### the transport Write of a response returns -/

theorem monreqs_wretresp {m : Mon} {s s0 : St} {p : Obs} {r : Nat} {o : WOut} (mr : MonReqs m s) (i : Inv4 s)
    (hp : p.shuttingDown = s.shuttingDown) (h : step0 s (.wret (.resp r) o) = some s0) :
    MonReqs (m.book p (evOf (.wret (.resp r) o))) s0 := by
  simp only [step0] at h
  split at h
  · cases h
  · rename_i q hq
    split at h
    · cases h
    · rename_i hpc
      have hpc : q.pc = .wr := by simpa using hpc
      cases o
      · -- ok
        cases h
        refine monreqs_upd mr r ((fun k => { k with pc := .p2 }) ∘ (fun k => { k with responses := k.responses + 1 })) cancelFin
          (fun q => { q with okWrites := q.okWrites + 1 }) ?_ ?_ ?_ ?_ id id ?_ ?_ ?_ ?_ (fun mt _ => cancelFin_rw mt) ?_ ?_
        · simp [modCore, List.modify_modify_eq]
        · simp [toP2, modCore, cancelReq_metas]
        · simp [evOf, Mon.book, modR, Who.resp?]
        · simp [modCore, evOf, Mon.book, modR, Who.resp?, mr.idx]
        · simp [modCore]
        · simp [modCore]
        · simp [modCore]
        · simp [modCore]
        · intro k e _ hk; simp at hk
        · intro q' k mt hq' hk hmt rel
          rw [hq] at hk; cases hk
          exact reqrel_inWrite rel _ _ (Or.inr (Or.inl hpc)) (Or.inr ⟨rfl, rfl⟩) ⟨rfl, rfl⟩ rel.w1 (by simp [rel.ok])
      · -- broken
        cases h
        refine monreqs_upd mr r (fun k => { k with pc := .w2 .broken }) id id ?_ ?_ ?_ ?_ ?_ ?_ ?_ ?_ ?_ ?_ (fun _ _ => ⟨id, id⟩) ?_ ?_
        · simp [modCore]
        · simp [modCore]
        · simp [evOf, Mon.book, Who.resp?]
        · simp [modCore, evOf, Mon.book, Who.resp?, mr.idx]
        · simp [evOf, Mon.book, Who.resp?]
        · simp [evOf, Mon.book, Who.resp?]
        · simp [modCore]
        · simp [modCore]
        · simp [modCore]
        · simp [modCore]
        · intro k e _ hk; simp [evOf, Mon.book, Who.resp?]
        · intro q' k mt hq' hk hmt rel
          rw [hq] at hk; cases hk
          exact reqrel_inWrite rel _ _ (Or.inr (Or.inl hpc)) (Or.inl ⟨Or.inr ⟨_, rfl⟩, rfl⟩) ⟨rfl, rfl⟩ rel.w1 rel.ok
      · -- rejected
        cases h
        refine monreqs_upd mr r (fun k => { k with pc := .p2 }) cancelFin id ?_ ?_ ?_ ?_ id id ?_ ?_ ?_ ?_
          (fun mt _ => cancelFin_rw mt) ?_ ?_
        · simp
        · simp [toP2, cancelReq_metas]
        · simp [evOf, Mon.book, Who.resp?]
        · simp [evOf, Mon.book, Who.resp?, mr.idx]
        · simp
        · simp
        · simp
        · simp
        · intro k e _ hk; simp at hk
        · intro q' k mt hq' hk hmt rel
          rw [hq] at hk; cases hk
          exact reqrel_inWrite rel _ _ (Or.inr (Or.inl hpc)) (Or.inr ⟨rfl, rfl⟩) ⟨rfl, rfl⟩ rel.w1 rel.ok
      · cases h

/-! ### W2 of a response -/

namespace ReqsB

theorem foldl_cancel_metas (l : List (Nat × Nat)) (c : Cause) (s : St) (j : Nat) (mt0 : ReqMeta)
    (h : (l.foldl (fun s p => cancelReq s p.2 c) s).metas[j]? = some mt0) :
    ∃ mt, s.metas[j]? = some mt ∧ (mt0 = mt ∨ (mt.cancelled = none ∧ mt0 = { mt with cancelled := some c })) := by
  induction l generalizing s with
  | nil => exact ⟨mt0, h, Or.inl rfl⟩
  | cons a t ih =>
    simp only [List.foldl] at h
    obtain ⟨mt1, h1, hm⟩ := ih _ h
    have h1' : (s.metas.modify a.2 fun q => if q.cancelled.isSome then q else { q with cancelled := some c })[j]? = some mt1 := h1
    obtain ⟨mt, hmj, e⟩ := modify_get h1'
    refine ⟨mt, hmj, ?_⟩
    by_cases haj : a.2 = j
    · simp only [haj, if_true] at e
      cases hc : mt.cancelled with
      | none =>
        simp [hc] at e
        subst e
        rcases hm with hm | ⟨hm, _⟩
        · exact Or.inr ⟨rfl, hm⟩
        · simp at hm
      | some c' =>
        simp [hc] at e
        subst e
        rcases hm with hm | ⟨hm, _⟩
        · exact Or.inl hm
        · rw [hc] at hm; cases hm
    · simp only [haj, if_false] at e
      subst e; exact hm

theorem markBroken_metas {s : St} {j : Nat} {mt0 : ReqMeta} (h : (markBroken s).metas[j]? = some mt0) :
    ∃ mt, s.metas[j]? = some mt ∧ (mt0 = mt ∨ (mt.cancelled = none ∧ mt0 = { mt with cancelled := some .write })) := by
  unfold markBroken at h
  split at h
  · exact ⟨mt0, h, Or.inl rfl⟩
  · exact foldl_cancel_metas _ _ { s with writeErr := true } _ _ h

/-- Marking the writer broken, once some transport Write has been seen to fail. -/
theorem monreqs_markBroken {m : Mon} {s : St} (mr : MonReqs m s) (hb : m.brokenSeen = true) :
    MonReqs m (markBroken s) := by
  refine ⟨by simp [mr.nreqs], by simp [mr.idx], ?_, ?_, ?_, ?_, fun _ => hb, fun _ _ _ _ => markBroken_writeErr s, ?_⟩
  · intro j mt0 hj hc
    obtain ⟨mt, hmj, e | ⟨_, e⟩⟩ := markBroken_metas hj
    · subst e; exact mr.rx j mt0 hmj hc
    · subst e; simp at hc
  · intro n c e hc; rw [getCall_congr (markBroken_calls s)] at hc; exact mr.bc n c e hc
  · intro w nf e hw; rw [getNotif_congr (markBroken_unotifs s) (markBroken_cnotifs s)] at hw; exact mr.bn w nf e hw
  · intro j k e hk; rw [markBroken_cores] at hk; exact mr.bk j k e hk
  · intro j q k mt0 hq hk hm
    rw [markBroken_cores] at hk
    obtain ⟨mt, hmj, e | ⟨hn, e⟩⟩ := markBroken_metas hm
    · subst e; exact mr.req j q k mt0 hq hk hmj
    · subst e
      have rel := mr.req j q k mt hq hk hmj
      exact ⟨rel.id, rel.idk, rel.cancelKind, rel.kind, rel.dupa, rel.w1, rel.ok, rel.p1, rel.st, rel.run, rel.asyncd,
        rel.p2done, rel.late, fun _ => rfl, fun h => by simp at h, rel.seen, fun h => by simp at h⟩

end ReqsB

theorem monreqs_w2resp {m : Mon} {s s0 : St} {p : Obs} {r : Nat} (mr : MonReqs m s) (i : Inv4 s)
    (hp : p.shuttingDown = s.shuttingDown) (h : step0 s (.w2 (.resp r)) = some s0) :
    MonReqs (m.book p (evOf (.w2 (.resp r)))) s0 := by
  simp only [step0] at h
  split at h
  · cases h
  · rename_i q hq
    split at h
    · rename_i e hpc
      cases h
      have mr1 := monreqs_tail (monreqs_markBroken mr (mr.bk r q e hq hpc))
      have hq1 : (tail (markBroken s)).cores[r]? = some q := by simpa using hq
      refine monreqs_upd mr1 r (fun k => { k with pc := .p2 }) cancelFin id ?_ ?_ ?_ ?_ id id ?_ ?_ ?_ ?_
        (fun mt _ => cancelFin_rw mt) ?_ ?_
      · simp
      · simp [toP2, cancelReq_metas]
      · simp [evOf, Mon.book]
      · simp [evOf, Mon.book, mr.idx]
      · simp
      · simp
      · simp
      · simp
      · intro k e _ hk; simp at hk
      · intro q' k mt hq' hk hmt rel
        rw [hq1] at hk; cases hk
        exact reqrel_inWrite rel _ _ (Or.inr (Or.inr ⟨e, hpc⟩)) (Or.inr ⟨rfl, rfl⟩) ⟨rfl, rfl⟩ rel.w1 rel.ok
    · cases h

end Conn
