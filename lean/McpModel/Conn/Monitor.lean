import McpModel.Conn.Model
/-!
Typed core of the E1 driver: the observation of a connection as typed data (`Obs`), the model's
observation `obsOf : St → Obs`, the typed event `Ev` the monitors read off a label, the monitors of
C01–C05 (`monStepT`, `monEndT`) as functions on typed data, and the observation trace of a run
(`traceOf`, `runMon`).  The string layer (`render`, `parseObs`, `parseLabel`) lives in `Driver.lean`
and is a thin wrapper.  Core Lean only (linked into the driver).

The monitors see only the labels (ground truth: what the harness fed in and which goroutine it
released) and the IMPLEMENTATION's observations; they never consult the model's state.
-/
namespace Conn

/-! ## typed observation -/

/-- A goroutine parked at a yield site / in a scripted Reader, Writer, Handler (`P=` tokens).
In observations a detached cancel notification is named by its call: `.cnotif n` = `x<n>`. -/
inductive PTok where
  | start | rd | rr | rx | d1 | cl1
  | wt (fromWait : Bool)
  | k1 (id : Nat)
  | c1 (n : Nat) | r (n : Nat)
  | n1 (w : Who) | n2 (w : Who) | w1 (w : Who) | wr (w : Who) | w2 (w : Who)
  | a1 (r : Nat) | a2 (r : Nat) | h (r : Nat) | p1 (r : Nat) | p2 (r : Nat)
deriving DecidableEq, Repr, Inhabited

/-- The call a parked caller goroutine belongs to. -/
def PTok.callNo : PTok → Option Nat
  | .c1 n | .r n | .w1 (.call n) | .wr (.call n) | .w2 (.call n) => some n
  | _ => none

/-- A finished result as printed by the harness. -/
inductive RTok where
  | ok (payload : Nat)      -- `ok<p>`: the peer's response with payload tag p
  | okPlain                 -- `ok`: a notification that was written
  | closed | read | broken | rejected | ctx
  | marshal                 -- `marshal`: the call's parameters could not be encoded
  | panic                   -- the caller goroutine panicked
  | bad (s : String)        -- `ok<junk>`
  | other (s : String)
deriving DecidableEq, Repr, Inhabited

/-- `F=` tokens: a finished call `c<n>:<res>` or user notification `u<k>:<res>`. -/
inductive FTok where
  | call (n : Nat) (r : RTok)
  | unotif (k : Nat) (r : RTok)
deriving DecidableEq, Repr, Inhabited

/-- Cause shown for a cancelled handler context (`X=` tokens `r<r>:r|w|c`). -/
inductive XCause where | read | write | other
deriving DecidableEq, Repr, Inhabited

/-- What the harness prints after every label (and what `observe` prints for the model). -/
structure Obs where
  closing : Bool := false
  reading : Bool := false
  readErr : Bool := false
  writeErr : Bool := false
  closerUsed : Bool := false
  done : Bool := false
  oc : List Nat := []
  on : Nat := 0
  inc : Nat := 0
  by_ : List Nat := []
  q : List Nat := []
  hr : Bool := false
  tc : Nat := 0
  od : Nat := 0
  parked : List PTok := []
  x : List (Nat × XCause) := []
  fins : List FTok := []
  closeFin : Nat := 0
  waitFin : Nat := 0
deriving DecidableEq, Repr, Inhabited

def Obs.idle (o : Obs) : Bool := o.oc.isEmpty && o.on == 0 && o.inc == 0 && !o.hr
def Obs.shuttingDown (o : Obs) : Bool := o.closing || o.readErr || o.writeErr

/-- The result of call `n`, if it is listed as finished. -/
def finCall (f : List FTok) (n : Nat) : Option RTok :=
  f.findSome? fun
    | .call k r => if k = n then some r else none
    | _ => none

/-- Some goroutine of call `n` is parked (at a yield site or inside the transport Write). -/
def Obs.callParked (o : Obs) (n : Nat) : Bool := o.parked.any fun t => t.callNo == some n

/-! ## token strings (used as sort keys by `obsOf` and by `render`) -/

def whoStr : Who → String
  | .call n => s!"c{n}" | .unotif k => s!"u{k}" | .cnotif n => s!"x{n}" | .resp r => s!"r{r}"

def ptokStr : PTok → String
  | .start => "START" | .rd => "RD" | .rr => "RR" | .rx => "RX" | .d1 => "D1" | .cl1 => "CL1"
  | .wt f => if f then "WT:1" else "WT:0"
  | .k1 id => s!"K1:{id}"
  | .c1 n => s!"C1:c{n}" | .r n => s!"R:c{n}"
  | .n1 w => s!"N1:{whoStr w}" | .n2 w => s!"N2:{whoStr w}"
  | .w1 w => s!"W1:{whoStr w}" | .wr w => s!"WR:{whoStr w}" | .w2 w => s!"W2:{whoStr w}"
  | .a1 r => s!"A1:r{r}" | .a2 r => s!"A2:r{r}" | .h r => s!"H:r{r}" | .p1 r => s!"P1:r{r}" | .p2 r => s!"P2:r{r}"

def rtokStr : RTok → String
  | .ok p => s!"ok{p}" | .okPlain => "ok"
  | .marshal => "marshal"
  | .closed => "closed" | .read => "read" | .broken => "broken" | .rejected => "rejected" | .ctx => "ctx"
  | .panic => "panic" | .bad s => s | .other s => s

def ftokStr : FTok → String
  | .call n r => s!"c{n}:{rtokStr r}"
  | .unotif k r => s!"u{k}:{rtokStr r}"

/-! ## sorting (insertion sort, as in the untyped driver) -/

def insertBy {α : Type} (le : α → α → Bool) (x : α) : List α → List α
  | [] => [x]
  | y :: t => if le x y then x :: y :: t else y :: insertBy le x t

def sortBy {α : Type} (le : α → α → Bool) (l : List α) : List α := l.foldr (insertBy le) []

def sortNat (l : List Nat) : List Nat := sortBy (fun a b => decide (a ≤ b)) l
def sortPTok (l : List PTok) : List PTok := sortBy (fun a b => decide (ptokStr a ≤ ptokStr b)) l
def sortFTok (l : List FTok) : List FTok := sortBy (fun a b => decide (ftokStr a ≤ ftokStr b)) l

/-! ## the model's observation -/

def notifToks (w : Who) (nf : Notif) : List PTok :=
  match nf.pc with
  | .n1 => [.n1 w] | .w1 => [.w1 w] | .wr => [.wr w] | .w2 _ => [.w2 w] | .n2 _ => [.n2 w] | .fin _ => []

def readerToks (s : St) : List PTok :=
  match s.reader with
  | .start => [.start] | .read => [.rd] | .rr _ _ => [.rr] | .rx => [.rx] | _ => []

def callToks (s : St) : List PTok :=
  (s.calls.zipIdx 1).flatMap fun (c, n) =>
    match c.pc with
    | .c1 => [.c1 n] | .w1 => [.w1 (.call n)] | .wr => [.wr (.call n)] | .w2 _ => [.w2 (.call n)]
    | .r _ => [.r n] | .rc => [.r n] | _ => []

def unotifToks (s : St) : List PTok := (s.unotifs.zipIdx 0).flatMap fun (nf, k) => notifToks (.unotif k) nf
def cnotifToks (s : St) : List PTok := s.cnotifs.flatMap fun nf => notifToks (.cnotif (nf.cancelFor.getD 0)) nf

def reqToks (s : St) : List PTok :=
  (s.cores.zipIdx 0).flatMap fun (q, r) =>
    match q.pc with
    | .a1 => [.a1 r] | .a2 => [.a2 r] | .running => [.h r] | .p1 => [.p1 r]
    | .w1 => [.w1 (.resp r)] | .wr => [.wr (.resp r)] | .w2 _ => [.w2 (.resp r)] | .p2 => [.p2 r]
    | _ => []

def miscToks (s : St) : List PTok :=
  (if s.disp = .d1 then [.d1] else []) ++ s.cancels.map .k1 ++
  List.replicate s.closeCl1 .cl1 ++ List.replicate s.closeWt (.wt false) ++ List.replicate s.waitWt (.wt true)

/-- Every parked goroutine of the model, in generation order. -/
def parkedToks (s : St) : List PTok :=
  readerToks s ++ callToks s ++ unotifToks s ++ cnotifToks s ++ reqToks s ++ miscToks s

def errTok : Err → RTok
  | .clientClosing | .serverClosing => .closed
  | .read => .read | .broken => .broken | .rejected => .rejected | .ctx => .ctx | .marshal => .marshal

def resTok : Res → RTok
  | .resp p => .ok p
  | .err e => errTok e

def nresTok : Option Err → RTok
  | none => .okPlain
  | some e => errTok e

def finToks (s : St) : List FTok :=
  ((s.calls.zipIdx 1).filterMap fun (c, n) =>
    match c.pc, c.result with
    | .fin, some r => some (.call n (resTok r))
    | _, _ => none) ++
  -- the detached cancel notifications' results are discarded by `call()` and not observable
  ((s.unotifs.zipIdx 0).filterMap fun (nf, k) =>
    match nf.pc with | .fin r => some (.unotif k (nresTok r)) | _ => none)

def causeTok : Cause → XCause
  | .read => .read | .write => .write | _ => .other

def cancelledToks (s : St) : List (Nat × XCause) :=
  (s.metas.zipIdx 0).filterMap fun (q, r) =>
    match q.seen, q.cancelled with
    | true, some c => some (r, causeTok c)
    | _, _ => none

/-- The model's observation as typed data; `observe s = render (obsOf s)` (Driver.lean). -/
def obsOf (s : St) : Obs :=
  { closing := s.closing, reading := s.reading, readErr := s.readErr, writeErr := s.writeErr,
    closerUsed := s.closerUsed, done := s.done,
    oc := sortNat s.outCalls, on := s.outNotifs, inc := s.incoming, by_ := sortNat (s.byID.map (·.1)),
    q := s.queue, hr := s.handlerRunning, tc := s.transportCloses, od := s.onDone,
    parked := sortPTok (parkedToks s), x := cancelledToks s, fins := sortFTok (finToks s),
    closeFin := s.closeFin, waitFin := s.waitFin.length }

/-- Every process has reached its terminal pc and the connection is done (what the model answers
to the harness's end-of-case record). -/
def allFinished (s : St) : Bool :=
  s.done && !s.panicked && (parkedToks s).isEmpty &&
  s.calls.all (fun c => c.pc == .fin) &&
  s.unotifs.all (fun n => match n.pc with | .fin _ => true | _ => false) &&
  s.cnotifs.all (fun p => match p.pc with | .fin _ => true | _ => false) &&
  s.closeCl1 == 0 && s.closeWaiting == 0 && s.closeWt == 0 && s.waitWaiting == 0 && s.waitWt == 0

/-! ## typed events -/

/-- What the monitors read off a label. -/
inductive Ev where
  | ecall
  | ecallbad                            -- a user starts a call whose params cannot be encoded
  | ectx (n : Nat)
  | readResp (id payload : Nat)
  | readCall (id : Nat)
  | readNotif
  | readCancel (id : Nat)         -- a notifications/cancelled naming request `id` was read off the wire
  | rx
  | wret (r : Option Nat) (o : WOut)   -- a transport Write returned; `some r`: it carried the response of request r
  | a1 (r : Nat) | a2 (r : Nat) | p1 (r : Nat) | p2 (r : Nat)
  | w1 (r : Nat)                        -- write gate of the response of request r
  | hasync (r : Nat)
  | k1 (id : Nat)
  | other
deriving DecidableEq, Repr, Inhabited

def Who.resp? : Who → Option Nat
  | .resp r => some r
  | _ => none

def evOf : Label → Ev
  | .ecall => .ecall
  | .ecallbad => .ecallbad
  | .ectx n => .ectx n
  | .read (.resp id p) => .readResp id p
  | .read (.call id) => .readCall id
  | .read .notif => .readNotif
  | .read (.cancel id) => .readCancel id
  | .rx => .rx
  | .wret w o => .wret w.resp? o
  | .a1 r => .a1 r | .a2 r => .a2 r | .p1 r => .p1 r | .p2 r => .p2 r
  | .w1 (.resp r) => .w1 r
  | .hasync r => .hasync r
  | .k1 id => .k1 id
  | _ => .other

/-- Rename the subject of a label (the harness names a detached cancel notification by its call,
`x<n>`; the model by creation index). -/
def Label.relabel (f : Who → Who) : Label → Label
  | .n1 w => .n1 (f w) | .n2 w => .n2 (f w) | .w1 w => .w1 (f w) | .w2 w => .w2 (f w)
  | .wret w o => .wret (f w) o
  | l => l

/-- The model's index of the detached cancel notification of call `n`. -/
def fixCnotif (s : St) : Who → Who
  | .cnotif n => .cnotif ((s.cnotifs.findIdx? (fun nf => nf.cancelFor == some n)).getD s.cnotifs.length)
  | w => w

/-! ## monitor state -/

structure MReq where
  id : Option Nat := none       -- wire id (calls)
  isCancel : Bool := false
  isNotif : Bool := true
  a2AfterShutdown : Bool := false
  started : Bool := false
  asyncd : Bool := false
  p2done : Bool := false
  p1count : Nat := 0
  okWrites : Nat := 0
  w1count : Nat := 0
  peerCancelled : Bool := false  -- a K1 for its id ran while it was indexed
  dup : Bool := false            -- arrived while its id was indexed (as observed at its A1)
deriving Inhabited, Repr, DecidableEq

structure Mon where
  prev : Obs := {}
  sent : List (Nat × Nat) := []      -- (call id, payload) of responses fed to the reader
  reqs : List MReq := []
  brokenSeen : Bool := false         -- some transport Write really failed
  rxSeen : Bool := false
  idx : List (Nat × Nat) := []       -- monitor's view of the id index: wire id ↦ request, from A1/P1 labels
  startedLate : List Nat := []       -- calls started when the connection was already done
  ctxd : List Nat := []              -- calls whose context the harness cancelled
  cancelAsked : List Nat := []       -- ids named by notifications/cancelled read off the wire, not yet used by a Cancel (multiset)
  unasked : List Nat := []           -- ids Cancel was invoked for although no unconsumed cancellation named them
  badCalls : List Nat := []          -- calls started with params that cannot be encoded (`ecallbad`)
  ncalls : Nat := 0
deriving Inhabited, Repr

def modR (m : Mon) (r : Nat) (f : MReq → MReq) : Mon := { m with reqs := m.reqs.modify r f }

/-- The violated clause, as data. `Clause.text` (Driver.lean) prints it. -/
inductive Clause where
  | c01Twice (n : Nat) (r r' : RTok)
  | c01Lost (n : Nat)
  | c01Foreign (n payload : Nat)
  | c01Unparsable (n : Nat) (r : RTok)
  | c01Panic (n : Nat)
  | c01Blocked (n : Nat)
  | c01Late (n : Nat) (r : RTok)
  | c01RegAfterRx (oc : List Nat)
  | c01StillRegistered (n : Nat)
  | c01MarshalForeign (n : Nat)
  | c02Twice (r : Nat)
  | c02NotifAnswered (r : Nat)
  | c03BeforeSync (j i : Nat)
  | c03LaterFirst (i j : Nat)
  | c04ReadCause (r : Nat)
  | c05WriteCause (r : Nat)
  | c04Unrelated (r : Nat)
  | c04NotCancelled (id r : Nat)
  | c04CtxStuck (n : Nat)
  | c04CancelUnasked (id : Nat)
  | c05TcTwice | c05OdTwice | c05ClosedBusy | c05DoneBusy
  | c05ClosedRunning (r : Nat)     -- transport closed while the handler of r was still running
  | c05DoneRunning (r : Nat)       -- connection done (Close/Wait return) while the handler of r was still running
  | c05LateDispatch (r : Nat)
  | c05Stuck (impl : String)
  | c02Dropped (r : Nat)
  | c02NoAttempt (r : Nat)
deriving DecidableEq, Repr, Inhabited

/-! ## bookkeeping from the label (ground truth) -/

/-- Update the monitor's history with the event; `p` is the previous observation. -/
def Mon.book (m : Mon) (p : Obs) : Ev → Mon
  | .ecall =>
    { m with ncalls := m.ncalls + 1,
             startedLate := if p.done then m.startedLate ++ [m.ncalls + 1] else m.startedLate }
  | .ecallbad => { m with ncalls := m.ncalls + 1, badCalls := m.badCalls ++ [m.ncalls + 1] }
  | .ectx n => { m with ctxd := n :: m.ctxd }
  | .readResp id pl => { m with sent := m.sent ++ [(id, pl)] }
  | .readCall id => { m with reqs := m.reqs ++ [{ id := some id, isNotif := false }] }
  | .readNotif => { m with reqs := m.reqs ++ [{}] }
  | .readCancel _ => { m with reqs := m.reqs ++ [{ isCancel := true }] }
  | .rx => { m with rxSeen := true }
  | .wret w out =>
    let m := if out = .broken then { m with brokenSeen := true } else m
    match w with
    | some r => if out = .ok then modR m r fun q => { q with okWrites := q.okWrites + 1 } else m
    | none => m
  | .a1 r =>
    match m.reqs[r]? with
    | some q =>
      match q.id with
      | some id =>
        if (m.idx.lookup id).isSome then modR m r fun q => { q with dup := true }
        else { m with idx := m.idx ++ [(id, r)] }
      | none => m
    | none => m
  | .a2 r => if p.shuttingDown then modR m r fun q => { q with a2AfterShutdown := true } else m
  | .p1 r =>
    let m := modR m r fun q => { q with p1count := q.p1count + 1 }
    { m with idx := m.idx.filter fun e => e.2 ≠ r }
  | .p2 r => modR m r fun q => { q with p2done := true }
  | .w1 r => modR m r fun q => { q with w1count := q.w1count + 1 }
  | .hasync r => modR m r fun q => { q with asyncd := true }
  | .k1 id =>
    match m.idx.lookup id with
    | some r => modR m r fun q => { q with peerCancelled := true }
    | none => m
  | .other => m

/-- Bookkeeping of cancellations; the ground truth is the WIRE: an id is asked for by every
`read cancel <id>` label, and each `K1 <id>` (Connection.Cancel(id) running) consumes one such
request.  A K1 whose id nobody asked for is remembered in `unasked`.  Touches only the fields
`cancelAsked` and `unasked`. -/
def Mon.bookCancel (m : Mon) : Ev → Mon
  | .readCancel id => { m with cancelAsked := m.cancelAsked ++ [id] }
  | .k1 id =>
    if m.cancelAsked.contains id then { m with cancelAsked := m.cancelAsked.erase id }
    else { m with unasked := m.unasked ++ [id] }
  | _ => m

/-- Handlers seen parked in `H` are marked as started. -/
def Mon.mark (m : Mon) (o : Obs) : Mon :=
  { m with reqs := (m.reqs.zipIdx 0).map fun (q, r) => if o.parked.contains (.h r) then { q with started := true } else q }

/-! ## the checks: C01–C05 as predicates on what the IMPLEMENTATION did

`p` = previous observation, `o` = observation after the label, `m` = history after `book`. -/

/-- C01: a finished result is final. -/
def chkFinal (p o : Obs) : Option Clause :=
  p.fins.findSome? fun
    | .call n r =>
      match finCall o.fins n with
      | some r' => if r' = r then none else some (.c01Twice n r r')
      | none => some (.c01Lost n)
    | _ => none

/-- C01: a response payload is one the peer sent for this id. -/
def chkOwn (m : Mon) (o : Obs) : Option Clause :=
  o.fins.findSome? fun
    | .call n (.ok pl) => if m.sent.contains (n, pl) then none else some (.c01Foreign n pl)
    | .call n (.bad s) => some (.c01Unparsable n (.bad s))
    | .call n .okPlain => some (.c01Unparsable n .okPlain)
    | _ => none

/-- C01: no caller panicked (`retire` twice). -/
def chkPanic (o : Obs) : Option Clause :=
  o.fins.findSome? fun
    | .call n .panic => some (.c01Panic n)
    | _ => none

/-- C01: after termination nobody is blocked in Await. -/
def chkBlocked (m : Mon) (o : Obs) : Option Clause :=
  if o.done then
    (List.range m.ncalls).findSome? fun k =>
      if (finCall o.fins (k + 1)).isNone && !o.callParked (k + 1) then some (.c01Blocked (k + 1)) else none
  else none

/-- C01: a call started after termination fails with the closed-connection error (or with its own
context's error if the harness cancelled its context). -/
def chkLate (m : Mon) (o : Obs) : Option Clause :=
  m.startedLate.findSome? fun n =>
    match finCall o.fins n with
    | some r => if r = .closed || (r = .ctx && m.ctxd.contains n) then none else some (.c01Late n r)
    | none => none

/-- C01: once the reader has failed (its exit section RX ran) no outgoing call may be registered:
nothing can complete it any more (a call started after the connection broke must fail at once). -/
def chkRegAfterRx (m : Mon) (o : Obs) : Option Clause :=
  if m.rxSeen && !o.oc.isEmpty then some (.c01RegAfterRx o.oc) else none

/-- C01: a call that has returned to its caller is no longer registered (else a later EOF/Close
completes it a second time). -/
def chkStillRegistered (o : Obs) : Option Clause :=
  o.fins.findSome? fun
    | .call n _ => if o.oc.contains n then some (.c01StillRegistered n) else none
    | _ => none

/-- C01: the marshalling error is the result only of calls whose parameters cannot be encoded. -/
def chkMarshal (m : Mon) (o : Obs) : Option Clause :=
  o.fins.findSome? fun
    | .call n .marshal => if m.badCalls.contains n then none else some (.c01MarshalForeign n)
    | _ => none

/-- C02: never two responses for one request, never a response for a notification. -/
def chkAnswer (m : Mon) : Option Clause :=
  (m.reqs.zipIdx 0).findSome? fun (q, r) =>
    if q.okWrites > 1 || q.p1count > 1 then some (.c02Twice r)
    else if (q.isNotif || q.isCancel) && q.w1count > 0 then some (.c02NotifAnswered r)
    else none

/-- C03: dispatch order. -/
def chkOrder (m : Mon) (p o : Obs) : Option Clause :=
  o.parked.findSome? fun
    | .h j =>
      if p.parked.contains (.h j) then none else
      match m.reqs[j]? with
      | some qj =>
        if qj.started then none else
        (m.reqs.zipIdx 0).findSome? fun (qi, i) =>
          if i < j && qi.started && !qi.asyncd && !qi.p2done then some (.c03BeforeSync j i)
          else if i > j && qi.started then some (.c03LaterFirst i j)
          else none
      | none => none
    | _ => none

/-- C04 (and C05 for the write cause): a handler context is cancelled only for a reason. -/
def chkCancelX (m : Mon) (p o : Obs) : Option Clause :=
  o.x.findSome? fun e =>
    if p.x.contains e then none else
    match m.reqs[e.1]? with
    | some q =>
      match e.2 with
      | .read => if m.rxSeen then none else some (.c04ReadCause e.1)
      | .write => if m.brokenSeen then none else some (.c05WriteCause e.1)
      | .other =>
        if q.peerCancelled || o.parked.contains (.p2 e.1) || q.p2done then none else some (.c04Unrelated e.1)
    | none => none

/-- C04: `Connection.Cancel` is invoked only for an id that a received notifications/cancelled named
(once per notification). -/
def chkCancelAsked (m : Mon) : Option Clause :=
  match m.unasked with
  | id :: _ => some (.c04CancelUnasked id)
  | [] => none

/-- C04: what a `Cancel(id)` / a cancelled caller context must achieve in this very step. -/
def chkEv (m : Mon) (p o : Obs) : Ev → Option Clause
  | .k1 id =>
    (m.reqs.zipIdx 0).findSome? fun (q, r) =>
      -- the request indexed under this id when K1 ran must now be cancelled (if its ctx is observable)
      if q.peerCancelled && q.id == some id && !q.p2done && (p.x ++ o.x).all (fun e => e.1 != r)
         && (p.parked.contains (.h r) || p.parked.contains (.a2 r) || p.q.contains r)
      then some (.c04NotCancelled id r) else none
  | .ectx n =>
    -- a caller that was blocked in Await must be on its way out without any help from the peer
    -- (a caller parked at a yield site or inside the transport Write is not blocked on the peer)
    if p.callParked n then none
    else if o.parked.contains (.r n) || (finCall o.fins n).isSome then none
    else some (.c04CtxStuck n)
  | _ => none

/-- C05: transport closed once and only when idle; done only when idle; onDone once. -/
def chkTc (o : Obs) : Option Clause := if o.tc > 1 then some .c05TcTwice else none
def chkOd (o : Obs) : Option Clause := if o.od > 1 then some .c05OdTwice else none
def chkClosedIdle (p o : Obs) : Option Clause :=
  if o.tc == 1 && p.tc == 0 && !o.idle then some .c05ClosedBusy else none
def chkDoneIdle (o : Obs) : Option Clause := if o.done && !o.idle then some .c05DoneBusy else none

/-- The first request whose handler is running (parked in the scripted Handler) in `o`. -/
def Obs.runningHandler (o : Obs) : Option Nat :=
  o.parked.findSome? fun
    | .h r => some r
    | _ => none

/-- C05: "lets handlers that are already running run to completion, and closes the transport only
after they have returned" — judged on what the harness SEES (a handler goroutine parked inside the
scripted Handler), not on the connection's own `incoming` counter (which `chkClosedIdle` /
`chkDoneIdle` read: an implementation that under-counts looks idle to them). -/
def chkClosedRunning (p o : Obs) : Option Clause :=
  if o.tc == 1 && p.tc == 0 then o.runningHandler.map .c05ClosedRunning else none
def chkDoneRunning (o : Obs) : Option Clause :=
  if o.done then o.runningHandler.map .c05DoneRunning else none

/-- C05: nothing is dispatched that arrived after shutdown began. -/
def chkLateDispatch (m : Mon) (o : Obs) : Option Clause :=
  (m.reqs.zipIdx 0).findSome? fun (q, r) =>
    if q.a2AfterShutdown && o.parked.contains (.h r) then some (.c05LateDispatch r) else none

/-- All checks, first violated clause. -/
def chkAll (m : Mon) (p o : Obs) (e : Ev) : Option Clause :=
  chkFinal p o <|> chkOwn m o <|> chkPanic o <|> chkBlocked m o <|> chkLate m o <|> chkRegAfterRx m o
  <|> chkStillRegistered o <|> chkMarshal m o
  <|> chkAnswer m
  <|> chkOrder m p o
  <|> chkCancelAsked m <|> chkCancelX m p o <|> chkEv m p o e
  <|> chkTc o <|> chkOd o <|> chkClosedIdle p o <|> chkDoneIdle o <|> chkLateDispatch m o
  <|> chkClosedRunning p o <|> chkDoneRunning o

/-- Update the monitor with the event and the implementation's observation after it; return the
first violated clause. -/
def monStepE (m : Mon) (e : Ev) (o : Obs) : Mon × Option Clause :=
  let p := m.prev
  let m := (m.bookCancel e).book p e
  ({ m.mark o with prev := o }, chkAll m p o e)

def monStepT (m : Mon) (l : Label) (o : Obs) : Mon × Option Clause := monStepE m (evOf l) o

/-- End of a case: everything must have terminated (C01: no caller blocked after termination; C05:
Close and Wait return, nothing left parked); every accepted call got a response attempt (C02).
`stuck` = the harness's end-of-case report when it is not `clean`. -/
def monEndT (m : Mon) (stuck : Option String) : Option Clause :=
  match stuck with
  | some impl => some (.c05Stuck impl)
  | none =>
    (m.reqs.zipIdx 0).findSome? fun (q, r) =>
      if !q.isNotif && !q.isCancel && q.w1count == 0 then
        if q.dup then some (.c02Dropped r) else some (.c02NoAttempt r)
      else none

/-! ## traces -/

/-- The model's observation trace of a run: the observation after each label, as the driver
computes it (stops at the first label that is not enabled). -/
def traceFrom (s : St) : List Label → List (Label × Obs)
  | [] => []
  | l :: ls =>
    match step s l with
    | none => []
    | some s' => (l, obsOf s') :: traceFrom s' ls

def traceOf (ls : List Label) : List (Label × Obs) := traceFrom {} ls

/-- Run the step monitor over a trace; the first violated clause, if any. -/
def runMonFrom (m : Mon) : List (Label × Obs) → Option Clause
  | [] => none
  | (l, o) :: t =>
    match monStepT m l o with
    | (m', none) => runMonFrom m' t
    | (_, some c) => some c

def runMon (tr : List (Label × Obs)) : Option Clause := runMonFrom {} tr

/-- The monitor state after a trace (violations ignored). -/
def monAfter (m : Mon) : List (Label × Obs) → Mon
  | [] => m
  | (l, o) :: t => monAfter (monStepT m l o).1 t

end Conn
