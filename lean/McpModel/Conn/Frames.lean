import McpModel.Conn.Model
/-! Frame lemmas for E1: which part of the state each helper touches. -/
namespace Conn

/-- The part of the state the outgoing-call invariants talk about. -/
structure CallView where
  calls : List Call
  outCalls : List Nat
  respLog : List (Nat × Nat)
  panicRetire : Bool

def callView (s : St) : CallView :=
  { calls := s.calls, outCalls := s.outCalls, respLog := s.respLog, panicRetire := s.panicRetire }

/-- The in-flight flags and counters that only `tail` and a few critical sections touch. -/
structure FlagView where
  closing : Bool
  reading : Bool
  readErr : Bool
  writeErr : Bool
  closerUsed : Bool
  done : Bool
  transportCloses : Nat
  onDone : Nat
  panicIdle : Bool

def flagView (s : St) : FlagView :=
  { closing := s.closing, reading := s.reading, readErr := s.readErr, writeErr := s.writeErr,
    closerUsed := s.closerUsed, done := s.done, transportCloses := s.transportCloses, onDone := s.onDone,
    panicIdle := s.panicIdle }

@[simp] theorem callView_tail (s : St) : callView (tail s) = callView s := by
  unfold tail finish closeTransport; split
  · split <;> rfl
  · split
    · split <;> split <;> rfl
    · rfl

@[simp] theorem callView_modReq (s : St) (r : Nat) (f : Req → Req) : callView (modReq s r f) = callView s := rfl
@[simp] theorem callView_cancelReq (s : St) (r : Nat) (c : Cause) : callView (cancelReq s r c) = callView s := rfl
@[simp] theorem callView_toP2 (s : St) (r : Nat) : callView (toP2 s r) = callView s := rfl

@[simp] theorem callView_beginPR (s : St) (r : Nat) (o : Owner) : callView (beginPR s r o) = callView s := by
  unfold beginPR; split
  · rfl
  · split <;> rfl

@[simp] theorem callView_afterP2 (s : St) (r : Nat) (o : Owner) : callView (afterP2 s r o) = callView s := by
  cases o <;> rfl

theorem callView_foldl_cancel (l : List (Nat × Nat)) (c : Cause) (s : St) :
    callView (l.foldl (fun s p => cancelReq s p.2 c) s) = callView s := by
  induction l generalizing s with
  | nil => rfl
  | cons p t ih => simp [List.foldl, ih]

@[simp] theorem callView_markBroken (s : St) : callView (markBroken s) = callView s := by
  unfold markBroken; split
  · rfl
  · rw [callView_foldl_cancel]; rfl

@[simp] theorem callView_setNotif (s : St) (w : Who) (f : Notif → Notif) :
    callView (setNotif s w f) = callView s := by
  cases w <;> rfl

@[simp] theorem callView_settleWaiters (s : St) : callView (settleWaiters s) = callView s := by
  unfold settleWaiters; split <;> rfl

@[simp] theorem callView_settleDisp (s : St) : callView (settleDisp s) = callView s := by
  unfold settleDisp; split
  · split
    · split <;> rfl
    · rfl
  · rfl

/-! Projection-level forms (simp normal form after unfolding `callView`). -/

@[simp] theorem tail_calls (s : St) : (tail s).calls = s.calls :=
  congrArg CallView.calls (callView_tail s)

@[simp] theorem tail_outCalls (s : St) : (tail s).outCalls = s.outCalls :=
  congrArg CallView.outCalls (callView_tail s)

@[simp] theorem tail_respLog (s : St) : (tail s).respLog = s.respLog :=
  congrArg CallView.respLog (callView_tail s)

@[simp] theorem tail_panicRetire (s : St) : (tail s).panicRetire = s.panicRetire :=
  congrArg CallView.panicRetire (callView_tail s)

@[simp] theorem modReq_calls (s : St) (r : Nat) (f : Req → Req) : (modReq s r f).calls = s.calls :=
  congrArg CallView.calls (callView_modReq s r f)

@[simp] theorem modReq_outCalls (s : St) (r : Nat) (f : Req → Req) : (modReq s r f).outCalls = s.outCalls :=
  congrArg CallView.outCalls (callView_modReq s r f)

@[simp] theorem modReq_respLog (s : St) (r : Nat) (f : Req → Req) : (modReq s r f).respLog = s.respLog :=
  congrArg CallView.respLog (callView_modReq s r f)

@[simp] theorem modReq_panicRetire (s : St) (r : Nat) (f : Req → Req) : (modReq s r f).panicRetire = s.panicRetire :=
  congrArg CallView.panicRetire (callView_modReq s r f)

@[simp] theorem cancelReq_calls (s : St) (r : Nat) (c : Cause) : (cancelReq s r c).calls = s.calls :=
  congrArg CallView.calls (callView_cancelReq s r c)

@[simp] theorem cancelReq_outCalls (s : St) (r : Nat) (c : Cause) : (cancelReq s r c).outCalls = s.outCalls :=
  congrArg CallView.outCalls (callView_cancelReq s r c)

@[simp] theorem cancelReq_respLog (s : St) (r : Nat) (c : Cause) : (cancelReq s r c).respLog = s.respLog :=
  congrArg CallView.respLog (callView_cancelReq s r c)

@[simp] theorem cancelReq_panicRetire (s : St) (r : Nat) (c : Cause) : (cancelReq s r c).panicRetire = s.panicRetire :=
  congrArg CallView.panicRetire (callView_cancelReq s r c)

@[simp] theorem toP2_calls (s : St) (r : Nat) : (toP2 s r).calls = s.calls :=
  congrArg CallView.calls (callView_toP2 s r)

@[simp] theorem toP2_outCalls (s : St) (r : Nat) : (toP2 s r).outCalls = s.outCalls :=
  congrArg CallView.outCalls (callView_toP2 s r)

@[simp] theorem toP2_respLog (s : St) (r : Nat) : (toP2 s r).respLog = s.respLog :=
  congrArg CallView.respLog (callView_toP2 s r)

@[simp] theorem toP2_panicRetire (s : St) (r : Nat) : (toP2 s r).panicRetire = s.panicRetire :=
  congrArg CallView.panicRetire (callView_toP2 s r)

@[simp] theorem beginPR_calls (s : St) (r : Nat) (o : Owner) : (beginPR s r o).calls = s.calls :=
  congrArg CallView.calls (callView_beginPR s r o)

@[simp] theorem beginPR_outCalls (s : St) (r : Nat) (o : Owner) : (beginPR s r o).outCalls = s.outCalls :=
  congrArg CallView.outCalls (callView_beginPR s r o)

@[simp] theorem beginPR_respLog (s : St) (r : Nat) (o : Owner) : (beginPR s r o).respLog = s.respLog :=
  congrArg CallView.respLog (callView_beginPR s r o)

@[simp] theorem beginPR_panicRetire (s : St) (r : Nat) (o : Owner) : (beginPR s r o).panicRetire = s.panicRetire :=
  congrArg CallView.panicRetire (callView_beginPR s r o)

@[simp] theorem afterP2_calls (s : St) (r : Nat) (o : Owner) : (afterP2 s r o).calls = s.calls :=
  congrArg CallView.calls (callView_afterP2 s r o)

@[simp] theorem afterP2_outCalls (s : St) (r : Nat) (o : Owner) : (afterP2 s r o).outCalls = s.outCalls :=
  congrArg CallView.outCalls (callView_afterP2 s r o)

@[simp] theorem afterP2_respLog (s : St) (r : Nat) (o : Owner) : (afterP2 s r o).respLog = s.respLog :=
  congrArg CallView.respLog (callView_afterP2 s r o)

@[simp] theorem afterP2_panicRetire (s : St) (r : Nat) (o : Owner) : (afterP2 s r o).panicRetire = s.panicRetire :=
  congrArg CallView.panicRetire (callView_afterP2 s r o)

@[simp] theorem markBroken_calls (s : St) : (markBroken s).calls = s.calls :=
  congrArg CallView.calls (callView_markBroken s)

@[simp] theorem markBroken_outCalls (s : St) : (markBroken s).outCalls = s.outCalls :=
  congrArg CallView.outCalls (callView_markBroken s)

@[simp] theorem markBroken_respLog (s : St) : (markBroken s).respLog = s.respLog :=
  congrArg CallView.respLog (callView_markBroken s)

@[simp] theorem markBroken_panicRetire (s : St) : (markBroken s).panicRetire = s.panicRetire :=
  congrArg CallView.panicRetire (callView_markBroken s)

@[simp] theorem setNotif_calls (s : St) (w : Who) (f : Notif → Notif) : (setNotif s w f).calls = s.calls :=
  congrArg CallView.calls (callView_setNotif s w f)

@[simp] theorem setNotif_outCalls (s : St) (w : Who) (f : Notif → Notif) : (setNotif s w f).outCalls = s.outCalls :=
  congrArg CallView.outCalls (callView_setNotif s w f)

@[simp] theorem setNotif_respLog (s : St) (w : Who) (f : Notif → Notif) : (setNotif s w f).respLog = s.respLog :=
  congrArg CallView.respLog (callView_setNotif s w f)

@[simp] theorem setNotif_panicRetire (s : St) (w : Who) (f : Notif → Notif) : (setNotif s w f).panicRetire = s.panicRetire :=
  congrArg CallView.panicRetire (callView_setNotif s w f)

end Conn
