import McpModel.Conn.Model
/-! Frame lemmas for E1: which part of the state each helper touches. -/
namespace Conn

/-- The part of the state the outgoing-call invariants talk about. -/
structure CallView where
  calls : List Call
  outCalls : List Nat
  respLog : List (Nat × Nat)
  panicRetire : Bool

def callView (s : St) : CallView :=
  { calls := s.calls, outCalls := s.outCalls, respLog := s.respLog, panicRetire := s.panicRetire }

/-- The in-flight flags and counters that only `tail` and a few critical sections touch. -/
structure FlagView where
  closing : Bool
  reading : Bool
  readErr : Bool
  writeErr : Bool
  closerUsed : Bool
  done : Bool
  transportCloses : Nat
  onDone : Nat
  panicIdle : Bool

def flagView (s : St) : FlagView :=
  { closing := s.closing, reading := s.reading, readErr := s.readErr, writeErr := s.writeErr,
    closerUsed := s.closerUsed, done := s.done, transportCloses := s.transportCloses, onDone := s.onDone,
    panicIdle := s.panicIdle }

@[simp] theorem callView_tail (s : St) : callView (tail s) = callView s := by
  unfold tail finish closeTransport; split
  · split <;> rfl
  · split
    · split <;> split <;> rfl
    · rfl

@[simp] theorem callView_modCore (s : St) (r : Nat) (f : ReqCore → ReqCore) : callView (modCore s r f) = callView s := rfl
@[simp] theorem callView_modMeta (s : St) (r : Nat) (f : ReqMeta → ReqMeta) : callView (modMeta s r f) = callView s := rfl
@[simp] theorem callView_cancelReq (s : St) (r : Nat) (c : Cause) : callView (cancelReq s r c) = callView s := rfl
@[simp] theorem callView_toP2 (s : St) (r : Nat) : callView (toP2 s r) = callView s := rfl

@[simp] theorem callView_beginPR (s : St) (r : Nat) (o : Owner) : callView (beginPR s r o) = callView s := by
  unfold beginPR; split
  · rfl
  · split <;> rfl

@[simp] theorem callView_afterP2 (s : St) (r : Nat) (o : Owner) : callView (afterP2 s r o) = callView s := by
  cases o <;> rfl

theorem callView_foldl_cancel (l : List (Nat × Nat)) (c : Cause) (s : St) :
    callView (l.foldl (fun s p => cancelReq s p.2 c) s) = callView s := by
  induction l generalizing s with
  | nil => rfl
  | cons p t ih => simp [List.foldl, ih]

@[simp] theorem callView_markBroken (s : St) : callView (markBroken s) = callView s := by
  unfold markBroken; split
  · rfl
  · rw [callView_foldl_cancel]; rfl

@[simp] theorem callView_setNotif (s : St) (w : Who) (f : Notif → Notif) :
    callView (setNotif s w f) = callView s := by
  cases w <;> rfl

@[simp] theorem callView_settleWaiters (s : St) : callView (settleWaiters s) = callView s := by
  unfold settleWaiters; split <;> rfl

@[simp] theorem callView_settleDisp (s : St) : callView (settleDisp s) = callView s := by
  unfold settleDisp; split
  · split
    · split <;> rfl
    · rfl
  · rfl

/-! Projection-level forms (simp normal form after unfolding `callView`). -/

@[simp] theorem tail_calls (s : St) : (tail s).calls = s.calls :=
  congrArg CallView.calls (callView_tail s)

@[simp] theorem tail_outCalls (s : St) : (tail s).outCalls = s.outCalls :=
  congrArg CallView.outCalls (callView_tail s)

@[simp] theorem tail_respLog (s : St) : (tail s).respLog = s.respLog :=
  congrArg CallView.respLog (callView_tail s)

@[simp] theorem tail_panicRetire (s : St) : (tail s).panicRetire = s.panicRetire :=
  congrArg CallView.panicRetire (callView_tail s)

@[simp] theorem modCore_calls (s : St) (r : Nat) (f : ReqCore → ReqCore) : (modCore s r f).calls = s.calls :=
  congrArg CallView.calls (callView_modCore s r f)

@[simp] theorem modCore_outCalls (s : St) (r : Nat) (f : ReqCore → ReqCore) : (modCore s r f).outCalls = s.outCalls :=
  congrArg CallView.outCalls (callView_modCore s r f)

@[simp] theorem modCore_respLog (s : St) (r : Nat) (f : ReqCore → ReqCore) : (modCore s r f).respLog = s.respLog :=
  congrArg CallView.respLog (callView_modCore s r f)

@[simp] theorem modCore_panicRetire (s : St) (r : Nat) (f : ReqCore → ReqCore) : (modCore s r f).panicRetire = s.panicRetire :=
  congrArg CallView.panicRetire (callView_modCore s r f)

@[simp] theorem modMeta_calls (s : St) (r : Nat) (f : ReqMeta → ReqMeta) : (modMeta s r f).calls = s.calls :=
  congrArg CallView.calls (callView_modMeta s r f)

@[simp] theorem modMeta_outCalls (s : St) (r : Nat) (f : ReqMeta → ReqMeta) : (modMeta s r f).outCalls = s.outCalls :=
  congrArg CallView.outCalls (callView_modMeta s r f)

@[simp] theorem modMeta_respLog (s : St) (r : Nat) (f : ReqMeta → ReqMeta) : (modMeta s r f).respLog = s.respLog :=
  congrArg CallView.respLog (callView_modMeta s r f)

@[simp] theorem modMeta_panicRetire (s : St) (r : Nat) (f : ReqMeta → ReqMeta) : (modMeta s r f).panicRetire = s.panicRetire :=
  congrArg CallView.panicRetire (callView_modMeta s r f)

@[simp] theorem cancelReq_calls (s : St) (r : Nat) (c : Cause) : (cancelReq s r c).calls = s.calls :=
  congrArg CallView.calls (callView_cancelReq s r c)

@[simp] theorem cancelReq_outCalls (s : St) (r : Nat) (c : Cause) : (cancelReq s r c).outCalls = s.outCalls :=
  congrArg CallView.outCalls (callView_cancelReq s r c)

@[simp] theorem cancelReq_respLog (s : St) (r : Nat) (c : Cause) : (cancelReq s r c).respLog = s.respLog :=
  congrArg CallView.respLog (callView_cancelReq s r c)

@[simp] theorem cancelReq_panicRetire (s : St) (r : Nat) (c : Cause) : (cancelReq s r c).panicRetire = s.panicRetire :=
  congrArg CallView.panicRetire (callView_cancelReq s r c)

@[simp] theorem toP2_calls (s : St) (r : Nat) : (toP2 s r).calls = s.calls :=
  congrArg CallView.calls (callView_toP2 s r)

@[simp] theorem toP2_outCalls (s : St) (r : Nat) : (toP2 s r).outCalls = s.outCalls :=
  congrArg CallView.outCalls (callView_toP2 s r)

@[simp] theorem toP2_respLog (s : St) (r : Nat) : (toP2 s r).respLog = s.respLog :=
  congrArg CallView.respLog (callView_toP2 s r)

@[simp] theorem toP2_panicRetire (s : St) (r : Nat) : (toP2 s r).panicRetire = s.panicRetire :=
  congrArg CallView.panicRetire (callView_toP2 s r)

@[simp] theorem beginPR_calls (s : St) (r : Nat) (o : Owner) : (beginPR s r o).calls = s.calls :=
  congrArg CallView.calls (callView_beginPR s r o)

@[simp] theorem beginPR_outCalls (s : St) (r : Nat) (o : Owner) : (beginPR s r o).outCalls = s.outCalls :=
  congrArg CallView.outCalls (callView_beginPR s r o)

@[simp] theorem beginPR_respLog (s : St) (r : Nat) (o : Owner) : (beginPR s r o).respLog = s.respLog :=
  congrArg CallView.respLog (callView_beginPR s r o)

@[simp] theorem beginPR_panicRetire (s : St) (r : Nat) (o : Owner) : (beginPR s r o).panicRetire = s.panicRetire :=
  congrArg CallView.panicRetire (callView_beginPR s r o)

@[simp] theorem afterP2_calls (s : St) (r : Nat) (o : Owner) : (afterP2 s r o).calls = s.calls :=
  congrArg CallView.calls (callView_afterP2 s r o)

@[simp] theorem afterP2_outCalls (s : St) (r : Nat) (o : Owner) : (afterP2 s r o).outCalls = s.outCalls :=
  congrArg CallView.outCalls (callView_afterP2 s r o)

@[simp] theorem afterP2_respLog (s : St) (r : Nat) (o : Owner) : (afterP2 s r o).respLog = s.respLog :=
  congrArg CallView.respLog (callView_afterP2 s r o)

@[simp] theorem afterP2_panicRetire (s : St) (r : Nat) (o : Owner) : (afterP2 s r o).panicRetire = s.panicRetire :=
  congrArg CallView.panicRetire (callView_afterP2 s r o)

@[simp] theorem markBroken_calls (s : St) : (markBroken s).calls = s.calls :=
  congrArg CallView.calls (callView_markBroken s)

@[simp] theorem markBroken_outCalls (s : St) : (markBroken s).outCalls = s.outCalls :=
  congrArg CallView.outCalls (callView_markBroken s)

@[simp] theorem markBroken_respLog (s : St) : (markBroken s).respLog = s.respLog :=
  congrArg CallView.respLog (callView_markBroken s)

@[simp] theorem markBroken_panicRetire (s : St) : (markBroken s).panicRetire = s.panicRetire :=
  congrArg CallView.panicRetire (callView_markBroken s)

@[simp] theorem setNotif_calls (s : St) (w : Who) (f : Notif → Notif) : (setNotif s w f).calls = s.calls :=
  congrArg CallView.calls (callView_setNotif s w f)

@[simp] theorem setNotif_outCalls (s : St) (w : Who) (f : Notif → Notif) : (setNotif s w f).outCalls = s.outCalls :=
  congrArg CallView.outCalls (callView_setNotif s w f)

@[simp] theorem setNotif_respLog (s : St) (w : Who) (f : Notif → Notif) : (setNotif s w f).respLog = s.respLog :=
  congrArg CallView.respLog (callView_setNotif s w f)

@[simp] theorem setNotif_panicRetire (s : St) (w : Who) (f : Notif → Notif) : (setNotif s w f).panicRetire = s.panicRetire :=
  congrArg CallView.panicRetire (callView_setNotif s w f)


/-! Request-side fields are untouched by the call/notification/tail helpers. -/

@[simp] theorem tail_cores (s : St) : (tail s).cores = s.cores := by
  unfold tail finish closeTransport; repeat' split
  all_goals rfl

@[simp] theorem tail_metas (s : St) : (tail s).metas = s.metas := by
  unfold tail finish closeTransport; repeat' split
  all_goals rfl

@[simp] theorem tail_incoming (s : St) : (tail s).incoming = s.incoming := by
  unfold tail finish closeTransport; repeat' split
  all_goals rfl

@[simp] theorem tail_byID (s : St) : (tail s).byID = s.byID := by
  unfold tail finish closeTransport; repeat' split
  all_goals rfl

@[simp] theorem tail_panicIncoming (s : St) : (tail s).panicIncoming = s.panicIncoming := by
  unfold tail finish closeTransport; repeat' split
  all_goals rfl

@[simp] theorem tail_reader (s : St) : (tail s).reader = s.reader := by
  unfold tail finish closeTransport; repeat' split
  all_goals rfl

@[simp] theorem tail_queue (s : St) : (tail s).queue = s.queue := by
  unfold tail finish closeTransport; repeat' split
  all_goals rfl

@[simp] theorem tail_disp (s : St) : (tail s).disp = s.disp := by
  unfold tail finish closeTransport; repeat' split
  all_goals rfl

@[simp] theorem tail_handlerRunning (s : St) : (tail s).handlerRunning = s.handlerRunning := by
  unfold tail finish closeTransport; repeat' split
  all_goals rfl

@[simp] theorem tail_cancels (s : St) : (tail s).cancels = s.cancels := by
  unfold tail finish closeTransport; repeat' split
  all_goals rfl

@[simp] theorem tail_clock (s : St) : (tail s).clock = s.clock := by
  unfold tail finish closeTransport; repeat' split
  all_goals rfl

@[simp] theorem modCall_cores (s : St) (n : Nat) (f : Call → Call) : (modCall s n f).cores = s.cores := by
  rfl

@[simp] theorem modCall_metas (s : St) (n : Nat) (f : Call → Call) : (modCall s n f).metas = s.metas := by
  rfl

@[simp] theorem modCall_incoming (s : St) (n : Nat) (f : Call → Call) : (modCall s n f).incoming = s.incoming := by
  rfl

@[simp] theorem modCall_byID (s : St) (n : Nat) (f : Call → Call) : (modCall s n f).byID = s.byID := by
  rfl

@[simp] theorem modCall_panicIncoming (s : St) (n : Nat) (f : Call → Call) : (modCall s n f).panicIncoming = s.panicIncoming := by
  rfl

@[simp] theorem modCall_reader (s : St) (n : Nat) (f : Call → Call) : (modCall s n f).reader = s.reader := by
  rfl

@[simp] theorem modCall_queue (s : St) (n : Nat) (f : Call → Call) : (modCall s n f).queue = s.queue := by
  rfl

@[simp] theorem modCall_disp (s : St) (n : Nat) (f : Call → Call) : (modCall s n f).disp = s.disp := by
  rfl

@[simp] theorem modCall_handlerRunning (s : St) (n : Nat) (f : Call → Call) : (modCall s n f).handlerRunning = s.handlerRunning := by
  rfl

@[simp] theorem modCall_cancels (s : St) (n : Nat) (f : Call → Call) : (modCall s n f).cancels = s.cancels := by
  rfl

@[simp] theorem modCall_clock (s : St) (n : Nat) (f : Call → Call) : (modCall s n f).clock = s.clock := by
  rfl

@[simp] theorem setNotif_cores (s : St) (w : Who) (f : Notif → Notif) : (setNotif s w f).cores = s.cores := by
  cases w <;> rfl

@[simp] theorem setNotif_metas (s : St) (w : Who) (f : Notif → Notif) : (setNotif s w f).metas = s.metas := by
  cases w <;> rfl

@[simp] theorem setNotif_incoming (s : St) (w : Who) (f : Notif → Notif) : (setNotif s w f).incoming = s.incoming := by
  cases w <;> rfl

@[simp] theorem setNotif_byID (s : St) (w : Who) (f : Notif → Notif) : (setNotif s w f).byID = s.byID := by
  cases w <;> rfl

@[simp] theorem setNotif_panicIncoming (s : St) (w : Who) (f : Notif → Notif) : (setNotif s w f).panicIncoming = s.panicIncoming := by
  cases w <;> rfl

@[simp] theorem setNotif_reader (s : St) (w : Who) (f : Notif → Notif) : (setNotif s w f).reader = s.reader := by
  cases w <;> rfl

@[simp] theorem setNotif_queue (s : St) (w : Who) (f : Notif → Notif) : (setNotif s w f).queue = s.queue := by
  cases w <;> rfl

@[simp] theorem setNotif_disp (s : St) (w : Who) (f : Notif → Notif) : (setNotif s w f).disp = s.disp := by
  cases w <;> rfl

@[simp] theorem setNotif_handlerRunning (s : St) (w : Who) (f : Notif → Notif) : (setNotif s w f).handlerRunning = s.handlerRunning := by
  cases w <;> rfl

@[simp] theorem setNotif_cancels (s : St) (w : Who) (f : Notif → Notif) : (setNotif s w f).cancels = s.cancels := by
  cases w <;> rfl

@[simp] theorem setNotif_clock (s : St) (w : Who) (f : Notif → Notif) : (setNotif s w f).clock = s.clock := by
  cases w <;> rfl

@[simp] theorem retireIn_cores (s : St) (n : Nat) (r : Res) : (retireIn s n r).cores = s.cores := by
  unfold retireIn; repeat' split
  all_goals rfl

@[simp] theorem retireIn_metas (s : St) (n : Nat) (r : Res) : (retireIn s n r).metas = s.metas := by
  unfold retireIn; repeat' split
  all_goals rfl

@[simp] theorem retireIn_incoming (s : St) (n : Nat) (r : Res) : (retireIn s n r).incoming = s.incoming := by
  unfold retireIn; repeat' split
  all_goals rfl

@[simp] theorem retireIn_byID (s : St) (n : Nat) (r : Res) : (retireIn s n r).byID = s.byID := by
  unfold retireIn; repeat' split
  all_goals rfl

@[simp] theorem retireIn_panicIncoming (s : St) (n : Nat) (r : Res) : (retireIn s n r).panicIncoming = s.panicIncoming := by
  unfold retireIn; repeat' split
  all_goals rfl

@[simp] theorem retireIn_reader (s : St) (n : Nat) (r : Res) : (retireIn s n r).reader = s.reader := by
  unfold retireIn; repeat' split
  all_goals rfl

@[simp] theorem retireIn_queue (s : St) (n : Nat) (r : Res) : (retireIn s n r).queue = s.queue := by
  unfold retireIn; repeat' split
  all_goals rfl

@[simp] theorem retireIn_disp (s : St) (n : Nat) (r : Res) : (retireIn s n r).disp = s.disp := by
  unfold retireIn; repeat' split
  all_goals rfl

@[simp] theorem retireIn_handlerRunning (s : St) (n : Nat) (r : Res) : (retireIn s n r).handlerRunning = s.handlerRunning := by
  unfold retireIn; repeat' split
  all_goals rfl

@[simp] theorem retireIn_cancels (s : St) (n : Nat) (r : Res) : (retireIn s n r).cancels = s.cancels := by
  unfold retireIn; repeat' split
  all_goals rfl

@[simp] theorem retireIn_clock (s : St) (n : Nat) (r : Res) : (retireIn s n r).clock = s.clock := by
  unfold retireIn; repeat' split
  all_goals rfl

@[simp] theorem settleCalls_cores (s : St) : (settleCalls s).cores = s.cores := by
  rfl

@[simp] theorem settleCalls_metas (s : St) : (settleCalls s).metas = s.metas := by
  rfl

@[simp] theorem settleCalls_incoming (s : St) : (settleCalls s).incoming = s.incoming := by
  rfl

@[simp] theorem settleCalls_byID (s : St) : (settleCalls s).byID = s.byID := by
  rfl

@[simp] theorem settleCalls_panicIncoming (s : St) : (settleCalls s).panicIncoming = s.panicIncoming := by
  rfl

@[simp] theorem settleCalls_reader (s : St) : (settleCalls s).reader = s.reader := by
  rfl

@[simp] theorem settleCalls_queue (s : St) : (settleCalls s).queue = s.queue := by
  rfl

@[simp] theorem settleCalls_disp (s : St) : (settleCalls s).disp = s.disp := by
  rfl

@[simp] theorem settleCalls_handlerRunning (s : St) : (settleCalls s).handlerRunning = s.handlerRunning := by
  rfl

@[simp] theorem settleCalls_cancels (s : St) : (settleCalls s).cancels = s.cancels := by
  rfl

@[simp] theorem settleCalls_clock (s : St) : (settleCalls s).clock = s.clock := by
  rfl

@[simp] theorem settleWaiters_cores (s : St) : (settleWaiters s).cores = s.cores := by
  unfold settleWaiters; split <;> rfl

@[simp] theorem settleWaiters_metas (s : St) : (settleWaiters s).metas = s.metas := by
  unfold settleWaiters; split <;> rfl

@[simp] theorem settleWaiters_incoming (s : St) : (settleWaiters s).incoming = s.incoming := by
  unfold settleWaiters; split <;> rfl

@[simp] theorem settleWaiters_byID (s : St) : (settleWaiters s).byID = s.byID := by
  unfold settleWaiters; split <;> rfl

@[simp] theorem settleWaiters_panicIncoming (s : St) : (settleWaiters s).panicIncoming = s.panicIncoming := by
  unfold settleWaiters; split <;> rfl

@[simp] theorem settleWaiters_reader (s : St) : (settleWaiters s).reader = s.reader := by
  unfold settleWaiters; split <;> rfl

@[simp] theorem settleWaiters_queue (s : St) : (settleWaiters s).queue = s.queue := by
  unfold settleWaiters; split <;> rfl

@[simp] theorem settleWaiters_disp (s : St) : (settleWaiters s).disp = s.disp := by
  unfold settleWaiters; split <;> rfl

@[simp] theorem settleWaiters_handlerRunning (s : St) : (settleWaiters s).handlerRunning = s.handlerRunning := by
  unfold settleWaiters; split <;> rfl

@[simp] theorem settleWaiters_cancels (s : St) : (settleWaiters s).cancels = s.cancels := by
  unfold settleWaiters; split <;> rfl

@[simp] theorem settleWaiters_clock (s : St) : (settleWaiters s).clock = s.clock := by
  unfold settleWaiters; split <;> rfl

@[simp] theorem settleDisp_metas (s : St) : (settleDisp s).metas = s.metas := by
  unfold settleDisp; split
  · split
    · split <;> rfl
    · rfl
  · rfl
@[simp] theorem settle_metas (s : St) : (settle s).metas = s.metas := by simp [settle]
@[simp] theorem tail_closing (s : St) : (tail s).closing = s.closing := by
  unfold tail finish closeTransport; repeat' split
  all_goals rfl

end Conn
