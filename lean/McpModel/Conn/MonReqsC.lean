import McpModel.Conn.ObsLemmas
/-!
Preservation of the incoming-request part of `MonRel` (`MonReqs`) by the labels that do not act on
one incoming request (`Label.reqLabel = false`), by `settle` and by `Mon.mark`; and the two step
facts `running_new'` / `tc_step'` needed by the C03/C05 checks.
-/
namespace Conn
namespace ReqsC

/-! ### settle -/

theorem settleCall_w2 {c : Call} {e : Err} (h : (settleCall c).pc = .w2 e) : c.pc = .w2 e := by
  unfold settleCall at h
  repeat' (split at h)
  all_goals first
    | exact h
    | (simp at h; done)
    | simp_all

@[simp] theorem settleWaiters_calls (s : St) : (settleWaiters s).calls = s.calls := by
  unfold settleWaiters; split <;> rfl
@[simp] theorem settleWaiters_unotifs (s : St) : (settleWaiters s).unotifs = s.unotifs := by
  unfold settleWaiters; split <;> rfl
@[simp] theorem settleWaiters_cnotifs (s : St) : (settleWaiters s).cnotifs = s.cnotifs := by
  unfold settleWaiters; split <;> rfl
@[simp] theorem settleWaiters_writeErr (s : St) : (settleWaiters s).writeErr = s.writeErr := by
  unfold settleWaiters; split <;> rfl

theorem settleDisp_eq (s : St) : ∃ d, settleDisp s = { s with disp := d } := by
  unfold settleDisp
  split
  · split
    · split
      · exact ⟨_, rfl⟩
      · exact ⟨s.disp, rfl⟩
    · exact ⟨s.disp, rfl⟩
  · exact ⟨s.disp, rfl⟩

theorem settle_frame (s : St) :
    (settle s).cores = s.cores ∧ (settle s).metas = s.metas ∧ (settle s).byID = s.byID ∧
    (settle s).writeErr = s.writeErr ∧ (settle s).unotifs = s.unotifs ∧ (settle s).cnotifs = s.cnotifs ∧
    (settle s).calls = s.calls.map settleCall := by
  unfold settle
  obtain ⟨d, hd⟩ := settleDisp_eq (settleWaiters (settleCalls s))
  rw [hd]
  simp [settleCalls]

theorem getNotif_congr {s s' : St} (h1 : s'.unotifs = s.unotifs) (h2 : s'.cnotifs = s.cnotifs) (w : Who) :
    getNotif s' w = getNotif s w := by
  cases w <;> simp [getNotif, h1, h2]

theorem _root_.Conn.monreqs_settle {m : Mon} {s0 : St} (mr : MonReqs m s0) : MonReqs m (settle s0) := by
  obtain ⟨hc, hm, hb, hw, hu, hx, hcl⟩ := settle_frame s0
  refine ⟨by rw [hc]; exact mr.nreqs, by rw [hb]; exact mr.idx, by rw [hm]; exact mr.rx, ?_, ?_,
    by rw [hc]; exact mr.bk, by rw [hw]; exact mr.bw, by rw [hm, hw]; exact mr.bx, by rw [hc, hm]; exact mr.req⟩
  · intro n c e hg hpc
    simp only [getCall_eq, hcl, List.getElem?_map] at hg
    split at hg
    · cases hg
    · rename_i hn
      cases hcc : s0.calls[n - 1]? with
      | none => simp [hcc] at hg
      | some c' =>
        simp [hcc] at hg; subst hg
        exact mr.bc n c' e (by simp [getCall_eq, hn, hcc]) (settleCall_w2 hpc)
  · intro w nf e hg hpc
    rw [getNotif_congr hu hx] at hg
    exact mr.bn w nf e hg hpc

/-! ### mark -/

theorem mark_reqs_get (m : Mon) (o : Obs) (r : Nat) :
    (m.mark o).reqs[r]? = (m.reqs[r]?).map fun q => if o.parked.contains (.h r) then { q with started := true } else q := by
  simp only [Mon.mark, List.getElem?_map, List.getElem?_zipIdx]
  cases m.reqs[r]? <;> simp

theorem _root_.Conn.monreqs_mark {m : Mon} {s : St} (mr : MonReqs m s) : MonReqs { m.mark (obsOf s) with prev := obsOf s } s := by
  refine ⟨?_, mr.idx, mr.rx, mr.bc, mr.bn, mr.bk, mr.bw, mr.bx, ?_⟩
  · simp [Mon.mark]; exact mr.nreqs
  · intro r q' k mt hq hk hmt
    have hq : (m.mark (obsOf s)).reqs[r]? = some q' := hq
    rw [mark_reqs_get] at hq
    cases hq0 : m.reqs[r]? with
    | none => simp [hq0] at hq
    | some q =>
      simp only [hq0, Option.map_some, Option.some.injEq] at hq
      have rr := mr.req r q k mt hq0 hk hmt
      split at hq
      · rename_i hc
        subst hq
        have hmem : PTok.h r ∈ (obsOf s).parked := by simpa using hc
        obtain ⟨k', hk', hrun⟩ := (mem_parked_h s r).mp hmem
        rw [hk] at hk'; cases hk'
        exact ⟨rr.id, rr.idk, rr.cancelKind, rr.kind, rr.dupa, rr.w1, rr.ok, rr.p1, fun _ => rr.run hrun, rr.run, rr.asyncd,
          rr.p2done, rr.late, rr.peer, rr.cpeer, rr.seen, rr.cfin⟩
      · subst hq; exact rr

/-! ### explicit form of the cancel/retire folds -/

/-- `cancelReq` on the meta list. -/
def cancelM (c : Cause) (q : ReqMeta) : ReqMeta := if q.cancelled.isSome then q else { q with cancelled := some c }

def cancelMetas (c : Cause) (l : List (Nat × Nat)) (ms : List ReqMeta) : List ReqMeta :=
  l.foldl (fun ms p => ms.modify p.2 (cancelM c)) ms

theorem cancelReq_eq (s : St) (r : Nat) (c : Cause) : cancelReq s r c = { s with metas := s.metas.modify r (cancelM c) } := rfl

theorem foldl_cancel_eq (c : Cause) (l : List (Nat × Nat)) (s : St) :
    l.foldl (fun s p => cancelReq s p.2 c) s = { s with metas := cancelMetas c l s.metas } := by
  induction l generalizing s with
  | nil => rfl
  | cons p t ih =>
    show t.foldl _ (cancelReq s p.2 c) = _
    rw [ih]; rfl

theorem retireIn_eq (s : St) (n : Nat) (r : Res) : ∃ cs pr, retireIn s n r = { s with calls := cs, panicRetire := pr } := by
  unfold retireIn
  split
  · exact ⟨s.calls, s.panicRetire, rfl⟩
  · simp only []
    split
    · exact ⟨_, true, rfl⟩
    · exact ⟨_, s.panicRetire, rfl⟩

theorem foldl_retire_eq (r : Res) (l : List Nat) (s : St) :
    ∃ cs pr, l.foldl (fun s n => retireIn s n r) s = { s with calls := cs, panicRetire := pr } := by
  induction l generalizing s with
  | nil => exact ⟨s.calls, s.panicRetire, rfl⟩
  | cons a t ih =>
    simp only [List.foldl]
    obtain ⟨cs, pr, h⟩ := retireIn_eq s a r
    rw [h]
    obtain ⟨cs', pr', h'⟩ := ih { s with calls := cs, panicRetire := pr }
    exact ⟨cs', pr', h'⟩

theorem markBroken_eq (s : St) :
    markBroken s = if s.writeErr then s else { s with writeErr := true, metas := cancelMetas .write s.byID s.metas } := by
  unfold markBroken; split
  · rfl
  · rw [foldl_cancel_eq]

/-- The explicit effect of RX. -/
theorem rx_eq {s s0 : St} (h : step0 s .rx = some s0) :
    ∃ cs pr, s0 = tail { s with reader := .gone, reading := false, readErr := true, outCalls := [], calls := cs, panicRetire := pr, metas := cancelMetas .read s.byID s.metas } := by
  simp only [step0] at h
  split at h
  · cases h
  · cases h
    obtain ⟨cs, pr, hf⟩ := foldl_retire_eq (.err .read) s.outCalls { s with reader := .gone, reading := false, readErr := true }
    rw [hf, foldl_cancel_eq]
    exact ⟨cs, pr, rfl⟩

theorem cancelM_idem (c : Cause) (q : ReqMeta) : cancelM c (cancelM c q) = cancelM c q := by
  unfold cancelM; split <;> simp_all

/-- What `cancelMetas` does to one entry. -/
theorem cancelMetas_get (c : Cause) (l : List (Nat × Nat)) (ms : List ReqMeta) (r : Nat) :
    (cancelMetas c l ms)[r]? = (ms[r]?).map fun q => if r ∈ l.map (·.2) then cancelM c q else q := by
  induction l generalizing ms with
  | nil => simp [cancelMetas]
  | cons p t ih =>
    simp only [cancelMetas, List.foldl] at ih ⊢
    rw [ih, List.getElem?_modify]
    cases hm : ms[r]? with
    | none => simp
    | some q =>
      by_cases hp : p.2 = r
      · subst hp
        by_cases hmem : p.2 ∈ t.map (·.2)
        · simp [hmem, cancelM_idem]
        · simp [hmem]
      · have : ¬ r = p.2 := fun h => hp h.symm
        simp only [hp, if_false, List.map_cons, List.mem_cons, this, false_or]
        simp

theorem cancelMetas_length (c : Cause) (l : List (Nat × Nat)) (ms : List ReqMeta) : (cancelMetas c l ms).length = ms.length := by
  induction l generalizing ms with
  | nil => rfl
  | cons p t ih => simp only [cancelMetas, List.foldl] at ih ⊢; rw [ih, List.length_modify]


/-! ### running_new -/

def RunSub (l0 l : List ReqCore) : Prop :=
  ∀ (j : Nat) (k0 : ReqCore), l0[j]? = some k0 → k0.pc = .running → ∃ k : ReqCore, l[j]? = some k ∧ k.pc = .running

theorem RunSub.refl (l : List ReqCore) : RunSub l l := fun _ k0 h hr => ⟨k0, h, hr⟩

theorem RunSub.modify {l0 l : List ReqCore} (h : RunSub l0 l) (r : Nat) (g : ReqCore → ReqCore)
    (hg : ∀ k, (g k).pc = .running → k.pc = .running) : RunSub (l0.modify r g) l := by
  intro j k0 hj hr
  rw [List.getElem?_modify] at hj
  cases hl : l0[j]? with
  | none => simp [hl] at hj
  | some k1 =>
    simp only [hl] at hj
    split at hj
    · cases hj; exact h j k1 hl (hg _ hr)
    · cases hj; exact h j _ hl hr

theorem RunSub.append {l : List ReqCore} (k : ReqCore) (hk : k.pc ≠ .running) : RunSub (l ++ [k]) l := by
  intro j k0 hj hr
  rw [List.getElem?_append] at hj
  split at hj
  · exact ⟨k0, hj, hr⟩
  · cases hx : j - l.length with
    | zero => simp [hx] at hj; subst hj; exact absurd hr hk
    | succ n => simp [hx] at hj

@[simp] theorem modCore_cores' (s : St) (r : Nat) (f : ReqCore → ReqCore) : (modCore s r f).cores = s.cores.modify r f := rfl
@[simp] theorem toP2_cores' (s : St) (r : Nat) : (toP2 s r).cores = s.cores.modify r (fun q => { q with pc := .p2 }) := rfl
theorem beginPR_cores' (s : St) (r : Nat) (own : Owner) :
    (beginPR s r own).cores = s.cores.modify r (fun k => { k with owner := own, pc := if k.isCall then .p1 else .p2 }) :=
  congrArg ReqView.cores (reqView_beginPR s r own)
@[simp] theorem afterP2_cores' (s : St) (r : Nat) (o : Owner) : (afterP2 s r o).cores = s.cores := by
  cases o <;> rfl

set_option linter.unusedSimpArgs false in
set_option maxRecDepth 8000 in
theorem runsub_step0 {s s0 : St} {l : Label} (h : step0 s l = some s0) (hl : l ≠ .d1) : RunSub s0.cores s.cores := by
  by_cases ht : l.touchesReqs = false
  · have := congrArg ReqView.cores (frame_reqs s s0 l h ht)
    simp only [reqView] at this
    rw [this]; exact RunSub.refl _
  · by_cases hrx : l = .rx
    · subst hrx
      obtain ⟨cs, pr, rfl⟩ := rx_eq h
      rw [tail_cores]; exact RunSub.refl _
    cases l <;> simp [Label.touchesReqs] at ht <;> simp only [step0] at h
    all_goals (repeat' (split at h))
    all_goals first
      | (simp at hl; done)
      | (simp at hrx; done)
      | (simp [Label.touchesReqs] at ht; done)
      | (simp at h; done)
      | (injection h with h; subst h
         try simp only [tail_cores, modMeta_cores, modCore_cores', toP2_cores', beginPR_cores', afterP2_cores',
           markBroken_cores, setNotif_cores, modCall_cores, retireIn_cores]
         first
         | exact RunSub.refl _
         | (apply RunSub.append; simp; done)
         | (repeat (first | exact RunSub.refl _ | (refine RunSub.modify ?_ _ _ (fun k hk => by first | exact hk | (simp at hk; done) | (simp only [] at hk; split at hk <;> simp at hk))))))

/-- A handler starts only at D1, for the head of the queue. -/
theorem _root_.Conn.running_new' {s s0 : St} {l : Label} {j : Nat} {k0 : ReqCore} (h : step0 s l = some s0)
    (hk : s0.cores[j]? = some k0) (hr : k0.pc = .running) :
    (∃ k, s.cores[j]? = some k ∧ k.pc = .running) ∨ (l = .d1 ∧ s.disp = .d1 ∧ ∃ rest, s.queue = j :: rest) := by
  by_cases hl : l = .d1
  · subst hl
    simp only [step0] at h
    split at h
    · cases h
    · rename_i hd
      have hd : s.disp = .d1 := by simpa using hd
      split at h
      · cases h; rw [tail_cores] at hk; exact Or.inl ⟨k0, hk, hr⟩
      · rename_i r rest hq
        split at h
        · cases h
        · split at h
          · cases h
            have : RunSub (beginPR { tail { s with queue := rest } with disp := .busy r } r .dispatcher).cores s.cores := by
              rw [beginPR_cores']
              refine RunSub.modify ?_ _ _ (fun k hk => by simp only [] at hk; split at hk <;> simp at hk)
              show RunSub (tail { s with queue := rest }).cores s.cores
              rw [tail_cores]; exact RunSub.refl _
            exact Or.inl (this j k0 hk hr)
          · cases h
            simp only [modMeta_cores, modCore_cores'] at hk
            have hc : (tail { s with queue := rest }).cores = s.cores := by rw [tail_cores]
            rw [List.getElem?_modify] at hk
            by_cases hj : r = j
            · subst hj; exact Or.inr ⟨rfl, hd, rest, hq⟩
            · simp only [hj, if_false] at hk
              have hk : s.cores[j]? = some k0 := by
                rw [← hc]
                cases hx : (tail { s with queue := rest }).cores[j]? <;> simp_all
              exact Or.inl ⟨k0, hk, hr⟩
  · exact Or.inl (runsub_step0 h hl j k0 hk hr)

/-! ### tc_step -/

/-- The transport-close counter and idleness. -/
def tcv (s : St) : Nat × Bool := (s.transportCloses, s.idle)

@[simp] theorem tcv_modCall (s : St) (n : Nat) (f : Call → Call) : tcv (modCall s n f) = tcv s := rfl
@[simp] theorem tcv_modCore (s : St) (r : Nat) (f : ReqCore → ReqCore) : tcv (modCore s r f) = tcv s := rfl
@[simp] theorem tcv_modMeta (s : St) (r : Nat) (f : ReqMeta → ReqMeta) : tcv (modMeta s r f) = tcv s := rfl
@[simp] theorem tcv_cancelReq (s : St) (r : Nat) (c : Cause) : tcv (cancelReq s r c) = tcv s := rfl
@[simp] theorem tcv_toP2 (s : St) (r : Nat) : tcv (toP2 s r) = tcv s := rfl
@[simp] theorem tcv_setNotif (s : St) (w : Who) (f : Notif → Notif) : tcv (setNotif s w f) = tcv s := by cases w <;> rfl
@[simp] theorem tcv_beginPR (s : St) (r : Nat) (o : Owner) : tcv (beginPR s r o) = tcv s := by
  unfold beginPR; split
  · rfl
  · split <;> rfl
@[simp] theorem tcv_afterP2 (s : St) (r : Nat) (o : Owner) : tcv (afterP2 s r o) = tcv s := by cases o <;> rfl
@[simp] theorem tcv_retireIn (s : St) (n : Nat) (r : Res) : tcv (retireIn s n r) = tcv s := by
  obtain ⟨cs, pr, h⟩ := retireIn_eq s n r; rw [h]; rfl
@[simp] theorem tcv_markBroken (s : St) : tcv (markBroken s) = tcv s := by
  rw [markBroken_eq]; split <;> rfl
@[simp] theorem tcv_disp (s : St) (d : DispPc) : tcv { s with disp := d } = tcv s := rfl
@[simp] theorem tcv_clock_disp (s : St) (c : Nat) (d : DispPc) : tcv { s with clock := c, disp := d } = tcv s := rfl
@[simp] theorem tcv_cnotifs (s : St) (c : List Notif) : tcv { s with cnotifs := c } = tcv s := rfl

theorem tail_tcv (X : St) (t : Nat) (ht : X.transportCloses = t) (hne : (tcv (tail X)).1 ≠ t) : (tcv (tail X)).2 = true := by
  subst ht
  unfold tail finish closeTransport at hne ⊢
  simp only [tcv] at hne ⊢
  repeat' split at hne
  all_goals first
    | exact absurd rfl hne
    | skip
  all_goals simp_all [St.idle]


set_option linter.unusedSimpArgs false in
set_option maxRecDepth 8000 in
theorem tc_step0 {s s0 : St} {l : Label} (h : step0 s l = some s0) :
    (tcv s0).1 ≠ s.transportCloses → (tcv s0).2 = true := by
  by_cases hrx : l = .rx
  · subst hrx
    obtain ⟨cs, pr, rfl⟩ := rx_eq h
    intro hne; exact tail_tcv _ _ rfl hne
  cases l <;> simp only [step0] at h
  all_goals (repeat' (split at h))
  all_goals first
    | (simp at hrx; done)
    | (simp at h; done)
    | (injection h with h; subst h
       try simp only [tcv_modCall, tcv_modCore, tcv_modMeta, tcv_cancelReq, tcv_toP2, tcv_setNotif, tcv_beginPR, tcv_afterP2,
         tcv_retireIn, tcv_markBroken, tcv_disp, tcv_clock_disp, tcv_cnotifs]
       first
       | (intro hne; exact absurd rfl hne)
       | (intro hne; exact tail_tcv _ _ rfl hne)
       | (intro hne; refine tail_tcv _ _ ?_ hne
          show (tcv _).1 = _
          simp only [tcv_modCall, tcv_modCore, tcv_modMeta, tcv_cancelReq, tcv_toP2, tcv_setNotif, tcv_beginPR, tcv_afterP2,
            tcv_retireIn, tcv_markBroken]
          done)
       | (intro hne; refine tail_tcv _ _ ?_ hne
          show (tcv _).1 = _
          simp only [tcv_modCall, tcv_modCore, tcv_modMeta, tcv_cancelReq, tcv_toP2, tcv_setNotif, tcv_beginPR, tcv_afterP2,
            tcv_retireIn, tcv_markBroken]
          rfl))

/-- The transport is closed only by a step that leaves the connection idle. -/
theorem _root_.Conn.tc_step' {s s' : St} {l : Label} (h : step s l = some s') (hc : s'.transportCloses ≠ s.transportCloses) :
    s'.idle = true := by
  simp only [step, Option.map_eq_some_iff] at h
  obtain ⟨s0, h0, rfl⟩ := h
  have hv := fview_settle s0
  have h1 : (settle s0).transportCloses = s0.transportCloses := congrArg FV.transportCloses hv
  have h2 : (settle s0).idle = s0.idle := congrArg FV.idle hv
  rw [h2]; rw [h1] at hc
  exact tc_step0 h0 hc

/-! ### frame facts for the labels outside reqLabel -/

/-- Labels outside `reqLabel` that do not cancel any request context. -/
def _root_.Conn.Label.plainC : Label → Bool
  | .ecall | .ecallbad | .enotify | .ectx _ | .eclose | .ewait | .start | .n1 _ | .n2 _ | .c1 _ | .retire _ | .wt _ | .cl1 | .rresp => true
  | .wret (.resp _) _ => false
  | .wret _ _ => true
  | .w1 (.resp _) => false
  | .w1 _ => true
  | _ => false

set_option linter.unusedSimpArgs false in
set_option maxRecDepth 8000 in
theorem plain_frame {s s0 : St} {l : Label} (h : step0 s l = some s0) (hl : l.plainC = true) :
    s0.cores = s.cores ∧ s0.byID = s.byID ∧ s0.metas = s.metas ∧ s0.writeErr = s.writeErr := by
  cases l <;> simp [Label.plainC] at hl <;> simp only [step0] at h
  all_goals (repeat' (split at h))
  all_goals first
    | (simp [Label.plainC] at hl; done)
    | (simp at h; done)
    | (injection h with h; subst h; first | exact ⟨rfl, rfl, rfl, rfl⟩ | (simp; done) | (split <;> simp; done))


/-! "No new writer on its way to W2": every element of `l0` with `P` is accounted for by `B` or by an
element of `l` with `P`. -/
def Le {α : Type} (B : Prop) (P : α → Prop) (l0 l : List α) : Prop := ∀ a ∈ l0, P a → B ∨ ∃ a' ∈ l, P a'

theorem Le.refl {α : Type} (B : Prop) (P : α → Prop) (l : List α) : Le B P l l := fun a ha hp => Or.inr ⟨a, ha, hp⟩

theorem mem_modify_cases {α : Type} {l : List α} {i : Nat} {f : α → α} {a : α} (h : a ∈ l.modify i f) :
    a ∈ l ∨ ∃ b ∈ l, a = f b := by
  obtain ⟨j, hj⟩ := List.getElem?_of_mem h
  rw [List.getElem?_modify] at hj
  cases hl : l[j]? with
  | none => simp [hl] at hj
  | some b =>
    have hb : b ∈ l := List.mem_of_getElem? hl
    simp only [hl] at hj
    split at hj
    · cases hj; exact Or.inr ⟨b, hb, rfl⟩
    · cases hj; exact Or.inl hb

theorem Le.modify {α : Type} {B : Prop} {P : α → Prop} {l0 l : List α} (i : Nat) (f : α → α)
    (hf : ∀ a, P (f a) → B ∨ P a) (h : Le B P l0 l) : Le B P (l0.modify i f) l := by
  intro a ha hp
  rcases mem_modify_cases ha with ha | ⟨b, hb, rfl⟩
  · exact h a ha hp
  · rcases hf b hp with hB | hpb
    · exact Or.inl hB
    · exact h b hb hpb

theorem Le.append {α : Type} {B : Prop} {P : α → Prop} {l0 l : List α} (x : α) (hx : ¬ P x) (h : Le B P l0 l) :
    Le B P (l0 ++ [x]) l := by
  intro a ha hp
  rcases List.mem_append.mp ha with ha | ha
  · exact h a ha hp
  · simp at ha; subst ha; exact absurd hp hx

def IsW2c (c : Call) : Prop := ∃ e, c.pc = .w2 e
def IsW2n (nf : Notif) : Prop := ∃ e, nf.pc = .w2 e

@[simp] theorem modCall_calls' (s : St) (n : Nat) (f : Call → Call) : (modCall s n f).calls = s.calls.modify (n - 1) f := rfl

theorem retireIn_calls' (s : St) (n : Nat) (r : Res) :
    (retireIn s n r).calls = s.calls.modify (n - 1) (fun c => (retireCall c r).1) ∨ (retireIn s n r).calls = s.calls := by
  unfold retireIn
  split
  · exact Or.inr rfl
  · rename_i c hc
    left
    have h0 := calls_get hc
    rw [modify_const _ _ c _ h0]
    simp only []
    split <;> rfl

theorem retireCall_pc (c : Call) (r : Res) : (retireCall c r).1.pc = c.pc := by
  unfold retireCall; split <;> rfl

theorem Le.retireIn {B : Prop} {l : List Call} (s : St) (n : Nat) (r : Res) (h : Le B IsW2c s.calls l) :
    Le B IsW2c (Conn.retireIn s n r).calls l := by
  rcases retireIn_calls' s n r with he | he <;> rw [he]
  · exact Le.modify _ _ (fun a ⟨e, he⟩ => Or.inr ⟨e, by rw [← retireCall_pc a r]; exact he⟩) h
  · exact h

theorem Le.foldl_retire {B : Prop} {l : List Call} (r : Res) (ns : List Nat) (s : St) (h : Le B IsW2c s.calls l) :
    Le B IsW2c (ns.foldl (fun s n => Conn.retireIn s n r) s).calls l := by
  induction ns generalizing s with
  | nil => exact h
  | cons a t ih => exact ih _ (Le.retireIn s a r h)


theorem foldl_cancel_calls (l : List (Nat × Nat)) (c : Cause) (s : St) :
    (l.foldl (fun s p => cancelReq s p.2 c) s).calls = s.calls := congrArg CallView.calls (callView_foldl_cancel l c s)

/-- The label is a transport Write that failed. -/
def _root_.Conn.Label.isBrokenC (l : Label) : Prop := ∃ w, l = .wret w .broken

set_option linter.unusedSimpArgs false in
set_option maxRecDepth 8000 in
theorem w2_calls {s s0 : St} {l : Label} (h : step0 s l = some s0) (hl : l.reqLabel = false) :
    Le l.isBrokenC IsW2c s0.calls s.calls := by
  by_cases hrx : l = .rx
  · subst hrx
    simp only [step0] at h
    split at h
    · cases h
    · cases h
      rw [tail_calls, foldl_cancel_calls]
      exact Le.foldl_retire _ _ _ (Le.refl _ _ _)
  cases l <;> simp only [step0] at h
  all_goals (repeat' (split at h))
  all_goals first
    | (simp at hrx; done)
    | (simp [Label.reqLabel] at hl; done)
    | (simp at h; done)
    | (injection h with h; subst h
       try simp only [tail_calls, modCall_calls', cancelReq_calls, markBroken_calls, setNotif_calls]
       repeat (first
         | exact Le.refl _ _ _
         | (refine Le.modify _ _ (fun a hp => by
              obtain ⟨e, he⟩ := hp
              first | (simp at he; done) | exact Or.inr ⟨e, he⟩ | exact Or.inl ⟨_, rfl⟩) ?_)
         | (refine Le.append _ (fun hp => by obtain ⟨e, he⟩ := hp; simp at he) ?_)
         | (refine Le.retireIn _ _ _ ?_)
         | (simp only [tail_calls, modCall_calls', cancelReq_calls, markBroken_calls, setNotif_calls])
         | split))

@[simp] theorem tail_unotifs (s : St) : (tail s).unotifs = s.unotifs := by
  unfold tail finish closeTransport; repeat' split
  all_goals rfl
@[simp] theorem tail_cnotifs (s : St) : (tail s).cnotifs = s.cnotifs := by
  unfold tail finish closeTransport; repeat' split
  all_goals rfl
@[simp] theorem modCall_unotifs (s : St) (n : Nat) (f : Call → Call) : (modCall s n f).unotifs = s.unotifs := rfl
@[simp] theorem modCall_cnotifs (s : St) (n : Nat) (f : Call → Call) : (modCall s n f).cnotifs = s.cnotifs := rfl
@[simp] theorem cancelReq_unotifs (s : St) (r : Nat) (c : Cause) : (cancelReq s r c).unotifs = s.unotifs := rfl
@[simp] theorem cancelReq_cnotifs (s : St) (r : Nat) (c : Cause) : (cancelReq s r c).cnotifs = s.cnotifs := rfl
@[simp] theorem retireIn_unotifs (s : St) (n : Nat) (r : Res) : (retireIn s n r).unotifs = s.unotifs := by
  obtain ⟨cs, pr, h⟩ := retireIn_eq s n r; rw [h]
@[simp] theorem retireIn_cnotifs (s : St) (n : Nat) (r : Res) : (retireIn s n r).cnotifs = s.cnotifs := by
  obtain ⟨cs, pr, h⟩ := retireIn_eq s n r; rw [h]
@[simp] theorem markBroken_unotifs (s : St) : (markBroken s).unotifs = s.unotifs := by
  rw [markBroken_eq]; split <;> rfl
@[simp] theorem markBroken_cnotifs (s : St) : (markBroken s).cnotifs = s.cnotifs := by
  rw [markBroken_eq]; split <;> rfl

theorem Le.setNotif_u {B : Prop} {l : List Notif} (s : St) (w : Who) (f : Notif → Notif)
    (hf : ∀ a, IsW2n (f a) → B ∨ IsW2n a) (h : Le B IsW2n s.unotifs l) : Le B IsW2n (setNotif s w f).unotifs l := by
  cases w
  case unotif k => exact Le.modify _ _ hf h
  all_goals exact h

theorem Le.setNotif_c {B : Prop} {l : List Notif} (s : St) (w : Who) (f : Notif → Notif)
    (hf : ∀ a, IsW2n (f a) → B ∨ IsW2n a) (h : Le B IsW2n s.cnotifs l) : Le B IsW2n (setNotif s w f).cnotifs l := by
  cases w
  case cnotif k => exact Le.modify _ _ hf h
  all_goals exact h

set_option linter.unusedSimpArgs false in
set_option maxRecDepth 8000 in
theorem w2_notifs {s s0 : St} {l : Label} (h : step0 s l = some s0) (hl : l.reqLabel = false) :
    Le l.isBrokenC IsW2n s0.unotifs s.unotifs ∧ Le l.isBrokenC IsW2n s0.cnotifs s.cnotifs := by
  by_cases hrx : l = .rx
  · subst hrx
    obtain ⟨cs, pr, rfl⟩ := rx_eq h
    simp only [tail_unotifs, tail_cnotifs]
    exact ⟨Le.refl _ _ _, Le.refl _ _ _⟩
  cases l <;> simp only [step0] at h
  all_goals (repeat' (split at h))
  all_goals first
    | (simp at hrx; done)
    | (simp [Label.reqLabel] at hl; done)
    | (simp at h; done)
    | (injection h with h; subst h
       constructor
       all_goals
        repeat (first
         | exact Le.refl _ _ _
         | (refine Le.modify _ _ (fun a hp => by
              obtain ⟨e, he⟩ := hp
              first | (simp at he; done) | exact Or.inr ⟨e, he⟩ | exact Or.inl ⟨_, rfl⟩) ?_)
         | (refine Le.setNotif_u _ _ _ (fun a hp => by
              obtain ⟨e, he⟩ := hp
              first | (simp at he; done) | exact Or.inr ⟨e, he⟩ | exact Or.inl ⟨_, rfl⟩) ?_)
         | (refine Le.setNotif_c _ _ _ (fun a hp => by
              obtain ⟨e, he⟩ := hp
              first | (simp at he; done) | exact Or.inr ⟨e, he⟩ | exact Or.inl ⟨_, rfl⟩) ?_)
         | (refine Le.append _ (fun hp => by obtain ⟨e, he⟩ := hp; simp at he) ?_)
         | (simp only [tail_unotifs, tail_cnotifs, modCall_unotifs, modCall_cnotifs, cancelReq_unotifs, cancelReq_cnotifs,
              retireIn_unotifs, retireIn_cnotifs, markBroken_unotifs, markBroken_cnotifs])
         | split))

/-! ### the general preservation lemma -/

theorem mem_of_getCall {s : St} {n : Nat} {c : Call} (h : getCall s n = some c) : c ∈ s.calls :=
  List.mem_of_getElem? (calls_get h)

theorem getCall_of_mem {s : St} {c : Call} (h : c ∈ s.calls) : ∃ n, getCall s n = some c := by
  obtain ⟨j, hj⟩ := List.getElem?_of_mem h
  exact ⟨j + 1, by simp [getCall_eq, hj]⟩

theorem mem_of_getNotif {s : St} {w : Who} {nf : Notif} (h : getNotif s w = some nf) : nf ∈ s.unotifs ∨ nf ∈ s.cnotifs := by
  cases w <;> simp only [getNotif] at h
  · cases h
  · exact Or.inl (List.mem_of_getElem? h)
  · exact Or.inr (List.mem_of_getElem? h)
  · cases h

theorem getNotif_of_mem_u {s : St} {nf : Notif} (h : nf ∈ s.unotifs) : ∃ w, getNotif s w = some nf := by
  obtain ⟨j, hj⟩ := List.getElem?_of_mem h
  exact ⟨.unotif j, hj⟩

theorem getNotif_of_mem_c {s : St} {nf : Notif} (h : nf ∈ s.cnotifs) : ∃ w, getNotif s w = some nf := by
  obtain ⟨j, hj⟩ := List.getElem?_of_mem h
  exact ⟨.cnotif j, hj⟩

/-- The general preservation lemma for steps that leave `cores`/`byID` alone and change `metas` only by
cancelling contexts (cause peer/read/write), while the monitor at most marks `peerCancelled`. -/
theorem monreqs_frame {m m' : Mon} {s s0 : St} (mr : MonReqs m s)
    (hlen : m'.reqs.length = m.reqs.length) (hidx : m'.idx = m.idx)
    (hrxs : m.rxSeen = true → m'.rxSeen = true) (hbs : m.brokenSeen = true → m'.brokenSeen = true)
    (hcores : s0.cores = s.cores) (hby : s0.byID = s.byID)
    (hwe : s.writeErr = true → s0.writeErr = true)
    (hbw : s0.writeErr = true → s.writeErr = true ∨ m'.brokenSeen = true)
    (hm : ∀ (r : Nat) (mt0 : ReqMeta), s0.metas[r]? = some mt0 → ∃ mt, s.metas[r]? = some mt ∧
      (mt0 = mt ∨ (mt.cancelled = none ∧ ∃ c, mt0 = { mt with cancelled := some c } ∧ c ≠ .finished ∧
        (c = .peer → ∀ q', m'.reqs[r]? = some q' → q'.peerCancelled = true) ∧
        (c = .read → m'.rxSeen = true) ∧ (c = .write → s0.writeErr = true))))
    (hq : ∀ (r : Nat) (q' : MReq), m'.reqs[r]? = some q' → ∃ q, m.reqs[r]? = some q ∧
      (q' = q ∨ (q' = { q with peerCancelled := true } ∧ ∀ mt0, s0.metas[r]? = some mt0 → mt0.cancelled.isSome = true)))
    (hbc : Le (m'.brokenSeen = true) IsW2c s0.calls s.calls)
    (hbu : Le (m'.brokenSeen = true) IsW2n s0.unotifs s.unotifs)
    (hbx : Le (m'.brokenSeen = true) IsW2n s0.cnotifs s.cnotifs) : MonReqs m' s0 := by
  refine ⟨by rw [hlen, hcores]; exact mr.nreqs, by rw [hidx, hby]; exact mr.idx, ?_, ?_, ?_, ?_, ?_, ?_, ?_⟩
  · -- rx
    intro r mt0 h0 hc
    obtain ⟨mt, hmt, hcase⟩ := hm r mt0 h0
    rcases hcase with rfl | ⟨_, c, rfl, _, _, hr, _⟩
    · exact hrxs (mr.rx r _ hmt hc)
    · simp only [Option.some.injEq] at hc; exact hr hc
  · -- bc
    intro n c e hg hpc
    rcases hbc c (mem_of_getCall hg) ⟨e, hpc⟩ with h | ⟨c', hc', e', he'⟩
    · exact h
    · obtain ⟨n', hn'⟩ := getCall_of_mem hc'
      exact hbs (mr.bc n' c' e' hn' he')
  · -- bn
    intro w nf e hg hpc
    rcases mem_of_getNotif hg with hu | hx
    · rcases hbu nf hu ⟨e, hpc⟩ with h | ⟨nf', hnf', e', he'⟩
      · exact h
      · obtain ⟨w', hw'⟩ := getNotif_of_mem_u hnf'
        exact hbs (mr.bn w' nf' e' hw' he')
    · rcases hbx nf hx ⟨e, hpc⟩ with h | ⟨nf', hnf', e', he'⟩
      · exact h
      · obtain ⟨w', hw'⟩ := getNotif_of_mem_c hnf'
        exact hbs (mr.bn w' nf' e' hw' he')
  · -- bk
    intro r k e hk hpc
    rw [hcores] at hk
    exact hbs (mr.bk r k e hk hpc)
  · -- bw
    intro h
    rcases hbw h with h | h
    · exact hbs (mr.bw h)
    · exact h
  · -- bx
    intro r mt0 h0 hc
    obtain ⟨mt, hmt, hcase⟩ := hm r mt0 h0
    rcases hcase with rfl | ⟨_, c, rfl, _, _, _, hw⟩
    · exact hwe (mr.bx r _ hmt hc)
    · simp only [Option.some.injEq] at hc; exact hw hc
  · -- req
    intro r q' k mt0 hq' hk h0
    rw [hcores] at hk
    obtain ⟨mt, hmt, hcase⟩ := hm r mt0 h0
    obtain ⟨q, hq0, hqcase⟩ := hq r q' hq'
    have rr := mr.req r q k mt hq0 hk hmt
    rcases hcase with rfl | ⟨hnone, c, rfl, hnf, hpeer, _, _⟩
    · rcases hqcase with rfl | ⟨rfl, hcs⟩
      · exact rr
      · exact ⟨rr.id, rr.idk, rr.cancelKind, rr.kind, rr.dupa, rr.w1, rr.ok, rr.p1, rr.st, rr.run, rr.asyncd, rr.p2done,
          rr.late, fun _ => hcs _ h0, fun _ => rfl, rr.seen, rr.cfin⟩
    · have hpc' : q'.peerCancelled = true → True := fun _ => trivial
      rcases hqcase with rfl | ⟨rfl, hcs⟩
      · exact ⟨rr.id, rr.idk, rr.cancelKind, rr.kind, rr.dupa, rr.w1, rr.ok, rr.p1, rr.st, rr.run, rr.asyncd, rr.p2done,
          rr.late, fun _ => rfl, fun hc => hpeer (by simpa using hc) _ hq', rr.seen,
          fun hc => absurd (by simpa using hc) hnf⟩
      · exact ⟨rr.id, rr.idk, rr.cancelKind, rr.kind, rr.dupa, rr.w1, rr.ok, rr.p1, rr.st, rr.run, rr.asyncd, rr.p2done,
          rr.late, fun _ => rfl, fun _ => rfl, rr.seen, fun hc => absurd (by simpa using hc) hnf⟩


/-! ### monreqs_other -/

theorem Le.mono {α : Type} {B B' : Prop} {P : α → Prop} {l0 l : List α} (h : Le B P l0 l) (hb : B → B') : Le B' P l0 l :=
  fun a ha hp => (h a ha hp).imp hb id

theorem cancelM_isSome (c : Cause) (q : ReqMeta) : (cancelM c q).cancelled.isSome = true := by
  unfold cancelM; split <;> simp_all

theorem cancelM_cases (c : Cause) (q : ReqMeta) :
    cancelM c q = q ∨ (q.cancelled = none ∧ cancelM c q = { q with cancelled := some c }) := by
  unfold cancelM; split
  · exact Or.inl rfl
  · rename_i h; exact Or.inr ⟨by simpa using h, rfl⟩

/-- The `hm` hypothesis of `monreqs_frame` for a step that cancels the requests in `T` with cause `c`. -/
theorem hm_cancel {m' : Mon} {s s0 : St} {c : Cause} (T : Nat → Prop) [DecidablePred T]
    (hget : ∀ r, s0.metas[r]? = (s.metas[r]?).map fun q => if T r then cancelM c q else q)
    (hc : c ≠ .finished)
    (hp : c = .peer → ∀ r, T r → ∀ q', m'.reqs[r]? = some q' → q'.peerCancelled = true)
    (hr : c = .read → m'.rxSeen = true) (hw : c = .write → s0.writeErr = true) :
    ∀ (r : Nat) (mt0 : ReqMeta), s0.metas[r]? = some mt0 → ∃ mt, s.metas[r]? = some mt ∧
      (mt0 = mt ∨ (mt.cancelled = none ∧ ∃ c, mt0 = { mt with cancelled := some c } ∧ c ≠ .finished ∧
        (c = .peer → ∀ q', m'.reqs[r]? = some q' → q'.peerCancelled = true) ∧
        (c = .read → m'.rxSeen = true) ∧ (c = .write → s0.writeErr = true))) := by
  intro r mt0 h0
  rw [hget] at h0
  cases hmt : s.metas[r]? with
  | none => simp [hmt] at h0
  | some mt =>
    refine ⟨mt, rfl, ?_⟩
    simp only [hmt, Option.map_some, Option.some.injEq] at h0
    split at h0
    · rename_i hT
      rcases cancelM_cases c mt with he | ⟨hn, he⟩
      · exact Or.inl (by rw [← h0, he])
      · exact Or.inr ⟨hn, c, by rw [← h0, he], hc, fun h => hp h r hT, hr, hw⟩
    · exact Or.inl h0.symm

/-- The monitor's bookkeeping for the labels that are neither request labels nor K1. -/
theorem book_nonreq (m : Mon) (p : Obs) {l : Label} (hl : l.reqLabel = false) (hk : ∀ id, l ≠ .k1 id) :
    (m.book p (evOf l)).reqs = m.reqs ∧ (m.book p (evOf l)).idx = m.idx ∧
    (m.rxSeen = true → (m.book p (evOf l)).rxSeen = true) ∧
    (m.brokenSeen = true → (m.book p (evOf l)).brokenSeen = true) ∧
    (l.isBrokenC → (m.book p (evOf l)).brokenSeen = true) ∧
    (l = .rx → (m.book p (evOf l)).rxSeen = true) := by
  cases l
  case k1 id => exact absurd rfl (hk id)
  case wret w o =>
    cases w <;> simp [Label.reqLabel] at hl <;> cases o <;>
      simp [evOf, Who.resp?, Mon.book, Label.isBrokenC]
  case w1 w => cases w <;> simp [Label.reqLabel] at hl <;> simp [evOf, Mon.book, Label.isBrokenC]
  case w2 w => cases w <;> simp [Label.reqLabel] at hl <;> simp [evOf, Mon.book, Label.isBrokenC]
  all_goals first
    | (simp [Label.reqLabel] at hl; done)
    | simp [evOf, Mon.book, Label.isBrokenC]


theorem modR_reqs_get (m : Mon) (r j : Nat) (f : MReq → MReq) :
    (modR m r f).reqs[j]? = (m.reqs[j]?).map fun q => if r = j then f q else q := by
  simp only [modR, List.getElem?_modify]; rfl

/-- Plain labels: nothing the relation talks about changes, except possibly a writer reaching W2. -/
theorem monreqs_plain {m : Mon} {s s0 : St} {l : Label} {p : Obs} (mr : MonReqs m s)
    (hl : l.reqLabel = false) (hpl : l.plainC = true) (h : step0 s l = some s0) :
    MonReqs (m.book p (evOf l)) s0 := by
  have hk : ∀ id, l ≠ .k1 id := by intro id he; subst he; simp [Label.plainC] at hpl
  obtain ⟨b1, b2, b3, b4, b5, _⟩ := book_nonreq m p hl hk
  obtain ⟨f1, f2, f3, f4⟩ := plain_frame h hpl
  obtain ⟨wu, wx⟩ := w2_notifs h hl
  refine monreqs_frame mr (by rw [b1]) b2 b3 b4 f1 f2 (by rw [f4]; exact id) (by rw [f4]; exact Or.inl) ?_ ?_
    ((w2_calls h hl).mono b5) (wu.mono b5) (wx.mono b5)
  · intro r mt0 h0; rw [f3] at h0; exact ⟨mt0, h0, Or.inl rfl⟩
  · intro r q' hq'; rw [b1] at hq'; exact ⟨q', hq', Or.inl rfl⟩


theorem monreqs_rx {m : Mon} {s s0 : St} {p : Obs} (mr : MonReqs m s) (h : step0 s .rx = some s0) :
    MonReqs (m.book p (evOf .rx)) s0 := by
  have hl : Label.rx.reqLabel = false := rfl
  obtain ⟨b1, b2, b3, b4, b5, b6⟩ := book_nonreq m p hl (by intro id he; cases he)
  obtain ⟨wu, wx⟩ := w2_notifs h hl
  have wc := w2_calls h hl
  obtain ⟨cs, pr, rfl⟩ := rx_eq h
  refine monreqs_frame mr (by rw [b1]) b2 b3 b4 (by simp) (by simp) (by simp) (by simp; exact Or.inl) ?_ ?_
    (wc.mono b5) (wu.mono b5) (wx.mono b5)
  · refine hm_cancel (c := .read) (fun r => r ∈ s.byID.map (·.2)) (fun r => ?_) (by simp) (by simp) (fun _ => b6 rfl) (by simp)
    simp only [tail_metas]
    exact cancelMetas_get .read s.byID s.metas r
  · intro r q' hq'; rw [b1] at hq'; exact ⟨q', hq', Or.inl rfl⟩

theorem markBroken_frame (s : St) :
    (markBroken s).writeErr = true ∧
    ∀ r, (markBroken s).metas[r]? = (s.metas[r]?).map fun q => if (s.writeErr = false ∧ r ∈ s.byID.map (·.2)) then cancelM .write q else q := by
  rw [markBroken_eq]
  split
  · rename_i hw
    refine ⟨hw, fun r => ?_⟩
    simp [hw]
  · rename_i hw
    refine ⟨rfl, fun r => ?_⟩
    have hw : s.writeErr = false := by simpa using hw
    simp only [hw, true_and]
    exact cancelMetas_get .write s.byID s.metas r

/-- W2 of a call / notification: the explicit frame. -/
theorem w2_frame {s s0 : St} {w : Who} (hw : w.resp? = none) (h : step0 s (.w2 w) = some s0) :
    s0.cores = s.cores ∧ s0.byID = s.byID ∧ s0.metas = (markBroken s).metas ∧ s0.writeErr = true ∧
    ((∃ n c e, getCall s n = some c ∧ c.pc = .w2 e) ∨ (∃ nf e, getNotif s w = some nf ∧ nf.pc = .w2 e)) := by
  have hme := (markBroken_frame s).1
  simp only [step0] at h
  cases w <;> simp only [Who.resp?] at hw <;> simp only at h
  all_goals (repeat' (split at h))
  all_goals first
    | (cases h; done)
    | (cases hw; done)
    | (cases h
       refine ⟨by simp, by simp, by simp, by simp [hme], ?_⟩
       first
       | exact Or.inl ⟨_, _, _, ‹_›, ‹_›⟩
       | exact Or.inr ⟨_, _, ‹_›, ‹_›⟩)

theorem monreqs_w2 {m : Mon} {s s0 : St} {w : Who} {p : Obs} (mr : MonReqs m s) (hl : (Label.w2 w).reqLabel = false)
    (h : step0 s (.w2 w) = some s0) : MonReqs (m.book p (evOf (.w2 w))) s0 := by
  have hw : w.resp? = none := by cases w <;> simp [Label.reqLabel] at hl <;> rfl
  obtain ⟨b1, b2, b3, b4, b5, b6⟩ := book_nonreq m p hl (by intro id he; cases he)
  obtain ⟨wu, wx⟩ := w2_notifs h hl
  have wc := w2_calls h hl
  obtain ⟨f1, f2, f3, f4, f5⟩ := w2_frame hw h
  have hbs : m.brokenSeen = true := by
    rcases f5 with ⟨n, c, e, hc, hpc⟩ | ⟨nf, e, hn, hpc⟩
    · exact mr.bc n c e hc hpc
    · exact mr.bn w nf e hn hpc
  refine monreqs_frame mr (by rw [b1]) b2 b3 b4 f1 f2 (fun _ => f4) (fun _ => Or.inr (b4 hbs)) ?_ ?_
    (wc.mono b5) (wu.mono b5) (wx.mono b5)
  · refine hm_cancel (c := .write) (fun r => s.writeErr = false ∧ r ∈ s.byID.map (·.2)) (fun r => ?_) (by simp) (by simp) (by simp)
      (fun _ => f4)
    rw [f3]; exact (markBroken_frame s).2 r
  · intro r q' hq'; rw [b1] at hq'; exact ⟨q', hq', Or.inl rfl⟩


/-- K1: the explicit frame. -/
theorem k1_frame {s s0 : St} {id : Nat} (h : step0 s (.k1 id) = some s0) :
    s0.cores = s.cores ∧ s0.byID = s.byID ∧ s0.writeErr = s.writeErr ∧
    s0.metas = (match s.byID.lookup id with
      | some r => s.metas.modify r (cancelM .peer)
      | none => s.metas) := by
  simp only [step0] at h
  split at h
  · cases h
  · simp only [tail_byID] at h
    split at h
    · rename_i r hr
      cases h
      refine ⟨by simp, by simp, by simp, ?_⟩
      simp only [hr, cancelReq_eq, tail_metas]
    · rename_i hr
      cases h
      refine ⟨by simp, by simp, by simp, ?_⟩
      simp only [hr, tail_metas]

theorem monreqs_k1 {m : Mon} {s s0 : St} {id : Nat} {p : Obs} (mr : MonReqs m s)
    (h : step0 s (.k1 id) = some s0) : MonReqs (m.book p (evOf (.k1 id))) s0 := by
  have hl : (Label.k1 id).reqLabel = false := rfl
  obtain ⟨wu, wx⟩ := w2_notifs h hl
  have wc := w2_calls h hl
  have hnb : ¬ (Label.k1 id).isBrokenC := by rintro ⟨w, hw⟩; cases hw
  obtain ⟨f1, f2, f3, f4⟩ := k1_frame h
  have hidx := mr.idx
  simp only [evOf, Mon.book, hidx]
  cases hlk : s.byID.lookup id with
  | none =>
    simp only [hlk] at f4 ⊢
    refine monreqs_frame mr rfl rfl (fun h => h) (fun h => h) f1 f2 (by rw [f3]; exact fun h => h) (by rw [f3]; exact Or.inl) ?_ ?_
      (wc.mono (fun hb => absurd hb hnb)) (wu.mono (fun hb => absurd hb hnb)) (wx.mono (fun hb => absurd hb hnb))
    · intro r mt0 h0; rw [f4] at h0; exact ⟨mt0, h0, Or.inl rfl⟩
    · intro r q' hq'; exact ⟨q', hq', Or.inl rfl⟩
  | some r0 =>
    simp only [hlk] at f4 ⊢
    have hget : ∀ r, s0.metas[r]? = (s.metas[r]?).map fun q => if r0 = r then cancelM .peer q else q := by
      intro r; rw [f4, List.getElem?_modify]; rfl
    refine monreqs_frame mr (by simp [modR]) rfl (fun h => h) (fun h => h) f1 f2 (by rw [f3]; exact fun h => h) (by rw [f3]; exact Or.inl) ?_ ?_
      (wc.mono (fun hb => absurd hb hnb)) (wu.mono (fun hb => absurd hb hnb)) (wx.mono (fun hb => absurd hb hnb))
    · refine hm_cancel (c := .peer) (fun r => r0 = r) hget (by simp) ?_ (by simp) (by simp)
      intro _ r hr q' hq'
      subst hr
      rw [modR_reqs_get] at hq'
      cases hq0 : m.reqs[r0]? with
      | none => simp [hq0] at hq'
      | some q => simp [hq0] at hq'; subst hq'; rfl
    · intro r q' hq'
      rw [modR_reqs_get] at hq'
      cases hq0 : m.reqs[r]? with
      | none => simp [hq0] at hq'
      | some q =>
        refine ⟨q, rfl, ?_⟩
        simp only [hq0, Option.map_some, Option.some.injEq] at hq'
        split at hq'
        · rename_i hr; subst hr
          refine Or.inr ⟨hq'.symm, ?_⟩
          intro mt0 h0
          rw [hget] at h0
          cases hmt : s.metas[r0]? with
          | none => simp [hmt] at h0
          | some mt => simp [hmt] at h0; subst h0; exact cancelM_isSome _ _
        · exact Or.inl hq'.symm

set_option linter.unusedVariables false in
theorem _root_.Conn.monreqs_other {m : Mon} {s s0 : St} {l : Label} {p : Obs} (mr : MonReqs m s) (i : Inv4 s)
    (hp : p.shuttingDown = s.shuttingDown) (hl : l.reqLabel = false) (h : step0 s l = some s0) :
    MonReqs (m.book p (evOf l)) s0 := by
  by_cases hpl : l.plainC = true
  · exact monreqs_plain mr hl hpl h
  · cases l
    case k1 id => exact monreqs_k1 mr h
    case rx => exact monreqs_rx mr h
    case w2 w => exact monreqs_w2 mr hl h
    case wret w o => cases w <;> simp [Label.plainC, Label.reqLabel] at hpl hl
    case w1 w => cases w <;> simp [Label.plainC, Label.reqLabel] at hpl hl
    all_goals first
      | (simp [Label.plainC] at hpl; done)
      | (simp [Label.reqLabel] at hl; done)


end ReqsC
end Conn
