import McpModel.Conn.ObsLemmas
/-!
Preservation of the incoming-request part of `MonRel` (`MonReqs`) by the labels that do not act on
one incoming request (`Label.reqLabel = false`), by `settle` and by `Mon.mark`; and the two step
facts `running_new'` / `tc_step'` needed by the C03/C05 checks.
-/
namespace Conn

/-! ### settle -/

theorem settleCall_w2 {c : Call} {e : Err} (h : (settleCall c).pc = .w2 e) : c.pc = .w2 e := by
  unfold settleCall at h
  repeat' (split at h)
  all_goals first
    | exact h
    | (simp at h; done)
    | simp_all

@[simp] theorem settleWaiters_calls (s : St) : (settleWaiters s).calls = s.calls := by
  unfold settleWaiters; split <;> rfl
@[simp] theorem settleWaiters_unotifs (s : St) : (settleWaiters s).unotifs = s.unotifs := by
  unfold settleWaiters; split <;> rfl
@[simp] theorem settleWaiters_cnotifs (s : St) : (settleWaiters s).cnotifs = s.cnotifs := by
  unfold settleWaiters; split <;> rfl
@[simp] theorem settleWaiters_writeErr (s : St) : (settleWaiters s).writeErr = s.writeErr := by
  unfold settleWaiters; split <;> rfl

theorem settleDisp_eq (s : St) : ∃ d, settleDisp s = { s with disp := d } := by
  unfold settleDisp
  split
  · split
    · split
      · exact ⟨_, rfl⟩
      · exact ⟨s.disp, rfl⟩
    · exact ⟨s.disp, rfl⟩
  · exact ⟨s.disp, rfl⟩

theorem settle_frame (s : St) :
    (settle s).cores = s.cores ∧ (settle s).metas = s.metas ∧ (settle s).byID = s.byID ∧
    (settle s).writeErr = s.writeErr ∧ (settle s).unotifs = s.unotifs ∧ (settle s).cnotifs = s.cnotifs ∧
    (settle s).calls = s.calls.map settleCall := by
  unfold settle
  obtain ⟨d, hd⟩ := settleDisp_eq (settleWaiters (settleCalls s))
  rw [hd]
  simp [settleCalls]

theorem getNotif_congr {s s' : St} (h1 : s'.unotifs = s.unotifs) (h2 : s'.cnotifs = s.cnotifs) (w : Who) :
    getNotif s' w = getNotif s w := by
  cases w <;> simp [getNotif, h1, h2]

theorem monreqs_settle {m : Mon} {s0 : St} (mr : MonReqs m s0) : MonReqs m (settle s0) := by
  obtain ⟨hc, hm, hb, hw, hu, hx, hcl⟩ := settle_frame s0
  refine ⟨by rw [hc]; exact mr.nreqs, by rw [hb]; exact mr.idx, by rw [hm]; exact mr.rx, ?_, ?_,
    by rw [hc]; exact mr.bk, by rw [hw]; exact mr.bw, by rw [hm, hw]; exact mr.bx, by rw [hc, hm]; exact mr.req⟩
  · intro n c e hg hpc
    simp only [getCall_eq, hcl, List.getElem?_map] at hg
    split at hg
    · cases hg
    · rename_i hn
      cases hcc : s0.calls[n - 1]? with
      | none => simp [hcc] at hg
      | some c' =>
        simp [hcc] at hg; subst hg
        exact mr.bc n c' e (by simp [getCall_eq, hn, hcc]) (settleCall_w2 hpc)
  · intro w nf e hg hpc
    rw [getNotif_congr hu hx] at hg
    exact mr.bn w nf e hg hpc

/-! ### mark -/

theorem mark_reqs_get (m : Mon) (o : Obs) (r : Nat) :
    (m.mark o).reqs[r]? = (m.reqs[r]?).map fun q => if o.parked.contains (.h r) then { q with started := true } else q := by
  simp only [Mon.mark, List.getElem?_map, List.getElem?_zipIdx]
  cases m.reqs[r]? <;> simp

theorem monreqs_mark {m : Mon} {s : St} (mr : MonReqs m s) : MonReqs { m.mark (obsOf s) with prev := obsOf s } s := by
  refine ⟨?_, mr.idx, mr.rx, mr.bc, mr.bn, mr.bk, mr.bw, mr.bx, ?_⟩
  · simp [Mon.mark]; exact mr.nreqs
  · intro r q' k mt hq hk hmt
    have hq : (m.mark (obsOf s)).reqs[r]? = some q' := hq
    rw [mark_reqs_get] at hq
    cases hq0 : m.reqs[r]? with
    | none => simp [hq0] at hq
    | some q =>
      simp only [hq0, Option.map_some, Option.some.injEq] at hq
      have rr := mr.req r q k mt hq0 hk hmt
      split at hq
      · rename_i hc
        subst hq
        have hmem : PTok.h r ∈ (obsOf s).parked := by simpa using hc
        obtain ⟨k', hk', hrun⟩ := (mem_parked_h s r).mp hmem
        rw [hk] at hk'; cases hk'
        exact ⟨rr.id, rr.idk, rr.cancelKind, rr.kind, rr.dupa, rr.w1, rr.ok, rr.p1, fun _ => rr.run hrun, rr.run, rr.asyncd,
          rr.p2done, rr.late, rr.peer, rr.cpeer, rr.seen, rr.cfin⟩
      · subst hq; exact rr

end Conn
