import McpModel.Conn.ObsLemmas
/-!
Preservation of `MonReqs` (the incoming-request part of `MonRel`) by the labels
`read`, `a1`, `a2`, `d1`, `hasync`, `hret`.
-/
namespace Conn

set_option linter.unusedVariables false

/-! ### frame facts used below -/

theorem modify_id_A {α} (l : List α) (r : Nat) : l.modify r id = l := by
  apply List.ext_getElem?; intro j; simp only [List.getElem?_modify]; split <;> simp


@[simp] theorem tail_unotifs_A (s : St) : (tail s).unotifs = s.unotifs := by
  unfold tail finish closeTransport; repeat' split
  all_goals rfl

@[simp] theorem tail_cnotifs_A (s : St) : (tail s).cnotifs = s.cnotifs := by
  unfold tail finish closeTransport; repeat' split
  all_goals rfl

@[simp] theorem modMeta_unotifs_A (s : St) (r : Nat) (f : ReqMeta → ReqMeta) : (modMeta s r f).unotifs = s.unotifs := rfl
@[simp] theorem modMeta_cnotifs_A (s : St) (r : Nat) (f : ReqMeta → ReqMeta) : (modMeta s r f).cnotifs = s.cnotifs := rfl
@[simp] theorem modCore_unotifs_A (s : St) (r : Nat) (f : ReqCore → ReqCore) : (modCore s r f).unotifs = s.unotifs := rfl
@[simp] theorem modCore_cnotifs_A (s : St) (r : Nat) (f : ReqCore → ReqCore) : (modCore s r f).cnotifs = s.cnotifs := rfl
@[simp] theorem modCore_cores_A (s : St) (r : Nat) (f : ReqCore → ReqCore) : (modCore s r f).cores = s.cores.modify r f := rfl
@[simp] theorem modCore_metas_A (s : St) (r : Nat) (f : ReqCore → ReqCore) : (modCore s r f).metas = s.metas := rfl
@[simp] theorem modCore_byID_A (s : St) (r : Nat) (f : ReqCore → ReqCore) : (modCore s r f).byID = s.byID := rfl
@[simp] theorem modMeta_metas_A (s : St) (r : Nat) (f : ReqMeta → ReqMeta) : (modMeta s r f).metas = s.metas.modify r f := rfl

theorem beginPR_cores_A (s : St) (r : Nat) (own : Owner) :
    (beginPR s r own).cores = s.cores.modify r (fun k => { k with owner := own, pc := if k.isCall then .p1 else .p2 }) :=
  congrArg ReqView.cores (reqView_beginPR s r own)

@[simp] theorem beginPR_byID_A (s : St) (r : Nat) (own : Owner) : (beginPR s r own).byID = s.byID :=
  congrArg ReqView.byID (reqView_beginPR s r own)

@[simp] theorem beginPR_unotifs_A (s : St) (r : Nat) (own : Owner) : (beginPR s r own).unotifs = s.unotifs := by
  unfold beginPR; repeat' split
  all_goals rfl

@[simp] theorem beginPR_cnotifs_A (s : St) (r : Nat) (own : Owner) : (beginPR s r own).cnotifs = s.cnotifs := by
  unfold beginPR; repeat' split
  all_goals rfl

/-- What `beginPR` does to the context of request `r`: a call keeps it, a notification's context is
cancelled with cause `finished` (first cause wins). -/
def prMetaA (isCall : Bool) (q : ReqMeta) : ReqMeta :=
  if isCall then q else if q.cancelled.isSome then q else { q with cancelled := some .finished }

theorem beginPR_metas_A (s : St) (r : Nat) (own : Owner) (k : ReqCore) (hk : s.cores[r]? = some k) :
    (beginPR s r own).metas = s.metas.modify r (prMetaA k.isCall) := by
  unfold beginPR; rw [hk]; simp only
  cases hc : k.isCall
  · have : prMetaA false = fun q => if q.cancelled.isSome then q else { q with cancelled := some .finished } := by
      funext q; simp [prMetaA]
    rw [this]; simp only [toP2, cancelReq, modMeta, modCore]; simp
  · have : prMetaA true = id := by funext q; simp [prMetaA]
    rw [this, modify_id_A]; simp [modCore]

theorem getNotif_congr_A {s s' : St} (hu : s'.unotifs = s.unotifs) (hc : s'.cnotifs = s.cnotifs) (w : Who) :
    getNotif s' w = getNotif s w := by
  cases w <;> simp [getNotif, hu, hc]

theorem getCall_congr_A {s s' : St} (hc : s'.calls = s.calls) (n : Nat) : getCall s' n = getCall s n := by
  simp [getCall, hc]

/-! ### the generic single-request update -/

theorem modify_get_A {α} {l : List α} {r j : Nat} {g : α → α} {y : α} (h : (l.modify r g)[j]? = some y) :
    ∃ x, l[j]? = some x ∧ y = (if r = j then g x else x) := by
  rw [List.getElem?_modify] at h
  cases hj : l[j]? with
  | none => simp [hj] at h
  | some x => simp [hj] at h; exact ⟨x, rfl, h.symm⟩

/-- Single-request update of the `req` field. -/
theorem req_modify_A {m : Mon} {s : St} (mr : MonReqs m s) (r : Nat) (h : MReq → MReq) (g : ReqCore → ReqCore)
    (f : ReqMeta → ReqMeta) {reqs' : List MReq} {cores' : List ReqCore} {metas' : List ReqMeta}
    (hr : reqs' = m.reqs.modify r h) (hc : cores' = s.cores.modify r g) (hm : metas' = s.metas.modify r f)
    (hrel : ∀ q k mt, m.reqs[r]? = some q → s.cores[r]? = some k → s.metas[r]? = some mt → ReqRel q k mt →
      ReqRel (h q) (g k) (f mt)) :
    ∀ (j : Nat) (q : MReq) (k : ReqCore) (mt : ReqMeta), reqs'[j]? = some q → cores'[j]? = some k → metas'[j]? = some mt →
      ReqRel q k mt := by
  intro j q k mt hq hk hmt
  subst hr hc hm
  obtain ⟨q0, hq0, rfl⟩ := modify_get_A hq
  obtain ⟨k0, hk0, rfl⟩ := modify_get_A hk
  obtain ⟨mt0, hmt0, rfl⟩ := modify_get_A hmt
  by_cases hj : r = j
  · subst hj
    simp only [if_true]
    exact hrel q0 k0 mt0 hq0 hk0 hmt0 (mr.req r q0 k0 mt0 hq0 hk0 hmt0)
  · simp only [hj, if_false]
    exact mr.req j q0 k0 mt0 hq0 hk0 hmt0

/-- Single-request update of the whole of `MonReqs` for a step that touches neither the writers nor
`writeErr` and cancels (if at all) with cause `finished`. -/
theorem MonReqs.stepA_mod {m m' : Mon} {s s' : St} (mr : MonReqs m s) (r : Nat) (h : MReq → MReq)
    (g : ReqCore → ReqCore) (f : ReqMeta → ReqMeta)
    (hreqs : m'.reqs = m.reqs.modify r h) (hcores : s'.cores = s.cores.modify r g)
    (hmetas : s'.metas = s.metas.modify r f)
    (hidx : m'.idx = s'.byID)
    (hrxs : m.rxSeen = true → m'.rxSeen = true) (hbs : m.brokenSeen = true → m'.brokenSeen = true)
    (hwe : s'.writeErr = s.writeErr) (hcalls : s'.calls = s.calls) (hun : s'.unotifs = s.unotifs)
    (hcn : s'.cnotifs = s.cnotifs)
    (hg : ∀ k e, s.cores[r]? = some k → (g k).pc = .w2 e → k.pc = .w2 e)
    (hf : ∀ mt, s.metas[r]? = some mt → (f mt).cancelled = mt.cancelled ∨ (f mt).cancelled = some .finished)
    (hrel : ∀ q k mt, m.reqs[r]? = some q → s.cores[r]? = some k → s.metas[r]? = some mt → ReqRel q k mt →
      ReqRel (h q) (g k) (f mt)) : MonReqs m' s' := by
  have hcan : ∀ (j : Nat) (mt : ReqMeta) (c : Cause), s'.metas[j]? = some mt → mt.cancelled = some c → c ≠ .finished →
      ∃ mt0, s.metas[j]? = some mt0 ∧ mt0.cancelled = some c := by
    intro j mt c hmt hc hne
    rw [hmetas] at hmt
    obtain ⟨mt0, hmt0, rfl⟩ := modify_get_A hmt
    by_cases hj : r = j
    · subst hj
      simp only [if_true] at hc
      rcases hf mt0 hmt0 with h1 | h1
      · exact ⟨mt0, hmt0, by rw [← h1]; exact hc⟩
      · rw [h1] at hc; cases hc; exact absurd rfl hne
    · simp only [hj, if_false] at hc
      exact ⟨mt0, hmt0, hc⟩
  refine ⟨?_, hidx, ?_, ?_, ?_, ?_, ?_, ?_, ?_⟩
  · rw [hreqs, hcores, List.length_modify, List.length_modify]; exact mr.nreqs
  · intro j mt hmt hc
    obtain ⟨mt0, h0, h1⟩ := hcan j mt .read hmt hc (by simp)
    exact hrxs (mr.rx j mt0 h0 h1)
  · intro n c e hc hpc
    rw [getCall_congr_A hcalls] at hc
    exact hbs (mr.bc n c e hc hpc)
  · intro w nf e hn hpc
    rw [getNotif_congr_A hun hcn] at hn
    exact hbs (mr.bn w nf e hn hpc)
  · intro j k e hk hpc
    rw [hcores] at hk
    obtain ⟨k0, hk0, rfl⟩ := modify_get_A hk
    by_cases hj : r = j
    · subst hj
      simp only [if_true] at hpc
      exact hbs (mr.bk r k0 e hk0 (hg k0 e hk0 hpc))
    · simp only [hj, if_false] at hpc
      exact hbs (mr.bk j k0 e hk0 hpc)
  · intro hw; rw [hwe] at hw; exact hbs (mr.bw hw)
  · intro j mt hmt hc
    obtain ⟨mt0, h0, h1⟩ := hcan j mt .write hmt hc (by simp)
    rw [hwe]; exact mr.bx j mt0 h0 h1
  · exact req_modify_A mr r h g f hreqs hcores hmetas hrel

theorem modify_modify_A {α} (l : List α) (r : Nat) (f g : α → α) :
    (l.modify r f).modify r g = l.modify r (fun x => g (f x)) := by
  apply List.ext_getElem?; intro j
  simp only [List.getElem?_modify]
  by_cases hj : r = j
  · subst hj; cases l[r]? <;> simp
  · simp [hj]

/-- A step that changes nothing the relation looks at. -/
theorem MonReqs.stepA_same {m m' : Mon} {s s' : St} (mr : MonReqs m s)
    (hreqs : m'.reqs = m.reqs) (hcores : s'.cores = s.cores) (hmetas : s'.metas = s.metas)
    (hidx : m'.idx = s'.byID)
    (hrxs : m.rxSeen = true → m'.rxSeen = true) (hbs : m.brokenSeen = true → m'.brokenSeen = true)
    (hwe : s'.writeErr = s.writeErr) (hcalls : s'.calls = s.calls) (hun : s'.unotifs = s.unotifs)
    (hcn : s'.cnotifs = s.cnotifs) : MonReqs m' s' :=
  mr.stepA_mod 0 id id id (by rw [hreqs, modify_id_A]) (by rw [hcores, modify_id_A]) (by rw [hmetas, modify_id_A])
    hidx hrxs hbs hwe hcalls hun hcn (fun _ _ _ h => h) (fun _ _ => Or.inl rfl) (fun _ _ _ _ _ _ rr => rr)

/-! ### `ReqRel` under the moves of a request -/

/-- `ReqRel` looks only at `started`, `asyncCalled`, `cancelled`, `seen` of the meta data. -/
theorem ReqRel.meta_congr_A {q : MReq} {k : ReqCore} {mt mt' : ReqMeta} (rr : ReqRel q k mt)
    (h1 : mt'.started = mt.started) (h2 : mt'.asyncCalled = mt.asyncCalled) (h3 : mt'.cancelled = mt.cancelled)
    (h4 : mt'.seen = mt.seen) : ReqRel q k mt' :=
  ⟨rr.id, rr.idk, rr.cancelKind, rr.kind, rr.dupa, rr.w1, rr.ok, rr.p1, by rw [h1]; exact rr.st, by rw [h1]; exact rr.run,
    by rw [h2]; exact rr.asyncd, rr.p2done, rr.late, by rw [h3]; exact rr.peer, by rw [h3]; exact rr.cpeer,
    by rw [h4]; exact rr.seen, by rw [h3]; exact rr.cfin⟩

/-- Entering processResult (`beginPR`) from a pc before P1. -/
theorem ReqRel.toPR_A {q : MReq} {k : ReqCore} {mt : ReqMeta} (rr : ReqRel q k mt) (hpc : k.pc.afterP1 = false)
    (own : Owner) :
    ReqRel q { k with owner := own, pc := if k.isCall then .p1 else .p2 } (prMetaA k.isCall mt) := by
  obtain ⟨a1, a2, a3, a4, a5, a6, a7, a8, a9, a10, a11, a12, a13, a14, a15, a16, a17⟩ := rr
  have hnf : k.pc ≠ .fin := fun h => by rw [h] at hpc; cases hpc
  have hnp : k.pc ≠ .p2 := fun h => by rw [h] at hpc; cases hpc
  cases hc : k.isCall <;> cases hcan : mt.cancelled <;>
    constructor <;> simp_all [prMetaA, ReqPc.afterP1, ReqPc.inPR]

/-! ### the labels -/

theorem monreqs_hasync {m : Mon} {s s0 : St} {p : Obs} {r : Nat} (mr : MonReqs m s) (i : Inv4 s)
    (hp : p.shuttingDown = s.shuttingDown) (h : step0 s (.hasync r) = some s0) :
    MonReqs (m.book p (evOf (.hasync r))) s0 := by
  simp only [step0] at h
  split at h
  · split at h
    · cases h
    · cases h
      refine mr.stepA_mod r (fun q => { q with asyncd := true }) id
        (fun m => { m with asyncCalled := true, released := true }) rfl (modify_id_A _ _).symm rfl mr.idx id id rfl rfl rfl rfl
        (fun _ _ _ h => h) (fun _ _ => Or.inl rfl) ?_
      intro q k mt _ _ _ rr
      exact ⟨rr.id, rr.idk, rr.cancelKind, rr.kind, rr.dupa, rr.w1, rr.ok, rr.p1, rr.st, rr.run, rfl, rr.p2done, rr.late,
        rr.peer, rr.cpeer, rr.seen, rr.cfin⟩
  · cases h

theorem monreqs_hret {m : Mon} {s s0 : St} {p : Obs} {r : Nat} {e : Bool} (mr : MonReqs m s) (i : Inv4 s)
    (hp : p.shuttingDown = s.shuttingDown) (h : step0 s (.hret r e) = some s0) :
    MonReqs (m.book p (evOf (.hret r e))) s0 := by
  simp only [step0] at h
  split at h
  · cases h
  · rename_i k hk
    split at h
    · cases h
    · rename_i hpc
      have hpc : k.pc = .running := by simpa using hpc
      cases h
      refine mr.stepA_mod r id (fun k => { k with owner := .handler, pc := if k.isCall then .p1 else .p2 })
        (fun mt => prMetaA k.isCall { mt with ended := some (s.clock + 1) }) (modify_id_A _ _).symm ?_ ?_ ?_ id id ?_ ?_ ?_ ?_
        ?_ ?_ ?_
      · rw [beginPR_cores_A]; rfl
      · rw [beginPR_metas_A _ _ _ k (by simpa using hk)]; simp [modMeta, modify_modify_A]
      · simp; exact mr.idx
      · simp
      · simp
      · simp
      · simp
      · intro k0 e0 _ h0; simp only at h0; split at h0 <;> cases h0
      · intro mt _; simp only [prMetaA]; repeat' split
        all_goals simp
      · intro q k0 mt hq hk0 hmt rr
        rw [hk] at hk0; cases hk0
        exact (rr.meta_congr_A (mt' := { mt with ended := some (s.clock + 1) }) rfl rfl rfl rfl).toPR_A (by simp [hpc, ReqPc.afterP1]) _

theorem prMetaA_cancelled (c : Bool) (mt : ReqMeta) :
    (prMetaA c mt).cancelled = mt.cancelled ∨ (prMetaA c mt).cancelled = some .finished := by
  simp only [prMetaA]; repeat' split
  all_goals simp

theorem monreqs_d1 {m : Mon} {s s0 : St} {p : Obs} (mr : MonReqs m s) (i : Inv4 s)
    (hp : p.shuttingDown = s.shuttingDown) (h : step0 s .d1 = some s0) :
    MonReqs (m.book p (evOf .d1)) s0 := by
  have ri : RInv (reqView s) := i.base.base.base.reqs
  simp only [step0] at h
  split at h
  · cases h
  · split at h
    · cases h
      exact mr.stepA_same rfl (by simp) (by simp) (by simp; exact mr.idx) id id (by simp) (by simp) (by simp) (by simp)
    · rename_i r rest hqu
      have hrq : r ∈ (reqView s).queue := by simp [reqView, hqu]
      have hlen := ri.qr r hrq
      obtain ⟨k, hk⟩ : ∃ k, s.cores[r]? = some k := ⟨_, List.getElem?_eq_getElem hlen⟩
      have hpc : k.pc = .queued := (ri.ok r k hk).que.mpr hrq
      split at h
      · cases h
      · rename_i mt0 hmt0
        split at h
        · cases h
          refine mr.stepA_mod r id (fun k => { k with owner := .dispatcher, pc := if k.isCall then .p1 else .p2 })
            (prMetaA k.isCall) (modify_id_A _ _).symm ?_ ?_ ?_ id id ?_ ?_ ?_ ?_ ?_ ?_ ?_
          · rw [beginPR_cores_A]; simp
          · rw [beginPR_metas_A _ _ _ k (by simpa using hk)]; simp
          · simp; exact mr.idx
          · simp
          · simp
          · simp
          · simp
          · intro k0 e0 _ h0; simp only at h0; split at h0 <;> cases h0
          · intro mt _; exact prMetaA_cancelled _ _
          · intro q k0 mt hq hk0 hmt rr
            rw [hk] at hk0; cases hk0
            exact rr.toPR_A (by simp [hpc, ReqPc.afterP1]) _
        · cases h
          refine mr.stepA_mod r id (fun k => { k with pc := .running, owner := .handler })
            (fun mt => { mt with started := some ((tail { s with queue := rest }).clock + 1) })
            (modify_id_A _ _).symm ?_ ?_ ?_ id id ?_ ?_ ?_ ?_ ?_ ?_ ?_
          · simp
          · simp
          · simp; exact mr.idx
          · simp
          · simp
          · simp
          · simp
          · intro k0 e0 _ h0; cases h0
          · intro mt _; exact Or.inl rfl
          · intro q k0 mt hq hk0 hmt rr
            rw [hk] at hk0; cases hk0
            obtain ⟨a1, a2, a3, a4, a5, a6, a7, a8, a9, a10, a11, a12, a13, a14, a15, a16, a17⟩ := rr
            constructor <;> simp_all [ReqPc.afterP1, ReqPc.inPR]

theorem monreqs_a2 {m : Mon} {s s0 : St} {p : Obs} {r : Nat} (mr : MonReqs m s) (i : Inv4 s)
    (hp : p.shuttingDown = s.shuttingDown) (h : step0 s (.a2 r) = some s0) :
    MonReqs (m.book p (evOf (.a2 r))) s0 := by
  simp only [step0] at h
  split at h
  · cases h
  · rename_i k hk
    split at h
    · cases h
    · rename_i hpc
      have hpc : k.pc = .a2 := by simpa using hpc
      split at h
      · rename_i hsd
        cases h
        have hb : m.book p (evOf (.a2 r)) = modR m r fun q => { q with a2AfterShutdown := true } := by
          simp [evOf, Mon.book, hp, hsd]
        rw [hb]
        refine mr.stepA_mod r (fun q => { q with a2AfterShutdown := true })
          (fun k => { k with owner := .reader, pc := if k.isCall then .p1 else .p2 })
          (fun mt => prMetaA k.isCall { mt with rejected := true }) rfl ?_ ?_ ?_ id id ?_ ?_ ?_ ?_ ?_ ?_ ?_
        · simp [beginPR_cores_A]
        · rw [tail_metas, beginPR_metas_A _ _ _ k (by simpa using hk)]; simp [modify_modify_A]
        · simp [modR]; exact mr.idx
        · simp
        · simp
        · simp
        · simp
        · intro k0 e0 _ h0; simp only at h0; split at h0 <;> cases h0
        · intro mt _; exact prMetaA_cancelled _ _
        · intro q k0 mt hq hk0 hmt rr
          rw [hk] at hk0; cases hk0
          have := (rr.meta_congr_A (mt' := { mt with rejected := true }) rfl rfl rfl rfl).toPR_A
            (by simp [hpc, ReqPc.afterP1]) .reader
          obtain ⟨a1, a2, a3, a4, a5, a6, a7, a8, a9, a10, a11, a12, a13, a14, a15, a16, a17⟩ := this
          refine ⟨a1, a2, a3, a4, a5, a6, a7, a8, a9, a10, a11, a12, ?_, a14, a15, a16, a17⟩
          intro _; left; simp only; split <;> rfl
      · rename_i hsd
        have hb : m.book p (evOf (.a2 r)) = m := by
          simp [evOf, Mon.book, hp, hsd]
        rw [hb]
        have key : ∀ X : St, X.cores = s.cores → X.metas = s.metas → X.byID = s.byID → X.writeErr = s.writeErr →
            X.calls = s.calls → X.unotifs = s.unotifs → X.cnotifs = s.cnotifs →
            MonReqs m (tail (modCore X r fun q => { q with pc := .queued })) := by
          intro X h1 h2 h3 h4 h5 h6 h7
          refine mr.stepA_mod r id (fun k => { k with pc := .queued }) id (modify_id_A _ _).symm ?_ ?_ ?_ id id ?_ ?_ ?_ ?_
            ?_ ?_ ?_
          · simp [h1]
          · simp [h2]
          · simp [h3]; exact mr.idx
          · simp [h4]
          · simp [h5]
          · simp [h6]
          · simp [h7]
          · intro k0 e0 _ h0; cases h0
          · intro mt _; exact Or.inl rfl
          · intro q k0 mt hq hk0 hmt rr
            rw [hk] at hk0; cases hk0
            obtain ⟨a1, a2, a3, a4, a5, a6, a7, a8, a9, a10, a11, a12, a13, a14, a15, a16, a17⟩ := rr
            constructor <;> simp_all [ReqPc.afterP1, ReqPc.inPR]
        split at h <;> cases h
        · exact key _ rfl rfl rfl rfl rfl rfl rfl
        · have := key { s with queue := s.queue ++ [r], reader := .read, handlerRunning := true, disp := .d1 }
            rfl rfl rfl rfl rfl rfl rfl
          exact this

theorem monreqs_a1 {m : Mon} {s s0 : St} {p : Obs} {r : Nat} (mr : MonReqs m s) (i : Inv4 s)
    (hp : p.shuttingDown = s.shuttingDown) (h : step0 s (.a1 r) = some s0) :
    MonReqs (m.book p (evOf (.a1 r))) s0 := by
  have di : DInv (dview s) := i.base.base.disp
  simp only [step0] at h
  split at h
  · cases h
  · rename_i k hk
    split at h
    · cases h
    · rename_i hpc
      have hpc : k.pc = .a1 := by simpa using hpc
      have hlen : r < s.cores.length := (List.getElem?_eq_some_iff.mp hk).1
      obtain ⟨q, hq⟩ : ∃ q, m.reqs[r]? = some q := ⟨_, List.getElem?_eq_getElem (by rw [mr.nreqs]; exact hlen)⟩
      have hml : s.metas.length = s.cores.length := by have := di.lens; simpa [dview] using this
      obtain ⟨mt, hmt⟩ : ∃ mt, s.metas[r]? = some mt := ⟨_, List.getElem?_eq_getElem (by rw [hml]; exact hlen)⟩
      have rr := mr.req r q k mt hq hk hmt
      have hdup : q.dup = false := by
        cases hd : q.dup with
        | false => rfl
        | true => exact absurd hpc (rr.dupa hd)
      have hcall : k.isCall = k.id.isSome := by
        rw [rr.kind, rr.idk, hdup, rr.id]; simp
      split at h
      · rename_i wid hid hcl
        have hqid : q.id = some wid := by rw [rr.id]; exact hid
        split at h
        · rename_i hlk
          cases h
          have hb : m.book p (evOf (.a1 r)) = modR m r fun q => { q with dup := true } := by
            have : (m.idx.lookup wid).isSome = true := by rw [mr.idx]; exact hlk
            simp [evOf, Mon.book, hq, hqid, this]
          rw [hb]
          refine mr.stepA_mod r (fun q => { q with dup := true })
            (fun k => { k with isCall := false, owner := .reader, pc := .p2 })
            (fun mt => prMetaA false { mt with rejected := true }) rfl ?_ ?_ ?_ id id ?_ ?_ ?_ ?_ ?_ ?_ ?_
          · simp [beginPR_cores_A, modify_modify_A]
          · rw [tail_metas, beginPR_metas_A _ _ _ { k with isCall := false } (by simp [hk])]; simp [modify_modify_A]
          · simp [modR]; exact mr.idx
          · simp
          · simp
          · simp
          · simp
          · intro k0 e0 _ h0; cases h0
          · intro mt _; exact prMetaA_cancelled _ _
          · intro q0 k0 mt0 hq0 hk0 hmt0 rr0
            rw [hk] at hk0; cases hk0
            obtain ⟨a1, a2, a3, a4, a5, a6, a7, a8, a9, a10, a11, a12, a13, a14, a15, a16, a17⟩ := rr0
            cases hcan : mt0.cancelled <;> constructor <;> simp_all [prMetaA, ReqPc.afterP1, ReqPc.inPR]
        · rename_i hlk
          have hb : m.book p (evOf (.a1 r)) = { m with idx := m.idx ++ [(wid, r)] } := by
            have : (m.idx.lookup wid).isSome = false := by
              rw [mr.idx]; cases hx : (s.byID.lookup wid).isSome <;> simp_all
            simp [evOf, Mon.book, hq, hqid, this]
          rw [hb]
          split at h
          · cases h
            refine mr.stepA_mod r id
              (fun k => { k with owner := .reader, pc := if k.isCall then .p1 else .p2 })
              (fun mt => prMetaA k.isCall { mt with rejected := true }) (modify_id_A _ _).symm ?_ ?_ ?_ id id ?_ ?_ ?_ ?_ ?_ ?_ ?_
            · simp [beginPR_cores_A]
            · rw [tail_metas, beginPR_metas_A _ _ _ k (by simp [hk])]; simp [modify_modify_A]
            · simp; rw [mr.idx]
            · simp
            · simp
            · simp
            · simp
            · intro k0 e0 _ h0; simp only at h0; split at h0 <;> cases h0
            · intro mt _; exact prMetaA_cancelled _ _
            · intro q0 k0 mt0 hq0 hk0 hmt0 rr0
              rw [hk] at hk0; cases hk0
              exact (rr0.meta_congr_A (mt' := { mt0 with rejected := true }) rfl rfl rfl rfl).toPR_A
                (by simp [hpc, ReqPc.afterP1]) .reader
          · cases h
            refine mr.stepA_mod r id (fun k => { k with pc := .a2 }) (fun mt => { mt with seen := true })
              (modify_id_A _ _).symm ?_ ?_ ?_ id id ?_ ?_ ?_ ?_ ?_ ?_ ?_
            · simp
            · simp
            · simp; rw [mr.idx]
            · simp
            · simp
            · simp
            · simp
            · intro k0 e0 _ h0; cases h0
            · intro mt _; exact Or.inl rfl
            · intro q0 k0 mt0 hq0 hk0 hmt0 rr0
              rw [hk] at hk0; cases hk0
              obtain ⟨a1, a2, a3, a4, a5, a6, a7, a8, a9, a10, a11, a12, a13, a14, a15, a16, a17⟩ := rr0
              constructor <;> simp_all [ReqPc.afterP1, ReqPc.inPR]
      · rename_i hnc
        have hkid : k.id = none := by
          cases hid : k.id with
          | none => rfl
          | some id => exact absurd (by rw [hcall, hid]; rfl) (hnc id hid)
        have hb : m.book p (evOf (.a1 r)) = m := by
          have : q.id = none := by rw [rr.id]; exact hkid
          simp [evOf, Mon.book, hq, this]
        rw [hb]
        cases h
        have key : ∀ X : St, X.cores = s.cores → X.metas = s.metas → X.byID = s.byID → X.writeErr = s.writeErr →
            X.calls = s.calls → X.unotifs = s.unotifs → X.cnotifs = s.cnotifs →
            MonReqs m (tail (modMeta (modCore X r fun q => { q with pc := .a2 }) r fun m => { m with seen := true })) := by
          intro X h1 h2 h3 h4 h5 h6 h7
          refine mr.stepA_mod r id (fun k => { k with pc := .a2 }) (fun mt => { mt with seen := true })
            (modify_id_A _ _).symm ?_ ?_ ?_ id id ?_ ?_ ?_ ?_ ?_ ?_ ?_
          · simp [h1]
          · simp [h2]
          · simp [h3]; exact mr.idx
          · simp [h4]
          · simp [h5]
          · simp [h6]
          · simp [h7]
          · intro k0 e0 _ h0; cases h0
          · intro mt _; exact Or.inl rfl
          · intro q0 k0 mt0 hq0 hk0 hmt0 rr0
            rw [hk] at hk0; cases hk0
            obtain ⟨a1, a2, a3, a4, a5, a6, a7, a8, a9, a10, a11, a12, a13, a14, a15, a16, a17⟩ := rr0
            constructor <;> simp_all [ReqPc.afterP1, ReqPc.inPR]
        split <;> exact key _ rfl rfl rfl rfl rfl rfl rfl

theorem append_get_A {α} {l : List α} {a y : α} {j : Nat} (h : (l ++ [a])[j]? = some y) :
    l[j]? = some y ∨ (j = l.length ∧ y = a) := by
  rw [List.getElem?_append] at h
  split at h
  · exact Or.inl h
  · rename_i hlt
    by_cases h0 : j - l.length = 0
    · rw [h0] at h; simp at h; exact Or.inr ⟨by omega, h.symm⟩
    · have : ([a])[j - l.length]? = none := by apply List.getElem?_eq_none; simp; omega
      rw [this] at h; cases h

/-- A new request arrives. -/
theorem MonReqs.stepA_append {m m' : Mon} {s s' : St} (mr : MonReqs m s) (hml : s.metas.length = s.cores.length)
    (q : MReq) (k : ReqCore) (mt : ReqMeta)
    (hreqs : m'.reqs = m.reqs ++ [q]) (hcores : s'.cores = s.cores ++ [k]) (hmetas : s'.metas = s.metas ++ [mt])
    (hidx : m'.idx = s'.byID)
    (hrxs : m.rxSeen = true → m'.rxSeen = true) (hbs : m.brokenSeen = true → m'.brokenSeen = true)
    (hwe : s'.writeErr = s.writeErr) (hcalls : s'.calls = s.calls) (hun : s'.unotifs = s.unotifs)
    (hcn : s'.cnotifs = s.cnotifs)
    (hk : ∀ e, k.pc ≠ .w2 e) (hmt : mt.cancelled = none) (hrel : ReqRel q k mt) : MonReqs m' s' := by
  refine ⟨?_, hidx, ?_, ?_, ?_, ?_, ?_, ?_, ?_⟩
  · rw [hreqs, hcores]; simp [mr.nreqs]
  · intro j mt' hj hc
    rw [hmetas] at hj
    rcases append_get_A hj with h0 | ⟨_, rfl⟩
    · exact hrxs (mr.rx j mt' h0 hc)
    · rw [hmt] at hc; cases hc
  · intro n c e hc hpc
    rw [getCall_congr_A hcalls] at hc
    exact hbs (mr.bc n c e hc hpc)
  · intro w nf e hn hpc
    rw [getNotif_congr_A hun hcn] at hn
    exact hbs (mr.bn w nf e hn hpc)
  · intro j k' e hj hpc
    rw [hcores] at hj
    rcases append_get_A hj with h0 | ⟨_, rfl⟩
    · exact hbs (mr.bk j k' e h0 hpc)
    · exact absurd hpc (hk e)
  · intro hw; rw [hwe] at hw; exact hbs (mr.bw hw)
  · intro j mt' hj hc
    rw [hmetas] at hj
    rcases append_get_A hj with h0 | ⟨_, rfl⟩
    · rw [hwe]; exact mr.bx j mt' h0 hc
    · rw [hmt] at hc; cases hc
  · intro j q' k' mt' hq' hk' hmt'
    rw [hreqs] at hq'; rw [hcores] at hk'; rw [hmetas] at hmt'
    rcases append_get_A hk' with h1 | ⟨h1, rfl⟩
    · have hlt : j < s.cores.length := (List.getElem?_eq_some_iff.mp h1).1
      rcases append_get_A hq' with h2 | ⟨h2, _⟩
      · rcases append_get_A hmt' with h3 | ⟨h3, _⟩
        · exact mr.req j q' k' mt' h2 h1 h3
        · omega
      · have := mr.nreqs; omega
    · rcases append_get_A hq' with h2 | ⟨_, rfl⟩
      · have hlt : j < m.reqs.length := (List.getElem?_eq_some_iff.mp h2).1
        have := mr.nreqs; omega
      · rcases append_get_A hmt' with h3 | ⟨_, rfl⟩
        · have hlt : j < s.metas.length := (List.getElem?_eq_some_iff.mp h3).1
          omega
        · exact hrel

theorem monreqs_read {m : Mon} {s s0 : St} {p : Obs} {msg : RMsg} (mr : MonReqs m s) (i : Inv4 s)
    (hp : p.shuttingDown = s.shuttingDown) (h : step0 s (.read msg) = some s0) :
    MonReqs (m.book p (evOf (.read msg))) s0 := by
  have di : DInv (dview s) := i.base.base.disp
  have hml : s.metas.length = s.cores.length := by have := di.lens; simpa [dview] using this
  simp only [step0] at h
  split at h
  · cases h
  · cases msg <;> simp only at h <;> cases h
    · rename_i wid
      refine mr.stepA_append hml { id := some wid, isNotif := false } { id := some wid, isCall := true } {} rfl rfl rfl mr.idx
        id id rfl rfl rfl rfl (fun e h => by cases h) rfl ?_
      constructor <;> simp [ReqPc.afterP1, ReqPc.inPR]
    · refine mr.stepA_append hml {} {} {} rfl rfl rfl mr.idx
        id id rfl rfl rfl rfl (fun e h => by cases h) rfl ?_
      constructor <;> simp [ReqPc.afterP1, ReqPc.inPR]
    · rename_i wid
      refine mr.stepA_append hml { isCancel := true } {} { cancelTarget := some wid } rfl rfl rfl mr.idx
        id id rfl rfl rfl rfl (fun e h => by cases h) rfl ?_
      constructor <;> simp [ReqPc.afterP1, ReqPc.inPR]
    · exact mr.stepA_same rfl rfl rfl mr.idx id id rfl rfl rfl rfl
    · exact mr.stepA_same rfl rfl rfl mr.idx id id rfl rfl rfl rfl

end Conn
