import McpModel.Conn.ObsLemmas
/-!
Preservation of the outgoing-call part of `MonRel` by every step of the model, and the step facts
about calls that the C01/C04 checks need.
-/
namespace Conn

/-- `done` is never reopened. -/
theorem done_stable {s s' : St} {l : Label} (h : step s l = some s') (hd : s.done = true) : s'.done = true := by
  sorry

/-- A finished call keeps its result for ever. -/
theorem callFin_step {s s' : St} {l : Label} (h : step s l = some s') {n : Nat} {r : RTok}
    (hf : callFin s n = some r) : callFin s' n = some r := by
  sorry

/-- Cancelling the context of a call: the caller was parked (not blocked on the peer), or it is now
parked before its eager Retire, or it has finished. -/
theorem ectx_unblocks {s s' : St} {n : Nat} (i : Inv4 s) (h : step s (.ectx n) = some s') :
    ∃ c, getCall s n = some c ∧
      (c.pc.parked = true ∨ (∃ c', getCall s' n = some c' ∧ c'.pc = .rc) ∨ (callFin s' n).isSome = true) := by
  sorry

theorem moncalls_step {m : Mon} {s s' : St} {l : Label} {p : Obs} (mc : MonCalls m s) (i : Inv4 s)
    (hp : p.done = s.done) (h : step s l = some s') : MonCalls (m.book p (evOf l)) s' := by
  sorry

theorem moncalls_mark {m : Mon} {s : St} (mc : MonCalls m s) (o : Obs) : MonCalls { m.mark o with prev := o } s :=
  ⟨mc.ncalls, mc.sent, mc.sentRR, mc.ctxd, mc.late⟩

end Conn
