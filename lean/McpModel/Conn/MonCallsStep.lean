import McpModel.Conn.ObsLemmas
/-!
Preservation of the outgoing-call part of `MonRel` by every step of the model, and the step facts
about calls that the C01/C04 checks need.
-/
namespace Conn
set_option linter.unusedSimpArgs false

/-! Helper lemmas live in `Conn.CallsStep` (to avoid name clashes with sibling files); the stated
lemmas are at the end of the file, in `Conn`. -/
namespace CallsStep

/-! ### `done` is monotone -/

theorem FV.tail_done {v : FV} (h : v.done = true) : v.tail.done = true := by
  unfold FV.tail; simp only [h, if_true]; split <;> simp [h]

theorem fview_done (s : St) : (fview s).done = s.done := rfl

theorem tail_done {s : St} (h : s.done = true) : (tail s).done = true := by
  rw [← fview_done, fview_tail]; exact FV.tail_done h

@[simp] theorem modCall_done (s : St) (n : Nat) (f : Call → Call) : (modCall s n f).done = s.done := rfl
@[simp] theorem modCore_done (s : St) (r : Nat) (f : ReqCore → ReqCore) : (modCore s r f).done = s.done := rfl
@[simp] theorem modMeta_done (s : St) (r : Nat) (f : ReqMeta → ReqMeta) : (modMeta s r f).done = s.done := rfl
@[simp] theorem beginPR_done (s : St) (r : Nat) (o : Owner) : (beginPR s r o).done = s.done :=
  congrArg FV.done (fview_beginPR s r o)
@[simp] theorem afterP2_done (s : St) (r : Nat) (o : Owner) : (afterP2 s r o).done = s.done := by
  cases o <;> rfl
@[simp] theorem retireIn_done (s : St) (n : Nat) (r : Res) : (retireIn s n r).done = s.done :=
  congrArg FV.done (fview_retireIn s n r)
@[simp] theorem foldl_retire_done (l : List Nat) (r : Res) (s : St) :
    (l.foldl (fun s n => retireIn s n r) s).done = s.done := congrArg FV.done (fview_foldl_retire l r s)
@[simp] theorem foldl_cancel_done (l : List (Nat × Nat)) (c : Cause) (s : St) :
    (l.foldl (fun s p => cancelReq s p.2 c) s).done = s.done := congrArg FV.done (fview_foldl_cancel l c s)
@[simp] theorem settle_done (s : St) : (settle s).done = s.done := congrArg FV.done (fview_settle s)

set_option maxRecDepth 8000 in
theorem step0_done {s s' : St} {l : Label} (h : step0 s l = some s') (hd : s.done = true) : s'.done = true := by
  cases l
  case retire n =>
    simp only [step0] at h
    repeat' (split at h)
    all_goals first
      | (simp at h; done)
      | (injection h with h; subst h; simp only [modCall_done]; apply tail_done; first | exact hd | (simp only [retireIn_done]; exact hd))
  case rx =>
    simp only [step0] at h
    split at h
    · cases h
    · injection h with h; subst h; apply tail_done; simp only [foldl_cancel_done, foldl_retire_done]; exact hd
  case d1 =>
    simp only [step0] at h
    repeat' (split at h)
    all_goals first
      | (simp at h; done)
      | (injection h with h; subst h; (try simp only [modCall_done, modCore_done, modMeta_done, beginPR_done]); apply tail_done; exact hd)
  case p2 r =>
    simp only [step0] at h
    repeat' (split at h)
    all_goals first
      | (simp at h; done)
      | (injection h with h; subst h; simp only [afterP2_done, modCall_done, modCore_done, modMeta_done, beginPR_done]; apply tail_done; exact hd)
  all_goals
    rw [← fview_done] at hd ⊢
    simp only [step0] at h
  all_goals (repeat' (split at h))
  all_goals first
    | (simp at h; done)
    | (injection h with h; subst h
       first
       | exact hd
       | (simp only [fview_tail, fview_modCall, fview_modCore, fview_modMeta, fview_cancelReq, fview_toP2, fview_setNotif,
            fview_beginPR, fview_retireIn, fview_markBroken, fview_foldl_cancel]
          first
          | exact hd
          | exact FV.tail_done hd
          | (apply FV.tail_done; exact hd)))

/-! ### what a step does to one call record -/

/-- What `ac.retire` may do to a call record: only `ready` (and the ghost counter) move, and `ready`
only from `none` to `some`. -/
structure Adv (c c' : Call) : Prop where
  pc : c'.pc = c.pc
  result : c'.result = c.result
  ctx : c'.ctxDone = c.ctxDone
  ready : ∀ x, c.ready = some x → c'.ready = some x

theorem Adv.refl (c : Call) : Adv c c := ⟨rfl, rfl, rfl, fun _ h => h⟩

theorem Adv.trans {a b c : Call} (h1 : Adv a b) (h2 : Adv b c) : Adv a c :=
  ⟨h2.pc.trans h1.pc, h2.result.trans h1.result, h2.ctx.trans h1.ctx, fun x h => h2.ready x (h1.ready x h)⟩

theorem adv_retireCall (c : Call) (r : Res) : Adv c (retireCall c r).1 := by
  unfold retireCall
  cases h : c.ready <;> simp [h] <;> exact ⟨rfl, rfl, rfl, by simp [h]⟩

theorem getCall_congr {s1 s2 : St} (h : s1.calls = s2.calls) (n : Nat) : getCall s1 n = getCall s2 n := by
  simp [getCall_eq, h]

theorem getCall_retireIn' (s : St) (n m : Nat) (r : Res) :
    getCall (retireIn s n r) m = if m = n then (getCall s n).map (fun c => (retireCall c r).1) else getCall s m := by
  unfold retireIn
  cases hc : getCall s n with
  | none =>
    by_cases hmn : m = n
    · subst hmn; simp [hc]
    · simp [hmn]
  | some c =>
    have hn := (getCall_some_pos hc).1
    have key : getCall (modCall s n fun _ => (retireCall c r).1) m =
        if m = n then some (retireCall c r).1 else getCall s m := by
      rw [getCall_modCall _ _ _ _ hn, hc]; rfl
    simp only [Option.map_some]
    rw [← key]
    split <;> exact getCall_congr rfl m

theorem retireIn_length (s : St) (n : Nat) (r : Res) : (retireIn s n r).calls.length = s.calls.length := by
  unfold retireIn
  split
  · rfl
  · simp only []; split <;> simp [modCall]

theorem foldl_retire_length (l : List Nat) (r : Res) (s : St) :
    (l.foldl (fun s n => retireIn s n r) s).calls.length = s.calls.length := by
  induction l generalizing s with
  | nil => rfl
  | cons a t ih => simp [List.foldl, ih, retireIn_length]

theorem retireIn_adv {s : St} {m : Nat} {c : Call} (n : Nat) (r : Res) (hc : getCall s m = some c) :
    ∃ c', getCall (retireIn s n r) m = some c' ∧ Adv c c' := by
  rw [getCall_retireIn']
  by_cases hmn : m = n
  · subst hmn; simp only [if_true, hc, Option.map_some]; exact ⟨_, rfl, adv_retireCall c r⟩
  · simp only [hmn, if_false]; exact ⟨c, hc, Adv.refl c⟩

theorem foldl_retire_adv (l : List Nat) (r : Res) {s : St} {m : Nat} {c : Call} (hc : getCall s m = some c) :
    ∃ c', getCall (l.foldl (fun s n => retireIn s n r) s) m = some c' ∧ Adv c c' := by
  induction l generalizing s c with
  | nil => exact ⟨c, hc, Adv.refl c⟩
  | cons a t ih =>
    obtain ⟨c1, h1, a1⟩ := retireIn_adv a r hc
    obtain ⟨c2, h2, a2⟩ := ih h1
    exact ⟨c2, h2, a1.trans a2⟩

theorem foldl_cancel_calls (l : List (Nat × Nat)) (c : Cause) (s : St) :
    (l.foldl (fun s p => cancelReq s p.2 c) s).calls = s.calls :=
  congrArg CallView.calls (callView_foldl_cancel l c s)

/-- What one label may do to the record of call `n` (`sd`: the connection was shutting down). -/
structure CallStep (l : Label) (sd : Bool) (n : Nat) (c c' : Call) : Prop where
  fin : c.pc = .fin → c'.pc = .fin ∧ c'.result = c.result
  ready : ∀ x, c.ready = some x → c'.ready = some x
  ctxF : c.ctxDone = true → c'.ctxDone = true
  ctxB : c'.ctxDone = true → c.ctxDone = true ∨ l = .ectx n
  c1 : c.pc = .c1 → c'.pc = .c1 ∨
    (l = .c1 n ∧ (sd = true → c.ready = none → c'.ready = some (.err .clientClosing)))

theorem CallStep.of_adv {l : Label} {sd : Bool} {n : Nat} {c c' : Call} (a : Adv c c') : CallStep l sd n c c' :=
  ⟨fun h => ⟨a.pc.trans h, a.result⟩, a.ready, fun h => a.ctx.trans h, fun h => Or.inl (a.ctx.symm.trans h),
   fun h => Or.inl (a.pc.trans h)⟩

theorem CallStep.of_mid {l : Label} {sd : Bool} {n : Nat} {c c' : Call} (h1 : c.pc ≠ .fin) (h2 : c.pc ≠ .c1)
    (hr : ∀ x, c.ready = some x → c'.ready = some x) (hctx : c'.ctxDone = c.ctxDone) : CallStep l sd n c c' :=
  ⟨fun h => absurd h h1, hr, fun h => hctx.trans h, fun h => Or.inl (hctx.symm.trans h), fun h => absurd h h2⟩

/-- The generic shape of a call-touching label: some retires (`Adv`), then one record is rewritten. -/
theorem modCall_callStep {s1 s0 : St} {k n : Nat} {c c1 : Call} (f : Call → Call) (l : Label) (sd : Bool)
    (hk : 1 ≤ k) (hs0 : s0.calls = (modCall s1 k f).calls)
    (h1 : getCall s1 n = some c1) (hadv : Adv c c1)
    (hf : n = k → CallStep l sd n c (f c1)) :
    ∃ c', getCall s0 n = some c' ∧ CallStep l sd n c c' := by
  rw [getCall_congr hs0, getCall_modCall _ _ _ _ hk]
  by_cases hnk : n = k
  · subst hnk; simp only [if_true, h1, Option.map_some]; exact ⟨_, rfl, hf rfl⟩
  · simp only [hnk, if_false]; exact ⟨c1, h1, CallStep.of_adv hadv⟩


theorem step0_call_touch {s s0 : St} {l : Label} (h : step0 s l = some s0) (hl : l.touchesCalls = true)
    {n : Nat} {c : Call} (hc : getCall s n = some c) :
    ∃ c', getCall s0 n = some c' ∧ CallStep l s.shuttingDown n c c' := by
  cases l <;> simp [Label.touchesCalls] at hl <;> simp only [step0] at h
  case ecall =>
    cases h
    refine ⟨c, ?_, CallStep.of_adv (Adv.refl c)⟩
    have hp := getCall_some_pos hc
    have h0 := calls_get hc
    have hn : n ≠ 0 := by omega
    simp only [getCall_eq, hn, if_false]
    rw [List.getElem?_append_left (by omega)]; exact h0
  case ecallbad =>
    cases h
    refine ⟨c, ?_, CallStep.of_adv (Adv.refl c)⟩
    have hp := getCall_some_pos hc
    have h0 := calls_get hc
    have hn : n ≠ 0 := by omega
    simp only [getCall_eq, hn, if_false]
    rw [List.getElem?_append_left (by omega)]; exact h0
  case ectx k =>
    split at h
    · cases h
    · rename_i ck hk
      split at h
      · cases h
      · cases h
        refine modCall_callStep _ _ _ (getCall_some_pos hk).1 rfl hc (Adv.refl c) ?_
        intro hnk; subst hnk
        exact ⟨fun h => ⟨h, rfl⟩, fun _ h => h, fun _ => rfl, fun _ => Or.inr rfl, fun h => Or.inl h⟩
  case wret w o =>
    cases w <;> simp [Label.touchesCalls] at hl
    rename_i k
    simp only at h
    split at h
    · cases h
    · rename_i ck hk
      split at h
      · cases h
      · rename_i hpc
        have hpc : ck.pc = .wr := by simpa using hpc
        have hmid : n = k → c.pc ≠ .fin ∧ c.pc ≠ .c1 := by
          intro hnk; subst hnk; rw [hc] at hk; cases hk; simp [hpc]
        split at h <;> first
          | (cases h; done)
          | (cases h
             refine modCall_callStep _ _ _ (getCall_some_pos hk).1 rfl hc (Adv.refl c) ?_
             intro hnk
             exact CallStep.of_mid (hmid hnk).1 (hmid hnk).2 (fun _ h => h) rfl)
  case w1 w =>
    cases w <;> simp [Label.touchesCalls] at hl
    rename_i k
    simp only at h
    split at h
    · cases h
    · rename_i ck hk
      split at h
      · cases h
      · rename_i hpc
        have hpc : ck.pc = .w1 := by simpa using hpc
        have hmid : n = k → c.pc ≠ .fin ∧ c.pc ≠ .c1 := by
          intro hnk; subst hnk; rw [hc] at hk; cases hk; simp [hpc]
        split at h <;>
          (cases h
           refine modCall_callStep _ _ _ (getCall_some_pos hk).1 (tail_calls _) hc (Adv.refl c) ?_
           intro hnk
           exact CallStep.of_mid (hmid hnk).1 (hmid hnk).2 (fun _ h => h) rfl)
  case w2 w =>
    cases w <;> simp [Label.touchesCalls] at hl
    rename_i k
    simp only at h
    split at h
    · cases h
    · rename_i ck hk
      split at h
      · rename_i e hpc
        have hmid : n = k → c.pc ≠ .fin ∧ c.pc ≠ .c1 := by
          intro hnk; subst hnk; rw [hc] at hk; cases hk; simp [hpc]
        cases h
        refine modCall_callStep (s1 := markBroken s) _ _ _ (getCall_some_pos hk).1 (tail_calls _)
          ((getCall_congr (markBroken_calls s) n).trans hc) (Adv.refl c) ?_
        intro hnk
        exact CallStep.of_mid (hmid hnk).1 (hmid hnk).2 (fun _ h => h) rfl
      · cases h
  case c1 k =>
    split at h
    · cases h
    · rename_i ck hk
      have hkp := (getCall_some_pos hk).1
      split at h
      · cases h
      · rename_i hpc
        have hpc : ck.pc = .c1 := by simpa using hpc
        split at h
        · rename_i hsd
          cases h
          rw [getCall_retireIn', getCall_modCall _ _ _ _ hkp, getCall_modCall _ _ _ _ hkp]
          by_cases hnk : n = k
          · subst hnk
            simp only [if_true, getCall_tail, hc, Option.map_some]
            refine ⟨_, rfl, ?_⟩
            rw [hc] at hk; cases hk
            have a := adv_retireCall { c with pc := .await } (.err .clientClosing)
            refine ⟨fun h => by simp [hpc] at h, a.ready, fun h => a.ctx.trans h, fun h => Or.inl (a.ctx.symm.trans h), ?_⟩
            intro _; right
            refine ⟨rfl, fun _ hr => ?_⟩
            simp [retireCall, hr]
          · simp only [hnk, if_false, getCall_tail]
            exact ⟨c, hc, CallStep.of_adv (Adv.refl c)⟩
        · rename_i hns
          cases h
          refine modCall_callStep (s1 := { s with outCalls := s.outCalls ++ [k] }) _ _ _ hkp (tail_calls _)
            hc (Adv.refl c) ?_
          intro hnk; subst hnk
          rw [hc] at hk; cases hk
          refine ⟨fun h => by simp [hpc] at h, fun _ h => h, fun h => h, fun h => Or.inl h, ?_⟩
          intro _; right
          refine ⟨rfl, fun hsd => ?_⟩
          exact absurd hsd hns
  case rresp =>
    split at h
    · rename_i id p hrd
      cases h
      simp only [getCall_tail]
      split
      · obtain ⟨c', h', a⟩ := retireIn_adv (s := { s with reader := .read, respLog := s.respLog ++ [(id, p)], outCalls := s.outCalls.erase id }) id (.resp p) hc
        exact ⟨c', h', CallStep.of_adv a⟩
      · exact ⟨c, hc, CallStep.of_adv (Adv.refl c)⟩
    · cases h
  case rx =>
    split at h
    · cases h
    · cases h
      obtain ⟨c', h', a⟩ := foldl_retire_adv s.outCalls (.err .read)
        (s := { s with reader := .gone, reading := false, readErr := true }) hc
      refine ⟨c', ?_, CallStep.of_adv a⟩
      rw [← h']
      apply getCall_congr
      rw [tail_calls, foldl_cancel_calls]
  case retire k =>
    split at h
    · cases h
    · rename_i ck hk
      have hkp := (getCall_some_pos hk).1
      split at h
      · cases h
      · rename_i e viaCtx hm
        have hmid : n = k → c.pc ≠ .fin ∧ c.pc ≠ .c1 := by
          intro hnk; subst hnk; rw [hc] at hk; cases hk
          cases hpc : c.pc <;> simp [hpc] at hm ⊢
        have hX : ∃ c1, getCall (if s.outCalls.contains k = true then
            retireIn { s with outCalls := s.outCalls.erase k } k (.err e) else s) n = some c1 ∧ Adv c c1 := by
          split
          · exact retireIn_adv (s := { s with outCalls := s.outCalls.erase k }) k (.err e) hc
          · exact ⟨c, hc, Adv.refl c⟩
        obtain ⟨c1, hc1, a1⟩ := hX
        split at h <;> cases h
        · refine modCall_callStep _ _ _ hkp rfl ((getCall_tail _ _).trans hc1) a1 ?_
          intro hnk
          exact CallStep.of_mid (hmid hnk).1 (hmid hnk).2 a1.ready a1.ctx
        · refine modCall_callStep _ _ _ hkp rfl ((getCall_tail _ _).trans hc1) a1 ?_
          intro hnk
          exact CallStep.of_mid (hmid hnk).1 (hmid hnk).2 a1.ready a1.ctx


theorem step0_call {s s0 : St} {l : Label} (h : step0 s l = some s0) {n : Nat} {c : Call}
    (hc : getCall s n = some c) : ∃ c', getCall s0 n = some c' ∧ CallStep l s.shuttingDown n c c' := by
  by_cases hl : l.touchesCalls = true
  · exact step0_call_touch h hl hc
  · have hv := frame_calls s s0 l h (by simpa using hl)
    exact ⟨c, (getCall_of_view hv n).trans hc, CallStep.of_adv (Adv.refl c)⟩

theorem step0_calls_length {s s0 : St} {l : Label} (h : step0 s l = some s0) :
    s0.calls.length = s.calls.length + (if l = .ecall ∨ l = .ecallbad then 1 else 0) := by
  by_cases hl : l.touchesCalls = true
  · cases l <;> simp [Label.touchesCalls] at hl <;> simp only [step0] at h
    case ecall => cases h; simp
    case ecallbad => cases h; simp
    case ectx k =>
      repeat' (split at h)
      all_goals first | (cases h; done) | (cases h; simp [modCall])
    case wret w o =>
      cases w <;> simp [Label.touchesCalls] at hl
      simp only at h
      repeat' (split at h)
      all_goals first | (cases h; done) | (cases h; simp [modCall])
    case w1 w =>
      cases w <;> simp [Label.touchesCalls] at hl
      simp only at h
      repeat' (split at h)
      all_goals first | (cases h; done) | (cases h; simp [modCall])
    case w2 w =>
      cases w <;> simp [Label.touchesCalls] at hl
      simp only at h
      repeat' (split at h)
      all_goals first | (cases h; done) | (cases h; simp [modCall])
    case c1 k =>
      repeat' (split at h)
      all_goals first | (cases h; done) | (cases h; simp [modCall, retireIn_length])
    case rresp =>
      split at h
      · cases h; simp only [tail_calls]; split <;> simp [retireIn_length]
      · cases h
    case rx =>
      split at h
      · cases h
      · cases h; simp [foldl_cancel_calls, foldl_retire_length]
    case retire k =>
      split at h
      · cases h
      · split at h
        · cases h
        · split at h <;> cases h <;> simp [modCall] <;> split <;> simp [retireIn_length]
  · have hv := frame_calls s s0 l h (by simpa using hl)
    have : l ≠ .ecall := fun he => by subst he; simp [Label.touchesCalls] at hl
    have h2 : l ≠ .ecallbad := fun he => by subst he; simp [Label.touchesCalls] at hl
    have hc : s0.calls = s.calls := congrArg CallView.calls hv
    simp [this, h2, hc]

theorem getCall_settle (s : St) (n : Nat) : getCall (settle s) n = (getCall s n).map settleCall := by
  have hv : callView (settle s) = callView (settleCalls s) := by simp [settle]
  rw [getCall_of_view hv]
  simp only [getCall_eq, settleCalls, List.getElem?_map]
  split <;> rfl

theorem settle_calls_length (s : St) : (settle s).calls.length = s.calls.length := by
  have hv : callView (settle s) = callView (settleCalls s) := by simp [settle]
  have hc : (settle s).calls = (settleCalls s).calls := congrArg CallView.calls hv
  rw [hc]; simp [settleCalls]

theorem settleCall_ready (c : Call) : (settleCall c).ready = c.ready := by
  unfold settleCall; repeat' split
  all_goals rfl

theorem settleCall_ctxDone (c : Call) : (settleCall c).ctxDone = c.ctxDone := by
  unfold settleCall; repeat' split
  all_goals rfl

theorem settleCall_of_ne {c : Call} (h : c.pc ≠ .await) : settleCall c = c := by
  unfold settleCall; simp [h]

theorem CallStep.settle {l : Label} {sd : Bool} {n : Nat} {c c' : Call} (a : CallStep l sd n c c') :
    CallStep l sd n c (settleCall c') := by
  refine ⟨?_, ?_, ?_, ?_, ?_⟩
  · intro h
    have := a.fin h
    rw [settleCall_of_ne (by simp [this.1])]; exact this
  · intro x hx; rw [settleCall_ready]; exact a.ready x hx
  · intro h; rw [settleCall_ctxDone]; exact a.ctxF h
  · intro h; rw [settleCall_ctxDone] at h; exact a.ctxB h
  · intro h
    rcases a.c1 h with h1 | ⟨h1, h2⟩
    · left; rw [settleCall_of_ne (by simp [h1])]; exact h1
    · right; exact ⟨h1, fun x y => by rw [settleCall_ready]; exact h2 x y⟩

/-- Every call record survives a step, and changes only as `CallStep` allows. -/
theorem step_call {s s' : St} {l : Label} (h : step s l = some s') {n : Nat} {c : Call}
    (hc : getCall s n = some c) : ∃ c', getCall s' n = some c' ∧ CallStep l s.shuttingDown n c c' := by
  simp only [step, Option.map_eq_some_iff] at h
  obtain ⟨s0, h0, rfl⟩ := h
  obtain ⟨c0, hc0, a⟩ := step0_call h0 hc
  exact ⟨settleCall c0, by rw [getCall_settle, hc0]; rfl, a.settle⟩

theorem step_calls_length {s s' : St} {l : Label} (h : step s l = some s') :
    s'.calls.length = s.calls.length + (if l = .ecall ∨ l = .ecallbad then 1 else 0) := by
  simp only [step, Option.map_eq_some_iff] at h
  obtain ⟨s0, h0, rfl⟩ := h
  rw [settle_calls_length]; exact step0_calls_length h0

theorem getCall_isSome_iff (s : St) (n : Nat) : (∃ c, getCall s n = some c) ↔ (1 ≤ n ∧ n ≤ s.calls.length) := by
  constructor
  · rintro ⟨c, hc⟩; exact getCall_some_pos hc
  · rintro ⟨h1, h2⟩
    have : n ≠ 0 := by omega
    simp only [getCall_eq, this, if_false]
    exact ⟨s.calls[n - 1], List.getElem?_eq_getElem (by omega)⟩

/-- Backward form: a call record after the step is the image of the one before, or the call is new. -/
theorem step_call_back {s s' : St} {l : Label} (h : step s l = some s') {n : Nat} {c' : Call}
    (hc' : getCall s' n = some c') :
    (∃ c, getCall s n = some c ∧ CallStep l s.shuttingDown n c c') ∨
      (l = .ecall ∧ n = s.calls.length + 1 ∧ c' = {}) ∨
      (l = .ecallbad ∧ n = s.calls.length + 1 ∧ c' = badCall) := by
  have hlen := step_calls_length h
  have hp := getCall_some_pos hc'
  by_cases hn : n ≤ s.calls.length
  · left
    obtain ⟨c, hc⟩ := (getCall_isSome_iff s n).mpr ⟨hp.1, hn⟩
    obtain ⟨c'', h1, a⟩ := step_call h hc
    rw [hc'] at h1; cases h1
    exact ⟨c, hc, a⟩
  · right
    by_cases hl : l = .ecall
    · subst hl
      left
      simp only [true_or, if_true] at hlen
      have hn' : n = s.calls.length + 1 := by omega
      refine ⟨rfl, hn', ?_⟩
      simp only [step, step0, Option.map_some, Option.some.injEq] at h
      subst h
      rw [getCall_settle] at hc'
      subst hn'
      simp [getCall_eq] at hc'
      rw [← hc']; rfl
    · by_cases hl2 : l = .ecallbad
      · subst hl2
        right
        simp only [or_true, if_true] at hlen
        have hn' : n = s.calls.length + 1 := by omega
        refine ⟨rfl, hn', ?_⟩
        simp only [step, step0, Option.map_some, Option.some.injEq] at h
        subst h
        rw [getCall_settle] at hc'
        subst hn'
        simp [getCall_eq] at hc'
        rw [← hc']; rfl
      · simp [hl, hl2] at hlen; omega


@[simp] theorem modCore_reader' (s : St) (r : Nat) (f : ReqCore → ReqCore) : (modCore s r f).reader = s.reader := rfl
@[simp] theorem toP2_reader' (s : St) (r : Nat) : (toP2 s r).reader = s.reader := rfl
@[simp] theorem beginPR_reader' (s : St) (r : Nat) (o : Owner) : (beginPR s r o).reader = s.reader :=
  congrArg FV.reader (fview_beginPR s r o)
@[simp] theorem foldl_retire_reader (l : List Nat) (r : Res) (s : St) :
    (l.foldl (fun s n => retireIn s n r) s).reader = s.reader := congrArg FV.reader (fview_foldl_retire l r s)
@[simp] theorem foldl_cancel_reader (l : List (Nat × Nat)) (c : Cause) (s : St) :
    (l.foldl (fun s p => cancelReq s p.2 c) s).reader = s.reader := congrArg FV.reader (fview_foldl_cancel l c s)
@[simp] theorem settle_reader (s : St) : (settle s).reader = s.reader := congrArg FV.reader (fview_settle s)

set_option maxRecDepth 8000 in
theorem step0_reader_rr {s s0 : St} {l : Label} {id p : Nat} (h : step0 s l = some s0)
    (hr : s0.reader = .rr id p) : s.reader = .rr id p ∨ l = .read (.resp id p) := by
  cases l <;> simp only [step0] at h
  all_goals (repeat' (split at h))
  all_goals first
    | (simp at h; done)
    | (injection h with h; subst h
       first
       | exact Or.inl hr
       | (simp [afterP2] at hr; done)
       | (simp at hr; exact Or.inl hr)
       | (simp at hr; simp [hr]; done)
       | (rename_i q _ _ _; cases ho : q.owner <;> simp [afterP2, ho] at hr <;> exact Or.inl hr))

@[simp] theorem retireIn_respLog' (s : St) (n : Nat) (r : Res) : (retireIn s n r).respLog = s.respLog := by
  unfold retireIn; repeat' split
  all_goals rfl
@[simp] theorem modCall_respLog' (s : St) (n : Nat) (f : Call → Call) : (modCall s n f).respLog = s.respLog := rfl
theorem foldl_retire_respLog (l : List Nat) (r : Res) (s : St) :
    (l.foldl (fun s n => retireIn s n r) s).respLog = s.respLog := by
  induction l generalizing s with
  | nil => rfl
  | cons a t ih => simp [List.foldl, ih]
theorem foldl_cancel_respLog (l : List (Nat × Nat)) (c : Cause) (s : St) :
    (l.foldl (fun s p => cancelReq s p.2 c) s).respLog = s.respLog :=
  congrArg CallView.respLog (callView_foldl_cancel l c s)
theorem settle_respLog (s : St) : (settle s).respLog = s.respLog := by
  have hv : callView (settle s) = callView (settleCalls s) := by simp [settle]
  exact congrArg CallView.respLog hv

theorem step0_respLog {s s0 : St} {l : Label} (h : step0 s l = some s0) (x : Nat × Nat) (hx : x ∈ s0.respLog) :
    x ∈ s.respLog ∨ ∃ id p, s.reader = .rr id p ∧ x = (id, p) := by
  by_cases hl : l.touchesCalls = true
  · cases l <;> simp [Label.touchesCalls] at hl <;> simp only [step0] at h
    case ecall => cases h; exact Or.inl hx
    case ecallbad => cases h; exact Or.inl hx
    case ectx k =>
      repeat' (split at h)
      all_goals first | (cases h; done) | (cases h; exact Or.inl hx)
    case wret w o =>
      cases w <;> simp [Label.touchesCalls] at hl
      simp only at h
      repeat' (split at h)
      all_goals first | (cases h; done) | (cases h; exact Or.inl hx)
    case w1 w =>
      cases w <;> simp [Label.touchesCalls] at hl
      simp only at h
      repeat' (split at h)
      all_goals first | (cases h; done) | (cases h; simp at hx; exact Or.inl hx)
    case w2 w =>
      cases w <;> simp [Label.touchesCalls] at hl
      simp only at h
      repeat' (split at h)
      all_goals first | (cases h; done) | (cases h; simp at hx; exact Or.inl hx)
    case c1 k =>
      repeat' (split at h)
      all_goals first | (cases h; done) | (cases h; simp at hx; exact Or.inl hx)
    case rresp =>
      split at h
      · rename_i id p hrd
        cases h
        simp only [tail_respLog] at hx
        have hx' : x ∈ s.respLog ++ [(id, p)] := by
          split at hx
          · simpa using hx
          · exact hx
        simp at hx'
        rcases hx' with h1 | h1
        · exact Or.inl h1
        · exact Or.inr ⟨id, p, hrd, h1⟩
      · cases h
    case rx =>
      split at h
      · cases h
      · cases h
        simp only [tail_respLog, foldl_cancel_respLog] at hx
        have : x ∈ (s.outCalls.foldl (fun s n => retireIn s n (.err .read))
            { s with reader := .gone, reading := false, readErr := true }).respLog := hx
        rw [foldl_retire_respLog] at this
        exact Or.inl this
    case retire k =>
      split at h
      · cases h
      · split at h
        · cases h
        · left
          split at h <;> cases h
          · have hx' : x ∈ (tail (if s.outCalls.contains k = true then
                retireIn { s with outCalls := s.outCalls.erase k } k (.err _) else s)).respLog := hx
            simp only [tail_respLog] at hx'
            split at hx'
            · simpa using hx'
            · exact hx'
          · simp only [modCall_respLog', tail_respLog] at hx
            split at hx
            · simpa using hx
            · exact hx
  · have hv := frame_calls s s0 l h (by simpa using hl)
    have : s0.respLog = s.respLog := congrArg CallView.respLog hv
    exact Or.inl (this ▸ hx)


/-! ### the monitor's bookkeeping of the call-related history -/

theorem book_sent_mono (m : Mon) (p : Obs) (e : Ev) (x : Nat × Nat) (hx : x ∈ m.sent) : x ∈ (m.book p e).sent := by
  cases e <;> simp only [Mon.book] <;> (repeat' split) <;> simp [modR, hx]

theorem book_ctxd_mono (m : Mon) (p : Obs) (e : Ev) (n : Nat) (hx : n ∈ m.ctxd) : n ∈ (m.book p e).ctxd := by
  cases e <;> simp only [Mon.book] <;> (repeat' split) <;> simp [modR, hx]

theorem book_startedLate (m : Mon) (p : Obs) (e : Ev) (n : Nat) (hx : n ∈ (m.book p e).startedLate) :
    n ∈ m.startedLate ∨ (e = .ecall ∧ p.done = true ∧ n = m.ncalls + 1) := by
  cases e
  case ecall =>
    simp only [Mon.book] at hx
    split at hx
    · rename_i hd
      simp at hx
      rcases hx with h | h
      · exact Or.inl h
      · exact Or.inr ⟨rfl, hd, h⟩
    · exact Or.inl hx
  all_goals
    left
    simp only [Mon.book] at hx
    repeat' (split at hx)
    all_goals (first | exact hx | (simp [modR] at hx; exact hx))

theorem book_ncalls (m : Mon) (p : Obs) (l : Label) :
    (m.book p (evOf l)).ncalls = m.ncalls + (if l = .ecall ∨ l = .ecallbad then 1 else 0) := by
  cases l
  case read x => cases x <;> simp [evOf, Mon.book]
  case w1 w => cases w <;> simp [evOf, Mon.book, modR]
  all_goals simp only [evOf, Mon.book, reduceCtorEq, or_self, or_false, false_or, if_false, if_true] <;> (repeat' split) <;> simp [modR]

theorem evOf_ecall {l : Label} (h : evOf l = .ecall) : l = .ecall := by
  cases l
  case read x => cases x <;> simp [evOf] at h
  case w1 w => cases w <;> simp [evOf] at h
  all_goals simp [evOf] at h ⊢


theorem callFin_eq_some {s : St} {n : Nat} {r : RTok} :
    callFin s n = some r ↔ ∃ c, getCall s n = some c ∧ c.pc = .fin ∧ c.result.map resTok = some r := by
  unfold callFin
  cases hc : getCall s n with
  | none => simp
  | some c =>
    by_cases hpc : c.pc = .fin <;> simp [hpc]

theorem evOf_ectx {l : Label} {n : Nat} (h : l = .ectx n) : evOf l = .ectx n := by subst h; rfl

end CallsStep

open CallsStep

/-! ### the stated lemmas -/

/-- `done` is never reopened. -/
theorem done_stable {s s' : St} {l : Label} (h : step s l = some s') (hd : s.done = true) : s'.done = true := by
  simp only [step, Option.map_eq_some_iff] at h
  obtain ⟨s0, h0, rfl⟩ := h
  rw [settle_done]; exact step0_done h0 hd

/-- A finished call keeps its result for ever. -/
theorem callFin_step {s s' : St} {l : Label} (h : step s l = some s') {n : Nat} {r : RTok}
    (hf : callFin s n = some r) : callFin s' n = some r := by
  obtain ⟨c, hc, hpc, hr⟩ := callFin_eq_some.mp hf
  obtain ⟨c', hc', a⟩ := step_call h hc
  obtain ⟨h1, h2⟩ := a.fin hpc
  exact callFin_eq_some.mpr ⟨c', hc', h1, by rw [h2]; exact hr⟩

/-- Cancelling the context of a call: the caller was parked (not blocked on the peer), or it is now
parked before its eager Retire, or it has finished. -/
theorem ectx_unblocks {s s' : St} {n : Nat} (i : Inv4 s) (h : step s (.ectx n) = some s') :
    ∃ c, getCall s n = some c ∧
      (c.pc.parked = true ∨ (∃ c', getCall s' n = some c' ∧ c'.pc = .rc) ∨ (callFin s' n).isSome = true) := by
  have h' := h
  simp only [step, step0, Option.map_eq_some_iff] at h'
  obtain ⟨s0, h0, rfl⟩ := h'
  split at h0
  · cases h0
  · rename_i c hc
    split at h0
    · cases h0
    · cases h0
      refine ⟨c, hc, ?_⟩
      have hn := (getCall_some_pos hc).1
      have hg : getCall (settle (modCall s n fun c => { c with ctxDone := true })) n =
          some (settleCall { c with ctxDone := true }) := by
        rw [getCall_settle, getCall_modCall _ _ _ _ hn]; simp [hc]
      cases hpc : c.pc
      case await =>
        right; left
        have hr := (i.aw n c hc hpc).1
        refine ⟨_, hg, ?_⟩
        simp [settleCall, hpc, hr]
      case fin =>
        right; right
        have hres := ((i.base.base.base.calls.ok n c hc).fin hpc).1
        obtain ⟨r, hr⟩ := Option.isSome_iff_exists.mp hres
        have : callFin (settle (modCall s n fun c => { c with ctxDone := true })) n = some (resTok r) :=
          callFin_eq_some.mpr ⟨_, hg, by simp [settleCall, hpc], by simp [settleCall, hpc, hr]⟩
        simp [this]
      all_goals (left; rfl)

theorem moncalls_step {m : Mon} {s s' : St} {l : Label} {p : Obs} (mc : MonCalls m s) (i : Inv4 s)
    (hp : p.done = s.done) (h : step s l = some s') : MonCalls (m.book p (evOf l)) s' := by
  have h' := h
  simp only [step, Option.map_eq_some_iff] at h'
  obtain ⟨s0, h0, hs'⟩ := h'
  refine ⟨?_, ?_, ?_, ?_, ?_⟩
  · rw [book_ncalls, step_calls_length h, mc.ncalls]
  · intro x hx
    apply book_sent_mono
    rw [← hs', settle_respLog] at hx
    rcases step0_respLog h0 x hx with h1 | ⟨id, pl, h1, h2⟩
    · exact mc.sent x h1
    · rw [h2]; exact mc.sentRR id pl h1
  · intro id pl hr
    rw [← hs', settle_reader] at hr
    rcases step0_reader_rr h0 hr with h1 | h1
    · exact book_sent_mono _ _ _ _ (mc.sentRR id pl h1)
    · subst h1; simp [evOf, Mon.book]
  · intro n c' hc' hctx
    rcases step_call_back h hc' with ⟨c, hc, a⟩ | ⟨_, _, h3⟩ | ⟨_, _, h3⟩
    · rcases a.ctxB hctx with h1 | h1
      · exact book_ctxd_mono _ _ _ _ (mc.ctxd n c hc h1)
      · subst h1; simp [evOf, Mon.book]
    · subst h3; simp at hctx
    · subst h3; simp [badCall] at hctx
  · intro n hn
    rcases book_startedLate _ _ _ _ hn with h1 | ⟨h1, h2, h3⟩
    · obtain ⟨hd, c, hc, hcc⟩ := mc.late n h1
      refine ⟨done_stable h hd, ?_⟩
      obtain ⟨c', hc', a⟩ := step_call h hc
      refine ⟨c', hc', ?_⟩
      rcases hcc with hpc | hrd
      · rcases a.c1 hpc with h2 | ⟨_, h2⟩
        · exact Or.inl h2
        · right
          have hsd : s.shuttingDown = true := (i.base.base.base.flags.dn hd).2.1
          exact h2 hsd ((i.base.base.base.calls.ok n c hc).fresh hpc).2
      · exact Or.inr (a.ready _ hrd)
    · have hl := evOf_ecall h1
      have hd : s.done = true := hp ▸ h2
      refine ⟨done_stable h hd, ?_⟩
      have hlen := step_calls_length h
      simp only [hl, true_or, if_true] at hlen
      rw [mc.ncalls] at h3
      obtain ⟨c', hc'⟩ := (getCall_isSome_iff s' n).mpr ⟨by omega, by omega⟩
      refine ⟨c', hc', Or.inl ?_⟩
      rcases step_call_back h hc' with ⟨c, hc, _⟩ | ⟨_, _, h4⟩ | ⟨h4, _, _⟩
      · have := (getCall_some_pos hc).2; omega
      · subst h4; rfl
      · rw [hl] at h4; cases h4

theorem moncalls_mark {m : Mon} {s : St} (mc : MonCalls m s) (o : Obs) : MonCalls { m.mark o with prev := o } s :=
  ⟨mc.ncalls, mc.sent, mc.sentRR, mc.ctxd, mc.late⟩

end Conn
