import McpModel.Conn.MonRelDefs
/-!
What the typed observation `obsOf s` says, in terms of the model state: membership of the parked
tokens, the finished results, the cancelled-context set, and the scalar fields.
-/
namespace Conn

/-! ### sorting keeps membership -/

theorem mem_insertBy {α : Type} (le : α → α → Bool) (x a : α) (l : List α) :
    a ∈ insertBy le x l ↔ a = x ∨ a ∈ l := by
  sorry

theorem mem_sortBy {α : Type} (le : α → α → Bool) (a : α) (l : List α) : a ∈ sortBy le l ↔ a ∈ l := by
  sorry

theorem sortBy_perm {α : Type} (le : α → α → Bool) (l : List α) : (sortBy le l).Perm l := by
  sorry

theorem sortBy_isEmpty {α : Type} (le : α → α → Bool) (l : List α) : (sortBy le l).isEmpty = l.isEmpty := by
  sorry

/-! ### scalar fields -/

theorem obsOf_idle (s : St) : (obsOf s).idle = s.idle := by
  sorry

theorem obsOf_shuttingDown (s : St) : (obsOf s).shuttingDown = s.shuttingDown := rfl

/-! ### parked tokens -/

theorem mem_parked_iff (s : St) (t : PTok) : t ∈ (obsOf s).parked ↔ t ∈ parkedToks s := by
  simp [obsOf, sortPTok, mem_sortBy]

theorem mem_parked_h (s : St) (r : Nat) :
    PTok.h r ∈ (obsOf s).parked ↔ ∃ k, s.cores[r]? = some k ∧ k.pc = .running := by
  sorry

theorem mem_parked_a2 (s : St) (r : Nat) :
    PTok.a2 r ∈ (obsOf s).parked ↔ ∃ k, s.cores[r]? = some k ∧ k.pc = .a2 := by
  sorry

theorem mem_parked_p2 (s : St) (r : Nat) :
    PTok.p2 r ∈ (obsOf s).parked ↔ ∃ k, s.cores[r]? = some k ∧ k.pc = .p2 := by
  sorry

theorem mem_parked_r (s : St) (n : Nat) :
    PTok.r n ∈ (obsOf s).parked ↔ ∃ c, getCall s n = some c ∧ (c.pc = .rc ∨ ∃ e, c.pc = .r e) := by
  sorry

theorem callParked_iff (s : St) (n : Nat) :
    (obsOf s).callParked n = true ↔ ∃ c, getCall s n = some c ∧ c.pc.parked = true := by
  sorry

/-! ### finished results -/

theorem mem_fins_call (s : St) (n : Nat) (r : RTok) :
    FTok.call n r ∈ (obsOf s).fins ↔ callFin s n = some r := by
  sorry

theorem finCall_obsOf (s : St) (n : Nat) : finCall (obsOf s).fins n = callFin s n := by
  sorry

/-! ### cancelled handler contexts -/

theorem mem_x (s : St) (r : Nat) (c : XCause) :
    (r, c) ∈ (obsOf s).x ↔
      ∃ mt, s.metas[r]? = some mt ∧ mt.seen = true ∧ ∃ cz, mt.cancelled = some cz ∧ causeTok cz = c := by
  sorry

/-! ### the initial state -/

theorem obsOf_init_fins : (obsOf ({} : St)).fins = [] := by
  sorry

theorem obsOf_init_parked : (obsOf ({} : St)).parked = [.start] := by
  sorry

theorem obsOf_init_x : (obsOf ({} : St)).x = [] := rfl

end Conn
