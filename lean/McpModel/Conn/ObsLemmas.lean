import McpModel.Conn.MonRelDefs
/-!
What the typed observation `obsOf s` says, in terms of the model state: membership of the parked
tokens, the finished results, the cancelled-context set, and the scalar fields.
-/
namespace Conn

/-! ### sorting keeps membership -/

theorem mem_insertBy {α : Type} (le : α → α → Bool) (x a : α) (l : List α) :
    a ∈ insertBy le x l ↔ a = x ∨ a ∈ l := by
  induction l with
  | nil => simp [insertBy]
  | cons y t ih =>
    simp only [insertBy]
    split
    · simp
    · simp [ih]; grind

theorem mem_sortBy {α : Type} (le : α → α → Bool) (a : α) (l : List α) : a ∈ sortBy le l ↔ a ∈ l := by
  induction l with
  | nil => simp [sortBy]
  | cons y t ih =>
    have : sortBy le (y :: t) = insertBy le y (sortBy le t) := rfl
    rw [this, mem_insertBy, ih]; simp

theorem insertBy_perm {α : Type} (le : α → α → Bool) (x : α) (l : List α) : (insertBy le x l).Perm (x :: l) := by
  induction l with
  | nil => simp [insertBy]
  | cons y t ih =>
    simp only [insertBy]
    split
    · exact List.Perm.refl _
    · exact ((List.Perm.cons y ih).trans (List.Perm.swap x y t))

theorem sortBy_perm {α : Type} (le : α → α → Bool) (l : List α) : (sortBy le l).Perm l := by
  induction l with
  | nil => simp [sortBy]
  | cons y t ih =>
    have : sortBy le (y :: t) = insertBy le y (sortBy le t) := rfl
    rw [this]
    exact (insertBy_perm le y _).trans (List.Perm.cons y ih)

theorem sortBy_isEmpty {α : Type} (le : α → α → Bool) (l : List α) : (sortBy le l).isEmpty = l.isEmpty := by
  have := (sortBy_perm le l).length_eq
  cases l <;> cases h : sortBy le _ <;> simp_all

theorem obsOf_idle (s : St) : (obsOf s).idle = s.idle := by
  simp [Obs.idle, St.idle, obsOf, sortNat, sortBy_isEmpty]

theorem obsOf_shuttingDown (s : St) : (obsOf s).shuttingDown = s.shuttingDown := rfl

/-! ### parked tokens -/

/-- Classification of tokens by producer. -/
theorem mem_notifToks {w : Who} {nf : Notif} {t : PTok} (h : t ∈ notifToks w nf) :
    t = .n1 w ∨ t = .w1 w ∨ t = .wr w ∨ t = .w2 w ∨ t = .n2 w := by
  unfold notifToks at h
  split at h <;> simp_all

theorem mem_readerToks {s : St} {t : PTok} (h : t ∈ readerToks s) :
    t = .start ∨ t = .rd ∨ t = .rr ∨ t = .rx := by
  unfold readerToks at h
  split at h <;> simp_all

theorem mem_miscToks {s : St} {t : PTok} (h : t ∈ miscToks s) :
    t = .d1 ∨ (∃ id, t = .k1 id) ∨ t = .cl1 ∨ ∃ b, t = .wt b := by
  simp only [miscToks, List.mem_append, List.mem_map, List.mem_replicate] at h
  rcases h with (((h | h) | h) | h) | h
  · split at h <;> simp_all
  · grind
  · simp_all
  · exact Or.inr (Or.inr (Or.inr ⟨_, h.2⟩))
  · exact Or.inr (Or.inr (Or.inr ⟨_, h.2⟩))

theorem mem_unotifToks {s : St} {t : PTok} (h : t ∈ unotifToks s) :
    ∃ k, t = .n1 (.unotif k) ∨ t = .w1 (.unotif k) ∨ t = .wr (.unotif k) ∨ t = .w2 (.unotif k) ∨ t = .n2 (.unotif k) := by
  simp only [unotifToks, List.mem_flatMap] at h
  obtain ⟨⟨nf, k⟩, _, h⟩ := h
  exact ⟨k, mem_notifToks h⟩

theorem mem_cnotifToks {s : St} {t : PTok} (h : t ∈ cnotifToks s) :
    ∃ k, t = .n1 (.cnotif k) ∨ t = .w1 (.cnotif k) ∨ t = .wr (.cnotif k) ∨ t = .w2 (.cnotif k) ∨ t = .n2 (.cnotif k) := by
  simp only [cnotifToks, List.mem_flatMap] at h
  obtain ⟨nf, _, h⟩ := h
  exact ⟨_, mem_notifToks h⟩

theorem mem_callToks (s : St) (t : PTok) :
    t ∈ callToks s ↔ ∃ n c, getCall s n = some c ∧
      ((c.pc = .c1 ∧ t = .c1 n) ∨ (c.pc = .w1 ∧ t = .w1 (.call n)) ∨ (c.pc = .wr ∧ t = .wr (.call n)) ∨
       ((∃ e, c.pc = .w2 e) ∧ t = .w2 (.call n)) ∨ ((c.pc = .rc ∨ ∃ e, c.pc = .r e) ∧ t = .r n)) := by
  simp only [callToks, List.mem_flatMap, Prod.exists, List.mem_zipIdx_iff_le_and_getElem?_sub, getCall_eq]
  constructor
  · rintro ⟨c, n, ⟨hn, hc⟩, h⟩
    refine ⟨n, c, by simp [show n ≠ 0 by omega, hc], ?_⟩
    split at h <;> simp_all
  · rintro ⟨n, c, hc, h⟩
    split at hc
    · simp at hc
    · refine ⟨c, n, ⟨by omega, hc⟩, ?_⟩
      rcases h with h | h | h | h | h
      · simp [h.1, h.2]
      · simp [h.1, h.2]
      · simp [h.1, h.2]
      · obtain ⟨⟨e, he⟩, h⟩ := h; simp [he, h]
      · obtain ⟨he | ⟨e, he⟩, h⟩ := h <;> simp [he, h]

theorem mem_reqToks (s : St) (t : PTok) :
    t ∈ reqToks s ↔ ∃ r k, s.cores[r]? = some k ∧
      ((k.pc = .a1 ∧ t = .a1 r) ∨ (k.pc = .a2 ∧ t = .a2 r) ∨ (k.pc = .running ∧ t = .h r) ∨ (k.pc = .p1 ∧ t = .p1 r) ∨
       (k.pc = .w1 ∧ t = .w1 (.resp r)) ∨ (k.pc = .wr ∧ t = .wr (.resp r)) ∨ ((∃ e, k.pc = .w2 e) ∧ t = .w2 (.resp r)) ∨
       (k.pc = .p2 ∧ t = .p2 r)) := by
  simp only [reqToks, List.mem_flatMap, Prod.exists, List.mem_zipIdx_iff_le_and_getElem?_sub]
  constructor
  · rintro ⟨k, r, ⟨hn, hc⟩, h⟩
    refine ⟨r, k, by simpa using hc, ?_⟩
    split at h <;> simp_all
  · rintro ⟨r, k, hc, h⟩
    refine ⟨k, r, ⟨by omega, by simpa using hc⟩, ?_⟩
    rcases h with h | h | h | h | h | h | h | h
    all_goals first | (simp [h.1, h.2]; done) | (obtain ⟨⟨e, he⟩, h⟩ := h; simp [he, h])


theorem mem_parked_iff (s : St) (t : PTok) : t ∈ (obsOf s).parked ↔ t ∈ parkedToks s := by
  simp [obsOf, sortPTok, mem_sortBy]

/-- Tokens that only the per-request generator emits. -/
theorem mem_parked_req (s : St) (t : PTok)
    (h1 : t ∉ readerToks s) (h2 : t ∉ callToks s) (h3 : t ∉ unotifToks s) (h4 : t ∉ cnotifToks s) (h5 : t ∉ miscToks s) :
    t ∈ (obsOf s).parked ↔ t ∈ reqToks s := by
  simp [mem_parked_iff, parkedToks, h1, h2, h3, h4, h5]

theorem mem_parked_h (s : St) (r : Nat) :
    PTok.h r ∈ (obsOf s).parked ↔ ∃ k, s.cores[r]? = some k ∧ k.pc = .running := by
  rw [mem_parked_req, mem_reqToks]
  · simp only [reduceCtorEq, and_false, false_or, or_false, PTok.h.injEq]
    exact ⟨fun ⟨_, k, h1, h2, h3⟩ => ⟨k, h3 ▸ h1, h2⟩, fun ⟨k, h1, h2⟩ => ⟨_, k, h1, h2, rfl⟩⟩
  · intro h; have := mem_readerToks h; simp at this
  · intro h; rw [mem_callToks] at h; simp at h
  · intro h; have := mem_unotifToks h; simp at this
  · intro h; have := mem_cnotifToks h; simp at this
  · intro h; have := mem_miscToks h; simp at this

theorem mem_parked_a2 (s : St) (r : Nat) :
    PTok.a2 r ∈ (obsOf s).parked ↔ ∃ k, s.cores[r]? = some k ∧ k.pc = .a2 := by
  rw [mem_parked_req, mem_reqToks]
  · simp only [reduceCtorEq, and_false, false_or, or_false, PTok.a2.injEq]
    exact ⟨fun ⟨_, k, h1, h2, h3⟩ => ⟨k, h3 ▸ h1, h2⟩, fun ⟨k, h1, h2⟩ => ⟨_, k, h1, h2, rfl⟩⟩
  · intro h; have := mem_readerToks h; simp at this
  · intro h; rw [mem_callToks] at h; simp at h
  · intro h; have := mem_unotifToks h; simp at this
  · intro h; have := mem_cnotifToks h; simp at this
  · intro h; have := mem_miscToks h; simp at this

theorem mem_parked_p2 (s : St) (r : Nat) :
    PTok.p2 r ∈ (obsOf s).parked ↔ ∃ k, s.cores[r]? = some k ∧ k.pc = .p2 := by
  rw [mem_parked_req, mem_reqToks]
  · simp only [reduceCtorEq, and_false, false_or, PTok.p2.injEq]
    exact ⟨fun ⟨_, k, h1, h2, h3⟩ => ⟨k, h3 ▸ h1, h2⟩, fun ⟨k, h1, h2⟩ => ⟨_, k, h1, h2, rfl⟩⟩
  · intro h; have := mem_readerToks h; simp at this
  · intro h; rw [mem_callToks] at h; simp at h
  · intro h; have := mem_unotifToks h; simp at this
  · intro h; have := mem_cnotifToks h; simp at this
  · intro h; have := mem_miscToks h; simp at this

/-- Tokens that only the per-call generator emits. -/
theorem mem_parked_call (s : St) (t : PTok)
    (h1 : t ∉ readerToks s) (h2 : t ∉ reqToks s) (h3 : t ∉ unotifToks s) (h4 : t ∉ cnotifToks s) (h5 : t ∉ miscToks s) :
    t ∈ (obsOf s).parked ↔ t ∈ callToks s := by
  simp [mem_parked_iff, parkedToks, h1, h2, h3, h4, h5]

theorem callNo_parked (s : St) (t : PTok) (n : Nat) (hn : t.callNo = some n) :
    t ∈ (obsOf s).parked ↔ t ∈ callToks s := by
  apply mem_parked_call
  · intro h; have := mem_readerToks h; rcases this with h | h | h | h <;> simp [h, PTok.callNo] at hn
  · intro h; rw [mem_reqToks] at h
    obtain ⟨r, k, _, h⟩ := h
    rcases h with h | h | h | h | h | h | h | h <;> simp [h.2, PTok.callNo] at hn
  · intro h; obtain ⟨k, h⟩ := mem_unotifToks h
    rcases h with h | h | h | h | h <;> simp [h, PTok.callNo] at hn
  · intro h; obtain ⟨k, h⟩ := mem_cnotifToks h
    rcases h with h | h | h | h | h <;> simp [h, PTok.callNo] at hn
  · intro h; have := mem_miscToks h
    rcases this with h | ⟨_, h⟩ | h | ⟨_, h⟩ <;> simp [h, PTok.callNo] at hn

theorem mem_parked_r (s : St) (n : Nat) :
    PTok.r n ∈ (obsOf s).parked ↔ ∃ c, getCall s n = some c ∧ (c.pc = .rc ∨ ∃ e, c.pc = .r e) := by
  rw [callNo_parked s _ n rfl, mem_callToks]
  simp only [reduceCtorEq, and_false, false_or, PTok.r.injEq]
  exact ⟨fun ⟨_, k, h1, h2, h3⟩ => ⟨k, h3 ▸ h1, h2⟩, fun ⟨k, h1, h2⟩ => ⟨_, k, h1, h2, rfl⟩⟩

theorem callParked_iff (s : St) (n : Nat) :
    (obsOf s).callParked n = true ↔ ∃ c, getCall s n = some c ∧ c.pc.parked = true := by
  simp only [Obs.callParked, List.any_eq_true, beq_iff_eq]
  constructor
  · rintro ⟨t, ht, hn⟩
    rw [callNo_parked s t n hn, mem_callToks] at ht
    obtain ⟨m, c, hc, h⟩ := ht
    have : m = n ∧ c.pc.parked = true := by
      rcases h with h | h | h | h | h
      · simp_all [PTok.callNo, CallPc.parked]
      · simp_all [PTok.callNo, CallPc.parked]
      · simp_all [PTok.callNo, CallPc.parked]
      · obtain ⟨⟨e, he⟩, h⟩ := h; simp_all [PTok.callNo, CallPc.parked]
      · obtain ⟨he | ⟨e, he⟩, h⟩ := h <;> simp_all [PTok.callNo, CallPc.parked]
    exact ⟨c, this.1 ▸ hc, this.2⟩
  · rintro ⟨c, hc, hp⟩
    have key : ∃ t, t.callNo = some n ∧ t ∈ callToks s := by
      simp only [mem_callToks]
      cases hpc : c.pc <;> simp [hpc, CallPc.parked] at hp
      · exact ⟨.c1 n, rfl, n, c, hc, by simp [hpc]⟩
      · exact ⟨.w1 (.call n), rfl, n, c, hc, by simp [hpc]⟩
      · exact ⟨.wr (.call n), rfl, n, c, hc, by simp [hpc]⟩
      · exact ⟨.w2 (.call n), rfl, n, c, hc, by simp [hpc]⟩
      · exact ⟨.r n, rfl, n, c, hc, by simp [hpc]⟩
      · exact ⟨.r n, rfl, n, c, hc, by simp [hpc]⟩
    obtain ⟨t, hn, ht⟩ := key
    exact ⟨t, (callNo_parked s t n hn).2 ht, hn⟩


/-! ### finished results -/

theorem mem_finToks_call (s : St) (n : Nat) (r : RTok) :
    FTok.call n r ∈ finToks s ↔ callFin s n = some r := by
  simp only [finToks, List.mem_append, List.mem_filterMap, Prod.exists,
    List.mem_zipIdx_iff_le_and_getElem?_sub, callFin, getCall_eq]
  constructor
  · rintro (⟨c, m, ⟨hm, hc⟩, h⟩ | ⟨nf, k, _, h⟩)
    · split at h
      · rename_i hpc hres
        simp only [Option.some.injEq, FTok.call.injEq] at h
        obtain ⟨rfl, rfl⟩ := h
        simp [show m ≠ 0 by omega, hc, hpc, hres]
      · simp at h
    · split at h <;> simp at h
  · intro h
    split at h
    · simp at h
    · rename_i hn
      cases hc : s.calls[n - 1]? with
      | none => simp [hc] at h
      | some c =>
        simp only [hc, Option.bind_some] at h
        split at h
        · rename_i hpc
          cases hres : c.result with
          | none => simp [hres] at h
          | some res =>
            simp only [hres, Option.map_some, Option.some.injEq] at h
            exact Or.inl ⟨c, n, ⟨by omega, hc⟩, by simp [hpc, hres, h]⟩
        · simp at h

theorem mem_fins_call (s : St) (n : Nat) (r : RTok) :
    FTok.call n r ∈ (obsOf s).fins ↔ callFin s n = some r := by
  simp only [obsOf, sortFTok, mem_sortBy, mem_finToks_call]

theorem finCall_eq_none_iff (l : List FTok) (n : Nat) :
    finCall l n = none ↔ ∀ r, FTok.call n r ∉ l := by
  unfold finCall
  rw [List.findSome?_eq_none_iff]
  constructor
  · intro h r hr
    have := h _ hr
    simp at this
  · intro h x hx
    split
    · split
      · rename_i k r hk; subst hk; exact absurd hx (h r)
      · rfl
    · rfl
theorem mem_of_finCall_eq_some {l : List FTok} {n : Nat} {r : RTok} (h : finCall l n = some r) :
    FTok.call n r ∈ l := by
  unfold finCall at h
  rw [List.findSome?_eq_some_iff] at h
  obtain ⟨l1, a, l2, rfl, h, _⟩ := h
  split at h
  · split at h
    · rename_i k r' hk; subst hk
      simp only [Option.some.injEq] at h; subst h; simp
    · simp at h
  · simp at h

theorem finCall_eq_some_of_unique (l : List FTok) (n : Nat)
    (hu : ∀ r r', FTok.call n r ∈ l → FTok.call n r' ∈ l → r = r') (r : RTok) :
    finCall l n = some r ↔ FTok.call n r ∈ l := by
  refine ⟨mem_of_finCall_eq_some, fun h => ?_⟩
  cases hf : finCall l n with
  | none => exact absurd h ((finCall_eq_none_iff l n).1 hf r)
  | some r' => rw [hu r r' h (mem_of_finCall_eq_some hf)]

theorem finCall_obsOf (s : St) (n : Nat) : finCall (obsOf s).fins n = callFin s n := by
  cases hc : callFin s n with
  | none =>
    rw [finCall_eq_none_iff]
    intro r hr
    rw [mem_fins_call, hc] at hr
    simp at hr
  | some r =>
    rw [finCall_eq_some_of_unique, mem_fins_call, hc]
    intro r r' h h'
    rw [mem_fins_call] at h h'
    rw [h] at h'
    exact Option.some.inj h'

theorem mem_x (s : St) (r : Nat) (c : XCause) :
    (r, c) ∈ (obsOf s).x ↔
      ∃ mt, s.metas[r]? = some mt ∧ mt.seen = true ∧ ∃ cz, mt.cancelled = some cz ∧ causeTok cz = c := by
  simp only [obsOf, cancelledToks, List.mem_filterMap, Prod.exists, List.mem_zipIdx_iff_le_and_getElem?_sub]
  constructor
  · rintro ⟨mt, r', ⟨_, hm⟩, h⟩
    split at h
    · rename_i hs hcz
      simp only [Option.some.injEq, Prod.mk.injEq] at h
      obtain ⟨rfl, rfl⟩ := h
      exact ⟨mt, by simpa using hm, hs, _, hcz, rfl⟩
    · simp at h
  · rintro ⟨mt, hm, hs, cz, hcz, rfl⟩
    exact ⟨mt, r, ⟨by omega, by simpa using hm⟩, by simp [hs, hcz]⟩

theorem obsOf_init_fins : (obsOf ({} : St)).fins = [] := by
  rfl

theorem obsOf_init_parked : (obsOf ({} : St)).parked = [.start] := by
  rfl

theorem obsOf_init_x : (obsOf ({} : St)).x = [] := rfl

/-! ### `contains` versions (the checks use `List.contains`) -/

theorem parked_contains_iff (s : St) (t : PTok) : (obsOf s).parked.contains t = true ↔ t ∈ parkedToks s := by
  rw [List.contains_iff_mem, mem_parked_iff]

theorem parked_contains_h (s : St) (r : Nat) :
    (obsOf s).parked.contains (.h r) = true ↔ ∃ k, s.cores[r]? = some k ∧ k.pc = .running := by
  rw [List.contains_iff_mem, mem_parked_h]

theorem parked_contains_a2 (s : St) (r : Nat) :
    (obsOf s).parked.contains (.a2 r) = true ↔ ∃ k, s.cores[r]? = some k ∧ k.pc = .a2 := by
  rw [List.contains_iff_mem, mem_parked_a2]

theorem parked_contains_p2 (s : St) (r : Nat) :
    (obsOf s).parked.contains (.p2 r) = true ↔ ∃ k, s.cores[r]? = some k ∧ k.pc = .p2 := by
  rw [List.contains_iff_mem, mem_parked_p2]

theorem parked_contains_r (s : St) (n : Nat) :
    (obsOf s).parked.contains (.r n) = true ↔ ∃ c, getCall s n = some c ∧ (c.pc = .rc ∨ ∃ e, c.pc = .r e) := by
  rw [List.contains_iff_mem, mem_parked_r]

theorem mem_parked_wr_call (s : St) (n : Nat) :
    PTok.wr (.call n) ∈ (obsOf s).parked ↔ ∃ c, getCall s n = some c ∧ c.pc = .wr := by
  rw [callNo_parked s _ n rfl, mem_callToks]
  simp only [reduceCtorEq, and_false, false_or, or_false, PTok.wr.injEq, Who.call.injEq]
  exact ⟨fun ⟨_, k, h1, h2, h3⟩ => ⟨k, h3 ▸ h1, h2⟩, fun ⟨k, h1, h2⟩ => ⟨_, k, h1, h2, rfl⟩⟩

theorem parked_contains_wr_call (s : St) (n : Nat) :
    (obsOf s).parked.contains (.wr (.call n)) = true ↔ ∃ c, getCall s n = some c ∧ c.pc = .wr := by
  rw [List.contains_iff_mem, mem_parked_wr_call]

theorem x_contains (s : St) (r : Nat) (c : XCause) :
    (obsOf s).x.contains (r, c) = true ↔
      ∃ mt, s.metas[r]? = some mt ∧ mt.seen = true ∧ ∃ cz, mt.cancelled = some cz ∧ causeTok cz = c := by
  rw [List.contains_iff_mem, mem_x]

theorem fins_contains_call (s : St) (n : Nat) (r : RTok) :
    (obsOf s).fins.contains (.call n r) = true ↔ callFin s n = some r := by
  rw [List.contains_iff_mem, mem_fins_call]

theorem callParked_eq_false_iff (s : St) (n : Nat) :
    (obsOf s).callParked n = false ↔ ∀ c, getCall s n = some c → c.pc.parked = false := by
  rw [← Bool.not_eq_true, callParked_iff]
  simp

/-- The scalar fields of the observation are the model's. -/
theorem obsOf_done (s : St) : (obsOf s).done = s.done := rfl
theorem obsOf_tc (s : St) : (obsOf s).tc = s.transportCloses := rfl
theorem obsOf_od (s : St) : (obsOf s).od = s.onDone := rfl
theorem obsOf_q (s : St) : (obsOf s).q = s.queue := rfl

end Conn
