import McpModel.Base.Proto
import McpModel.Conn.Render
import McpModel.SessClose.Monitor
import McpModel.SessClose.Wire
import McpModel.SessClose.Calls
/-!
Driver for E1: replays the schedule recorded from the real `jsonrpc2.Connection` on the model, one
atomic section per record, and compares the complete observable state after every step
(in-flight bookkeeping, the set of parked goroutines, cancelled request contexts, finished results).
The monitors for C01–C05 are evaluated on the implementation's observations (see `Monitor` below).
-/
namespace Conn
open Proto

def parseWho (t : String) : Option Who :=
  let num := (t.drop 1).toString.toNat?
  match t.front, num with
  | 'c', some n => some (.call n)
  | 'u', some n => some (.unotif n)
  | 'x', some n => some (.cnotif n)
  | 'r', some n => some (.resp n)
  | _, _ => none

def parseReq (t : String) : Option Nat :=
  if t.front = 'r' then (t.drop 1).toString.toNat? else none
def parseCallNo (t : String) : Option Nat :=
  if t.front = 'c' then (t.drop 1).toString.toNat? else none

def parseLabel (toks : List String) : Option Label :=
  match toks with
  | ["ecall"] => some .ecall
  | ["ecallbad"] => some .ecallbad
  | ["enotify"] => some .enotify
  | ["ectx", c] => (parseCallNo c).map .ectx
  | ["eclose"] => some .eclose
  | ["ewait"] => some .ewait
  | ["read", "call", id] => id.toNat?.map fun i => .read (.call i)
  | ["read", "notif"] => some (.read .notif)
  | ["read", "cancel", id] => id.toNat?.map fun i => .read (.cancel i)
  | ["read", "resp", id, p] => do let i ← id.toNat?; let q ← p.toNat?; pure (.read (.resp i q))
  | ["read", "eof"] => some (.read .eof)
  | ["wret", w, o] => do
    let w ← parseWho w
    let o ← match o with
      | "ok" => some WOut.ok | "broken" => some .broken | "rejected" => some .rejected | "ctx" => some .ctx
      | _ => none
    pure (.wret w o)
  | ["hasync", r] => (parseReq r).map .hasync
  | ["hret", r, e] => (parseReq r).map fun r => .hret r (e == "1")
  | ["START"] => some .start
  | ["N1", w] => (parseWho w).map .n1
  | ["N2", w] => (parseWho w).map .n2
  | ["C1", c] => (parseCallNo c).map .c1
  | ["R", c] => (parseCallNo c).map .retire
  | ["K1", id] => id.toNat?.map .k1
  | ["WT", f] => some (.wt (f == "1"))
  | ["CL1"] => some .cl1
  | ["RR"] => some .rresp
  | ["RX"] => some .rx
  | ["A1", r] => (parseReq r).map .a1
  | ["A2", r] => (parseReq r).map .a2
  | ["D1"] => some .d1
  | ["P1", r] => (parseReq r).map .p1
  | ["P2", r] => (parseReq r).map .p2
  | ["W1", w] => (parseWho w).map .w1
  | ["W2", w] => (parseWho w).map .w2
  | _ => none

/-! ## parsing the implementation's observation (string layer; trusted, self-checked at run time) -/

def splitList (v : String) : List String := (v.splitOn ",").filter (· ≠ "")

def parseNats (v : String) : Option (List Nat) := (splitList v).mapM (·.toNat?)

def parsePTok (t : String) : Option PTok :=
  match t.splitOn ":" with
  | ["START"] => some .start | ["RD"] => some .rd | ["RR"] => some .rr | ["RX"] => some .rx
  | ["D1"] => some .d1 | ["CL1"] => some .cl1
  | ["WT", "0"] => some (.wt false) | ["WT", "1"] => some (.wt true)
  | ["K1", id] => id.toNat?.map .k1
  | ["C1", c] => (parseCallNo c).map .c1
  | ["R", c] => (parseCallNo c).map .r
  | ["N1", w] => (parseWho w).map .n1 | ["N2", w] => (parseWho w).map .n2
  | ["W1", w] => (parseWho w).map .w1 | ["WR", w] => (parseWho w).map .wr | ["W2", w] => (parseWho w).map .w2
  | ["A1", r] => (parseReq r).map .a1 | ["A2", r] => (parseReq r).map .a2 | ["H", r] => (parseReq r).map .h
  | ["P1", r] => (parseReq r).map .p1 | ["P2", r] => (parseReq r).map .p2
  | _ => none

def parseRTok (r : String) : RTok :=
  if r == "ok" then .okPlain
  else if r.startsWith "ok" then
    match (r.drop 2).toString.toNat? with
    | some p => .ok p
    | none => .bad r
  else if r == "closed" then .closed else if r == "read" then .read else if r == "broken" then .broken
  else if r == "rejected" then .rejected else if r == "ctx" then .ctx else if r == "panic" then .panic else if r == "marshal" then .marshal
  else .other r

def parseXTok (t : String) : Option (Nat × XCause) :=
  match t.splitOn ":" with
  | [w, c] => do
    let r ← parseReq w
    let c ← match c with | "r" => some XCause.read | "w" => some .write | "c" => some .other | _ => none
    pure (r, c)
  | _ => none

/-- `F=` tokens: finished calls / notifications, then `close:<n>`, `wait:<n>`. -/
def parseFins (ts : List String) : Option (List FTok × Nat × Nat) :=
  ts.foldlM (init := ([], 0, 0)) fun (acc : List FTok × Nat × Nat) t =>
    match t.splitOn ":" with
    | w :: rest@(_ :: _) =>
      let r := ":".intercalate rest
      if w == "close" then r.toNat?.map fun n => (acc.1, n, acc.2.2)
      else if w == "wait" then r.toNat?.map fun n => (acc.1, acc.2.1, n)
      else match parseWho w with
        | some (.call n) => some (acc.1 ++ [.call n (parseRTok r)], acc.2)
        | some (.unotif k) => some (acc.1 ++ [.unotif k (parseRTok r)], acc.2)
        | _ => none
    | _ => none

def parseObs (impl : String) : Option Obs := do
  let kv := (impl.splitOn " ").filterMap fun t =>
    match t.splitOn "=" with
    | [k, v] => some (k, v)
    | _ => none
  let get := fun k => (kv.lookup k).getD ""
  let sbits := (get "S").toList
  if sbits.length ≠ 6 then none
  let bit := fun i => sbits[i]! == '1'
  let oc ← parseNats (get "oc")
  let by_ ← parseNats (get "by")
  let q ← parseNats (get "q")
  let parked ← (splitList (get "P")).mapM parsePTok
  let x ← (splitList (get "X")).mapM parseXTok
  let (fins, closeFin, waitFin) ← parseFins (splitList (get "F"))
  pure { closing := bit 0, reading := bit 1, readErr := bit 2, writeErr := bit 3, closerUsed := bit 4, done := bit 5,
         oc := oc, on := (get "on").toNat?.getD 0, inc := (get "in").toNat?.getD 0,
         by_ := by_, q := q, hr := get "hr" == "1",
         tc := (get "tc").toNat?.getD 0, od := (get "od").toNat?.getD 0,
         parked := parked, x := x, fins := fins, closeFin := closeFin, waitFin := waitFin }

/-! ## the clauses as text -/

def Clause.text : Clause → String
  | .c01Twice n r r' => s!"C01: call c{n} completed twice (result changed from {rtokStr r} to {rtokStr r'})"
  | .c01Lost n => s!"C01: completed call c{n} lost its result"
  | .c01Foreign n pl => s!"C01: call c{n} completed with payload {pl} that was never sent for its id"
  | .c01Unparsable n r => s!"C01: unparsable result c{n}:{rtokStr r}"
  | .c01Panic n => s!"C01: call c{n} panicked (retire called twice / completed twice)"
  | .c01Blocked n => s!"C01: call c{n} is still blocked in Await although the connection has terminated (done closed)"
  | .c01Late n r => s!"C01: call c{n} started after termination ended with {rtokStr r}, not with a closed-connection error"
  | .c01RegAfterRx oc => s!"C01: call(s) {",".intercalate (oc.map fun n => s!"c{n}")} are registered although the reader has failed: nothing can complete them any more (a call started after the connection broke must fail at once)"
  | .c01StillRegistered n => s!"C01: call c{n} has returned to its caller but its request id {n} is (still, or again) registered in outgoingCalls: a later EOF/Close completes the finished call a second time, or - the id having been handed to another call - a late answer to c{n} completes that other call"
  | .c01MarshalForeign n => s!"C01: call c{n} ended with a marshalling error although its parameters can be encoded"
  | .c02Twice r => s!"C02: request r{r} answered more than once"
  | .c02NotifAnswered r => s!"C02: notification r{r} received a response"
  | .c03BeforeSync j i => s!"C03: handler of r{j} started before the synchronous handler of earlier r{i} finished"
  | .c03LaterFirst i j => s!"C03: handler of later r{i} was started before earlier r{j}"
  | .c04ReadCause r => s!"C04: r{r} cancelled with a read error although the reader is alive"
  | .c05WriteCause r => s!"C04+C05: handler context of r{r} cancelled as 'server closing' although no transport write ever failed (no cancellation named it: an unrelated in-flight request was cancelled; a graceful Close must let running handlers finish)"
  | .c04Unrelated r => s!"C04: r{r} cancelled although no cancellation for its id was processed and it has not finished"
  | .c04NotCancelled id r => s!"C04: Cancel({id}) did not cancel the handler context of r{r}"
  | .c04CtxStuck n => s!"C04: cancelling the context of c{n} did not make the call return"
  | .c04CancelUnasked id => s!"C04: Cancel was invoked for id {id} although no notifications/cancelled named {id} (the canceller mis-decoded the request id): a request the peer did not name may be cancelled, and the one it named is not"
  | .c05TcTwice => "C05: transport closed more than once"
  | .c05OdTwice => "C05: onDone ran more than once"
  | .c05ClosedBusy => "C05: transport closed while requests were still in flight"
  | .c05DoneBusy => "C05: connection done while not idle"
  | .c05ClosedRunning r => s!"C05: transport closed while the handler of r{r} was still running (Close must let running handlers finish and close the transport only after they have returned)"
  | .c05DoneRunning r => s!"C05: connection done (Close and Wait return) while the handler of r{r} was still running"
  | .c05LateDispatch r => s!"C05: r{r} was dispatched although it arrived after shutdown began"
  | .c05Stuck impl => "C05: shutdown did not complete (" ++ impl ++ "): a caller, Close or Wait is still blocked or a goroutine is left parked after every handler returned, every write returned and the reader failed"
  | .c02Dropped r => s!"C02: call r{r} whose id was already in flight was dropped without any response"
  | .c02NoAttempt r => s!"C02: call r{r} never had a response attempted"

structure DState where
  st : Option St := some {}
  mon : Mon := {}

/-- Run-time self-check of the string layer: the model's own observation text must parse back to
the typed observation the theorems talk about. -/
def selfCheck (s : St) : Option String :=
  if s.panicked then none
  else if parseObs (observe s) == some (obsOf s) then none
  else some ("LIBDISC render/parse: the model's observation text does not parse back to obsOf: " ++ observe s)

def engine : Engine DState where
  init := {}
  step d toks impl :=
    match toks with
    | ["reset"] => ({}, { model := "ok" })
    -- the harness announces that the peer's wire ids are offset by a constant (ids beyond 2^53); the model
    -- and all records use the logical ids
    | ["idbase", _] => (d, { model := "ok" })
    -- the harness's watchdog: the step `rest` was applied but the implementation never became quiescent
    -- again (a goroutine of the SDK is blocked on something that no step of the scripted environment
    -- releases).  In the model every label is one atomic step, so this is never the model's behaviour.
    | "hang" :: rest =>
      let late := (impl.splitOn "cancelled-callers-still-blocked=").length > 1
      let pfx := if late then "C04+C05: a caller whose context was cancelled has not returned and the step ("
                 else "C05: the step ("
      (d, { model := "quiescent", violated := some (pfx ++ " ".intercalate rest ++
        ") never completed: the implementation did not become quiescent within the watchdog's real-time limit (in the model every label is one atomic step and a cancelled caller returns after its own Retire): " ++ impl) })
    | ["end"] =>
      let model := match d.st with
        | none => "model-disabled"
        | some s => if allFinished s then "clean" else "model-stuck"
      (d, { model := model, violated := (monEndT d.mon (if impl == "clean" then none else some impl)).map Clause.text })
    | "sess" :: _ =>
      -- stream `sess` (two real sessions, zz_verif_sesslevel_test.go).  The observation is
      -- `<verdict of the Go-side monitors> ## <counters of the case>`: the lifecycle clauses of C05 are
      -- decided HERE by the typed monitor `SessMon.sessMon` on the parsed counters (the harness only
      -- records them; theorems in SessClose/MonitorProps.lean); the remaining session-level clauses are
      -- still evaluated by the Go harness and arrive as `<verdict>` ("clean" or the violated clauses).
      -- The model's observation is "clean" plus the re-rendered counters (a counter the parser drops or
      -- misreads shows as a difference).
      match impl.splitOn " ## " with
      | [verdict, rec, wc, ws, callsS, gorsS, extraS] =>
        -- wc / ws = the wire taps of the client and of the server (C02, `SessMon.wireMon`); callsS = one
        -- record per finished call (C01 / C04, `SessMon.callMon`); gorsS = per sender goroutine the messages
        -- it issued with the handler run of each (C03, `SessMon.orderMon`)
        match SessMon.parse rec, [wc, ws].mapM SessMon.parseWire, SessMon.parseCalls callsS, SessMon.parseGors gorsS, SessMon.parseExtra extraS with
        | some o, some ts, some calls, some gors, some extra =>
          let pid := ((rec.splitOn " ").filterMap fun t => match t.splitOn "=" with | ["pid", v] => some v | _ => none).headD ""
          -- the harness reports only the clauses of the property under check (`pid`); so do these monitors
          let mine := fun (t : String) => pid == "" || (((t.splitOn ":").headD "").splitOn "+").contains pid
          let lean5 := (SessMon.sessMon o).map SessMon.SClause.text
          let lean2 := (ts.zip ["client", "server"]).flatMap fun (t, side) => (SessMon.wireMon t).map (SessMon.WClause.text side)
          let lean14 := (SessMon.callMon calls).map fun (k, c) => SessMon.callText k c
          let lean3 := (SessMon.orderMon gors).map SessMon.orderText
          -- extraS = handler runs (C02 once, C05 graceful) and probes after termination (C01), `SessMon.extraMon`
          let leanX := (SessMon.extraMon extra).map SessMon.EClause.text
          let all := ((lean5 ++ lean2 ++ lean14 ++ lean3 ++ leanX).filter mine).eraseDups.take 4 ++ (if verdict == "clean" then [] else [verdict])
          -- (the counters and the taps are re-rendered from the parsed record; the call and order sections are echoed)
          (d, { model := " ## ".intercalate (["clean", SessMon.render o ++ " pid=" ++ pid] ++ ts.map SessMon.renderWire ++ [callsS, gorsS, extraS]),
                violated := if all.isEmpty then none else some (" | ".intercalate all) })
        | _, _, _, _, _ => (d, { model := "clean", violated := some (if verdict == "clean" then "LIBDISC unparsable sess record: " ++ impl else verdict) })
      | verdict :: _ :: _ => (d, { model := "clean", violated := some (if verdict == "clean" then "LIBDISC unparsable sess record: " ++ impl else verdict) })
      | _ => (d, { model := "clean", violated := if impl == "clean" then none else some impl })
    | _ =>
      match parseLabel toks with
      | none => (d, { model := "bad-op" })
      | some l =>
        let (mon', viol) := match parseObs impl with
          | some o => let (m', c) := monStepT d.mon l o; (m', c.map Clause.text)
          | none => (d.mon, some ("unparsable observation: " ++ impl))
        match d.st with
        | none => ({ d with mon := mon' }, { model := "disabled", violated := viol })
        | some s =>
          -- the harness names a detached cancel notification by its call (x<n>); the model by creation index
          -- (the monitors do not look at that subject: `evOf_relabel_fixCnotif` in Bridge.lean)
          let l := l.relabel (fixCnotif s)
          match step s l with
          | none => ({ st := none, mon := mon' }, { model := "disabled", violated := viol })
          | some s' => ({ st := some s', mon := mon' }, { model := observe s', violated := viol <|> selfCheck s' })

end Conn

def main : IO Unit := Proto.run Conn.engine
