import McpModel.Base.Proto
import McpModel.Conn.Model
/-!
Driver for E1: replays the schedule recorded from the real `jsonrpc2.Connection` on the model, one
atomic section per record, and compares the complete observable state after every step
(in-flight bookkeeping, the set of parked goroutines, cancelled request contexts, finished results).
The monitors for C01–C05 are evaluated on the implementation's observations (see `Monitor` below).
-/
namespace Conn
open Proto

def natList (l : List Nat) : String := ",".intercalate (l.map toString)

def insertSorted (x : Nat) : List Nat → List Nat
  | [] => [x]
  | y :: t => if x ≤ y then x :: y :: t else y :: insertSorted x t
def sortNat (l : List Nat) : List Nat := l.foldr insertSorted []

def insertSortedS (x : String) : List String → List String
  | [] => [x]
  | y :: t => if x ≤ y then x :: y :: t else y :: insertSortedS x t
def sortStr (l : List String) : List String := l.foldr insertSortedS []

def whoStr : Who → String
  | .call n => s!"c{n}" | .unotif k => s!"u{k}" | .cnotif n => s!"x{n}" | .resp r => s!"r{r}"

def parseWho (t : String) : Option Who :=
  let num := (t.drop 1).toString.toNat?
  match t.front, num with
  | 'c', some n => some (.call n)
  | 'u', some n => some (.unotif n)
  | 'x', some n => some (.cnotif n)
  | 'r', some n => some (.resp n)
  | _, _ => none

def parseReq (t : String) : Option Nat :=
  if t.front = 'r' then (t.drop 1).toString.toNat? else none
def parseCallNo (t : String) : Option Nat :=
  if t.front = 'c' then (t.drop 1).toString.toNat? else none

def notifParked (w : Who) (nf : Notif) : List String :=
  match nf.pc with
  | .n1 => [s!"N1:{whoStr w}"] | .w1 => [s!"W1:{whoStr w}"] | .wr => [s!"WR:{whoStr w}"]
  | .w2 _ => [s!"W2:{whoStr w}"] | .n2 _ => [s!"N2:{whoStr w}"] | .fin _ => []

def parked (s : St) : List String :=
  let rd := match s.reader with
    | .start => ["START"] | .read => ["RD"] | .rr _ _ => ["RR"] | .rx => ["RX"] | _ => []
  let cs := (s.calls.zipIdx 1).flatMap fun (c, n) =>
    match c.pc with
    | .c1 => [s!"C1:c{n}"] | .w1 => [s!"W1:c{n}"] | .wr => [s!"WR:c{n}"] | .w2 _ => [s!"W2:c{n}"]
    | .r _ => [s!"R:c{n}"] | .rc => [s!"R:c{n}"] | _ => []
  let us := (s.unotifs.zipIdx 0).flatMap fun (nf, k) => notifParked (.unotif k) nf
  let xs := s.cnotifs.flatMap fun nf => notifParked (.cnotif (nf.cancelFor.getD 0)) nf
  let rs := (s.cores.zipIdx 0).flatMap fun (q, r) =>
    match q.pc with
    | .a1 => [s!"A1:r{r}"] | .a2 => [s!"A2:r{r}"] | .running => [s!"H:r{r}"] | .p1 => [s!"P1:r{r}"]
    | .w1 => [s!"W1:r{r}"] | .wr => [s!"WR:r{r}"] | .w2 _ => [s!"W2:r{r}"] | .p2 => [s!"P2:r{r}"]
    | _ => []
  let d := if s.disp = .d1 then ["D1"] else []
  let ks := s.cancels.map fun id => s!"K1:{id}"
  let cl := List.replicate s.closeCl1 "CL1" ++ List.replicate s.closeWt "WT:0" ++ List.replicate s.waitWt "WT:1"
  sortStr (rd ++ cs ++ us ++ xs ++ rs ++ d ++ ks ++ cl)

def errStr : Err → String
  | .clientClosing | .serverClosing => "closed"
  | .read => "read" | .broken => "broken" | .rejected => "rejected" | .ctx => "ctx"

def resStr : Res → String
  | .resp p => s!"ok{p}"
  | .err e => errStr e

def nresStr : Option Err → String
  | none => "ok"
  | some e => errStr e

def finished (s : St) : List String :=
  let cs := (s.calls.zipIdx 1).filterMap fun (c, n) =>
    match c.pc, c.result with
    | .fin, some r => some s!"c{n}:{resStr r}"
    | _, _ => none
  let us := (s.unotifs.zipIdx 0).filterMap fun (nf, k) =>
    match nf.pc with | .fin r => some s!"u{k}:{nresStr r}" | _ => none
  -- the detached cancel notifications' results are discarded by `call()` and not observable
  sortStr (cs ++ us) ++ [s!"close:{s.closeFin}", s!"wait:{s.waitFin.length}"]

def cancelledSet (s : St) : List String :=
  (s.metas.zipIdx 0).filterMap fun (q, r) =>
    match q.seen, q.cancelled with
    | true, some .read => some s!"r{r}:r"
    | true, some .write => some s!"r{r}:w"
    | true, some _ => some s!"r{r}:c"
    | _, _ => none

def b (x : Bool) : String := if x then "1" else "0"

def observe (s : St) : String :=
  if s.panicked then "panic" else
  s!"S={b s.closing}{b s.reading}{b s.readErr}{b s.writeErr}{b s.closerUsed}{b s.done} oc={natList (sortNat s.outCalls)} on={s.outNotifs} in={s.incoming} by={natList (sortNat (s.byID.map (·.1)))} q={natList s.queue} hr={b s.handlerRunning} tc={s.transportCloses} od={s.onDone} P={",".intercalate (parked s)} X={",".intercalate (cancelledSet s)} F={",".intercalate (finished s)}"

def parseLabel (toks : List String) : Option Label :=
  match toks with
  | ["ecall"] => some .ecall
  | ["enotify"] => some .enotify
  | ["ectx", c] => (parseCallNo c).map .ectx
  | ["eclose"] => some .eclose
  | ["ewait"] => some .ewait
  | ["read", "call", id] => id.toNat?.map fun i => .read (.call i)
  | ["read", "notif"] => some (.read .notif)
  | ["read", "cancel", id] => id.toNat?.map fun i => .read (.cancel i)
  | ["read", "resp", id, p] => do let i ← id.toNat?; let q ← p.toNat?; pure (.read (.resp i q))
  | ["read", "eof"] => some (.read .eof)
  | ["wret", w, o] => do
    let w ← parseWho w
    let o ← match o with
      | "ok" => some WOut.ok | "broken" => some .broken | "rejected" => some .rejected | "ctx" => some .ctx
      | _ => none
    pure (.wret w o)
  | ["hasync", r] => (parseReq r).map .hasync
  | ["hret", r, e] => (parseReq r).map fun r => .hret r (e == "1")
  | ["START"] => some .start
  | ["N1", w] => (parseWho w).map .n1
  | ["N2", w] => (parseWho w).map .n2
  | ["C1", c] => (parseCallNo c).map .c1
  | ["R", c] => (parseCallNo c).map .retire
  | ["K1", id] => id.toNat?.map .k1
  | ["WT", f] => some (.wt (f == "1"))
  | ["CL1"] => some .cl1
  | ["RR"] => some .rresp
  | ["RX"] => some .rx
  | ["A1", r] => (parseReq r).map .a1
  | ["A2", r] => (parseReq r).map .a2
  | ["D1"] => some .d1
  | ["P1", r] => (parseReq r).map .p1
  | ["P2", r] => (parseReq r).map .p2
  | ["W1", w] => (parseWho w).map .w1
  | ["W2", w] => (parseWho w).map .w2
  | _ => none

/-- Every process has reached its terminal pc and the connection is done. -/
def allFinished (s : St) : Bool :=
  s.done && !s.panicked && parked s == [] &&
  s.calls.all (fun c => c.pc == .fin) &&
  s.unotifs.all (fun n => match n.pc with | .fin _ => true | _ => false) &&
  s.cnotifs.all (fun p => match p.pc with | .fin _ => true | _ => false) &&
  s.closeCl1 == 0 && s.closeWaiting == 0 && s.closeWt == 0 && s.waitWaiting == 0 && s.waitWt == 0

/-! ## Monitors: C01–C05 as predicates on what the IMPLEMENTATION did

The monitor sees only the labels (ground truth: what the harness fed in and which goroutine it
released) and the implementation's observations; it never consults the model's state. -/

structure Obs where
  closing : Bool := false
  reading : Bool := false
  readErr : Bool := false
  writeErr : Bool := false
  closerUsed : Bool := false
  done : Bool := false
  oc : List String := []
  on : Nat := 0
  inc : Nat := 0
  by_ : List String := []
  q : List String := []
  hr : Bool := false
  tc : Nat := 0
  od : Nat := 0
  parkedL : List String := []
  x : List String := []
  f : List String := []

def splitList (v : String) : List String := (v.splitOn ",").filter (· ≠ "")

def parseObs (impl : String) : Option Obs := do
  let kv := (impl.splitOn " ").filterMap fun t =>
    match t.splitOn "=" with
    | [k, v] => some (k, v)
    | _ => none
  let get := fun k => (kv.lookup k).getD ""
  let sbits := (get "S").toList
  if sbits.length ≠ 6 then none
  let bit := fun i => sbits[i]! == '1'
  pure { closing := bit 0, reading := bit 1, readErr := bit 2, writeErr := bit 3, closerUsed := bit 4, done := bit 5,
         oc := splitList (get "oc"), on := (get "on").toNat?.getD 0, inc := (get "in").toNat?.getD 0,
         by_ := splitList (get "by"), q := splitList (get "q"), hr := get "hr" == "1",
         tc := (get "tc").toNat?.getD 0, od := (get "od").toNat?.getD 0,
         parkedL := splitList (get "P"), x := splitList (get "X"), f := splitList (get "F") }

structure MReq where
  id : Option Nat := none       -- wire id (calls)
  isCancel : Bool := false
  isNotif : Bool := true
  a2AfterShutdown : Bool := false
  started : Bool := false
  asyncd : Bool := false
  p2done : Bool := false
  p1count : Nat := 0
  okWrites : Nat := 0
  w1count : Nat := 0
  peerCancelled : Bool := false  -- a K1 for its id ran while it was indexed
  dup : Bool := false            -- arrived while its id was indexed (as observed at its A1)
deriving Inhabited

structure Mon where
  prev : Obs := {}
  sent : List (Nat × Nat) := []      -- (call id, payload) of responses fed to the reader
  reqs : List MReq := []
  brokenSeen : Bool := false         -- some transport Write really failed
  rxSeen : Bool := false
  idx : List (Nat × Nat) := []       -- monitor's view of the id index: wire id ↦ request, from A1/P1 labels
  startedLate : List Nat := []       -- calls started when the connection was already done
  ncalls : Nat := 0

def fin? (f : List String) (who : String) : Option String :=
  f.findSome? fun e => match e.splitOn ":" with
    | [w, r] => if w == who then some r else none
    | _ => none

def modR (m : Mon) (r : Nat) (f : MReq → MReq) : Mon := { m with reqs := m.reqs.modify r f }

/-- Update the monitor with label `toks` and the implementation's observation after it; return the
first violated clause. -/
def monStep (m : Mon) (toks : List String) (o : Obs) : Mon × Option String :=
  let p := m.prev
  -- bookkeeping from the label (ground truth)
  let m := match toks with
    | ["ecall"] => { m with ncalls := m.ncalls + 1, startedLate := if p.done then m.startedLate ++ [m.ncalls + 1] else m.startedLate }
    | ["read", "resp", id, pl] => { m with sent := m.sent ++ [(id.toNat?.getD 0, pl.toNat?.getD 0)] }
    | ["read", "call", id] => { m with reqs := m.reqs ++ [{ id := id.toNat?, isNotif := false }] }
    | ["read", "notif"] => { m with reqs := m.reqs ++ [{}] }
    | ["read", "cancel", _] => { m with reqs := m.reqs ++ [{ isCancel := true }] }
    | ["read", "eof"] => m
    | ["RX"] => { m with rxSeen := true }
    | ["wret", w, out] =>
      let m := if out == "broken" then { m with brokenSeen := true } else m
      match parseReq w with
      | some r => if out == "ok" then modR m r fun q => { q with okWrites := q.okWrites + 1 } else m
      | none => m
    | ["A1", r] =>
      match parseReq r with
      | some r =>
        match m.reqs[r]? with
        | some q =>
          match q.id with
          | some id =>
            if (m.idx.lookup id).isSome then modR m r fun q => { q with dup := true }
            else { m with idx := m.idx ++ [(id, r)] }
          | none => m
        | none => m
      | none => m
    | ["A2", r] =>
      match parseReq r with
      | some r => if p.closing || p.readErr || p.writeErr then modR m r fun q => { q with a2AfterShutdown := true } else m
      | none => m
    | ["P1", r] =>
      match parseReq r with
      | some r =>
        let m := modR m r fun q => { q with p1count := q.p1count + 1 }
        { m with idx := m.idx.filter fun e => e.2 ≠ r }
      | none => m
    | ["P2", r] => match parseReq r with
      | some r => modR m r fun q => { q with p2done := true }
      | none => m
    | ["W1", w] => match parseReq w with
      | some r => modR m r fun q => { q with w1count := q.w1count + 1 }
      | none => m
    | ["hasync", r] => match parseReq r with
      | some r => modR m r fun q => { q with asyncd := true }
      | none => m
    | ["K1", id] =>
      match id.toNat? with
      | some id => match m.idx.lookup id with
        | some r => modR m r fun q => { q with peerCancelled := true }
        | none => m
      | none => m
    | _ => m
  -- ───── checks on the implementation's observation
  let viol : Option String :=
    -- C01: results are final, own, intact
    (p.f.findSome? fun e =>
      match e.splitOn ":" with
      | [w, r] =>
        if (parseCallNo w).isSome then
          match fin? o.f w with
          | some r' => if r' == r then none else some s!"C01: call {w} completed twice (result changed from {r} to {r'})"
          | none => some s!"C01: completed call {w} lost its result"
        else none
      | _ => none)
    <|> (o.f.findSome? fun e =>
      match e.splitOn ":" with
      | [w, r] =>
        if (parseCallNo w).isSome && r.startsWith "ok" then
          match (w.drop 1).toString.toNat?, (r.drop 2).toString.toNat? with
          | some n, some pl => if m.sent.contains (n, pl) then none
                               else some s!"C01: call {w} completed with payload {pl} that was never sent for its id"
          | _, _ => some s!"C01: unparsable result {e}"
        else none
      | _ => none)
    <|> (o.f.findSome? fun e =>
      match e.splitOn ":" with
      | [w, r] => if (parseCallNo w).isSome && r == "panic" then some s!"C01: call {w} panicked (retire called twice / completed twice)" else none
      | _ => none)
    <|> (if o.done then
          (List.range m.ncalls).findSome? fun k =>
            let w := s!"c{k + 1}"
            if (fin? o.f w).isNone && !(o.parkedL.any fun lbl => lbl.endsWith (":" ++ w)) then
              some s!"C01: call {w} is still blocked in Await although the connection has terminated (done closed)"
            else none
        else none)
    <|> (m.startedLate.findSome? fun n =>
      match fin? o.f s!"c{n}" with
      | some r => if r == "closed" then none else some s!"C01: call c{n} started after termination ended with {r}, not with a closed-connection error"
      | none => none)
    -- C02: never two responses for one request, never a response for a notification
    <|> ((m.reqs.zipIdx 0).findSome? fun (q, r) =>
      if q.okWrites > 1 || q.p1count > 1 then some s!"C02: request r{r} answered more than once"
      else if (q.isNotif || q.isCancel) && q.w1count > 0 then some s!"C02: notification r{r} received a response"
      else none)
    -- C03: dispatch order
    <|> (o.parkedL.findSome? fun lbl =>
      if lbl.startsWith "H:r" && !p.parkedL.contains lbl then
        match (lbl.drop 3).toString.toNat? with
        | some j =>
          match m.reqs[j]? with
          | some qj =>
            if qj.started then none else
            (m.reqs.zipIdx 0).findSome? fun (qi, i) =>
              if i < j && qi.started && !qi.asyncd && !qi.p2done then
                some s!"C03: handler of r{j} started before the synchronous handler of earlier r{i} finished"
              else if i > j && qi.started then
                some s!"C03: handler of later r{i} was started before earlier r{j}"
              else none
          | none => none
        | none => none
      else none)
    -- C04: only the matching request is cancelled
    <|> (o.x.findSome? fun e =>
      if p.x.contains e then none else
      match e.splitOn ":" with
      | [w, cause] =>
        match parseReq w with
        | some r =>
          match m.reqs[r]? with
          | some q =>
            if cause == "r" then (if m.rxSeen then none else some s!"C04: r{r} cancelled with a read error although the reader is alive")
            else if cause == "w" then
              (if m.brokenSeen then none
               else some s!"C05: handler context of r{r} cancelled as 'server closing' although no transport write ever failed (graceful Close must let running handlers finish)")
            else if q.peerCancelled || o.parkedL.contains s!"P2:r{r}" || q.p2done then none
            else some s!"C04: r{r} cancelled although no cancellation for its id was processed and it has not finished"
          | none => none
        | none => none
      | _ => none)
    <|> (match toks with
      | ["K1", id] =>
        match id.toNat? with
        | some id =>
          (m.reqs.zipIdx 0).findSome? fun (q, r) =>
            -- the request indexed under this id when K1 ran must now be cancelled (if its ctx is observable)
            if q.peerCancelled && q.id == some id && !q.p2done && (p.x ++ o.x).all (fun e => !e.startsWith s!"r{r}:")
               && (p.parkedL.contains s!"H:r{r}" || p.parkedL.contains s!"A2:r{r}" || p.q.contains (toString r))
            then some s!"C04: Cancel({id}) did not cancel the handler context of r{r}"
            else none
        | none => none
      | ["ectx", c] =>
        -- the caller must be on its way out without any help from the peer
        if p.parkedL.contains s!"WR:{c}" then none
        else if o.parkedL.contains s!"R:{c}" || (fin? o.f c).isSome then none
        else some s!"C04: cancelling the context of {c} did not make the call return"
      | _ => none)
    -- C05: transport closed once, only when idle; onDone once; nothing dispatched that arrived after shutdown began
    <|> (if o.tc > 1 then some "C05: transport closed more than once" else none)
    <|> (if o.od > 1 then some "C05: onDone ran more than once" else none)
    <|> (if o.tc == 1 && p.tc == 0 && !(o.oc.isEmpty && o.on == 0 && o.inc == 0 && !o.hr)
         then some "C05: transport closed while requests were still in flight" else none)
    <|> (if o.done && !(o.oc.isEmpty && o.on == 0 && o.inc == 0 && !o.hr) then some "C05: connection done while not idle" else none)
    <|> ((m.reqs.zipIdx 0).findSome? fun (q, r) =>
      if q.a2AfterShutdown && o.parkedL.contains s!"H:r{r}" then some s!"C05: r{r} was dispatched although it arrived after shutdown began" else none)
  -- mark newly started handlers
  let m := o.parkedL.foldl (fun m lbl =>
    if lbl.startsWith "H:r" then
      match (lbl.drop 3).toString.toNat? with
      | some j => modR m j fun q => { q with started := true }
      | none => m
    else m) m
  ({ m with prev := o }, viol)

/-- End of a case: everything must have terminated (C01: no caller blocked after termination; C05:
Close and Wait return, nothing left parked); every accepted call got a response attempt (C02). -/
def monEnd (m : Mon) (impl : String) : Option String :=
  if impl != "clean" then
    some ("C05: shutdown did not complete (" ++ impl ++ "): a caller, Close or Wait is still blocked or a goroutine is left parked after every handler returned, every write returned and the reader failed")
  else
    (m.reqs.zipIdx 0).findSome? fun (q, r) =>
      if !q.isNotif && !q.isCancel && q.w1count == 0 then
        if q.dup then some s!"C02: call r{r} whose id was already in flight was dropped without any response"
        else some s!"C02: call r{r} never had a response attempted"
      else none

structure DState where
  st : Option St := some {}
  mon : Mon := {}

def engine : Engine DState where
  init := {}
  step d toks impl :=
    match toks with
    | ["reset"] => ({}, { model := "ok" })
    | ["end"] =>
      let model := match d.st with
        | none => "model-disabled"
        | some s => if allFinished s then "clean" else "model-stuck"
      (d, { model := model, violated := monEnd d.mon impl })
    | "sess" :: _ =>
      -- stream `sess` (two real sessions, zz_verif_sesslevel_test.go): the session-level monitors of
      -- C01–C05 are evaluated by the Go harness; the model's observation of every case is "clean"
      -- and any other text is the violated clause (it starts with the property id).
      (d, { model := "clean", violated := if impl == "clean" then none else some impl })
    | _ =>
      match parseLabel toks with
      | none => (d, { model := "bad-op" })
      | some l =>
        let (mon', viol) := match parseObs impl with
          | some o => monStep d.mon toks o
          | none => (d.mon, some ("unparsable observation: " ++ impl))
        match d.st with
        | none => ({ d with mon := mon' }, { model := "disabled", violated := viol })
        | some s =>
          -- the harness names a detached cancel notification by its call (x<n>); the model by creation index
          let fixW : Who → Who := fun w => match w with
            | .cnotif n => .cnotif ((s.cnotifs.findIdx? (fun nf => nf.cancelFor == some n)).getD s.cnotifs.length)
            | w => w
          let l := match l with
            | .n1 w => .n1 (fixW w) | .n2 w => .n2 (fixW w) | .w1 w => .w1 (fixW w) | .w2 w => .w2 (fixW w)
            | .wret w o => .wret (fixW w) o
            | l => l
          match step s l with
          | none => ({ st := none, mon := mon' }, { model := "disabled", violated := viol })
          | some s' => ({ st := some s', mon := mon' }, { model := observe s', violated := viol })

end Conn

def main : IO Unit := Proto.run Conn.engine
