import McpModel.Conn.MonCallsStep
/-!
The marshalling error is the result of exactly the calls started with `ecallbad`: in the model a call
record can carry `.err .marshal` (as outcome, or as the error it is about to retire with) only if it
was created by `ecallbad`.  Part `MonBad` of `MonRel`.
-/
namespace Conn
open CallsStep

/-- Every record of `s0` that carries the marshalling error already did in `s`. -/
def Back (s s0 : St) : Prop := ∀ n c0, getCall s0 n = some c0 → Marsh c0 → ∃ c, getCall s n = some c ∧ Marsh c

theorem Back.refl (s : St) : Back s s := fun _ c0 h m => ⟨c0, h, m⟩

theorem Back.trans {a b c : St} (h1 : Back a b) (h2 : Back b c) : Back a c := by
  intro n c0 hc hm
  obtain ⟨c1, h3, m1⟩ := h2 n c0 hc hm
  exact h1 n c1 h3 m1

theorem Back.of_calls {s s1 s0 : St} (b : Back s s1) (h : s0.calls = s1.calls) : Back s s0 := by
  intro n c0 hc hm
  exact b n c0 ((getCall_congr h n).symm.trans hc) hm

theorem back_modCall (s : St) (k : Nat) (f : Call → Call) (hk : 1 ≤ k)
    (hf : ∀ c, getCall s k = some c → Marsh (f c) → Marsh c) : Back s (modCall s k f) := by
  intro n c0 hc hm
  rw [getCall_modCall _ _ _ _ hk] at hc
  by_cases hnk : n = k
  · subst hnk
    simp only [if_true] at hc
    cases hg : getCall s n with
    | none => simp [hg] at hc
    | some c => simp [hg] at hc; subst hc; exact ⟨c, rfl, hf c hg hm⟩
  · simp only [hnk, if_false] at hc; exact ⟨c0, hc, hm⟩

theorem marsh_retireCall {c : Call} {r : Res} (h : Marsh (retireCall c r).1) : Marsh c ∨ r = .err .marshal := by
  unfold retireCall at h
  cases hr : c.ready with
  | some x => simp [hr] at h; exact Or.inl h
  | none =>
    simp only [hr] at h
    rcases h with h | h | h
    · right; simpa using h
    · exact Or.inl (Or.inr (Or.inl h))
    · exact Or.inl (Or.inr (Or.inr h))

theorem back_retireIn (s : St) (k : Nat) (r : Res) (hr : r = .err .marshal → ∀ c, getCall s k = some c → Marsh c) :
    Back s (retireIn s k r) := by
  intro n c0 hc hm
  rw [getCall_retireIn'] at hc
  by_cases hnk : n = k
  · subst hnk
    simp only [if_true] at hc
    cases hg : getCall s n with
    | none => simp [hg] at hc
    | some c =>
      simp [hg] at hc; subst hc
      rcases marsh_retireCall hm with h | h
      · exact ⟨c, rfl, h⟩
      · exact ⟨c, rfl, hr h c hg⟩
  · simp only [hnk, if_false] at hc; exact ⟨c0, hc, hm⟩

theorem back_foldl_retire (l : List Nat) (r : Res) (hr : r ≠ .err .marshal) (s : St) :
    Back s (l.foldl (fun s n => retireIn s n r) s) := by
  induction l generalizing s with
  | nil => exact Back.refl s
  | cons a t ih =>
    simp only [List.foldl]
    exact (back_retireIn s a r (fun h => absurd h hr)).trans (ih _)

theorem settleCall_pc (c : Call) : (settleCall c).pc = c.pc ∨ (settleCall c).pc = .rc ∨ (settleCall c).pc = .fin := by
  unfold settleCall
  repeat' split
  all_goals simp

theorem marsh_settleCall {c : Call} (h : Marsh (settleCall c)) : Marsh c := by
  rcases h with h | h | h
  · exact Or.inl ((settleCall_ready c).symm.trans h)
  · rcases settleCall_pc c with e | e | e
    · exact Or.inr (Or.inl (e ▸ h))
    · rw [e] at h; cases h
    · rw [e] at h; cases h
  · rcases settleCall_pc c with e | e | e
    · exact Or.inr (Or.inr (e ▸ h))
    · rw [e] at h; cases h
    · rw [e] at h; cases h

theorem back_settle (s : St) : Back s (settle s) := by
  intro n c0 hc hm
  rw [getCall_settle] at hc
  cases hg : getCall s n with
  | none => simp [hg] at hc
  | some c => simp [hg] at hc; subst hc; exact ⟨c, rfl, marsh_settleCall hm⟩

theorem marsh_of_upd {c c' : Call} (hm : Marsh c') (hr : c'.ready = c.ready)
    (hpc : c'.pc = c.pc ∨ (c'.pc ≠ .r .marshal ∧ c'.pc ≠ .w2 .marshal)) : Marsh c := by
  rcases hm with hm | hm | hm
  · exact Or.inl (hr ▸ hm)
  · rcases hpc with e | ⟨e, _⟩
    · exact Or.inr (Or.inl (e ▸ hm))
    · exact absurd hm e
  · rcases hpc with e | ⟨_, e⟩
    · exact Or.inr (Or.inr (e ▸ hm))
    · exact absurd hm e

theorem back_append (s : St) (c0 : Call) (h0 : ¬ Marsh c0) : Back s { s with calls := s.calls ++ [c0] } := by
  intro n c hc hm
  simp only [getCall_eq] at hc
  by_cases hn : n = 0
  · simp [hn] at hc
  · simp only [hn, if_false, List.getElem?_append] at hc
    by_cases hlt : n - 1 < s.calls.length
    · simp only [hlt, if_true] at hc
      exact ⟨c, by simp [getCall_eq, hn, hc], hm⟩
    · simp only [hlt, if_false] at hc
      cases hx : n - 1 - s.calls.length with
      | zero => simp [hx] at hc; subst hc; exact absurd hm h0
      | succ k => simp [hx] at hc

theorem back_step0 {s s0 : St} {l : Label} (h : step0 s l = some s0) (hl : l ≠ .ecallbad) : Back s s0 := by
  by_cases ht : l.touchesCalls = false
  · exact (Back.refl s).of_calls (congrArg CallView.calls (frame_calls s s0 l h ht))
  · cases l <;> simp [Label.touchesCalls] at ht <;> simp only [step0] at h
    case ecallbad => exact absurd rfl hl
    case ecall => cases h; exact back_append s {} (by simp [Marsh])
    case ectx k =>
      split at h
      · cases h
      · rename_i ck hk
        split at h <;> cases h
        exact back_modCall s k _ (getCall_some_pos hk).1 (by intro c _ hm; exact marsh_of_upd hm rfl (by simp))
    case wret w o =>
      cases w <;> simp [Label.touchesCalls] at ht
      rename_i k
      simp only at h
      split at h
      · cases h
      · rename_i ck hk
        have hkp := (getCall_some_pos hk).1
        split at h
        · cases h
        · split at h <;> first
            | (cases h; done)
            | (cases h
               first
                 | exact back_modCall s k _ hkp (by intro c _ hm; exact marsh_of_upd hm rfl (by simp))
                 | exact ((Back.refl s).of_calls (s1 := s) rfl).trans
                     (back_modCall _ k _ hkp (by intro c _ hm; exact marsh_of_upd hm rfl (by simp))))
    case w1 w =>
      cases w <;> simp [Label.touchesCalls] at ht
      rename_i k
      simp only at h
      split at h
      · cases h
      · rename_i ck hk
        have hkp := (getCall_some_pos hk).1
        split at h
        · cases h
        · split at h <;>
            (cases h
             exact (back_modCall s k _ hkp (by intro c _ hm; exact marsh_of_upd hm rfl (by simp))).of_calls (tail_calls _))
    case w2 w =>
      cases w <;> simp [Label.touchesCalls] at ht
      rename_i k
      simp only at h
      split at h
      · cases h
      · rename_i ck hk
        have hkp := (getCall_some_pos hk).1
        split at h
        · rename_i e hpc
          cases h
          have hk' : getCall (markBroken s) k = some ck := (getCall_congr (markBroken_calls s) k).trans hk
          refine (((Back.refl s).of_calls (markBroken_calls s)).trans
            (back_modCall (markBroken s) k _ hkp ?_)).of_calls (tail_calls _)
          intro c hc hm
          rw [hk'] at hc; cases hc
          rcases hm with hm | hm | hm
          · exact Or.inl hm
          · simp at hm; subst hm; exact Or.inr (Or.inr hpc)
          · simp at hm
        · cases h
    case c1 k =>
      split at h
      · cases h
      · rename_i ck hk
        have hkp := (getCall_some_pos hk).1
        split at h
        · cases h
        · split at h
          · cases h
            have b1 : Back s (tail s) := (Back.refl s).of_calls (tail_calls s)
            have b2 := back_modCall (tail s) k (fun c => { c with pc := .await }) hkp
              (by intro c _ hm; exact marsh_of_upd hm rfl (by simp))
            exact (b1.trans b2).trans (back_retireIn _ k _ (fun hr => by cases hr))
          · cases h
            exact (back_modCall { s with outCalls := s.outCalls ++ [k] } k _ hkp
              (by intro c _ hm; exact marsh_of_upd hm rfl (by simp))).of_calls (tail_calls _)
    case rresp =>
      split at h
      · rename_i id p hrd
        cases h
        refine Back.of_calls ?_ (tail_calls _)
        split
        · exact ((Back.refl s).of_calls (s1 := s) rfl).trans (back_retireIn _ id _ (fun hr => by cases hr))
        · exact (Back.refl s).of_calls rfl
      · cases h
    case rx =>
      split at h
      · cases h
      · cases h
        refine Back.of_calls ?_ ((tail_calls _).trans (foldl_cancel_calls _ _ _))
        refine Back.of_calls (s1 := s.outCalls.foldl (fun s n => retireIn s n (.err .read))
          { s with reader := .gone, reading := false, readErr := true }) ?_ rfl
        exact ((Back.refl s).of_calls (s1 := s) rfl).trans (back_foldl_retire _ _ (by simp) _)
    case retire k =>
      split at h
      · cases h
      · rename_i ck hk
        have hkp := (getCall_some_pos hk).1
        split at h
        · cases h
        · rename_i e viaCtx hm
          have he : e = .marshal → Marsh ck := by
            intro hem; subst hem
            cases hpc : ck.pc <;> simp [hpc] at hm
            · rename_i e'; exact Or.inr (Or.inl (by rw [hpc, hm.1]))
          have b1 : Back s (if s.outCalls.contains k = true then
              retireIn { s with outCalls := s.outCalls.erase k } k (.err e) else s) := by
            split
            · refine ((Back.refl s).of_calls (s1 := s) rfl).trans (back_retireIn _ k _ ?_)
              intro hr c hc
              have hem : e = .marshal := by simpa using hr
              have : getCall s k = some c := hc
              rw [hk] at this; cases this
              exact he hem
            · exact Back.refl s
          split at h <;> cases h
          · refine Back.of_calls (s1 := modCall (tail _) k _) ?_ rfl
            exact (b1.of_calls (tail_calls _)).trans (back_modCall _ k _ hkp (by intro c _ hm; exact marsh_of_upd hm rfl (by simp)))
          · exact (b1.of_calls (tail_calls _)).trans (back_modCall _ k _ hkp (by intro c _ hm; exact marsh_of_upd hm rfl (by simp)))

theorem back_ecallbad {s s0 : St} (h : step0 s .ecallbad = some s0) :
    ∀ n c0, getCall s0 n = some c0 → Marsh c0 → (∃ c, getCall s n = some c ∧ Marsh c) ∨ n = s.calls.length + 1 := by
  simp only [step0] at h
  cases h
  intro n c hc hm
  simp only [getCall_eq] at hc
  by_cases hn : n = 0
  · simp [hn] at hc
  · simp only [hn, if_false, List.getElem?_append] at hc
    by_cases hlt : n - 1 < s.calls.length
    · simp only [hlt, if_true] at hc
      exact Or.inl ⟨c, by simp [getCall_eq, hn, hc], hm⟩
    · right
      simp only [hlt, if_false] at hc
      cases hx : n - 1 - s.calls.length with
      | zero => omega
      | succ k => simp [hx] at hc

theorem book_badCalls_mono (m : Mon) (p : Obs) (e : Ev) (n : Nat) (hx : n ∈ m.badCalls) : n ∈ (m.book p e).badCalls := by
  cases e <;> simp only [Mon.book] <;> (repeat' split) <;> simp [modR, hx]

theorem monbad_step {m : Mon} {s s' : St} {l : Label} {p : Obs} (B : MonBad m s) (mc : MonCalls m s)
    (h : step s l = some s') : MonBad (m.book p (evOf l)) s' := by
  simp only [step, Option.map_eq_some_iff] at h
  obtain ⟨s0, h0, rfl⟩ := h
  refine ⟨fun n c' hc' hm => ?_⟩
  obtain ⟨c0, hc0, hm0⟩ := back_settle s0 n c' hc' hm
  by_cases hl : l = .ecallbad
  · subst hl
    rcases back_ecallbad h0 n c0 hc0 hm0 with ⟨c, hc, hmc⟩ | hn
    · exact book_badCalls_mono _ _ _ _ (B.bad n c hc hmc)
    · subst hn
      simp [evOf, Mon.book, mc.ncalls]
  · obtain ⟨c, hc, hmc⟩ := back_step0 h0 hl n c0 hc0 hm0
    exact book_badCalls_mono _ _ _ _ (B.bad n c hc hmc)

theorem monbad_mark {m : Mon} {s : St} (B : MonBad m s) (o : Obs) : MonBad { m.mark o with prev := o } s := ⟨B.bad⟩

end Conn
