import McpModel.Conn.MonEnd
import McpModel.Conn.Render
/-!
# The bridge between the monitors of C01–C05 and the model (E1)

`monitor_accepts_model`: the step monitors (`monStepT`, evaluated by the driver on the
IMPLEMENTATION's observations) raise no alarm on any behaviour the model allows — for ALL label
lists.  `monEnd_accepts_quiescent`: neither does the end-of-case monitor, for every drained
connection, except for the known finding F3.  The invariant is `MonRel` (MonRelDefs.lean).

Together with the driver's comparison of the implementation's observation text with the model's
(`A` = equal) and the run-time self-check `parseObs (observe s) = some (obsOf s)`, this says: on a
record the driver answers `A`, the monitor ran on exactly `obsOf s` and cannot have fired; a `V`
therefore always comes with a `D` (the implementation left the model) — the monitor then turns the
broken tie into the violated clause of the property (clause soundness: `Sound.lean`).
-/
namespace Conn

/-- **The model's observation text is the rendering of the typed observation** in every reachable
state (`observe` prints `panic` for panicked states, and no reachable state has panicked). -/
theorem observe_reachable (ls : List Label) (s : St) (h : run {} ls = some s) : observe s = render (obsOf s) :=
  observe_eq_render s (inv4_not_panicked (inv4_run ls inv4_init h))

/-- The monitors read the same event off the label the harness printed and off the label the model
is stepped with (they differ only in how a detached cancel notification is named). -/
theorem evOf_relabel_fixCnotif (s : St) (l : Label) : evOf (l.relabel (fixCnotif s)) = evOf l := by
  have hw : ∀ w : Who, (fixCnotif s w).resp? = w.resp? := by intro w; cases w <;> rfl
  cases l with
  | wret w o => simp [Label.relabel, evOf, hw]
  | w1 w => cases w <;> rfl
  | _ => rfl

theorem monStepT_relabel_fixCnotif (m : Mon) (s : St) (l : Label) (o : Obs) :
    monStepT m (l.relabel (fixCnotif s)) o = monStepT m l o := by
  simp [monStepT, evOf_relabel_fixCnotif]

/-- **MonRel holds along every run.** The monitor state after the model's own observation trace is
related to the model state reached. -/
theorem monRel_run (ls : List Label) (s : St) (h : run {} ls = some s) :
    MonRel (monAfter {} (traceOf ls)) s :=
  monrel_run_from ls {} {} s monRel_init inv4_init h

/-- **No false alarm (every prefix).** No clause fires on the observation trace of the model, for
ALL label lists (the trace stops at the first label the model does not allow). -/
theorem monitor_accepts_model_trace (ls : List Label) : runMon (traceOf ls) = none :=
  runMonFrom_traceFrom ls {} {} monRel_init inv4_init

/-- **monitor_accepts_model.** For every label list the model allows, the monitors of C01–C05 raise no
alarm on the model's observation trace. -/
theorem monitor_accepts_model (ls : List Label) (s : St) (_h : run {} ls = some s) :
    runMon (traceOf ls) = none :=
  monitor_accepts_model_trace ls

/-- Non-vacuity: the trace of an allowed label list has one observation per label. -/
theorem traceOf_length (ls : List Label) (s : St) (h : run {} ls = some s) : (traceOf ls).length = ls.length := by
  have key : ∀ (ls : List Label) (s0 s : St), run s0 ls = some s → (traceFrom s0 ls).length = ls.length := by
    intro ls
    induction ls with
    | nil => intro s0 s _; rfl
    | cons l ls ih =>
      intro s0 s h
      simp only [run] at h
      cases hs : step s0 l with
      | none => simp [hs] at h
      | some s1 =>
        simp only [hs] at h
        simp [traceFrom, hs, ih s1 s h]
  exact key ls {} s h

/-- **monEnd_accepts_quiescent.** At the end of a case — Close was called (or the reader / the writer
failed), every handler returned, every transport Write returned, the reader was given EOF, no caller
waits for the peer with a live context, and no critical section is left to run (`Drained`) — the
model's answer to the end-of-case record is `clean` (`allFinished`), and the end-of-case monitor,
given that the implementation also reports `clean`, raises nothing except the clause of the known
finding F3: a call whose id was already in flight when it arrived (the monitor saw `dup` at its A1)
is dropped without a response. -/
theorem monEnd_accepts_quiescent (ls : List Label) (s : St) (h : run {} ls = some s) (d : Drained s) :
    allFinished s = true ∧
    ∀ c, monEndT (monAfter {} (traceOf ls)) none = some c →
      ∃ r q, c = .c02Dropped r ∧ (monAfter {} (traceOf ls)).reqs[r]? = some q ∧ q.dup = true ∧ q.isNotif = false := by
  have i := inv4_run ls inv4_init h
  have R := monRel_run ls s h
  have hd := drained_done i d
  exact ⟨drained_allFinished i d, monEnd_of_finished R.reqs i (fun r k hk => drained_core_fin i d hd hk)⟩

/-- … and nothing at all when no incoming call reused an id that was still in flight (in the model:
every request that carries an id is still a call). -/
theorem monEnd_accepts_quiescent_no_dup (ls : List Label) (s : St) (h : run {} ls = some s) (d : Drained s)
    (hnd : ∀ (r : Nat) (k : ReqCore), s.cores[r]? = some k → k.id.isSome = true → k.isCall = true) :
    monEndT (monAfter {} (traceOf ls)) none = none := by
  have i := inv4_run ls inv4_init h
  have R := monRel_run ls s h
  cases hc : monEndT (monAfter {} (traceOf ls)) none with
  | none => rfl
  | some c =>
    exfalso
    obtain ⟨r, q, _, hq, hdup, hnot⟩ := (monEnd_accepts_quiescent ls s h d).2 c hc
    obtain ⟨k, mt, hk, _, Rq⟩ := req_lookup R.reqs i hq
    have hidk := Rq.idk
    have hkind := Rq.kind
    rw [hdup] at hkind
    have hcall : k.isCall = false := by simpa using hkind
    -- a request marked `dup` carries an id
    have hid : k.id.isSome = true := by
      rw [← Rq.id]
      have := Rq.idk
      rw [hnot] at this
      cases hq' : q.id.isSome <;> simp [hq'] at this ⊢
    rw [hnd r k hk hid] at hcall
    cases hcall

/-! ## Monitor defects found while proving the bridge

Two clauses of the untyped monitor were stricter than the model on schedules the harness does not
generate (it cancels a caller's context only while the call is inside the transport Write or blocked
in Await).  Both clauses could therefore fire on a behaviour the model allows; both were repaired in
the monitor (`chkEv` / `chkLate` in Monitor.lean), none in the model.  The old clauses and a witness
for each are kept here. -/

/-- The C04 clause as it was: only a caller inside the transport Write was exempt. -/
def chkEctxOld (p o : Obs) (n : Nat) : Option Clause :=
  if p.parked.contains (.wr (.call n)) then none
  else if o.parked.contains (.r n) || (finCall o.fins n).isSome then none
  else some (.c04CtxStuck n)

/-- Witness `ecall; ectx c1`: the caller is still parked before its registration point C1 — it is
not blocked on anybody — yet the old clause reported "cancelling the context did not make the call
return".  Repair: a caller parked at ANY yield site (or inside the Write) is exempt; a caller that
was blocked in Await must still be parked before its Retire, or finished, in the very next observation. -/
theorem old_ctx_clause_false_alarm :
    ∃ s s', run {} [.ecall] = some s ∧ step s (.ectx 1) = some s' ∧
      chkEctxOld (obsOf s) (obsOf s') 1 = some (.c04CtxStuck 1) := by
  refine ⟨_, _, rfl, rfl, ?_⟩
  unfold chkEctxOld
  rw [if_neg, if_neg]
  · rw [Bool.or_eq_true, not_or, parked_contains_r, finCall_obsOf]
    refine ⟨?_, ?_⟩
    · rintro ⟨c, hc, hpc⟩
      have : c.pc = .c1 := by
        have h' : getCall _ 1 = some c := hc
        simp [getCall_eq, settle, settleCalls, settleCall, settleWaiters, settleDisp, modCall] at h'
        rw [← h']
      rcases hpc with h | ⟨e, h⟩ <;> simp [this] at h
    · decide
  · rw [parked_contains_wr_call]
    rintro ⟨c, hc, hpc⟩
    have h' : getCall _ 1 = some c := hc
    simp [getCall_eq, settle, settleCalls, settleCall, settleWaiters, settleDisp] at h'
    rw [← h'] at hpc
    simp at hpc

/-- The C01 clause as it was: a call started after termination must end with `closed`, whatever
happened to its context. -/
def chkLateOld (m : Mon) (o : Obs) : Option Clause :=
  m.startedLate.findSome? fun n =>
    match finCall o.fins n with
    | some r => if r = .closed then none else some (.c01Late n r)
    | none => none

theorem chkLateOld_fires (s : St) (m : Mon) (h : callFin s 1 = some .ctx) (hm : m.startedLate = [1]) :
    chkLateOld m (obsOf s) = some (.c01Late 1 .ctx) := by
  unfold chkLateOld
  rw [hm]
  simp [finCall_obsOf, h]

/-- The schedule: Close, EOF, reader exit (the connection is done); then a call is started, its
context is cancelled before it reaches C1, C1 refuses it, and the eager Retire returns `ctx.Err()`. -/
def lateWitness : List Label := [.start, .eclose, .cl1, .read .eof, .rx, .ecall, .ectx 1, .c1 1, .retire 1]

/-- Witness: on `lateWitness` the monitor has recorded call 1 as started after termination and the
model (like Go's `select` in `Await`, which may pick either ready branch) lets it return its
context's error; the old clause fired.  Repair: a late call whose context the harness cancelled may
end with `ctx` as well as with `closed` (property text: "an error once the caller's context ends or
the connection … is closed"). -/
theorem old_late_clause_false_alarm :
    ∃ s, run {} lateWitness = some s ∧ (monAfter {} (traceOf lateWitness)).startedLate = [1] ∧
      chkLateOld (monAfter {} (traceOf lateWitness)) (obsOf s) = some (.c01Late 1 .ctx) :=
  ⟨_, rfl, rfl, chkLateOld_fires _ _ rfl rfl⟩

/-- … and the repaired monitor accepts both witnesses (instances of `monitor_accepts_model`). -/
example : runMon (traceOf lateWitness) = none := monitor_accepts_model_trace _
example : runMon (traceOf [.ecall, .ectx 1]) = none := monitor_accepts_model_trace _

end Conn
