import McpModel.Conn.Terminate
/-!
# C05 liveness, continued: the hypotheses of `close_terminates` are decidable, satisfiable and necessary

* Boolean deciders for `Enabled` (fairness), `HandlerRunning` (a), `WriteInFlight` (b), `AwaitingPeer` (c),
  `ReadAfterClose` (d), each with an `_iff` lemma — so the hypotheses can be evaluated on concrete states;
* non-vacuity: a concrete closing state with a running handler from which the connection's own steps,
  once the handler has returned, its response was written and the reader got EOF, reach a quiescent state;
* necessity: for each of (a)–(d), and for fairness, a reachable closing state in which exactly that
  hypothesis fails, all the others hold, and `done` is not reached — and, in the four cases where no
  critical section is enabled, never will be without the environment (`maximal_stays`).
-/
namespace Conn

/-! ### deciders -/

def handlerRunningB (s : St) : Bool := s.cores.any (fun k => k.pc == .running)

def writeInFlightB (s : St) : Bool :=
  s.calls.any (fun c => c.pc == .wr) || s.cores.any (fun k => k.pc == .wr) ||
    s.unotifs.any (fun nf => nf.pc == .wr) || s.cnotifs.any (fun nf => nf.pc == .wr)

def awaitingPeerB (s : St) : Bool :=
  s.outCalls.any fun n =>
    match getCall s n with
    | some c => c.pc == .await && c.ready.isNone && !c.ctxDone
    | none => false

def readAfterCloseB (s : St) : Bool := s.reader == .read && s.closerUsed

theorem any_iff_getElem? {α : Type} (l : List α) (p : α → Bool) :
    l.any p = true ↔ ∃ (i : Nat) (a : α), l[i]? = some a ∧ p a = true := by
  rw [List.any_eq_true]
  constructor
  · rintro ⟨a, ha, hp⟩
    obtain ⟨i, hi⟩ := List.mem_iff_getElem?.mp ha
    exact ⟨i, a, hi, hp⟩
  · rintro ⟨i, a, hi, hp⟩
    exact ⟨a, List.mem_iff_getElem?.mpr ⟨i, hi⟩, hp⟩

theorem handlerRunningB_iff (s : St) : handlerRunningB s = true ↔ HandlerRunning s := by
  unfold handlerRunningB HandlerRunning
  rw [any_iff_getElem?]
  constructor
  · rintro ⟨r, k, hk, hp⟩; exact ⟨r, k, hk, by simpa using hp⟩
  · rintro ⟨r, k, hk, hp⟩; exact ⟨r, k, hk, by simpa using hp⟩

theorem writeInFlightB_iff (s : St) : writeInFlightB s = true ↔ WriteInFlight s := by
  unfold writeInFlightB WriteInFlight
  simp only [Bool.or_eq_true, any_iff_getElem?]
  constructor
  · rintro (((⟨i, c, hc, hp⟩ | ⟨r, k, hk, hp⟩) | ⟨i, nf, hn, hp⟩) | ⟨i, nf, hn, hp⟩)
    · exact Or.inl ⟨i + 1, c, by simp [getCall_eq, hc], by simpa using hp⟩
    · exact Or.inr (Or.inl ⟨r, k, hk, by simpa using hp⟩)
    · exact Or.inr (Or.inr ⟨.unotif i, nf, by simpa [getNotif] using hn, by simpa using hp⟩)
    · exact Or.inr (Or.inr ⟨.cnotif i, nf, by simpa [getNotif] using hn, by simpa using hp⟩)
  · rintro (⟨n, c, hc, hp⟩ | ⟨r, k, hk, hp⟩ | ⟨w, nf, hn, hp⟩)
    · exact Or.inl (Or.inl (Or.inl ⟨n - 1, c, calls_get0 hc, by simp [hp]⟩))
    · exact Or.inl (Or.inl (Or.inr ⟨r, k, hk, by simp [hp]⟩))
    · cases w with
      | call n => simp [getNotif] at hn
      | resp r => simp [getNotif] at hn
      | unotif i => exact Or.inl (Or.inr ⟨i, nf, by simpa [getNotif] using hn, by simp [hp]⟩)
      | cnotif i => exact Or.inr ⟨i, nf, by simpa [getNotif] using hn, by simp [hp]⟩

theorem awaitingPeerB_iff (s : St) : awaitingPeerB s = true ↔ AwaitingPeer s := by
  unfold awaitingPeerB AwaitingPeer
  rw [List.any_eq_true]
  constructor
  · rintro ⟨n, hn, hp⟩
    cases hc : getCall s n with
    | none => simp [hc] at hp
    | some c =>
      simp only [hc, Bool.and_eq_true, beq_iff_eq, Option.isNone_iff_eq_none, Bool.not_eq_true'] at hp
      exact ⟨n, c, hn, hc, hp.1.1, hp.1.2, hp.2⟩
  · rintro ⟨n, c, hn, hc, h1, h2, h3⟩
    exact ⟨n, hn, by simp [hc, h1, h2, h3]⟩

theorem readAfterCloseB_iff (s : St) : readAfterCloseB s = true ↔ ReadAfterClose s := by
  unfold readAfterCloseB ReadAfterClose
  simp

/-- Every process that exists in `s`, as the subject of a write-path label. -/
def whos (s : St) : List Who :=
  (List.range s.calls.length).map (fun i => Who.call (i + 1)) ++ (List.range s.unotifs.length).map Who.unotif ++
    (List.range s.cnotifs.length).map Who.cnotif ++ (List.range s.cores.length).map Who.resp

/-- Every internal label that could possibly be enabled in `s` (finitely many). -/
def candidates (s : St) : List Label :=
  [.start, .cl1, .rresp, .rx, .d1, .wt true, .wt false] ++
    (whos s).flatMap (fun w => [Label.n1 w, .n2 w, .w1 w, .w2 w]) ++
    (List.range s.calls.length).flatMap (fun i => [Label.c1 (i + 1), .retire (i + 1)]) ++
    s.cancels.map Label.k1 ++
    (List.range s.cores.length).flatMap (fun r => [Label.a1 r, .a2 r, .p1 r, .p2 r])

/-- Decider for `Enabled`: is some critical section of the connection enabled? -/
def enabledB (s : St) : Bool := (candidates s).any (fun l => l.internal && (step0 s l).isSome)

theorem call_mem_whos {s : St} {n : Nat} {c : Call} (h : getCall s n = some c) : Who.call n ∈ whos s := by
  obtain ⟨h1, h2⟩ := getCall_some_pos h
  simp only [whos, List.mem_append, List.mem_map, List.mem_range]
  exact Or.inl (Or.inl (Or.inl ⟨n - 1, by omega, by congr 1; omega⟩))

theorem resp_mem_whos {s : St} {r : Nat} {k : ReqCore} (h : s.cores[r]? = some k) : Who.resp r ∈ whos s := by
  have := (List.getElem?_eq_some_iff.mp h).1
  simp only [whos, List.mem_append, List.mem_map, List.mem_range]
  exact Or.inr ⟨r, this, rfl⟩

theorem notif_mem_whos {s : St} {w : Who} {nf : Notif} (h : getNotif s w = some nf) : w ∈ whos s := by
  simp only [whos, List.mem_append, List.mem_map, List.mem_range]
  cases w with
  | call n => simp [getNotif] at h
  | resp r => simp [getNotif] at h
  | unotif i =>
    have := (List.getElem?_eq_some_iff.mp (show s.unotifs[i]? = some nf from h)).1
    exact Or.inl (Or.inl (Or.inr ⟨i, this, rfl⟩))
  | cnotif i =>
    have := (List.getElem?_eq_some_iff.mp (show s.cnotifs[i]? = some nf from h)).1
    exact Or.inl (Or.inr ⟨i, this, rfl⟩)

theorem mem_cand_who {s : St} {w : Who} {l : Label} (hw : w ∈ whos s) (hl : l ∈ [Label.n1 w, .n2 w, .w1 w, .w2 w]) :
    l ∈ candidates s := by
  simp only [candidates, List.mem_append, List.mem_flatMap]
  exact Or.inl (Or.inl (Or.inl (Or.inr ⟨w, hw, hl⟩)))

theorem mem_cand_call {s : St} {n : Nat} {c : Call} {l : Label} (h : getCall s n = some c)
    (hl : l ∈ [Label.c1 n, .retire n]) : l ∈ candidates s := by
  obtain ⟨h1, h2⟩ := getCall_some_pos h
  simp only [candidates, List.mem_append, List.mem_flatMap, List.mem_range]
  refine Or.inl (Or.inl (Or.inr ⟨n - 1, by omega, ?_⟩))
  have : n - 1 + 1 = n := by omega
  rw [this]; exact hl

theorem mem_cand_core {s : St} {r : Nat} {k : ReqCore} {l : Label} (h : s.cores[r]? = some k)
    (hl : l ∈ [Label.a1 r, .a2 r, .p1 r, .p2 r]) : l ∈ candidates s := by
  have := (List.getElem?_eq_some_iff.mp h).1
  simp only [candidates, List.mem_append, List.mem_flatMap, List.mem_range]
  exact Or.inr ⟨r, this, hl⟩

theorem who_of_w {s : St} {w : Who} (h : (step0 s (.w1 w)).isSome = true ∨ (step0 s (.w2 w)).isSome = true) :
    w ∈ whos s := by
  cases w with
  | call n =>
    cases hc : getCall s n with
    | some c => exact call_mem_whos hc
    | none => rcases h with h | h <;> simp [step0, hc] at h
  | resp r =>
    cases hk : s.cores[r]? with
    | some k => exact resp_mem_whos hk
    | none => rcases h with h | h <;> simp [step0, hk] at h
  | unotif i =>
    cases hn : getNotif s (.unotif i) with
    | some nf => exact notif_mem_whos hn
    | none => rcases h with h | h <;> simp [step0, hn] at h
  | cnotif i =>
    cases hn : getNotif s (.cnotif i) with
    | some nf => exact notif_mem_whos hn
    | none => rcases h with h | h <;> simp [step0, hn] at h

/-- Completeness of the candidate list. -/
theorem enabled_mem_candidates {s : St} {l : Label} (hi : l.internal = true) (he : (step0 s l).isSome = true) :
    l ∈ candidates s := by
  cases l <;> simp [Label.internal] at hi
  case start => simp [candidates]
  case cl1 => simp [candidates]
  case rresp => simp [candidates]
  case rx => simp [candidates]
  case d1 => simp [candidates]
  case wt b => cases b <;> simp [candidates]
  case n1 w =>
    cases hn : getNotif s w with
    | some nf => exact mem_cand_who (notif_mem_whos hn) (by simp)
    | none => simp [step0, hn] at he
  case n2 w =>
    cases hn : getNotif s w with
    | some nf => exact mem_cand_who (notif_mem_whos hn) (by simp)
    | none => simp [step0, hn] at he
  case w1 w => exact mem_cand_who (who_of_w (Or.inl he)) (by simp)
  case w2 w => exact mem_cand_who (who_of_w (Or.inr he)) (by simp)
  case c1 n =>
    cases hc : getCall s n with
    | some c => exact mem_cand_call hc (by simp)
    | none => simp [step0, hc] at he
  case retire n =>
    cases hc : getCall s n with
    | some c => exact mem_cand_call hc (by simp)
    | none => simp [step0, hc] at he
  case k1 id =>
    have hm : id ∈ s.cancels := by
      by_cases hm : id ∈ s.cancels
      · exact hm
      · simp [step0, hm] at he
    simp only [candidates, List.mem_append, List.mem_map]
    exact Or.inl (Or.inr ⟨id, hm, rfl⟩)
  case a1 r =>
    cases hk : s.cores[r]? with
    | some k => exact mem_cand_core hk (by simp)
    | none => simp [step0, hk] at he
  case a2 r =>
    cases hk : s.cores[r]? with
    | some k => exact mem_cand_core hk (by simp)
    | none => simp [step0, hk] at he
  case p1 r =>
    cases hk : s.cores[r]? with
    | some k => exact mem_cand_core hk (by simp)
    | none => simp [step0, hk] at he
  case p2 r =>
    cases hk : s.cores[r]? with
    | some k => exact mem_cand_core hk (by simp)
    | none => simp [step0, hk] at he

theorem enabledB_iff (s : St) : enabledB s = true ↔ Enabled s := by
  unfold enabledB Enabled
  rw [List.any_eq_true]
  constructor
  · rintro ⟨l, _, hp⟩
    simp only [Bool.and_eq_true] at hp
    exact ⟨l, hp.1, hp.2⟩
  · rintro ⟨l, hi, he⟩
    exact ⟨l, enabled_mem_candidates hi he, by simp [hi, he]⟩

theorem maximal_of_enabledB {s : St} (h : enabledB s = false) : Maximal s := by
  intro he
  have := (enabledB_iff s).mpr he
  simp [h] at this

/-- All four obligations, as one Boolean. -/
def obligationsB (s : St) : Bool := !handlerRunningB s && !writeInFlightB s && !awaitingPeerB s && !readAfterCloseB s

theorem obligationsB_iff (s : St) : obligationsB s = true ↔ Obligations s := by
  unfold obligationsB
  simp only [Bool.and_eq_true, Bool.not_eq_true']
  constructor
  · rintro ⟨⟨⟨a, b⟩, c⟩, d⟩
    exact ⟨fun h => by simp [(handlerRunningB_iff s).mpr h] at a, fun h => by simp [(writeInFlightB_iff s).mpr h] at b,
      fun h => by simp [(awaitingPeerB_iff s).mpr h] at c, fun h => by simp [(readAfterCloseB_iff s).mpr h] at d⟩
  · rintro ⟨a, b, c, d⟩
    refine ⟨⟨⟨?_, ?_⟩, ?_⟩, ?_⟩
    · cases h : handlerRunningB s with
      | false => rfl
      | true => exact absurd ((handlerRunningB_iff s).mp h) a
    · cases h : writeInFlightB s with
      | false => rfl
      | true => exact absurd ((writeInFlightB_iff s).mp h) b
    · cases h : awaitingPeerB s with
      | false => rfl
      | true => exact absurd ((awaitingPeerB_iff s).mp h) c
    · cases h : readAfterCloseB s with
      | false => rfl
      | true => exact absurd ((readAfterCloseB_iff s).mp h) d

theorem not_handlerRunning_of {s : St} (h : handlerRunningB s = false) : ¬ HandlerRunning s :=
  fun hh => by simp [(handlerRunningB_iff s).mpr hh] at h
theorem not_writeInFlight_of {s : St} (h : writeInFlightB s = false) : ¬ WriteInFlight s :=
  fun hh => by simp [(writeInFlightB_iff s).mpr hh] at h
theorem not_awaitingPeer_of {s : St} (h : awaitingPeerB s = false) : ¬ AwaitingPeer s :=
  fun hh => by simp [(awaitingPeerB_iff s).mpr hh] at h
theorem not_readAfterClose_of {s : St} (h : readAfterCloseB s = false) : ¬ ReadAfterClose s :=
  fun hh => by simp [(readAfterCloseB_iff s).mpr hh] at h

/-! ### a state without enabled critical sections stays as it is, for ever, unless the environment acts -/

/-- **maximal_stays.** In a state in which no critical section is enabled the connection can take no step
of its own: the only run of internal labels is the empty one. Whatever such a state is waiting for has to
come from the environment. -/
theorem maximal_stays {s s' : St} (hm : Maximal s) (ls : List Label) (hint : ∀ l ∈ ls, l.internal = true)
    (h : run s ls = some s') : ls = [] ∧ s' = s := by
  cases ls with
  | nil => simp [run] at h; exact ⟨rfl, h.symm⟩
  | cons l t =>
    exfalso
    simp only [run] at h
    cases hs : step s l with
    | none => simp [hs] at h
    | some s1 =>
      apply hm
      refine ⟨l, hint l (by simp), ?_⟩
      simp only [step, Option.map_eq_some_iff] at hs
      obtain ⟨s0, h0, _⟩ := hs
      simp [h0]

/-! ### non-vacuity of `close_terminates` -/

/-- A server connection with a running handler on which `Close` (and `Wait`) has been called. -/
def closingBusy : List Label := [.start, .read (.call 7), .a1 0, .a2 0, .d1, .eclose, .cl1, .ewait]

/-- … the handler returns, its response is written, the peer closes: the environment's part. -/
def envPart : List Label := [.hret 0 false, .p1 0, .w1 (.resp 0), .wret (.resp 0) .ok, .read .eof]

/-- … and what is left to the connection: five critical sections. -/
def connPart : List Label := [.p2 0, .d1, .rx, .wt false, .wt true]

/-- The closing state with a running handler is reachable, not done, the transport is not closed, and the
connection waits for the handler (obligation (a) outstanding — nothing else). -/
example : ∃ s, run {} closingBusy = some s ∧ s.shuttingDown = true ∧ s.done = false ∧ s.closerUsed = false ∧
    enabledB s = false ∧ handlerRunningB s = true ∧ s.closeWaiting = 1 ∧ s.waitWaiting = 1 :=
  ⟨_, rfl, rfl, rfl, rfl, rfl, rfl, rfl, rfl⟩

/-- **close_terminates is not vacuous**: all hypotheses hold for the run `connPart` from the reachable closing
state `closingBusy ++ envPart`, whose measure `mu` is 8; the run is maximal and the obligations hold at its end. -/
theorem close_terminates_nonvacuous :
    ∃ s s', run {} (closingBusy ++ envPart) = some s ∧ s.shuttingDown = true ∧ s.done = false ∧
      (∀ l ∈ connPart, l.internal = true) ∧ run s connPart = some s' ∧ Maximal s' ∧ Obligations s' ∧
      connPart.length ≤ mu s ∧ s'.done = true ∧ AllReturned s' ∧ Quiescent s' ∧ s'.closeFin = 1 ∧ s'.waitFin = [true] := by
  refine ⟨_, _, rfl, rfl, rfl, by decide, rfl, ?_, ?_, ?_⟩
  · exact maximal_of_enabledB rfl
  · exact (obligationsB_iff _).mp rfl
  · have h := close_terminates (closingBusy ++ envPart) connPart _ _ rfl rfl (by decide) rfl
      (maximal_of_enabledB rfl) ((obligationsB_iff _).mp rfl)
    exact ⟨h.1, h.2.1, h.2.2.1, h.2.2.2, rfl, rfl⟩

/-! ### necessity of each hypothesis -/

/-- What a necessity witness shows: a reachable state in which shutdown has begun, that is not done, in
which no critical section is enabled (so that it stays as it is until the environment acts). -/
structure StuckClosing (pre : List Label) (s : St) : Prop where
  reach : run {} pre = some s
  closing : s.shuttingDown = true
  notDone : s.done = false
  maximal : Maximal s

/-- **(a) is needed**: Close while a handler runs and never returns. Everything else is fulfilled. -/
theorem obligation_handlers_needed :
    ∃ pre s, StuckClosing pre s ∧ HandlerRunning s ∧ ¬ WriteInFlight s ∧ ¬ AwaitingPeer s ∧ ¬ ReadAfterClose s :=
  ⟨[.start, .read (.call 7), .a1 0, .a2 0, .d1, .eclose, .cl1], _, ⟨rfl, rfl, rfl, maximal_of_enabledB rfl⟩,
    (handlerRunningB_iff _).mp rfl, not_writeInFlight_of rfl,
    not_awaitingPeer_of rfl,
    not_readAfterClose_of rfl⟩

/-- **(b) is needed**: Close while a notification is inside a transport `Write` that never returns. -/
theorem obligation_writes_needed :
    ∃ pre s, StuckClosing pre s ∧ ¬ HandlerRunning s ∧ WriteInFlight s ∧ ¬ AwaitingPeer s ∧ ¬ ReadAfterClose s :=
  ⟨[.start, .enotify, .n1 (.unotif 0), .w1 (.unotif 0), .eclose, .cl1], _, ⟨rfl, rfl, rfl, maximal_of_enabledB rfl⟩,
    not_handlerRunning_of rfl,
    (writeInFlightB_iff _).mp rfl,
    not_awaitingPeer_of rfl,
    not_readAfterClose_of rfl⟩

/-- **(c) is needed**: Close while an outgoing call, written successfully, waits for a peer that never
answers and whose caller never gives up (`cancelCall`'s comment: Close waits for it by design). -/
theorem obligation_peer_needed :
    ∃ pre s, StuckClosing pre s ∧ ¬ HandlerRunning s ∧ ¬ WriteInFlight s ∧ AwaitingPeer s ∧ ¬ ReadAfterClose s :=
  ⟨[.start, .ecall, .c1 1, .w1 (.call 1), .wret (.call 1) .ok, .eclose, .cl1], _,
    ⟨rfl, rfl, rfl, maximal_of_enabledB rfl⟩,
    not_handlerRunning_of rfl,
    not_writeInFlight_of rfl,
    (awaitingPeerB_iff _).mp rfl,
    not_readAfterClose_of rfl⟩

/-- **(d) is needed**: Close on an idle connection whose transport does not fail the pending `Read` after
`Close` (it does not honour Close). -/
theorem obligation_transport_needed :
    ∃ pre s, StuckClosing pre s ∧ ¬ HandlerRunning s ∧ ¬ WriteInFlight s ∧ ¬ AwaitingPeer s ∧ ReadAfterClose s :=
  ⟨[.start, .eclose, .cl1], _, ⟨rfl, rfl, rfl, maximal_of_enabledB rfl⟩,
    not_handlerRunning_of rfl,
    not_writeInFlight_of rfl,
    not_awaitingPeer_of rfl,
    (readAfterCloseB_iff _).mp rfl⟩

/-- **Fairness is needed**: the reader has been handed EOF after Close, all obligations are fulfilled, but
its exit section RX has not been scheduled: not done (and `Close()` still blocked) as long as it is not. -/
theorem fairness_needed :
    ∃ pre s, run {} pre = some s ∧ s.shuttingDown = true ∧ s.done = false ∧ Obligations s ∧ Enabled s ∧ s.closeWaiting = 1 :=
  ⟨[.start, .eclose, .cl1, .read .eof], _, rfl, rfl, rfl, (obligationsB_iff _).mp rfl, (enabledB_iff _).mp rfl, rfl⟩

end Conn
