import McpModel.Conn.Frames
/-! Invariants of the outgoing-call bookkeeping (C01). -/
namespace Conn

/-- Labels that touch the outgoing-call part of the state. -/
def Label.touchesCalls : Label → Bool
  | .ecall | .ecallbad | .ectx _ | .wret (.call _) _ | .c1 _ | .retire _ | .rresp | .rx
  | .w1 (.call _) | .w2 (.call _) => true
  | _ => false

set_option maxRecDepth 4000 in
/-- Every other label leaves the outgoing-call part of the state alone. -/
theorem frame_calls (s s' : St) (l : Label) (h : step0 s l = some s') (hl : l.touchesCalls = false) :
    callView s' = callView s := by
  cases l <;> simp [Label.touchesCalls] at hl <;> simp only [step0] at h
  all_goals (repeat' (split at h))
  all_goals first
    | (simp [Label.touchesCalls] at hl; done)
    | (simp at h; done)
    | (injection h with h; subst h; first | rfl | (simp [callView]; done))
    | skip


/-- What must hold of call `n` given the registration table and the log of responses read. -/
structure CallOK (oc : List Nat) (log : List (Nat × Nat)) (n : Nat) (c : Call) : Prop where
  /-- registered_iff_unretired: the table entry exists exactly while the call is registered and not completed. -/
  reg : n ∈ oc ↔ (c.registered = true ∧ c.ready = none)
  /-- the ghost retire counter is 0 or 1, and 1 exactly when the outcome is fixed -/
  retires : c.retires = if c.ready.isSome then 1 else 0
  fresh : c.pc = .c1 → c.registered = false ∧ c.ready = none
  refused : c.registered = false → c.pc ≠ .c1 → c.ready.isSome = true
  /-- response_is_own: a response payload comes from a message the reader was handed for this id -/
  own : ∀ p, c.ready = some (.resp p) → (n, p) ∈ log
  result : ∀ r, c.result = some r → c.pc = .fin ∧ (c.ready = some r ∨ (r = .err .ctx ∧ c.ctxDone = true))
  fin : c.pc = .fin → c.result.isSome = true ∧ c.ready.isSome = true
  /-- the eager-retire path is only taken with a finished context -/
  rcctx : c.pc = .rc → c.ctxDone = true

structure CInv (s : St) : Prop where
  nodup : s.outCalls.Nodup
  inrange : ∀ n ∈ s.outCalls, 1 ≤ n ∧ n ≤ s.calls.length
  ok : ∀ n c, getCall s n = some c → CallOK s.outCalls s.respLog n c
  nopanic : s.panicRetire = false

theorem getCall_eq (s : St) (n : Nat) : getCall s n = if n = 0 then none else s.calls[n - 1]? := rfl

theorem getCall_of_view {s s' : St} (h : callView s' = callView s) (n : Nat) : getCall s' n = getCall s n := by
  have : s'.calls = s.calls := congrArg CallView.calls h
  simp [getCall_eq, this]

theorem CInv.of_view {s s' : St} (h : callView s' = callView s) (i : CInv s) : CInv s' := by
  have h1 : s'.calls = s.calls := congrArg CallView.calls h
  have h2 : s'.outCalls = s.outCalls := congrArg CallView.outCalls h
  have h3 : s'.respLog = s.respLog := congrArg CallView.respLog h
  have h4 : s'.panicRetire = s.panicRetire := congrArg CallView.panicRetire h
  exact ⟨h2 ▸ i.nodup, by rw [h1, h2]; exact i.inrange,
    fun n c hc => by rw [h2, h3]; exact i.ok n c (by rw [← getCall_of_view h n]; exact hc), by rw [h4]; exact i.nopanic⟩

theorem calls_get0 {s : St} {n : Nat} {c : Call} (hc : getCall s n = some c) : s.calls[n - 1]? = some c := by
  simp only [getCall_eq] at hc
  by_cases hn : n = 0
  · simp [hn] at hc
  · simpa [hn] using hc

theorem getCall_modCall (s : St) (n m : Nat) (f : Call → Call) (hn : 1 ≤ n) :
    getCall (modCall s n f) m = if m = n then (getCall s n).map f else getCall s m := by
  simp only [getCall_eq, modCall]
  by_cases hm : m = 0
  · subst hm; have : (0 : Nat) ≠ n := by omega
    simp [this]
  · simp only [hm, if_false]
    by_cases hmn : m = n
    · subst hmn; simp [List.getElem?_modify_eq, hm]
    · have : n - 1 ≠ m - 1 := by omega
      simp [hmn, List.getElem?_modify_ne _ _ this]

/-- Replacing call `n` and the registration table: the invariant for the other calls is inherited. -/
theorem CInv.update' {s s' : St} (i : CInv s) (n : Nat) (c' : Call)
    (hget : ∀ m, getCall s' m = if m = n then some c' else getCall s m)
    (hlen : s'.calls.length = s.calls.length)
    (hoc : ∀ m, m ≠ n → (m ∈ s'.outCalls ↔ m ∈ s.outCalls))
    (hocn : n ∈ s'.outCalls → 1 ≤ n ∧ n ≤ s.calls.length)
    (hnd : s'.outCalls.Nodup)
    (hlog : ∀ x, x ∈ s.respLog → x ∈ s'.respLog)
    (hok : CallOK s'.outCalls s'.respLog n c')
    (hp : s'.panicRetire = false) : CInv s' := by
  refine ⟨hnd, ?_, ?_, hp⟩
  · intro m hm
    rw [hlen]
    by_cases hmn : m = n
    · subst hmn; exact hocn hm
    · exact i.inrange m ((hoc m hmn).mp hm)
  · intro m cm hcm
    rw [hget] at hcm
    by_cases hmn : m = n
    · subst hmn; simp at hcm; subst hcm; exact hok
    · simp only [hmn, if_false] at hcm
      have o := i.ok m cm hcm
      exact ⟨by rw [hoc m hmn]; exact o.reg, o.retires, o.fresh, o.refused,
        fun p hp => hlog _ (o.own p hp), o.result, o.fin, o.rcctx⟩

theorem CInv.update {s s' : St} (i : CInv s) (n : Nat) (c c' : Call) (hn : 1 ≤ n) (hc : getCall s n = some c)
    (hcalls : s'.calls = s.calls.modify (n - 1) (fun _ => c'))
    (hoc : ∀ m, m ≠ n → (m ∈ s'.outCalls ↔ m ∈ s.outCalls))
    (hocn : n ∈ s'.outCalls → n ≤ s.calls.length)
    (hnd : s'.outCalls.Nodup)
    (hlog : ∀ x, x ∈ s.respLog → x ∈ s'.respLog)
    (hok : CallOK s'.outCalls s'.respLog n c')
    (hp : s'.panicRetire = false) : CInv s' := by
  refine i.update' n c' ?_ (by rw [hcalls, List.length_modify]) hoc (fun h => ⟨hn, hocn h⟩) hnd hlog hok hp
  intro m
  have := getCall_modCall s n m (fun _ => c') hn
  simp only [getCall_eq, modCall] at this ⊢
  rw [hcalls, this]
  by_cases hmn : m = n
  · subst hmn
    have h2 := calls_get0 hc
    have : m ≠ 0 := by omega
    simp [this, h2]
  · simp [hmn]

/-! ### the call-touching labels -/

theorem getCall_some_pos {s : St} {n : Nat} {c : Call} (h : getCall s n = some c) : 1 ≤ n ∧ n ≤ s.calls.length := by
  simp only [getCall_eq] at h
  by_cases hn : n = 0
  · simp [hn] at h
  · simp only [hn, if_false] at h
    have := (List.getElem?_eq_some_iff.mp h).1
    omega

theorem retireIn_calls (s : St) (n : Nat) (c : Call) (r : Res) (hc : getCall s n = some c) (hr : c.ready = none) :
    (retireIn s n r).calls = s.calls.modify (n - 1) (fun _ => { c with ready := some r, retires := c.retires + 1 }) ∧
    (retireIn s n r).outCalls = s.outCalls ∧ (retireIn s n r).respLog = s.respLog ∧
    (retireIn s n r).panicRetire = s.panicRetire := by
  simp [retireIn, hc, retireCall, hr, modCall]

/-- Pure pc/ctx changes of a call that is neither fresh nor finished, before or after. -/
theorem CInv.setPc {s : St} (i : CInv s) (n : Nat) (c : Call) (hc : getCall s n = some c) (pc' : CallPc)
    (h1 : c.pc ≠ .c1) (h2 : c.pc ≠ .fin) (h3 : pc' ≠ .c1) (h4 : pc' ≠ .fin) (h5 : pc' ≠ .rc) (s' : St)
    (hs' : callView s' = callView (modCall s n fun c => { c with pc := pc' })) : CInv s' := by
  have hn := (getCall_some_pos hc).1
  have o := i.ok n c hc
  refine CInv.of_view hs' (i.update n c { c with pc := pc' } hn hc ?_ (fun _ _ => Iff.rfl)
    (fun h => (i.inrange n h).2) i.nodup (fun _ h => h) ?_ i.nopanic)
  · simp only [modCall]
    apply List.ext_getElem?; intro j
    simp only [List.getElem?_modify]
    by_cases hj : n - 1 = j
    · subst hj
      have : s.calls[n - 1]? = some c := by
        simp only [getCall_eq] at hc; have : n ≠ 0 := by omega
        simpa [this] using hc
      simp [this]
    · simp [hj]
  · exact ⟨o.reg, o.retires, fun h => absurd h h3, fun a _ => o.refused a h1,
      o.own, fun r hr => absurd (o.result r hr).1 h2, fun h => absurd h h4, fun h => absurd h h5⟩

theorem modify_const_eq {α} (l : List α) (i : Nat) (a : α) (f : α → α) (h : l[i]? = some a) :
    l.modify i f = l.modify i (fun _ => f a) := by
  apply List.ext_getElem?; intro j
  simp only [List.getElem?_modify]
  by_cases hj : i = j
  · subst hj; simp [h]
  · simp [hj]

theorem calls_get {s : St} {n : Nat} {c : Call} (hc : getCall s n = some c) : s.calls[n - 1]? = some c := by
  have hn := (getCall_some_pos hc).1
  simp only [getCall_eq] at hc; have : n ≠ 0 := by omega
  simpa [this] using hc

/-- A new call record is appended (a user started a call). -/
theorem cinv_newcall {s : St} (i : CInv s) (c0 : Call)
    (h0 : ∀ n, n ∉ s.outCalls → CallOK s.outCalls s.respLog n c0) : CInv { s with calls := s.calls ++ [c0] } := by
  refine ⟨i.nodup, ?_, ?_, i.nopanic⟩
  · intro n hn; have := i.inrange n hn; simp; omega
  · intro n c hc
    simp only [getCall_eq] at hc
    by_cases hn : n = 0
    · simp [hn] at hc
    · simp only [hn, if_false, List.getElem?_append] at hc
      by_cases hlt : n - 1 < s.calls.length
      · simp only [hlt, if_true] at hc
        exact i.ok n c (by simp [getCall_eq, hn, hc])
      · simp only [hlt, if_false] at hc
        have hidx : n - 1 - s.calls.length = 0 := by
          by_cases h0 : n - 1 - s.calls.length = 0
          · exact h0
          · have : ([c0])[n - 1 - s.calls.length]? = none := by
              apply List.getElem?_eq_none; simp; omega
            rw [this] at hc; cases hc
        rw [hidx] at hc; simp at hc; subst hc
        have hnot : n ∉ s.outCalls := fun h => by have := (i.inrange n h).2; omega
        exact h0 n hnot

theorem cinv_ecall {s : St} (i : CInv s) : CInv { s with calls := s.calls ++ [{}] } :=
  cinv_newcall i {} (fun n hnot => ⟨by simp [hnot], by simp, by simp, by simp, by simp, by simp, by simp, by simp⟩)

/-- A call whose params cannot be encoded: completed at once, never registered. -/
theorem cinv_ecallbad {s : St} (i : CInv s) : CInv { s with calls := s.calls ++
    [{ pc := .fin, ready := some (.err .marshal), result := some (.err .marshal), retires := 1, registered := false }] } :=
  cinv_newcall i _ (fun n hnot => ⟨by simp [hnot], by simp, by simp, by simp, by simp, by simp, by simp, by simp⟩)

theorem getCall_retireIn (s : St) (n m : Nat) (c : Call) (r : Res) (hc : getCall s n = some c) (hr : c.ready = none) :
    getCall (retireIn s n r) m =
      if m = n then some { c with ready := some r, retires := c.retires + 1 } else getCall s m := by
  have hn := (getCall_some_pos hc).1
  have h1 : retireIn s n r = modCall s n (fun _ => { c with ready := some r, retires := c.retires + 1 }) := by
    simp [retireIn, hc, retireCall, hr]
  rw [h1, getCall_modCall s n m _ hn, hc]; rfl

theorem retireIn_frame (s : St) (n : Nat) (c : Call) (r : Res) (hc : getCall s n = some c) (hr : c.ready = none) :
    (retireIn s n r).outCalls = s.outCalls ∧ (retireIn s n r).respLog = s.respLog ∧
    (retireIn s n r).panicRetire = s.panicRetire ∧ (retireIn s n r).calls.length = s.calls.length := by
  simp [retireIn, hc, retireCall, hr, modCall]

@[simp] theorem getCall_tail (s : St) (n : Nat) : getCall (tail s) n = getCall s n := by simp [getCall_eq]

theorem CInv.mono_log {s s' : St} (i : CInv s) (h1 : s'.calls = s.calls) (h2 : s'.outCalls = s.outCalls)
    (h3 : ∀ x, x ∈ s.respLog → x ∈ s'.respLog) (h4 : s'.panicRetire = s.panicRetire) : CInv s' := by
  refine ⟨h2 ▸ i.nodup, by rw [h1, h2]; exact i.inrange, ?_, by rw [h4]; exact i.nopanic⟩
  intro n c hc
  have hc' : getCall s n = some c := by simpa [getCall_eq, h1] using hc
  have o := i.ok n c hc'
  exact ⟨by rw [h2]; exact o.reg, o.retires, o.fresh, o.refused, fun p hp => h3 _ (o.own p hp), o.result, o.fin, o.rcctx⟩

/-- Retiring a registered, still pending call `n` with outcome `r` and dropping it from the table. -/
theorem CInv.retireErase {s : St} (i : CInv s) (n : Nat) (r : Res) (hm : n ∈ s.outCalls)
    (hown : ∀ p, r = .resp p → (n, p) ∈ s.respLog) :
    ∃ c, getCall s n = some c ∧ c.registered = true ∧ c.ready = none ∧ c.pc ≠ .c1 ∧ c.pc ≠ .fin ∧
      CInv (retireIn { s with outCalls := s.outCalls.erase n } n r) := by
  obtain ⟨h1, h2⟩ := i.inrange n hm
  have : ∃ c, getCall s n = some c := by
    simp only [getCall_eq]; have : n ≠ 0 := by omega
    simp only [this, if_false]
    exact ⟨s.calls[n - 1], List.getElem?_eq_getElem (by omega)⟩
  obtain ⟨c, hc⟩ := this
  have o := i.ok n c hc
  obtain ⟨hreg, hready⟩ := o.reg.mp hm
  have hpc1 : c.pc ≠ .c1 := fun h => by have := (o.fresh h).1; simp [hreg] at this
  have hpcf : c.pc ≠ .fin := fun h => by have := (o.fin h).2; simp [hready] at this
  have hres : c.result = none := by
    cases hr : c.result with
    | none => rfl
    | some x => exact absurd (o.result x hr).1 hpcf
  refine ⟨c, hc, hreg, hready, hpc1, hpcf, ?_⟩
  have hc2 : getCall { s with outCalls := s.outCalls.erase n } n = some c := hc
  have hf := retireIn_frame _ n _ r hc2 hready
  refine i.update' n { c with ready := some r, retires := c.retires + 1 } ?_ ?_ ?_ ?_ ?_ ?_ ?_ ?_
  · intro m; rw [getCall_retireIn _ n m _ _ hc2 hready]; rfl
  · rw [hf.2.2.2]
  · intro m hmn; rw [hf.1]; exact List.mem_erase_of_ne hmn
  · intro h; rw [hf.1] at h; exact absurd ((List.Nodup.mem_erase_iff i.nodup).mp h).1 (by simp)
  · rw [hf.1]; exact i.nodup.erase n
  · intro x hx; rw [hf.2.1]; exact hx
  · rw [hf.1, hf.2.1]
    have hne : n ∉ s.outCalls.erase n := fun h => absurd ((List.Nodup.mem_erase_iff i.nodup).mp h).1 (by simp)
    refine ⟨by simp [hne], by simp [o.retires, hready], fun h => absurd h hpc1, by simp, ?_, by simp [hres],
      fun h => absurd h hpcf, o.rcctx⟩
    intro p hp; simp at hp; exact hown p hp
  · rw [hf.2.2.1]; exact i.nopanic

theorem fold_retire (r : Res) (l : List Nat) (s : St) (hnd : l.Nodup)
    (hall : ∀ n ∈ l, ∃ c, getCall s n = some c ∧ c.ready = none) :
    (∀ m, getCall (l.foldl (fun s n => retireIn s n r) s) m =
      if m ∈ l then (getCall s m).map (fun c => { c with ready := some r, retires := c.retires + 1 }) else getCall s m) ∧
    (l.foldl (fun s n => retireIn s n r) s).outCalls = s.outCalls ∧
    (l.foldl (fun s n => retireIn s n r) s).respLog = s.respLog ∧
    (l.foldl (fun s n => retireIn s n r) s).panicRetire = s.panicRetire ∧
    (l.foldl (fun s n => retireIn s n r) s).calls.length = s.calls.length := by
  induction l generalizing s with
  | nil => simp
  | cons a t ih =>
    obtain ⟨c, hc, hr⟩ := hall a (List.mem_cons_self ..)
    have hnd' := List.nodup_cons.mp hnd
    have hf := retireIn_frame s a c r hc hr
    have hall' : ∀ n ∈ t, ∃ c, getCall (retireIn s a r) n = some c ∧ c.ready = none := by
      intro n hn
      have hne : n ≠ a := fun h => hnd'.1 (h ▸ hn)
      obtain ⟨c', hc', hr'⟩ := hall n (List.mem_cons_of_mem _ hn)
      exact ⟨c', by rw [getCall_retireIn s a n c r hc hr]; simp [hne, hc'], hr'⟩
    obtain ⟨g, h1, h2, h3, h4⟩ := ih (retireIn s a r) hnd'.2 hall'
    refine ⟨?_, by simp [List.foldl, h1, hf.1], by simp [List.foldl, h2, hf.2.1], by simp [List.foldl, h3, hf.2.2.1],
      by simp [List.foldl, h4, hf.2.2.2]⟩
    intro m
    simp only [List.foldl]
    rw [g m, getCall_retireIn s a m c r hc hr]
    by_cases hma : m = a
    · subst hma; simp [hnd'.1, hc]
    · by_cases hmt : m ∈ t <;> simp [hma, hmt]

theorem cinv_step0_call {s s' : St} {l : Label} (i : CInv s) (h : step0 s l = some s')
    (hl : l.touchesCalls = true) : CInv s' := by
  cases l <;> simp [Label.touchesCalls] at hl <;> simp only [step0] at h
  case ecall => cases h; exact cinv_ecall i
  case ecallbad => cases h; exact cinv_ecallbad i
  case ectx n =>
    split at h
    · cases h
    · rename_i c hc
      split at h
      · cases h
      · cases h
        have hn := (getCall_some_pos hc).1
        have o := i.ok n c hc
        refine i.update n c { c with ctxDone := true } hn hc ?_ (fun _ _ => Iff.rfl)
          (fun h => (i.inrange n h).2) i.nodup (fun _ h => h) ?_ i.nopanic
        · simp only [modCall]; exact modify_const_eq _ _ c _ (calls_get hc)
        · exact ⟨o.reg, o.retires, o.fresh, o.refused, o.own,
            fun r hr => ⟨(o.result r hr).1, (o.result r hr).2.elim Or.inl (fun h => Or.inr ⟨h.1, rfl⟩)⟩, o.fin, fun _ => rfl⟩
  case wret w o =>
    cases w <;> simp [Label.touchesCalls] at hl
    rename_i n
    simp only at h
    split at h
    · cases h
    · rename_i c hc
      split at h
      · cases h
      · rename_i hpc
        have hpc : c.pc = .wr := by simpa using hpc
        split at h <;> first
          | (cases h; exact i.setPc n c hc _ (by simp [hpc]) (by simp [hpc]) (by simp) (by simp) (by simp) _ rfl)
          | cases h
  case c1 n =>
    split at h
    · cases h
    · rename_i c hc
      have hn := getCall_some_pos hc
      have o := i.ok n c hc
      split at h
      · cases h
      · rename_i hpc
        have hpc : c.pc = .c1 := by simpa using hpc
        obtain ⟨hreg, hready⟩ := o.fresh hpc
        have hnot : n ∉ s.outCalls := fun hm => by have := o.reg.mp hm; simp [hreg] at this
        have hres : c.result = none := by
          cases hr : c.result with
          | none => rfl
          | some r => have := (o.result r hr).1; simp [hpc] at this
        split at h
        · -- refused while shutting down
          cases h
          have hc2 : getCall (modCall (tail s) n fun c => { c with pc := .await }) n = some { c with pc := .await } := by
            rw [getCall_modCall _ _ _ _ hn.1]; simp [hc]
          have hf := retireIn_frame _ n _ (.err .clientClosing) hc2 hready
          refine i.update' n { c with pc := .await, ready := some (.err .clientClosing), retires := c.retires + 1 } ?_ ?_ ?_ ?_ ?_ ?_ ?_ ?_
          · intro m
            rw [getCall_retireIn _ n m _ _ hc2 hready, getCall_modCall _ _ _ _ hn.1]
            by_cases hmn : m = n <;> simp [hmn]
          · rw [hf.2.2.2]; simp [modCall]
          · intro m _; rw [hf.1]; simp [modCall]
          · intro hm; rw [hf.1] at hm; simp [modCall] at hm; exact absurd hm hnot
          · rw [hf.1]; simpa [modCall] using i.nodup
          · intro x hx; rw [hf.2.1]; simpa [modCall] using hx
          · rw [hf.1, hf.2.1]
            refine ⟨by simp [modCall, hnot, hreg], by simp [o.retires, hready], by simp, by simp, by simp, by simp [hres], by simp, by simp⟩
          · rw [hf.2.2.1]; simpa [modCall] using i.nopanic
        · -- registered
          cases h
          refine i.update' n { c with pc := .w1, registered := true } ?_ ?_ ?_ ?_ ?_ ?_ ?_ ?_
          · intro m
            rw [getCall_tail, getCall_modCall _ _ _ _ hn.1]
            have hc' : getCall { s with outCalls := s.outCalls ++ [n] } n = some c := hc
            by_cases hmn : m = n
            · subst hmn; simp [hc']
            · simp [hmn]; rfl
          · simp [modCall]
          · intro m hmn; simp [modCall, hmn]
          · intro _; exact hn
          · simp [modCall]; exact List.nodup_append.mpr ⟨i.nodup, by simp, by intro a ha b hb; simp at hb; subst hb; exact fun h => hnot (h ▸ ha)⟩
          · intro x hx; simpa [modCall] using hx
          · refine ⟨by simp [modCall, hready], by simp [o.retires, hready], by simp, by simp, by simp [hready], by simp [hres], by simp, by simp⟩
          · simpa [modCall] using i.nopanic
  case w1 w =>
    cases w <;> simp [Label.touchesCalls] at hl
    rename_i n
    simp only at h
    split at h
    · cases h
    · rename_i c hc
      split at h
      · cases h
      · rename_i hpc
        have hpc : c.pc = .w1 := by simpa using hpc
        split at h
        · cases h
          exact i.setPc n c hc .wr (by simp [hpc]) (by simp [hpc]) (by simp) (by simp) (by simp) _ (by simp [callView, modCall])
        · cases h
          exact i.setPc n c hc (.r .serverClosing) (by simp [hpc]) (by simp [hpc]) (by simp) (by simp) (by simp) _ (by simp [callView, modCall])
  case w2 w =>
    cases w <;> simp [Label.touchesCalls] at hl
    rename_i n
    simp only at h
    split at h
    · cases h
    · rename_i c hc
      split at h
      · rename_i e hpc
        cases h
        exact i.setPc n c hc (.r e) (by simp [hpc]) (by simp [hpc]) (by simp) (by simp) (by simp) _ (by simp [callView, modCall])
      · cases h
  case rresp =>
    split at h
    · rename_i id p hrd
      cases h
      split
      · rename_i hin
        have hin : id ∈ s.outCalls := by simpa using hin
        have i1 : CInv { s with reader := .read, respLog := s.respLog ++ [(id, p)] } :=
          i.mono_log rfl rfl (fun x hx => by simp [hx]) rfl
        obtain ⟨c, _, _, _, _, _, hci⟩ := i1.retireErase id (.resp p) hin (fun q hq => by cases hq; simp)
        exact CInv.of_view (callView_tail _) hci
      · exact CInv.of_view (callView_tail _) (i.mono_log rfl rfl (fun x hx => by simp [hx]) rfl)
    · cases h
  case rx =>
    split at h
    · cases h
    · cases h
      have hall : ∀ n ∈ s.outCalls, ∃ c, getCall s n = some c ∧ c.ready = none := by
        intro n hn
        obtain ⟨h1, h2⟩ := i.inrange n hn
        have : ∃ c, getCall s n = some c := by
          simp only [getCall_eq]; have : n ≠ 0 := by omega
          simp only [this, if_false]
          exact ⟨s.calls[n - 1], List.getElem?_eq_getElem (by omega)⟩
        obtain ⟨c, hc⟩ := this
        exact ⟨c, hc, ((i.ok n c hc).reg.mp hn).2⟩
      obtain ⟨g, f1, f2, f3, f4⟩ := fold_retire (.err .read) s.outCalls
        { s with reader := .gone, reading := false, readErr := true } i.nodup hall
      refine CInv.of_view (s := { (s.outCalls.foldl (fun s n => retireIn s n (.err .read))
          { s with reader := .gone, reading := false, readErr := true }) with outCalls := [] }) ?_ ?_
      · simp only [callView_tail, callView_foldl_cancel]
      · refine ⟨by simp, by simp, ?_, by simpa using f3.trans i.nopanic⟩
        intro n c hc
        have hc' := hc
        simp only [getCall_eq] at hc'
        have hcc : getCall (s.outCalls.foldl (fun s n => retireIn s n (.err .read))
            { s with reader := .gone, reading := false, readErr := true }) n = some c := by
          simpa [getCall_eq] using hc'
        rw [g n] at hcc
        by_cases hin : n ∈ s.outCalls
        · simp only [hin, if_true] at hcc
          obtain ⟨c0, hc0, hr0⟩ := hall n hin
          have hc0' : getCall { s with reader := .gone, reading := false, readErr := true } n = some c0 := hc0
          rw [hc0'] at hcc; simp at hcc; subst hcc
          have o := i.ok n c0 hc0
          obtain ⟨hreg, _⟩ := o.reg.mp hin
          have hpc1 : c0.pc ≠ .c1 := fun h => by have := (o.fresh h).1; simp [hreg] at this
          have hpcf : c0.pc ≠ .fin := fun h => by have := (o.fin h).2; simp [hr0] at this
          have hres : c0.result = none := by
            cases hr : c0.result with
            | none => rfl
            | some x => exact absurd (o.result x hr).1 hpcf
          exact ⟨by simp, by simp [o.retires, hr0], fun h => absurd h hpc1, by simp, by simp, by simp [hres],
            fun h => absurd h hpcf, o.rcctx⟩
        · simp only [hin, if_false] at hcc
          have hcc' : getCall s n = some c := hcc
          have o := i.ok n c hcc'
          have hnr : ¬(c.registered = true ∧ c.ready = none) := fun h => hin (o.reg.mpr h)
          exact ⟨by simp; exact fun a b => hnr ⟨a, b⟩, o.retires, o.fresh, o.refused,
            fun p hp => by simpa [f2] using o.own p hp, o.result, o.fin, o.rcctx⟩
  case retire n =>
    split at h
    · cases h
    · rename_i c hc
      have hn := getCall_some_pos hc
      have o := i.ok n c hc
      -- which error, and whether this is the eager retire of the ctx path
      have key : ∀ (e : Err) (viaCtx : Bool), (c.pc = .r e ∧ viaCtx = false) ∨ (c.pc = .rc ∧ e = .ctx ∧ viaCtx = true) →
          ∀ s', (if viaCtx = true then
              some { (modCall (tail (if s.outCalls.contains n = true then retireIn { s with outCalls := s.outCalls.erase n } n (.err e) else s)) n
                        fun c => { c with pc := .fin, result := some (.err .ctx) }) with
                      cnotifs := (tail (if s.outCalls.contains n = true then retireIn { s with outCalls := s.outCalls.erase n } n (.err e) else s)).cnotifs ++ [{ cancelFor := some n }] }
            else some (modCall (tail (if s.outCalls.contains n = true then retireIn { s with outCalls := s.outCalls.erase n } n (.err e) else s)) n
                        fun c => { c with pc := .await })) = some s' → CInv s' := by
        intro e viaCtx hpc s' hs'
        have hpc1 : c.pc ≠ .c1 := by rcases hpc with ⟨h, _⟩ | ⟨h, _⟩ <;> simp [h]
        have hpcf : c.pc ≠ .fin := by rcases hpc with ⟨h, _⟩ | ⟨h, _⟩ <;> simp [h]
        by_cases hin : n ∈ s.outCalls
        · -- still registered: this Retire completes the call
          obtain ⟨c0, hc0, hreg, hready, _, _, hci⟩ := i.retireErase n (.err e) hin (fun p hp => by cases hp)
          have : c0 = c := by rw [hc] at hc0; cases hc0; rfl
          subst this
          have hin' : s.outCalls.contains n = true := by simpa using hin
          simp only [hin', if_true] at hs'
          have hc1 : getCall (tail (retireIn { s with outCalls := s.outCalls.erase n } n (.err e))) n =
              some { c0 with ready := some (.err e), retires := c0.retires + 1 } := by
            have hc2 : getCall { s with outCalls := s.outCalls.erase n } n = some c0 := hc
            rw [getCall_tail, getCall_retireIn _ n n c0 _ hc2 hready]; simp
          have i1 : CInv (tail (retireIn { s with outCalls := s.outCalls.erase n } n (.err e))) :=
            CInv.of_view (callView_tail _) hci
          have o1 := i1.ok n _ hc1
          cases viaCtx with
          | false =>
            simp at hs'; subst hs'
            exact i1.setPc n _ hc1 .await (by simpa using hpc1) (by simpa using hpcf) (by simp) (by simp) (by simp) _ rfl
          | true =>
            simp at hs'; subst hs'
            have he : e = .ctx := by
              rcases hpc with ⟨_, h⟩ | ⟨_, h, _⟩
              · cases h
              · exact h
            subst he
            refine CInv.of_view (s := modCall (tail (retireIn { s with outCalls := s.outCalls.erase n } n (.err .ctx))) n
              fun c => { c with pc := .fin, result := some (.err .ctx) }) rfl ?_
            refine i1.update' n { c0 with ready := some (.err .ctx), retires := c0.retires + 1, pc := .fin, result := some (.err .ctx) }
              ?_ (by simp [modCall]) (fun _ _ => Iff.rfl) (fun h => i1.inrange n h) i1.nodup (fun _ h => h) ?_ i1.nopanic
            · intro m; rw [getCall_modCall _ _ _ _ hn.1, hc1]; rfl
            · exact ⟨by simpa [modCall] using o1.reg, by simpa using o1.retires, by simp, by simp, by simpa [modCall] using o1.own,
                by simp, by simp, by simp⟩
        · -- already retired elsewhere: Retire is a no-op
          have hin' : s.outCalls.contains n = false := by simpa using hin
          simp only [hin'] at hs'
          have hrdy : c.ready.isSome = true := by
            by_cases hreg : c.registered = true
            · cases hr : c.ready with
              | some _ => rfl
              | none => exact absurd (o.reg.mpr ⟨hreg, hr⟩) hin
            · exact o.refused (by simpa using hreg) hpc1
          have hres : c.result = none := by
            cases hr : c.result with
            | none => rfl
            | some x => exact absurd (o.result x hr).1 hpcf
          have i1 : CInv (tail s) := CInv.of_view (callView_tail _) i
          have hc1 : getCall (tail s) n = some c := by rw [getCall_tail]; exact hc
          cases viaCtx with
          | false =>
            simp at hs'; subst hs'
            exact i1.setPc n _ hc1 .await hpc1 hpcf (by simp) (by simp) (by simp) _ rfl
          | true =>
            simp at hs'; subst hs'
            have hctx : c.ctxDone = true := by
              rcases hpc with ⟨_, h⟩ | ⟨h, _, _⟩
              · cases h
              · exact o.rcctx h
            refine CInv.of_view (s := modCall (tail s) n fun c => { c with pc := .fin, result := some (.err .ctx) }) rfl ?_
            have o1 := i1.ok n c hc1
            refine i1.update' n { c with pc := .fin, result := some (.err .ctx) }
              ?_ (by simp [modCall]) (fun _ _ => Iff.rfl) (fun h => i1.inrange n h) i1.nodup (fun _ h => h) ?_ i1.nopanic
            · intro m; rw [getCall_modCall _ _ _ _ hn.1, hc1]; rfl
            · exact ⟨by simpa [modCall] using o1.reg, o1.retires, by simp, by simp [hrdy], by simpa [modCall] using o1.own,
                by simp [hctx], by simp [hrdy], by simp⟩
      -- dispatch on the pc
      cases hpc : c.pc <;> simp only [hpc] at h <;> first
        | (cases h; done)
        | exact key _ false (Or.inl ⟨hpc, rfl⟩) s' h
        | exact key .ctx true (Or.inr ⟨hpc, rfl, rfl⟩) s' h

theorem cinv_step0 {s s' : St} {l : Label} (i : CInv s) (h : step0 s l = some s') : CInv s' := by
  by_cases hl : l.touchesCalls = true
  · exact cinv_step0_call i h hl
  · exact CInv.of_view (frame_calls s s' l h (by simpa using hl)) i

theorem callOK_settleCall {oc : List Nat} {log : List (Nat × Nat)} {n : Nat} {c : Call}
    (o : CallOK oc log n c) : CallOK oc log n (settleCall c) := by
  unfold settleCall
  split
  · rename_i hpc
    have hres : c.result = none := by
      cases hr : c.result with
      | none => rfl
      | some x => have := (o.result x hr).1; simp [hpc] at this
    split
    · rename_i e hr
      split
      · exact ⟨o.reg, o.retires, by simp, fun a _ => by simp [hr], o.own, by simp [hr], by simp [hr], by simp⟩
      · split
        · rename_i hctx
          exact ⟨o.reg, o.retires, by simp, fun a _ => by simp [hr], o.own, by simp [hres], by simp, fun _ => hctx⟩
        · exact ⟨o.reg, o.retires, by simp, fun a _ => by simp [hr], o.own, by simp [hr], by simp [hr], by simp⟩
    · rename_i r _ hr
      split
      · rename_i hctx
        exact ⟨o.reg, o.retires, by simp, fun a _ => by simp [hr], o.own, by simp [hres], by simp, fun _ => hctx⟩
      · exact ⟨o.reg, o.retires, by simp, fun a _ => by simp [hr], o.own, by simp [hr], by simp [hr], by simp⟩
    · rename_i hr
      split
      · rename_i hctx
        refine ⟨o.reg, o.retires, by simp, ?_, o.own, by simp [hres], by simp, fun _ => hctx⟩
        intro a _; exact o.refused a (by simp [hpc])
      · exact o
  · exact o

theorem cinv_settle {s : St} (i : CInv s) : CInv (settle s) := by
  have hv : callView (settle s) = callView (settleCalls s) := by simp [settle]
  refine CInv.of_view hv ⟨i.nodup, by simpa [settleCalls] using i.inrange, ?_, i.nopanic⟩
  intro n c hc
  simp only [getCall_eq, settleCalls, List.getElem?_map] at hc
  by_cases hn : n = 0
  · simp [hn] at hc
  · simp only [hn, if_false] at hc
    cases h0 : s.calls[n - 1]? with
    | none => simp [h0] at hc
    | some c0 =>
      simp [h0] at hc; subst hc
      exact callOK_settleCall (i.ok n c0 (by simp [getCall_eq, hn, h0]))

/-- **The outgoing-call invariant holds after every label.** -/
theorem cinv_step {s s' : St} {l : Label} (i : CInv s) (h : step s l = some s') : CInv s' := by
  simp only [step, Option.map_eq_some_iff] at h
  obtain ⟨s0, h0, rfl⟩ := h
  exact cinv_settle (cinv_step0 i h0)

theorem cinv_init : CInv ({} : St) :=
  ⟨by simp, by simp, fun n c hc => by simp [getCall_eq] at hc, rfl⟩

theorem cinv_run {s s' : St} (ls : List Label) (i : CInv s) (h : run s ls = some s') : CInv s' := by
  induction ls generalizing s with
  | nil => simp [run] at h; exact h ▸ i
  | cons l ls ih =>
    simp only [run] at h
    split at h
    · cases h
    · rename_i s1 h1; exact ih (cinv_step i h1) h

end Conn
