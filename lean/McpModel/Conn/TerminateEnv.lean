import McpModel.Conn.Stuck
import McpModel.Conn.CallerLive
/-!
# C05 liveness with the environment in the run

`close_terminates` talks about runs of the connection's own critical sections and asks for the
environment's obligations in the last state. Here the environment's *fulfilling* steps are part of the
run: a handler returns (`hret`), a handler declares itself asynchronous (`hasync`), a transport `Write`
returns with any outcome (`wret`), the transport's `Read` fails (`read eof`), a caller's context ends
(`ectx`). None of them brings new work. The extended measure `mu2` strictly decreases along every
critical section *and* every fulfilling step, so

* any interleaving of critical sections and fulfilling steps from a reachable state `s` is at most
  `mu2 s` long (`shutdown_run_bounded`): the environment can fulfil each obligation only finitely often
  and the connection cannot keep itself busy in between, and
* whenever such a run from a state in which shutdown has begun arrives at a state without enabled
  critical section and without outstanding obligation, the connection is done, every `Close`/`Wait`
  caller has returned and nothing is left (`close_terminates_env`).

New work — users starting calls, notifications, `Close`, `Wait`; the peer sending further messages,
including the answer to a pending call — is excluded from these runs: it is not bounded by anything in
the connection.
-/
namespace Conn

/-- Environment steps that discharge an obligation and bring no new work. -/
def Label.fulfils : Label → Bool
  | .hret _ _ | .hasync _ | .wret _ _ | .read .eof | .ectx _ => true
  | _ => false

/-! ### the three extra components of the measure -/

/-- 2 while the reader goroutine can still be handed EOF (one for the environment's step, one for RX). -/
def readerLive (s : St) : Nat :=
  match s.reader with
  | .rx | .gone => 0
  | _ => 2

def ctxs (s : St) : List Bool := s.calls.map (·.ctxDone)
def asyncs (s : St) : List Bool := s.metas.map (·.asyncCalled)

/-- number of `false` entries -/
def cntF : List Bool → Nat
  | [] => 0
  | b :: t => (if b then 0 else 1) + cntF t

/-- callers whose context is still live -/
def liveCtx (s : St) : Nat := cntF (ctxs s)
/-- handlers that have not called `Async` -/
def syncs (s : St) : Nat := cntF (asyncs s)

/-- The measure for runs that contain the environment's fulfilling steps. -/
def mu2 (s : St) : Nat := mu s + readerLive s + liveCtx s + syncs s

theorem cntF_modify_true (l : List Bool) (k : Nat) (h : l[k]? = some false) :
    cntF (l.modify k fun _ => true) + 1 = cntF l := by
  induction l generalizing k with
  | nil => simp at h
  | cons a t ih =>
    cases k with
    | zero => simp at h; subst h; simp [List.modify, cntF]; omega
    | succ k => simp at h; have := ih k h; simp [List.modify, cntF] at this ⊢; omega

/-! ### `ctxs`: only `ectx` (and new calls) touch it -/

theorem ctxs_of_calls {X s : St} (h : X.calls = s.calls) : ctxs X = ctxs s := by simp [ctxs, h]
@[simp] theorem ctxs_tail (s : St) : ctxs (tail s) = ctxs s := ctxs_of_calls (tail_calls s)
@[simp] theorem ctxs_markBroken (s : St) : ctxs (markBroken s) = ctxs s := ctxs_of_calls (markBroken_calls s)
@[simp] theorem ctxs_retireIn (s : St) (m : Nat) (r : Res) : ctxs (retireIn s m r) = ctxs s := by
  have := congrArg (List.map Prod.snd) (retireIn_map_pcx s m r)
  simpa [ctxs, List.map_map, Function.comp_def] using this
theorem ctxs_foldl_retire (l : List Nat) (r : Res) (s : St) : ctxs (l.foldl (fun s m => retireIn s m r) s) = ctxs s := by
  induction l generalizing s with
  | nil => rfl
  | cons a t ih => simp [List.foldl, ih]
theorem ctxs_foldl_cancel (l : List (Nat × Nat)) (c : Cause) (s : St) :
    ctxs (l.foldl (fun s p => cancelReq s p.2 c) s) = ctxs s := ctxs_of_calls (foldl_cancel_calls l c s)
theorem ctxs_modCall (s : St) (n : Nat) (f : Call → Call) (hf : ∀ c, (f c).ctxDone = c.ctxDone) :
    ctxs (modCall s n f) = ctxs s := by
  simp only [ctxs, modCall]
  apply List.ext_getElem?; intro j
  simp only [List.getElem?_map, List.getElem?_modify]
  by_cases hj : n - 1 = j
  · subst hj; cases s.calls[n - 1]? <;> simp [hf]
  · simp [hj]
@[simp] theorem ctxs_settle (s : St) : ctxs (settle s) = ctxs s := by
  simp only [ctxs, settle_calls, List.map_map]
  congr 1; funext c; exact settleCall_ctx c

def Label.touchesCtx : Label → Bool
  | .ecall | .ecallbad | .ectx _ => true
  | _ => false

/-- peel the helper functions off `ctxs (…)` -/
macro "ctxs_simp" : tactic => `(tactic| (
  repeat (first
    | rw [ctxs_tail] | rw [ctxs_retireIn] | rw [ctxs_markBroken]
    | refine (ctxs_modCall _ _ _ (by intro c; rfl)).trans ?_)
  try (first | rfl | (simp only [ctxs]; done))))

set_option maxRecDepth 8000 in
theorem ctxs_step0 {s s0 : St} {l : Label} (h : step0 s l = some s0) (hl : l.touchesCtx = false) : ctxs s0 = ctxs s := by
  by_cases ht : l.touchesCalls = false
  · exact ctxs_of_calls (congrArg CallView.calls (frame_calls s s0 l h ht))
  · cases l <;> simp [Label.touchesCalls] at ht <;> simp [Label.touchesCtx] at hl
    case wret w o =>
      cases w <;> simp at ht
      simp only [step0] at h
      (repeat' (split at h)) <;> first
        | (cases h; done)
        | (cases h; ctxs_simp)
    case c1 m =>
      simp only [step0] at h
      (repeat' (split at h)) <;> first
        | (cases h; done)
        | (cases h; ctxs_simp)
    case retire m =>
      simp only [step0] at h
      split at h
      · cases h
      · split at h
        · cases h
        · rename_i err viaCtx _
          generalize hS : tail (if s.outCalls.contains m = true then
              retireIn { s with outCalls := s.outCalls.erase m } m (.err err) else s) = S at h
          have hS1 : ctxs S = ctxs s := by
            rw [← hS, ctxs_tail]; split
            · rw [ctxs_retireIn]; exact ctxs_of_calls rfl
            · rfl
          split at h <;> cases h
          · refine (ctxs_of_calls (s := modCall S m fun c => { c with pc := .fin, result := some (.err .ctx) }) rfl).trans ?_
            rw [← hS1]; ctxs_simp
          · rw [← hS1]; ctxs_simp
    case rresp =>
      simp only [step0] at h
      split at h
      · cases h; rw [ctxs_tail]
        split
        · rw [ctxs_retireIn]; exact ctxs_of_calls rfl
        · exact ctxs_of_calls rfl
      · cases h
    case rx =>
      simp only [step0] at h
      split at h
      · cases h
      · cases h
        rw [ctxs_tail, ctxs_foldl_cancel]
        have : ∀ X : St, ctxs { X with outCalls := [] } = ctxs X := fun X => ctxs_of_calls rfl
        rw [this, ctxs_foldl_retire]; exact ctxs_of_calls rfl
    case w1 w =>
      cases w <;> simp at ht
      simp only [step0] at h
      (repeat' (split at h)) <;> first
        | (cases h; done)
        | (cases h; ctxs_simp)
    case w2 w =>
      cases w <;> simp at ht
      simp only [step0] at h
      (repeat' (split at h)) <;> first
        | (cases h; done)
        | (cases h; ctxs_simp)

theorem liveCtx_step {s s' : St} {l : Label} (h : step s l = some s') (hl : l.touchesCtx = false) : liveCtx s' = liveCtx s := by
  simp only [step, Option.map_eq_some_iff] at h
  obtain ⟨s0, h0, rfl⟩ := h
  simp only [liveCtx, ctxs_settle, ctxs_step0 h0 hl]

theorem liveCtx_ectx {s s' : St} {n : Nat} (h : step s (.ectx n) = some s') : liveCtx s' + 1 = liveCtx s := by
  simp only [step, Option.map_eq_some_iff] at h
  obtain ⟨s0, h0, rfl⟩ := h
  simp only [liveCtx, ctxs_settle]
  simp only [step0] at h0
  split at h0
  · cases h0
  · rename_i c hc
    split at h0
    · cases h0
    · rename_i hx
      cases h0
      have hget : (ctxs s)[n - 1]? = some false := by
        simp only [ctxs, List.getElem?_map, calls_get0 hc]; simpa using hx
      have : ctxs (modCall s n fun c => { c with ctxDone := true }) = (ctxs s).modify (n - 1) fun _ => true := by
        simp only [ctxs, modCall]
        apply List.ext_getElem?; intro j
        simp only [List.getElem?_map, List.getElem?_modify]
        by_cases hj : n - 1 = j
        · subst hj; cases s.calls[n - 1]? <;> simp
        · simp [hj]
      rw [this]; exact cntF_modify_true _ _ hget

/-! ### `asyncs`: only `hasync` (and new requests) touch it -/

theorem asyncs_of_metas {X s : St} (h : X.metas = s.metas) : asyncs X = asyncs s := by simp [asyncs, h]
@[simp] theorem asyncs_tail (s : St) : asyncs (tail s) = asyncs s := asyncs_of_metas (tail_metas s)
@[simp] theorem asyncs_modCore (s : St) (r : Nat) (f : ReqCore → ReqCore) : asyncs (modCore s r f) = asyncs s := rfl
@[simp] theorem asyncs_modCall (s : St) (n : Nat) (f : Call → Call) : asyncs (modCall s n f) = asyncs s := rfl
theorem asyncs_modMeta (s : St) (r : Nat) (f : ReqMeta → ReqMeta) (hf : ∀ m, (f m).asyncCalled = m.asyncCalled) :
    asyncs (modMeta s r f) = asyncs s := by
  simp only [asyncs, modMeta]
  apply List.ext_getElem?; intro j
  simp only [List.getElem?_map, List.getElem?_modify]
  by_cases hj : r = j
  · subst hj; cases s.metas[r]? <;> simp [hf]
  · simp [hj]
@[simp] theorem asyncs_cancelReq (s : St) (r : Nat) (c : Cause) : asyncs (cancelReq s r c) = asyncs s :=
  asyncs_modMeta s r _ (fun m => by split <;> rfl)
@[simp] theorem asyncs_toP2 (s : St) (r : Nat) : asyncs (toP2 s r) = asyncs s := by
  unfold toP2; rw [asyncs_cancelReq, asyncs_modCore]
@[simp] theorem asyncs_beginPR (s : St) (r : Nat) (o : Owner) : asyncs (beginPR s r o) = asyncs s := by
  unfold beginPR; split
  · rfl
  · split
    · rfl
    · rw [asyncs_toP2]; rfl
theorem asyncs_foldl_cancel (l : List (Nat × Nat)) (c : Cause) (s : St) :
    asyncs (l.foldl (fun s p => cancelReq s p.2 c) s) = asyncs s := by
  induction l generalizing s with
  | nil => rfl
  | cons p t ih => simp [List.foldl, ih]
@[simp] theorem asyncs_markBroken (s : St) : asyncs (markBroken s) = asyncs s := by
  unfold markBroken; split
  · rfl
  · rw [asyncs_foldl_cancel]; rfl
@[simp] theorem asyncs_afterP2 (s : St) (r : Nat) (o : Owner) : asyncs (afterP2 s r o) = asyncs s := by
  cases o
  · rfl
  · rfl
  · exact asyncs_modMeta s r _ (fun _ => rfl)
@[simp] theorem asyncs_settle (s : St) : asyncs (settle s) = asyncs s := asyncs_of_metas (settle_metas s)

/-- Labels that change some request's `asyncCalled` or add a request. -/
def Label.touchesAsync : Label → Bool
  | .hasync _ | .read (.call _) | .read .notif | .read (.cancel _) => true
  | _ => false

/-- peel the helper functions off `asyncs (…)` -/
macro "asyncs_simp" : tactic => `(tactic| (
  repeat (first
    | rw [asyncs_tail] | rw [asyncs_modCore] | rw [asyncs_modCall] | rw [asyncs_cancelReq] | rw [asyncs_toP2]
    | rw [asyncs_beginPR] | rw [asyncs_markBroken] | rw [asyncs_afterP2]
    | refine (asyncs_modMeta _ _ _ (by intro m; rfl)).trans ?_)
  try (first | rfl | (simp only [asyncs, tail_metas]; done))))

set_option maxRecDepth 8000 in
theorem asyncs_step0 {s s0 : St} {l : Label} (h : step0 s l = some s0) (hl : l.touchesAsync = false) :
    asyncs s0 = asyncs s := by
  by_cases ht : l.touchesDisp = false
  · have := congrArg DView.ms (frame_disp s s0 l h ht)
    simp only [dview] at this
    have h2 := congrArg (List.map MCore.asyncCalled) this
    simpa [asyncs, List.map_map, Function.comp_def, ReqMeta.mcore] using h2
  · cases l <;> simp [Label.touchesDisp] at ht <;> simp [Label.touchesAsync] at hl
    case read m =>
      cases m <;> simp at hl
      all_goals
        simp only [step0] at h
        split at h <;> cases h <;> rfl
    case wret w o =>
      cases w <;> simp at ht
      simp only [step0] at h
      (repeat' (split at h)) <;> first
        | (cases h; done)
        | (cases h; asyncs_simp)
    case hret r e =>
      simp only [step0] at h
      (repeat' (split at h)) <;> first
        | (cases h; done)
        | (cases h; asyncs_simp)
    case a1 r =>
      simp only [step0] at h
      (repeat' (split at h)) <;> first
        | (cases h; done)
        | (cases h; asyncs_simp)
    case a2 r =>
      simp only [step0] at h
      (repeat' (split at h)) <;> first
        | (cases h; done)
        | (cases h; asyncs_simp)
    case d1 =>
      simp only [step0] at h
      (repeat' (split at h)) <;> first
        | (cases h; done)
        | (cases h; asyncs_simp)
    case p1 r =>
      simp only [step0] at h
      (repeat' (split at h)) <;> first
        | (cases h; done)
        | (cases h; asyncs_simp)
    case p2 r =>
      simp only [step0] at h
      (repeat' (split at h)) <;> first
        | (cases h; done)
        | (cases h; asyncs_simp)
    case w1 w =>
      cases w <;> simp at ht
      simp only [step0] at h
      (repeat' (split at h)) <;> first
        | (cases h; done)
        | (cases h; asyncs_simp)
    case w2 w =>
      cases w <;> simp at ht
      simp only [step0] at h
      (repeat' (split at h)) <;> first
        | (cases h; done)
        | (cases h; asyncs_simp)

theorem syncs_step {s s' : St} {l : Label} (h : step s l = some s') (hl : l.touchesAsync = false) : syncs s' = syncs s := by
  simp only [step, Option.map_eq_some_iff] at h
  obtain ⟨s0, h0, rfl⟩ := h
  simp only [syncs, asyncs_settle, asyncs_step0 h0 hl]

theorem syncs_hasync {s s' : St} {r : Nat} (h : step s (.hasync r) = some s') : syncs s' + 1 = syncs s := by
  simp only [step, Option.map_eq_some_iff] at h
  obtain ⟨s0, h0, rfl⟩ := h
  simp only [syncs, asyncs_settle]
  simp only [step0] at h0
  split at h0
  · rename_i q m hq hm
    split at h0
    · cases h0
    · rename_i hc
      cases h0
      have hm' : m.asyncCalled = false := by
        cases hx : m.asyncCalled with
        | false => rfl
        | true => simp [hx] at hc
      have hget : (asyncs s)[r]? = some false := by
        simp only [asyncs, List.getElem?_map, hm]; simpa using hm'
      have : asyncs (modMeta s r fun m => { m with asyncCalled := true, released := true }) = (asyncs s).modify r fun _ => true := by
        simp only [asyncs, modMeta]
        apply List.ext_getElem?; intro j
        simp only [List.getElem?_map, List.getElem?_modify]
        by_cases hj : r = j
        · subst hj; cases s.metas[r]? <;> simp
        · simp [hj]
      rw [this]; exact cntF_modify_true _ _ hget
  · cases h0

/-! ### the reader goroutine: once it has been handed EOF it never reads again -/

theorem beginPR_reader (s : St) (r : Nat) (o : Owner) : (beginPR s r o).reader = s.reader :=
  congrArg ReqView.reader (reqView_beginPR s r o)
theorem toP2_reader (s : St) (r : Nat) : (toP2 s r).reader = s.reader := rfl
theorem modCore_reader (s : St) (r : Nat) (f : ReqCore → ReqCore) : (modCore s r f).reader = s.reader := rfl
theorem settle_reader (s : St) : (settle s).reader = s.reader := congrArg ReqView.reader (reqView_settle s)

/-- Labels whose atomic section assigns the reader's program counter. -/
def Label.setsReader : Label → Bool
  | .start | .read _ | .rresp | .rx | .a2 _ | .p2 _ => true
  | _ => false

set_option maxRecDepth 8000 in
theorem reader_step0 {s s0 : St} {l : Label} (h : step0 s l = some s0) (hl : l.setsReader = false) : s0.reader = s.reader := by
  by_cases ht : l.touchesReqs = false
  · exact congrArg ReqView.reader (frame_reqs s s0 l h ht)
  · cases l <;> simp [Label.touchesReqs] at ht <;> simp [Label.setsReader] at hl
    case wret w o =>
      cases w <;> simp at ht
      simp only [step0] at h
      (repeat' (split at h)) <;> first
        | (cases h; done)
        | (cases h; rfl)
    case hret r e =>
      simp only [step0] at h
      (repeat' (split at h)) <;> first
        | (cases h; done)
        | (cases h; rw [beginPR_reader]; rfl)
    case a1 r =>
      simp only [step0] at h
      (repeat' (split at h)) <;> first
        | (cases h; done)
        | (cases h; simp only [tail_reader, beginPR_reader, modMeta_reader, modCore_reader])
    case d1 =>
      simp only [step0] at h
      (repeat' (split at h)) <;> first
        | (cases h; done)
        | (cases h; simp only [tail_reader, beginPR_reader, modMeta_reader, modCore_reader]; done)
        | (cases h; rw [beginPR_reader]; exact tail_reader _)
        | (cases h; simp only [modMeta_reader, modCore_reader]; exact tail_reader _)
    case p1 r =>
      simp only [step0] at h
      (repeat' (split at h)) <;> first
        | (cases h; done)
        | (cases h; simp only [tail_reader, modCore_reader])
    case w1 w =>
      cases w <;> simp at ht
      simp only [step0] at h
      (repeat' (split at h)) <;> first
        | (cases h; done)
        | (cases h; simp only [toP2_reader, tail_reader, modCore_reader])
    case w2 w =>
      cases w <;> simp at ht
      simp only [step0] at h
      (repeat' (split at h)) <;> first
        | (cases h; done)
        | (cases h; simp only [toP2_reader, tail_reader, markBroken_reader])

theorem readerLive_of {X s : St} (h : X.reader = s.reader) : readerLive X = readerLive s := by simp [readerLive, h]

/-- No critical section and no fulfilling step increases `readerLive`; EOF decreases it by 2. -/
theorem readerLive_step {s s' : St} {l : Label} (i : Inv4 s) (h : step s l = some s')
    (hl : l.internal = true ∨ l.fulfils = true) :
    readerLive s' ≤ readerLive s ∧ (l = .read .eof → readerLive s' + 2 = readerLive s) := by
  simp only [step, Option.map_eq_some_iff] at h
  obtain ⟨s0, h0, rfl⟩ := h
  rw [readerLive_of (settle_reader s0)]
  by_cases hs : l.setsReader = false
  · rw [readerLive_of (reader_step0 h0 hs)]
    exact ⟨Nat.le_refl _, fun e => by subst e; simp [Label.setsReader] at hs⟩
  · have hr := i.base.base.base.reqs
    cases l <;> simp [Label.setsReader] at hs
    case start =>
      simp only [step0] at h0
      split at h0
      · cases h0
      · rename_i hrd
        have hrd : s.reader = .start := by simpa using hrd
        refine ⟨?_, fun e => by cases e⟩
        split at h0 <;> cases h0 <;> simp [readerLive, hrd]
    case read m =>
      rcases hl with hl | hl
      · cases hl
      · cases m <;> simp [Label.fulfils] at hl
        simp only [step0] at h0
        split at h0
        · cases h0
        · rename_i hrd
          have hrd : s.reader = .read := by simpa using hrd
          cases h0
          exact ⟨by simp [readerLive, hrd], fun _ => by simp [readerLive, hrd]⟩
    case rresp =>
      simp only [step0] at h0
      split at h0
      · rename_i id p hrd
        cases h0
        refine ⟨?_, fun e => by cases e⟩
        have : ∀ X : St, X.reader = .read → readerLive (tail X) ≤ readerLive s := by
          intro X hX; simp [readerLive, tail_reader, hX, hrd]
        split
        · exact this _ (by rw [retireIn_reader])
        · exact this _ rfl
      · cases h0
    case rx =>
      simp only [step0] at h0
      split at h0
      · cases h0
      · cases h0
        refine ⟨?_, fun e => by cases e⟩
        have hrd : ∀ X : St, X.reader = .gone → readerLive X = 0 := fun X hX => by simp [readerLive, hX]
        rw [hrd]
        · exact Nat.zero_le _
        · have key : ∀ (l : List (Nat × Nat)) (X : St), X.reader = .gone →
              (l.foldl (fun s p => cancelReq s p.2 .read) X).reader = .gone :=
            fun l X hX => (congrArg ReqView.reader (reqView_foldl_cancel l _ X)).trans hX
          rw [tail_reader]
          refine key _ _ ?_
          exact congrArg ReqView.reader (reqView_foldl_retire s.outCalls (.err .read)
            { s with reader := .gone, reading := false, readErr := true })
    case a2 r =>
      refine ⟨?_, fun e => by cases e⟩
      simp only [step0] at h0
      split at h0
      · cases h0
      · rename_i q hq
        split at h0
        · cases h0
        · rename_i hpc
          have hpc : q.pc = .a2 := by simpa using hpc
          have hbusy : s.reader = .busy := ((hr.ok r q hq).rdr (Or.inr (Or.inl hpc))).1
          have hs2 : readerLive s = 2 := by simp [readerLive, hbusy]
          rw [hs2]
          (repeat' (split at h0)) <;> first
            | (cases h0; done)
            | (cases h0
               have : ∀ X : St, readerLive X ≤ 2 := fun X => by unfold readerLive; split <;> omega
               exact this _)
    case p2 r =>
      refine ⟨?_, fun e => by cases e⟩
      simp only [step0] at h0
      split at h0
      · cases h0
      · rename_i q hq
        split at h0
        · cases h0
        · rename_i hpc
          have hpc : q.pc = .p2 := by simpa using hpc
          cases h0
          cases hown : q.owner with
          | reader =>
            have hbusy : s.reader = .busy := ((hr.ok r q hq).rdr (Or.inr (Or.inr ⟨hown, by simp [hpc, ReqPc.inPR]⟩))).1
            have hs2 : readerLive s = 2 := by simp [readerLive, hbusy]
            rw [hs2]
            have : ∀ X : St, readerLive X ≤ 2 := fun X => by unfold readerLive; split <;> omega
            exact this _
          | dispatcher =>
            apply Nat.le_of_eq; apply readerLive_of
            simp only [afterP2]
            split <;> simp [tail_reader]
          | handler =>
            apply Nat.le_of_eq; apply readerLive_of
            simp only [afterP2, modMeta_reader]
            split <;> simp [tail_reader]

/-! ### `mu` along the fulfilling steps -/

theorem lt_hret {s s' : St} {r : Nat} {e : Bool} (h : step0 s (.hret r e) = some s') : mu s' < mu s := by
  simp only [step0] at h
  split at h
  · cases h
  · rename_i q hq
    split at h
    · cases h
    · rename_i hpc
      have hpc : q.pc = .running := by simpa using hpc
      cases h
      have hq2 : (modMeta { s with clock := s.clock + 1 } r fun q => { q with ended := some (s.clock + 1) }).cores[r]? = some q := hq
      have h2 := mu_beginPR _ r .handler _ hq2
      rw [mu_modMeta] at h2
      have e : mu { s with clock := s.clock + 1 } = mu s := rfl
      simp only [hpc, wReq] at h2; omega

theorem lt_wret {s s' : St} {w : Who} {o : WOut} (h : step0 s (.wret w o) = some s') : mu s' < mu s := by
  cases w with
  | call n =>
    simp only [step0] at h
    split at h
    · cases h
    · rename_i c hc
      split at h
      · cases h
      · rename_i hpc
        have hpc : c.pc = .wr := by simpa using hpc
        have hp : callPc s n = some .wr := by simp [callPc, hc, hpc]
        split at h <;> cases h
        · have := mu_modCall' s n (fun c => { c with pc := .await }) .wr .await hp (fun _ _ => rfl)
          simp only [wCall] at this; omega
        · have := mu_modCall' { s with brokenWrites := s.brokenWrites + 1 } n (fun c => { c with pc := .w2 .broken }) .wr (.w2 .broken)
            ((callPc_of_calls rfl n).trans hp) (fun _ _ => rfl)
          have e : mu { s with brokenWrites := s.brokenWrites + 1 } = mu s := rfl
          simp only [wCall] at this; omega
        · have := mu_modCall' s n (fun c => { c with pc := .r .broken }) .wr (.r .broken) hp (fun _ _ => rfl)
          simp only [wCall] at this; omega
        · have := mu_modCall' s n (fun c => { c with pc := .r .rejected }) .wr (.r .rejected) hp (fun _ _ => rfl)
          simp only [wCall] at this; omega
        · have := mu_modCall' s n (fun c => { c with pc := .r .ctx }) .wr (.r .ctx) hp (fun _ _ => rfl)
          simp only [wCall] at this; omega
  | resp r =>
    simp only [step0] at h
    split at h
    · cases h
    · rename_i q hq
      split at h
      · cases h
      · rename_i hpc
        have hpc : q.pc = .wr := by simpa using hpc
        cases o <;> simp only at h <;> cases h
        · have hq1 : (modCore { s with wire := s.wire ++ [(r, false)] } r fun q => { q with responses := q.responses + 1 }).cores[r]? =
              some { q with responses := q.responses + 1 } := by simp [modCore, hq]
          have h1 : mu (modCore { s with wire := s.wire ++ [(r, false)] } r fun q => { q with responses := q.responses + 1 }) + wReq q.pc =
              mu s + wReq q.pc := mu_modCore { s with wire := s.wire ++ [(r, false)] } r _ q hq
          have h2 := mu_toP2 _ r _ hq1
          simp only [hpc, wReq] at h1 h2; omega
        · have h1 : mu (modCore { s with brokenWrites := s.brokenWrites + 1 } r fun q => { q with pc := .w2 .broken }) + wReq q.pc =
              mu s + wReq (ReqPc.w2 .broken) := mu_modCore { s with brokenWrites := s.brokenWrites + 1 } r _ q hq
          simp only [hpc, wReq] at h1; omega
        · have h2 := mu_toP2 s r q hq
          simp only [hpc, wReq] at h2; omega
  | unotif k =>
    simp only [step0] at h
    split at h
    · cases h
    · rename_i nf hnf
      split at h
      · cases h
      · rename_i hpc
        have hpc : nf.pc = .wr := by simpa using hpc
        cases o <;> simp only at h <;> cases h
        · have := mu_setNotif s (.unotif k) (fun nf => { nf with pc := .n2 none }) nf hnf
          simp only [hpc, wNotif] at this; omega
        · have := mu_setNotif { s with brokenWrites := s.brokenWrites + 1 } (.unotif k) (fun nf => { nf with pc := .w2 .broken }) nf hnf
          have e : mu { s with brokenWrites := s.brokenWrites + 1 } = mu s := rfl
          simp only [hpc, wNotif] at this; omega
        · have := mu_setNotif s (.unotif k) (fun nf => { nf with pc := .n2 (some .rejected) }) nf hnf
          simp only [hpc, wNotif] at this; omega
  | cnotif k =>
    simp only [step0] at h
    split at h
    · cases h
    · rename_i nf hnf
      split at h
      · cases h
      · rename_i hpc
        have hpc : nf.pc = .wr := by simpa using hpc
        cases o <;> simp only at h <;> cases h
        · have := mu_setNotif s (.cnotif k) (fun nf => { nf with pc := .n2 none }) nf hnf
          simp only [hpc, wNotif] at this; omega
        · have := mu_setNotif { s with brokenWrites := s.brokenWrites + 1 } (.cnotif k) (fun nf => { nf with pc := .w2 .broken }) nf hnf
          have e : mu { s with brokenWrites := s.brokenWrites + 1 } = mu s := rfl
          simp only [hpc, wNotif] at this; omega
        · have := mu_setNotif s (.cnotif k) (fun nf => { nf with pc := .n2 (some .rejected) }) nf hnf
          simp only [hpc, wNotif] at this; omega

theorem mu_eof {s s' : St} (h : step0 s (.read .eof) = some s') : mu s' = mu s + 1 := by
  simp only [step0] at h
  split at h
  · cases h
  · rename_i hrd
    have hrd : s.reader = .read := by simpa using hrd
    cases h
    simp only [mu, muCalls, muNotifs, muReqs, muRest, hrd, wReader]; omega

theorem mu_ectx {s s' : St} {n : Nat} (h : step0 s (.ectx n) = some s') : mu s' = mu s := by
  simp only [step0] at h
  split at h
  · cases h
  · rename_i c hc
    split at h <;> cases h
    have := mu_modCall s n (fun c => { c with ctxDone := true }) c hc
    simp only at this; omega

theorem mu_hasync {s s' : St} {r : Nat} (h : step0 s (.hasync r) = some s') : mu s' = mu s := by
  simp only [step0] at h
  split at h
  · split at h <;> cases h
    rfl
  · cases h

/-- **fulfil_or_internal_step_decreases.** Every critical section of the connection and every fulfilling
step of the environment strictly decreases `mu2`. -/
theorem mu2_step_decreases {s s' : St} {l : Label} (i : Inv4 s) (hl : l.internal = true ∨ l.fulfils = true)
    (h : step s l = some s') : mu2 s' < mu2 s := by
  obtain ⟨hr1, hr2⟩ := readerLive_step i h hl
  have hstep := h
  simp only [step, Option.map_eq_some_iff] at h
  obtain ⟨s0, h0, rfl⟩ := h
  have hms := mu_settle_le s0
  rcases hl with hl | hl
  · have hmu := internal_step_decreases i.base.base.base.reqs hl hstep
    have hc : l.touchesCtx = false := by cases l <;> simp [Label.internal] at hl <;> rfl
    have ha : l.touchesAsync = false := by cases l <;> simp [Label.internal] at hl <;> rfl
    have h1 := liveCtx_step hstep hc
    have h2 := syncs_step hstep ha
    simp only [mu2]; omega
  · cases l <;> simp [Label.fulfils] at hl
    case hret r e =>
      have hmu := lt_hret h0
      have h1 := liveCtx_step hstep rfl
      have h2 := syncs_step hstep rfl
      simp only [mu2]; omega
    case hasync r =>
      have hmu := mu_hasync h0
      have h1 := liveCtx_step hstep rfl
      have h2 := syncs_hasync hstep
      simp only [mu2]; omega
    case wret w o =>
      have hmu := lt_wret h0
      have h1 := liveCtx_step hstep rfl
      have h2 := syncs_step hstep rfl
      simp only [mu2]; omega
    case read m =>
      cases m <;> simp at hl
      have hmu := mu_eof h0
      have h1 := liveCtx_step hstep rfl
      have h2 := syncs_step hstep rfl
      have := hr2 rfl
      simp only [mu2]; omega
    case ectx n =>
      have hmu := mu_ectx h0
      have h1 := liveCtx_ectx hstep
      have h2 := syncs_step hstep rfl
      simp only [mu2]; omega

/-- **shutdown_run_bounded.** From any reachable state, every run that consists of critical sections of
the connection and fulfilling steps of the environment (handlers returning or calling `Async`, transport
writes returning, the transport's `Read` failing, callers' contexts ending), in any interleaving, is at
most `mu2 s` labels long. -/
theorem shutdown_run_bounded (pre ls : List Label) (s s' : St) (h0 : run {} pre = some s)
    (hok : ∀ l ∈ ls, l.internal = true ∨ l.fulfils = true) (h : run s ls = some s') : ls.length + mu2 s' ≤ mu2 s := by
  have i := inv4_run pre inv4_init h0
  clear h0
  induction ls generalizing s with
  | nil => simp [run] at h; subst h; simp
  | cons l ls ih =>
    simp only [run] at h
    cases h1 : step s l with
    | none => simp [h1] at h
    | some s1 =>
      simp only [h1] at h
      have hlt := mu2_step_decreases i (hok l (by simp)) h1
      have := ih s1 (fun l' hl' => hok l' (List.mem_cons_of_mem _ hl')) h (inv4_step i h1)
      simp only [List.length_cons]; omega

/-- **close_terminates_env.** Let `s` be a reachable state in which shutdown has begun — handlers may be
running, writes pending, calls awaiting the peer, the reader reading. Every run from `s` in which the
connection executes critical sections and the environment does nothing but fulfil its obligations (in any
interleaving) is at most `mu2 s` long; and if its last state is maximal (fairness: no critical section
left enabled) and no obligation is outstanding there, then `done` is closed, every `Close()`/`Wait()`
caller has returned and the connection is quiescent. -/
theorem close_terminates_env (pre ls : List Label) (s s' : St) (h0 : run {} pre = some s)
    (hsd : s.shuttingDown = true) (hok : ∀ l ∈ ls, l.internal = true ∨ l.fulfils = true) (h : run s ls = some s')
    (hmax : Maximal s') (ob : Obligations s') :
    ls.length ≤ mu2 s ∧ s'.done = true ∧ AllReturned s' ∧ Quiescent s' := by
  have hb := shutdown_run_bounded pre ls s s' h0 hok h
  have i' : Inv4 s' := inv4_run ls (inv4_run pre inv4_init h0) h
  exact ⟨by omega, stable_closing_state_is_terminated i' (shuttingDown_mono_run ls h hsd) hmax ob⟩

/-- **close_terminates_env is not vacuous**: from the closing state with a running handler (`closingBusy`,
obligation (a) outstanding, `mu = 17`, `mu2 = 20`) the handler returns, the connection writes its response, the
write returns, the connection finishes the request, closes the transport, the transport's `Read` fails,
the reader exits, `Close()` and `Wait()` return: 10 labels, environment and connection interleaved. -/
theorem close_terminates_env_nonvacuous :
    ∃ s s', run {} closingBusy = some s ∧ s.shuttingDown = true ∧ s.done = false ∧ HandlerRunning s ∧
      (∀ l ∈ envPart ++ connPart, l.internal = true ∨ l.fulfils = true) ∧ run s (envPart ++ connPart) = some s' ∧
      Maximal s' ∧ Obligations s' ∧ (envPart ++ connPart).length ≤ mu2 s ∧ s'.done = true ∧ AllReturned s' ∧ Quiescent s' := by
  refine ⟨_, _, rfl, rfl, rfl, (handlerRunningB_iff _).mp rfl, by decide, rfl, ?_, ?_, ?_⟩
  · exact maximal_of_enabledB rfl
  · exact (obligationsB_iff _).mp rfl
  · exact close_terminates_env closingBusy (envPart ++ connPart) _ _ rfl rfl (by decide) rfl
      (maximal_of_enabledB rfl) ((obligationsB_iff _).mp rfl)

end Conn
