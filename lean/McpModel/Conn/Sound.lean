import McpModel.Conn.SoundHist
/-!
Clause soundness of the C01–C05 monitors, part 2.  For every clause the monitors can report
(`Clause`) the corresponding clause of the property is stated as a predicate `P_…` on observation
traces — quantification over positions of the trace, no monitor state — and it is proved that
whenever the monitor reports the clause at the step that extends `tr` by `(l, o)`, the predicate
fails on `tr ++ [(l, o)]` (`sound_…`).  End-of-case clauses: `sound_c02NoAttempt`, `sound_c02Dropped`,
`monEndT_stuck`, `monEndT_none_not_stuck`.
-/
namespace Conn

/-! ## what it takes for a check to fire -/

/-- The condition under which `chkAll m p o e` can report clause `c`, read off the checks. -/
def Fires (m : Mon) (p o : Obs) (e : Ev) : Clause → Prop
  | .c01Twice n r r' => FTok.call n r ∈ p.fins ∧ finCall o.fins n = some r' ∧ r' ≠ r
  | .c01Lost n => ∃ r, FTok.call n r ∈ p.fins ∧ finCall o.fins n = none
  | .c01Foreign n pl => FTok.call n (.ok pl) ∈ o.fins ∧ (n, pl) ∉ m.sent
  | .c01Unparsable n r => FTok.call n r ∈ o.fins ∧ (r = .okPlain ∨ ∃ s, r = .bad s)
  | .c01Panic n => FTok.call n .panic ∈ o.fins
  | .c01Blocked n => o.done = true ∧ 1 ≤ n ∧ n ≤ m.ncalls ∧ finCall o.fins n = none ∧ o.callParked n = false
  | .c01Late n r => n ∈ m.startedLate ∧ finCall o.fins n = some r ∧ r ≠ .closed ∧ ¬ (r = .ctx ∧ n ∈ m.ctxd)
  | .c01RegAfterRx oc => m.rxSeen = true ∧ oc = o.oc ∧ o.oc ≠ []
  | .c01StillRegistered n => ∃ r, FTok.call n r ∈ o.fins ∧ n ∈ o.oc
  | .c01MarshalForeign n => FTok.call n .marshal ∈ o.fins ∧ n ∉ m.badCalls
  | .c02Twice r => ∃ q, m.reqs[r]? = some q ∧ (1 < q.okWrites ∨ 1 < q.p1count)
  | .c02NotifAnswered r => ∃ q, m.reqs[r]? = some q ∧ (q.isNotif = true ∨ q.isCancel = true) ∧ 0 < q.w1count
  | .c03BeforeSync j i => PTok.h j ∈ o.parked ∧ PTok.h j ∉ p.parked ∧ ∃ qj qi, m.reqs[j]? = some qj ∧
      qj.started = false ∧ m.reqs[i]? = some qi ∧ i < j ∧ qi.started = true ∧ qi.asyncd = false ∧ qi.p2done = false
  | .c03LaterFirst i j => PTok.h j ∈ o.parked ∧ PTok.h j ∉ p.parked ∧ ∃ qj qi, m.reqs[j]? = some qj ∧
      qj.started = false ∧ m.reqs[i]? = some qi ∧ j < i ∧ qi.started = true
  | .c04ReadCause r => (r, XCause.read) ∈ o.x ∧ (r, XCause.read) ∉ p.x ∧ r < m.reqs.length ∧ m.rxSeen = false
  | .c05WriteCause r => (r, XCause.write) ∈ o.x ∧ (r, XCause.write) ∉ p.x ∧ r < m.reqs.length ∧ m.brokenSeen = false
  | .c04Unrelated r => (r, XCause.other) ∈ o.x ∧ (r, XCause.other) ∉ p.x ∧ ∃ q, m.reqs[r]? = some q ∧
      q.peerCancelled = false ∧ PTok.p2 r ∉ o.parked ∧ q.p2done = false
  | .c04NotCancelled id r => e = .k1 id ∧ ∃ q, m.reqs[r]? = some q ∧ q.peerCancelled = true ∧ q.id = some id ∧
      q.p2done = false ∧ (∀ x ∈ p.x ++ o.x, x.1 ≠ r) ∧ (PTok.h r ∈ p.parked ∨ PTok.a2 r ∈ p.parked ∨ r ∈ p.q)
  | .c04CancelUnasked id => ∃ rest, m.unasked = id :: rest
  | .c04CtxStuck n => e = .ectx n ∧ p.callParked n = false ∧ PTok.r n ∉ o.parked ∧ finCall o.fins n = none
  | .c05TcTwice => 1 < o.tc
  | .c05OdTwice => 1 < o.od
  | .c05ClosedBusy => o.tc = 1 ∧ p.tc = 0 ∧ o.idle = false
  | .c05DoneBusy => o.done = true ∧ o.idle = false
  | .c05ClosedRunning r => o.tc = 1 ∧ p.tc = 0 ∧ PTok.h r ∈ o.parked
  | .c05DoneRunning r => o.done = true ∧ PTok.h r ∈ o.parked
  | .c05LateDispatch r => ∃ q, m.reqs[r]? = some q ∧ q.a2AfterShutdown = true ∧ PTok.h r ∈ o.parked
  | .c05Stuck _ | .c02Dropped _ | .c02NoAttempt _ => False

theorem orElse_some {α : Type} {a b : Option α} {c : α} (h : (a <|> b) = some c) : a = some c ∨ b = some c := by
  cases a <;> simp_all

theorem zipIdx_findSome {α β : Type} {l : List α} {f : α × Nat → Option β} {c : β}
    (h : (l.zipIdx 0).findSome? f = some c) : ∃ q r, l[r]? = some q ∧ f (q, r) = some c := by
  obtain ⟨⟨q, r⟩, hm, hf⟩ := List.exists_of_findSome?_eq_some h
  exact ⟨q, r, List.mem_zipIdx_iff_getElem?.mp hm, hf⟩

section checks
variable {m : Mon} {p o : Obs} {e : Ev} {c : Clause}

theorem chkFinal_fires (h : chkFinal p o = some c) : Fires m p o e c := by
  obtain ⟨a, ha, hf⟩ := List.exists_of_findSome?_eq_some h
  cases a with
  | unotif k r => simp at hf
  | call n r =>
    simp only at hf
    split at hf
    · split at hf
      · cases hf
      · cases hf; rename_i r' hr' hne; exact ⟨ha, hr', hne⟩
    · cases hf; rename_i hn; exact ⟨r, ha, hn⟩

theorem chkOwn_fires (h : chkOwn m o = some c) : Fires m p o e c := by
  obtain ⟨a, ha, hf⟩ := List.exists_of_findSome?_eq_some h
  split at hf
  · split at hf
    · cases hf
    · cases hf; rename_i hn; exact ⟨ha, by simpa using hn⟩
  · cases hf; exact ⟨ha, .inr ⟨_, rfl⟩⟩
  · cases hf; exact ⟨ha, .inl rfl⟩
  · cases hf

theorem chkPanic_fires (h : chkPanic o = some c) : Fires m p o e c := by
  obtain ⟨a, ha, hf⟩ := List.exists_of_findSome?_eq_some h
  split at hf
  · cases hf; exact ha
  · cases hf

theorem chkBlocked_fires (h : chkBlocked m o = some c) : Fires m p o e c := by
  unfold chkBlocked at h
  split at h
  · rename_i hd
    obtain ⟨k, hk, hf⟩ := List.exists_of_findSome?_eq_some h
    split at hf
    · cases hf
      rename_i hc
      simp only [Bool.and_eq_true, Option.isNone_iff_eq_none, Bool.not_eq_true'] at hc
      exact ⟨hd, by omega, by have := List.mem_range.mp hk; omega, hc.1, hc.2⟩
    · cases hf
  · cases h

theorem chkLate_fires (h : chkLate m o = some c) : Fires m p o e c := by
  obtain ⟨n, hn, hf⟩ := List.exists_of_findSome?_eq_some h
  split at hf
  · split at hf
    · cases hf
    · cases hf
      rename_i r hr hc
      simp only [Bool.or_eq_true, decide_eq_true_eq, Bool.and_eq_true, List.contains_iff_mem, not_or] at hc
      exact ⟨hn, hr, hc.1, hc.2⟩
  · cases hf

theorem chkRegAfterRx_fires (h : chkRegAfterRx m o = some c) : Fires m p o e c := by
  unfold chkRegAfterRx at h
  split at h
  · cases h
    rename_i hc
    simp only [Bool.and_eq_true, Bool.not_eq_true', List.isEmpty_eq_false_iff] at hc
    exact ⟨hc.1, rfl, hc.2⟩
  · cases h

theorem chkCancelAsked_fires (h : chkCancelAsked m = some c) : Fires m p o e c := by
  unfold chkCancelAsked at h
  split at h
  · cases h; rename_i id rest hu; exact ⟨rest, hu⟩
  · cases h

theorem chkStillRegistered_fires (h : chkStillRegistered o = some c) : Fires m p o e c := by
  obtain ⟨a, ha, hf⟩ := List.exists_of_findSome?_eq_some h
  cases a with
  | unotif k r => simp at hf
  | call n r =>
    simp only at hf
    split at hf
    · cases hf; rename_i hc; exact ⟨r, ha, List.contains_iff_mem.mp hc⟩
    · cases hf

theorem chkMarshal_fires (h : chkMarshal m o = some c) : Fires m p o e c := by
  obtain ⟨a, ha, hf⟩ := List.exists_of_findSome?_eq_some h
  split at hf
  · split at hf
    · cases hf
    · cases hf; rename_i hn; exact ⟨ha, by simpa using hn⟩
  · cases hf

theorem chkAnswer_fires (h : chkAnswer m = some c) : Fires m p o e c := by
  obtain ⟨q, r, hq, hf⟩ := zipIdx_findSome h
  simp only at hf
  split at hf
  · cases hf
    rename_i hc
    simp only [gt_iff_lt, Bool.or_eq_true, decide_eq_true_eq] at hc
    exact ⟨q, hq, hc⟩
  · split at hf
    · cases hf
      rename_i hc
      simp only [gt_iff_lt, Bool.and_eq_true, Bool.or_eq_true, decide_eq_true_eq] at hc
      exact ⟨q, hq, hc.1, hc.2⟩
    · cases hf

theorem chkOrder_fires (h : chkOrder m p o = some c) : Fires m p o e c := by
  obtain ⟨a, ha, hf⟩ := List.exists_of_findSome?_eq_some h
  split at hf
  · rename_i j
    split at hf
    · cases hf
    · rename_i hp
      split at hf
      · rename_i qj hqj
        split at hf
        · cases hf
        · rename_i hst
          obtain ⟨qi, i, hqi, hf⟩ := zipIdx_findSome hf
          simp only at hf
          split at hf
          · cases hf
            rename_i hc
            simp only [Bool.and_eq_true, decide_eq_true_eq, Bool.not_eq_true'] at hc
            exact ⟨ha, by simpa using hp, qj, qi, hqj, by simpa using hst, hqi, hc.1.1.1, hc.1.1.2, hc.1.2, hc.2⟩
          · split at hf
            · cases hf
              rename_i hc
              simp only [gt_iff_lt, Bool.and_eq_true, decide_eq_true_eq] at hc
              exact ⟨ha, by simpa using hp, qj, qi, hqj, by simpa using hst, hqi, hc.1, hc.2⟩
            · cases hf
      · cases hf
  · cases hf

theorem chkCancelX_fires (h : chkCancelX m p o = some c) : Fires m p o e c := by
  obtain ⟨⟨r, x⟩, ha, hf⟩ := List.exists_of_findSome?_eq_some h
  simp only at hf
  split at hf
  · cases hf
  · rename_i hp
    have hp' : (r, x) ∉ p.x := by simpa using hp
    split at hf
    · rename_i q hq
      have hr : r < m.reqs.length := (List.getElem?_eq_some_iff.mp hq).1
      cases x with
      | read =>
        simp only at hf
        split at hf
        · cases hf
        · cases hf; rename_i hx; exact ⟨ha, hp', hr, by simpa using hx⟩
      | write =>
        simp only at hf
        split at hf
        · cases hf
        · cases hf; rename_i hx; exact ⟨ha, hp', hr, by simpa using hx⟩
      | other =>
        simp only at hf
        split at hf
        · cases hf
        · cases hf
          rename_i hx
          simp only [Bool.or_eq_true, List.contains_iff_mem, not_or, Bool.not_eq_true] at hx
          exact ⟨ha, hp', q, hq, hx.1.1, hx.1.2, hx.2⟩
    · cases hf

theorem chkEv_fires (h : chkEv m p o e = some c) : Fires m p o e c := by
  cases e with
  | k1 id =>
    obtain ⟨q, r, hq, hf⟩ := zipIdx_findSome h
    simp only at hf
    split at hf
    · cases hf
      rename_i hc
      simp only [Bool.and_eq_true, Bool.not_eq_true', beq_iff_eq, List.all_eq_true, bne_iff_ne, ne_eq,
        Bool.or_eq_true, List.contains_iff_mem] at hc
      exact ⟨rfl, q, hq, hc.1.1.1.1, hc.1.1.1.2, hc.1.1.2, hc.1.2, by
        rcases hc.2 with (h | h) | h
        · exact .inl h
        · exact .inr (.inl h)
        · exact .inr (.inr h)⟩
    · cases hf
  | ectx n =>
    simp only [chkEv] at h
    split at h
    · cases h
    · rename_i hp
      split at h
      · cases h
      · cases h
        rename_i hx
        simp only [Bool.or_eq_true, List.contains_iff_mem, not_or, Bool.not_eq_true, Option.isSome_eq_false_iff,
          Option.isNone_iff_eq_none] at hx
        exact ⟨rfl, by simpa using hp, hx.1, hx.2⟩
  | _ => simp [chkEv] at h

theorem chkTc_fires (h : chkTc o = some c) : Fires m p o e c := by
  unfold chkTc at h; split at h
  · cases h; assumption
  · cases h

theorem chkOd_fires (h : chkOd o = some c) : Fires m p o e c := by
  unfold chkOd at h; split at h
  · cases h; assumption
  · cases h

theorem chkClosedIdle_fires (h : chkClosedIdle p o = some c) : Fires m p o e c := by
  unfold chkClosedIdle at h; split at h
  · cases h
    rename_i hc
    simp only [Bool.and_eq_true, beq_iff_eq, Bool.not_eq_true'] at hc
    exact ⟨hc.1.1, hc.1.2, hc.2⟩
  · cases h

theorem chkDoneIdle_fires (h : chkDoneIdle o = some c) : Fires m p o e c := by
  unfold chkDoneIdle at h; split at h
  · cases h
    rename_i hc
    simp only [Bool.and_eq_true, Bool.not_eq_true'] at hc
    exact hc
  · cases h

theorem chkLateDispatch_fires (h : chkLateDispatch m o = some c) : Fires m p o e c := by
  obtain ⟨q, r, hq, hf⟩ := zipIdx_findSome h
  simp only at hf
  split at hf
  · cases hf
    rename_i hc
    simp only [Bool.and_eq_true, List.contains_iff_mem] at hc
    exact ⟨q, hq, hc.1, hc.2⟩
  · cases hf

theorem runningHandler_mem {r : Nat} (h : o.runningHandler = some r) : PTok.h r ∈ o.parked := by
  obtain ⟨t, ht, hf⟩ := List.exists_of_findSome?_eq_some h
  cases t <;> simp at hf
  subst hf; exact ht

theorem chkClosedRunning_fires (h : chkClosedRunning p o = some c) : Fires m p o e c := by
  unfold chkClosedRunning at h; split at h
  · rename_i hc
    simp only [Bool.and_eq_true, beq_iff_eq] at hc
    cases hr : o.runningHandler with
    | none => simp [hr] at h
    | some r =>
      simp only [hr, Option.map_some, Option.some.injEq] at h
      subst h
      exact ⟨hc.1, hc.2, runningHandler_mem hr⟩
  · cases h

theorem chkDoneRunning_fires (h : chkDoneRunning o = some c) : Fires m p o e c := by
  unfold chkDoneRunning at h; split at h
  · rename_i hc
    cases hr : o.runningHandler with
    | none => simp [hr] at h
    | some r =>
      simp only [hr, Option.map_some, Option.some.injEq] at h
      subst h
      exact ⟨hc, runningHandler_mem hr⟩
  · cases h

/-- `chkAll` reports a clause only under that clause's firing condition. -/
theorem chkAll_fires (h : chkAll m p o e = some c) : Fires m p o e c := by
  unfold chkAll at h
  rcases orElse_some h with h | h
  · exact chkFinal_fires h
  rcases orElse_some h with h | h
  · exact chkOwn_fires h
  rcases orElse_some h with h | h
  · exact chkPanic_fires h
  rcases orElse_some h with h | h
  · exact chkBlocked_fires h
  rcases orElse_some h with h | h
  · exact chkLate_fires h
  rcases orElse_some h with h | h
  · exact chkRegAfterRx_fires h
  rcases orElse_some h with h | h
  · exact chkStillRegistered_fires h
  rcases orElse_some h with h | h
  · exact chkMarshal_fires h
  rcases orElse_some h with h | h
  · exact chkAnswer_fires h
  rcases orElse_some h with h | h
  · exact chkOrder_fires h
  rcases orElse_some h with h | h
  · exact chkCancelAsked_fires h
  rcases orElse_some h with h | h
  · exact chkCancelX_fires h
  rcases orElse_some h with h | h
  · exact chkEv_fires h
  rcases orElse_some h with h | h
  · exact chkTc_fires h
  rcases orElse_some h with h | h
  · exact chkOd_fires h
  rcases orElse_some h with h | h
  · exact chkClosedIdle_fires h
  rcases orElse_some h with h | h
  · exact chkDoneIdle_fires h
  rcases orElse_some h with h | h
  · exact chkLateDispatch_fires h
  rcases orElse_some h with h | h
  · exact chkClosedRunning_fires h
  exact chkDoneRunning_fires h

end checks

/-- The monitor reports `c` at the step that extends `tr` by `(l, o)`: then `c`'s firing condition
holds of a monitor state that is the booked history of the extended trace. -/
theorem fires_of_step {tr : Trace} {l : Label} {o : Obs} {c : Clause}
    (h : (monStepT (monAfter {} tr) l o).2 = some c) :
    ∃ m, Hist (tr ++ [(l, o)]) tr.length m ∧ Fires m (lastObs tr) o (evOf l) c := by
  obtain ⟨hh, _, he⟩ := hist_booked tr l o
  rw [he] at h
  exact ⟨_, hh, chkAll_fires h⟩

/-- … together with the history of the cancel bookkeeping. -/
theorem fires_of_step_cancel {tr : Trace} {l : Label} {o : Obs} {c : Clause}
    (h : (monStepT (monAfter {} tr) l o).2 = some c) :
    ∃ m, HistC (tr ++ [(l, o)]) m ∧ Fires m (lastObs tr) o (evOf l) c := by
  obtain ⟨_, hc, he⟩ := hist_booked tr l o
  rw [he] at h
  exact ⟨_, hc, chkAll_fires h⟩

theorem len_lt_snoc (tr : Trace) (x : Label × Obs) : tr.length < (tr ++ [x]).length := by simp

/-! ## C05 — Close lets running handlers finish, closes the transport only afterwards, dispatches
nothing new, never deadlocks -/

/-- The transport is closed at most once. -/
def P_c05TcTwice (tr : Trace) : Prop := ∀ k, (obsAt tr k).tc ≤ 1

/-- `onDone` runs at most once. -/
def P_c05OdTwice (tr : Trace) : Prop := ∀ k, (obsAt tr k).od ≤ 1

/-- The transport is closed only when nothing is in flight. -/
def P_c05ClosedBusy (tr : Trace) : Prop :=
  ∀ k, k < tr.length → (before tr k).tc = 0 → (obsAt tr k).tc = 1 → (obsAt tr k).idle = true

/-- The connection is done only when nothing is in flight. -/
def P_c05DoneBusy (tr : Trace) : Prop :=
  ∀ k, k < tr.length → (obsAt tr k).done = true → (obsAt tr k).idle = true

/-- "Close lets handlers that are already running run to completion, and closes the transport only
after they have returned": at the step that closes the transport no handler is running (the harness
sees a running handler as a goroutine parked inside the scripted Handler, token `H:r<r>`). -/
def P_c05ClosedRunning (tr : Trace) : Prop :=
  ∀ k, k < tr.length → (before tr k).tc = 0 → (obsAt tr k).tc = 1 → ∀ r, PTok.h r ∉ (obsAt tr k).parked

/-- `done` is closed (Close and every Wait return) only when no handler is running. -/
def P_c05DoneRunning (tr : Trace) : Prop :=
  ∀ k, k < tr.length → (obsAt tr k).done = true → ∀ r, PTok.h r ∉ (obsAt tr k).parked

/-- A request whose A2 section ran after shutdown began never has its handler running. -/
def P_c05LateDispatch (tr : Trace) : Prop :=
  ∀ i r, evAt tr i = some (.a2 r) → (before tr i).shuttingDown = true →
    ∀ j, i ≤ j → j < tr.length → PTok.h r ∉ (obsAt tr j).parked

/-- A handler context is cancelled as "server closing" only after a transport write really failed
(graceful Close cancels nothing). -/
def P_c05WriteCause (tr : Trace) : Prop :=
  ∀ k, k < tr.length → ∀ r, (r, XCause.write) ∈ (obsAt tr k).x → (r, XCause.write) ∉ (before tr k).x →
    ∃ t, t ≤ k ∧ ∃ w, evAt tr t = some (.wret w .broken)

theorem sound_c05TcTwice (tr : Trace) (l : Label) (o : Obs)
    (h : (monStepT (monAfter {} tr) l o).2 = some .c05TcTwice) : ¬ P_c05TcTwice (tr ++ [(l, o)]) := by
  obtain ⟨m, _, hf⟩ := fires_of_step h
  intro hP
  have := hP tr.length
  rw [obsAt_snoc_len] at this
  exact absurd hf (Nat.not_lt.mpr this)

theorem sound_c05OdTwice (tr : Trace) (l : Label) (o : Obs)
    (h : (monStepT (monAfter {} tr) l o).2 = some .c05OdTwice) : ¬ P_c05OdTwice (tr ++ [(l, o)]) := by
  obtain ⟨m, _, hf⟩ := fires_of_step h
  intro hP
  have := hP tr.length
  rw [obsAt_snoc_len] at this
  exact absurd hf (Nat.not_lt.mpr this)

theorem sound_c05ClosedBusy (tr : Trace) (l : Label) (o : Obs)
    (h : (monStepT (monAfter {} tr) l o).2 = some .c05ClosedBusy) : ¬ P_c05ClosedBusy (tr ++ [(l, o)]) := by
  obtain ⟨m, _, h1, h2, h3⟩ := fires_of_step h
  intro hP
  have := hP tr.length (len_lt_snoc _ _) (by rw [before_snoc_len]; exact h2) (by rw [obsAt_snoc_len]; exact h1)
  rw [obsAt_snoc_len] at this
  simp [h3] at this

theorem sound_c05ClosedRunning (tr : Trace) (l : Label) (o : Obs) (r : Nat)
    (h : (monStepT (monAfter {} tr) l o).2 = some (.c05ClosedRunning r)) : ¬ P_c05ClosedRunning (tr ++ [(l, o)]) := by
  obtain ⟨m, _, h1, h2, h3⟩ := fires_of_step h
  intro hP
  have := hP tr.length (len_lt_snoc _ _) (by rw [before_snoc_len]; exact h2) (by rw [obsAt_snoc_len]; exact h1) r
  rw [obsAt_snoc_len] at this
  exact this h3

theorem sound_c05DoneRunning (tr : Trace) (l : Label) (o : Obs) (r : Nat)
    (h : (monStepT (monAfter {} tr) l o).2 = some (.c05DoneRunning r)) : ¬ P_c05DoneRunning (tr ++ [(l, o)]) := by
  obtain ⟨m, _, h1, h2⟩ := fires_of_step h
  intro hP
  have := hP tr.length (len_lt_snoc _ _) (by rw [obsAt_snoc_len]; exact h1) r
  rw [obsAt_snoc_len] at this
  exact this h2

theorem sound_c05DoneBusy (tr : Trace) (l : Label) (o : Obs)
    (h : (monStepT (monAfter {} tr) l o).2 = some .c05DoneBusy) : ¬ P_c05DoneBusy (tr ++ [(l, o)]) := by
  obtain ⟨m, _, h1, h2⟩ := fires_of_step h
  intro hP
  have := hP tr.length (len_lt_snoc _ _) (by rw [obsAt_snoc_len]; exact h1)
  rw [obsAt_snoc_len] at this
  simp [h2] at this

theorem sound_c05LateDispatch (tr : Trace) (l : Label) (o : Obs) (r : Nat)
    (h : (monStepT (monAfter {} tr) l o).2 = some (.c05LateDispatch r)) : ¬ P_c05LateDispatch (tr ++ [(l, o)]) := by
  obtain ⟨m, hm, q, hq, h1, h2⟩ := fires_of_step h
  intro hP
  obtain ⟨t, ht, hb⟩ := (hm.req r q hq).a2s h1
  have := hP t r ht hb tr.length (evAt_snoc_le ht) (len_lt_snoc _ _)
  rw [obsAt_snoc_len] at this
  exact this h2

theorem sound_c05WriteCause (tr : Trace) (l : Label) (o : Obs) (r : Nat)
    (h : (monStepT (monAfter {} tr) l o).2 = some (.c05WriteCause r)) : ¬ P_c05WriteCause (tr ++ [(l, o)]) := by
  obtain ⟨m, hm, h1, h2, _, h4⟩ := fires_of_step h
  intro hP
  obtain ⟨t, _, w, hw⟩ := hP tr.length (len_lt_snoc _ _) r (by rw [obsAt_snoc_len]; exact h1)
    (by rw [before_snoc_len]; exact h2)
  have := hm.broken.mpr ⟨t, w, hw⟩
  simp [h4] at this

/-- End of case: the harness's "not clean" report is passed on as is … -/
theorem monEndT_stuck (m : Mon) (impl : String) : monEndT m (some impl) = some (.c05Stuck impl) := rfl

/-- … and only then. -/
theorem monEndT_none_not_stuck (m : Mon) (impl : String) : monEndT m none ≠ some (.c05Stuck impl) := by
  intro h
  obtain ⟨q, r, _, hf⟩ := zipIdx_findSome h
  simp only at hf
  split at hf
  · split at hf <;> cases hf
  · cases hf

/-- The step monitor never reports the end-of-case clauses. -/
theorem step_not_end (tr : Trace) (l : Label) (o : Obs) (c : Clause)
    (h : (monStepT (monAfter {} tr) l o).2 = some c) :
    (∀ s, c ≠ .c05Stuck s) ∧ (∀ r, c ≠ .c02Dropped r) ∧ (∀ r, c ≠ .c02NoAttempt r) := by
  obtain ⟨m, _, hf⟩ := fires_of_step h
  refine ⟨?_, ?_, ?_⟩ <;> intro x hx <;> subst hx <;> exact hf

/-! ## C01 — a call completes exactly once, with its own response or an error; never blocked after
termination; calls started after termination fail with the closed-connection error -/

/-- A finished result is final: once call `n` is listed as finished with `r`, it stays listed with
`r` (never a second result — c01Twice —, never withdrawn — c01Lost). -/
def P_c01Final (tr : Trace) : Prop :=
  ∀ i j n r, i ≤ j → j < tr.length → FTok.call n r ∈ (obsAt tr i).fins → finCall (obsAt tr j).fins n = some r

/-- A call that completed with a response completed with a response the peer sent to that very call
(same id, payload intact). -/
def P_c01Own (tr : Trace) : Prop :=
  ∀ j, j < tr.length → ∀ n pl, FTok.call n (.ok pl) ∈ (obsAt tr j).fins →
    ∃ i, i ≤ j ∧ evAt tr i = some (.readResp n pl)

/-- A call never completes with the "written" result of a notification or with a garbled payload. -/
def P_c01Unparsable (tr : Trace) : Prop :=
  ∀ j n r, FTok.call n r ∈ (obsAt tr j).fins → r ≠ .okPlain ∧ ∀ s, r ≠ .bad s

/-- No caller panics (completes twice). -/
def P_c01Panic (tr : Trace) : Prop := ∀ j n, FTok.call n .panic ∉ (obsAt tr j).fins

/-- Once the session has terminated no started call stays blocked: it has finished or its goroutine is
on its way (parked at a yield site / inside the transport Write). -/
def P_c01Blocked (tr : Trace) : Prop :=
  ∀ j, j < tr.length → (obsAt tr j).done = true → ∀ n, 1 ≤ n → n ≤ callNoAt tr j →
    (finCall (obsAt tr j).fins n).isSome = true ∨ (obsAt tr j).callParked n = true

/-- A call started after termination fails with the closed-connection error (or with its own
context's error, if the harness cancelled its context). -/
def P_c01Late (tr : Trace) : Prop :=
  ∀ i, i < tr.length → evAt tr i = some .ecall → (before tr i).done = true →
    ∀ j, i ≤ j → j < tr.length → ∀ r, finCall (obsAt tr j).fins (callNoAt tr i) = some r →
      r = .closed ∨ (r = .ctx ∧ ∃ k, k ≤ j ∧ evAt tr k = some (.ectx (callNoAt tr i)))

theorem lastObs_fins_mem {tr : Trace} {x : Label × Obs} {f : FTok} (h : f ∈ (lastObs tr).fins) :
    0 < tr.length ∧ f ∈ (obsAt (tr ++ [x]) (tr.length - 1)).fins := by
  have hl : 0 < tr.length := by
    apply Nat.pos_of_ne_zero
    intro h0
    have : tr = [] := List.length_eq_zero_iff.mp h0
    subst this
    simp at h
  rw [lastObs_eq hl] at h
  exact ⟨hl, by rw [obsAt_snoc_lt (by omega)]; exact h⟩

theorem sound_c01Twice (tr : Trace) (l : Label) (o : Obs) (n : Nat) (r r' : RTok)
    (h : (monStepT (monAfter {} tr) l o).2 = some (.c01Twice n r r')) : ¬ P_c01Final (tr ++ [(l, o)]) := by
  obtain ⟨m, _, h1, h2, h3⟩ := fires_of_step h
  intro hP
  obtain ⟨hl, h1⟩ := lastObs_fins_mem (x := (l, o)) h1
  have := hP (tr.length - 1) tr.length n r (by omega) (len_lt_snoc _ _) h1
  rw [obsAt_snoc_len, h2] at this
  exact h3 (Option.some.inj this)

theorem sound_c01Lost (tr : Trace) (l : Label) (o : Obs) (n : Nat)
    (h : (monStepT (monAfter {} tr) l o).2 = some (.c01Lost n)) : ¬ P_c01Final (tr ++ [(l, o)]) := by
  obtain ⟨m, _, r, h1, h2⟩ := fires_of_step h
  intro hP
  obtain ⟨hl, h1⟩ := lastObs_fins_mem (x := (l, o)) h1
  have := hP (tr.length - 1) tr.length n r (by omega) (len_lt_snoc _ _) h1
  rw [obsAt_snoc_len, h2] at this
  cases this

theorem sound_c01Foreign (tr : Trace) (l : Label) (o : Obs) (n pl : Nat)
    (h : (monStepT (monAfter {} tr) l o).2 = some (.c01Foreign n pl)) : ¬ P_c01Own (tr ++ [(l, o)]) := by
  obtain ⟨m, hm, h1, h2⟩ := fires_of_step h
  intro hP
  obtain ⟨i, _, hi⟩ := hP tr.length (len_lt_snoc _ _) n pl (by rw [obsAt_snoc_len]; exact h1)
  exact h2 ((hm.sent n pl).mpr ⟨i, hi⟩)

theorem sound_c01Unparsable (tr : Trace) (l : Label) (o : Obs) (n : Nat) (r : RTok)
    (h : (monStepT (monAfter {} tr) l o).2 = some (.c01Unparsable n r)) : ¬ P_c01Unparsable (tr ++ [(l, o)]) := by
  obtain ⟨m, _, h1, h2⟩ := fires_of_step h
  intro hP
  obtain ⟨h3, h4⟩ := hP tr.length n r (by rw [obsAt_snoc_len]; exact h1)
  rcases h2 with h2 | ⟨s, h2⟩
  · exact h3 h2
  · exact h4 s h2

theorem sound_c01Panic (tr : Trace) (l : Label) (o : Obs) (n : Nat)
    (h : (monStepT (monAfter {} tr) l o).2 = some (.c01Panic n)) : ¬ P_c01Panic (tr ++ [(l, o)]) := by
  obtain ⟨m, _, h1⟩ := fires_of_step h
  intro hP
  exact hP tr.length n (by rw [obsAt_snoc_len]; exact h1)

theorem sound_c01Blocked (tr : Trace) (l : Label) (o : Obs) (n : Nat)
    (h : (monStepT (monAfter {} tr) l o).2 = some (.c01Blocked n)) : ¬ P_c01Blocked (tr ++ [(l, o)]) := by
  obtain ⟨m, hm, h1, h2, h3, h4, h5⟩ := fires_of_step h
  intro hP
  have := hP tr.length (len_lt_snoc _ _) (by rw [obsAt_snoc_len]; exact h1) n h2
    (by rw [callNoAt_snoc_len, ← hm.ncalls]; exact h3)
  rw [obsAt_snoc_len, h4, h5] at this
  simp at this

theorem sound_c01Late (tr : Trace) (l : Label) (o : Obs) (n : Nat) (r : RTok)
    (h : (monStepT (monAfter {} tr) l o).2 = some (.c01Late n r)) : ¬ P_c01Late (tr ++ [(l, o)]) := by
  obtain ⟨m, hm, h1, h2, h3, h4⟩ := fires_of_step h
  intro hP
  obtain ⟨i, hi, hd, hn⟩ := hm.late n h1
  subst hn
  have := hP i (evAt_some_lt hi) hi hd tr.length (evAt_snoc_le hi) (len_lt_snoc _ _) r
    (by rw [obsAt_snoc_len]; exact h2)
  rcases this with h5 | ⟨h5, k, _, hk⟩
  · exact h3 h5
  · exact h4 ⟨h5, (hm.ctxd _).mpr ⟨k, hk⟩⟩

/-- Once the reader has failed (its exit section RX ran) no outgoing call is registered any more:
a registered call waits for a response, and nothing can read one — "completes … with an error once
the connection breaks", "a call started after the connection broke fails at once". -/
def P_c01RegAfterRx (tr : Trace) : Prop :=
  ∀ k, k < tr.length → (∃ t, t ≤ k ∧ evAt tr t = some .rx) → (obsAt tr k).oc = []

theorem sound_c01RegAfterRx (tr : Trace) (l : Label) (o : Obs) (oc : List Nat)
    (h : (monStepT (monAfter {} tr) l o).2 = some (.c01RegAfterRx oc)) : ¬ P_c01RegAfterRx (tr ++ [(l, o)]) := by
  obtain ⟨m, hm, h1, _, h3⟩ := fires_of_step h
  intro hP
  obtain ⟨i, hi⟩ := hm.rx.mp h1
  have := hP tr.length (len_lt_snoc _ _) ⟨i, evAt_snoc_le hi, hi⟩
  rw [obsAt_snoc_len] at this
  exact h3 this

/-- A call that has returned to its caller is no longer registered in the connection's table of
outgoing calls (else the reader's exit or Close completes it a second time: "never completes twice"). -/
def P_c01StillRegistered (tr : Trace) : Prop :=
  ∀ k n r, FTok.call n r ∈ (obsAt tr k).fins → n ∉ (obsAt tr k).oc

theorem sound_c01StillRegistered (tr : Trace) (l : Label) (o : Obs) (n : Nat)
    (h : (monStepT (monAfter {} tr) l o).2 = some (.c01StillRegistered n)) :
    ¬ P_c01StillRegistered (tr ++ [(l, o)]) := by
  obtain ⟨m, _, r, h1, h2⟩ := fires_of_step h
  intro hP
  have := hP tr.length n r (by rw [obsAt_snoc_len]; exact h1)
  rw [obsAt_snoc_len] at this
  exact this h2

/-- The marshalling error is the result only of a call whose parameters cannot be encoded (one started
by an `ecallbad` event; calls are numbered by their start events). -/
def P_c01MarshalOnlyBad (tr : Trace) : Prop :=
  ∀ k, k < tr.length → ∀ n, FTok.call n .marshal ∈ (obsAt tr k).fins →
    ∃ i, i ≤ k ∧ evAt tr i = some .ecallbad ∧ n = callNoAt tr i

theorem sound_c01MarshalForeign (tr : Trace) (l : Label) (o : Obs) (n : Nat)
    (h : (monStepT (monAfter {} tr) l o).2 = some (.c01MarshalForeign n)) :
    ¬ P_c01MarshalOnlyBad (tr ++ [(l, o)]) := by
  obtain ⟨m, hm, h1, h2⟩ := fires_of_step h
  intro hP
  obtain ⟨i, _, hi, hn⟩ := hP tr.length (len_lt_snoc _ _) n (by rw [obsAt_snoc_len]; exact h1)
  exact h2 ((hm.bad n).mpr ⟨i, hi, hn⟩)

/-! ## C02 — each request with an id receives exactly one response; notifications never receive one -/

/-- No request has two responses written successfully, none passes the un-index point P1 of
processResult twice. -/
def P_c02Twice (tr : Trace) : Prop :=
  ∀ r, cnt tr (· == .wret (some r) .ok) ≤ 1 ∧ cnt tr (· == .p1 r) ≤ 1

/-- No response is attempted (write gate W1) for a notification or a cancel notification. -/
def P_c02NotifAnswered (tr : Trace) : Prop :=
  ∀ r t e, ReadAt tr r t e → (e = .readNotif ∨ ∃ id, e = .readCancel id) → ∀ t', t < t' → evAt tr t' ≠ some (.w1 r)

/-- (End of case.)  Every call that was read got a response attempt. -/
def P_c02Answered (tr : Trace) : Prop :=
  ∀ r t id, ReadAt tr r t (.readCall id) → ∃ t', t < t' ∧ evAt tr t' = some (.w1 r)

theorem sound_c02Twice (tr : Trace) (l : Label) (o : Obs) (r : Nat)
    (h : (monStepT (monAfter {} tr) l o).2 = some (.c02Twice r)) : ¬ P_c02Twice (tr ++ [(l, o)]) := by
  obtain ⟨m, hm, q, hq, h1⟩ := fires_of_step h
  intro hP
  have h2 := (hm.req r q hq).okw
  have h3 := (hm.req r q hq).p1c
  have := hP r
  omega

theorem sound_c02NotifAnswered (tr : Trace) (l : Label) (o : Obs) (r : Nat)
    (h : (monStepT (monAfter {} tr) l o).2 = some (.c02NotifAnswered r)) :
    ¬ P_c02NotifAnswered (tr ++ [(l, o)]) := by
  obtain ⟨m, hm, q, hq, h1, h2⟩ := fires_of_step h
  intro hP
  obtain ⟨e, he, hr, hid, hn, hc⟩ := (hm.req r q hq).kind
  obtain ⟨t', ha, hw⟩ := (hm.req r q hq).w1c.mp h2
  obtain ⟨t, ht⟩ := exists_readAt _ he
  refine hP r t e ht ?_ t' ((ht.arrived_iff t').mp ha) hw
  cases e <;> simp_all [Ev.isRead, Ev.reqId, Ev.isCancelRead]

theorem monEndT_none {m : Mon} {c : Clause} (h : monEndT m none = some c) :
    ∃ q r, m.reqs[r]? = some q ∧ q.isNotif = false ∧ q.isCancel = false ∧ q.w1count = 0 ∧
      (c = .c02Dropped r ∨ c = .c02NoAttempt r) := by
  obtain ⟨q, r, hq, hf⟩ := zipIdx_findSome h
  refine ⟨q, r, hq, ?_⟩
  simp only at hf
  split at hf
  · rename_i hc
    simp only [Bool.and_eq_true, Bool.not_eq_true', beq_iff_eq] at hc
    refine ⟨hc.1.1, hc.1.2, hc.2, ?_⟩
    split at hf <;> cases hf
    · exact .inl rfl
    · exact .inr rfl
  · cases hf

/-- End of case: whatever the end-of-case monitor reports (without a harness report), some call never
got a response attempt. -/
theorem sound_monEndT_none (tr : Trace) (c : Clause) (h : monEndT (monAfter {} tr) none = some c) :
    (∃ r, c = .c02Dropped r ∨ c = .c02NoAttempt r) ∧ ¬ P_c02Answered tr := by
  obtain ⟨q, r, hq, h1, h2, h3, hc⟩ := monEndT_none h
  refine ⟨⟨r, hc⟩, ?_⟩
  intro hP
  have hm := (hist_after tr).1
  obtain ⟨e, he, hr, hid, hn, hcn⟩ := (hm.req r q hq).kind
  obtain ⟨t, ht⟩ := exists_readAt _ he
  have : ∃ id, e = .readCall id := by
    cases e <;> simp_all [Ev.isRead, Ev.reqId]
  obtain ⟨id, rfl⟩ := this
  obtain ⟨t', hlt, hw⟩ := hP r t id ht
  have := (hm.req r q hq).w1c.mpr ⟨t', (ht.arrived_iff t').mpr hlt, hw⟩
  omega

theorem sound_c02NoAttempt (tr : Trace) (r : Nat)
    (h : monEndT (monAfter {} tr) none = some (.c02NoAttempt r)) : ¬ P_c02Answered tr :=
  (sound_monEndT_none tr _ h).2

theorem sound_c02Dropped (tr : Trace) (r : Nat)
    (h : monEndT (monAfter {} tr) none = some (.c02Dropped r)) : ¬ P_c02Answered tr :=
  (sound_monEndT_none tr _ h).2

/-! ## C04 — cancelling a call returns promptly and cancels the peer's handler of exactly that request -/

/-- A caller whose context is cancelled while it is blocked in Await (not parked anywhere) is on its
way out in that very step: parked at the eager retire `R` or finished. -/
def P_c04CtxStuck (tr : Trace) : Prop :=
  ∀ k, k < tr.length → ∀ n, evAt tr k = some (.ectx n) → (before tr k).callParked n = false →
    PTok.r n ∈ (obsAt tr k).parked ∨ (finCall (obsAt tr k).fins n).isSome = true

/-- A handler context (of a request that has arrived) is cancelled with the read-error cause only
after the reader saw the read error (RX). -/
def P_c04ReadCause (tr : Trace) : Prop :=
  ∀ k, k < tr.length → ∀ r, (r, XCause.read) ∈ (obsAt tr k).x → (r, XCause.read) ∉ (before tr k).x →
    arrived tr r (k + 1) → ∃ t, t ≤ k ∧ evAt tr t = some .rx

/-- A handler context (of a request that has arrived) is cancelled with the peer/finished cause only
if the peer cancelled that very request (a K1 for an id under which it was indexed), or its
processResult is at / past P2. -/
def P_c04Unrelated (tr : Trace) : Prop :=
  ∀ k, k < tr.length → ∀ r, (r, XCause.other) ∈ (obsAt tr k).x → (r, XCause.other) ∉ (before tr k).x →
    arrived tr r (k + 1) →
      (∃ t, t ≤ k ∧ ∃ id, evAt tr t = some (.k1 id) ∧ indexedAt tr t id = some r) ∨
      PTok.p2 r ∈ (obsAt tr k).parked ∨
      ∃ t, t ≤ k ∧ arrived tr r t ∧ evAt tr t = some (.p2 r)

/-- When the peer's `Cancel(id)` (K1) runs, the request carrying `id` that a K1 found indexed, that
has not finished (no P2) and whose handler is running or about to (H, A2, queued), has its context
cancelled in that very step (or had it cancelled before). -/
def P_c04NotCancelled (tr : Trace) : Prop :=
  ∀ k, k < tr.length → ∀ id, evAt tr k = some (.k1 id) → ∀ r,
    (∃ t, t ≤ k ∧ ∃ id', evAt tr t = some (.k1 id') ∧ indexedAt tr t id' = some r) →
    (∃ t, ReadAt tr r t (.readCall id)) →
    (¬ ∃ t, t ≤ k ∧ arrived tr r t ∧ evAt tr t = some (.p2 r)) →
    (PTok.h r ∈ (before tr k).parked ∨ PTok.a2 r ∈ (before tr k).parked ∨ r ∈ (before tr k).q) →
      ∃ x, x ∈ (before tr k).x ++ (obsAt tr k).x ∧ x.1 = r

theorem sound_c04CtxStuck (tr : Trace) (l : Label) (o : Obs) (n : Nat)
    (h : (monStepT (monAfter {} tr) l o).2 = some (.c04CtxStuck n)) : ¬ P_c04CtxStuck (tr ++ [(l, o)]) := by
  obtain ⟨m, _, h1, h2, h3, h4⟩ := fires_of_step h
  intro hP
  have := hP tr.length (len_lt_snoc _ _) n (by rw [evAt_snoc_len, h1]) (by rw [before_snoc_len]; exact h2)
  rw [obsAt_snoc_len, h4] at this
  simp [h3] at this

theorem arrived_len_succ {tr : Trace} {x : Label × Obs} {m : Mon} {n r : Nat}
    (hm : Hist (tr ++ [x]) n m) (hr : r < m.reqs.length) : arrived (tr ++ [x]) r (tr.length + 1) := by
  unfold arrived
  rw [nreadsBefore_ge (by simp), ← hm.nreqs]
  exact hr

theorem sound_c04ReadCause (tr : Trace) (l : Label) (o : Obs) (r : Nat)
    (h : (monStepT (monAfter {} tr) l o).2 = some (.c04ReadCause r)) : ¬ P_c04ReadCause (tr ++ [(l, o)]) := by
  obtain ⟨m, hm, h1, h2, h3, h4⟩ := fires_of_step h
  intro hP
  obtain ⟨t, _, ht⟩ := hP tr.length (len_lt_snoc _ _) r (by rw [obsAt_snoc_len]; exact h1)
    (by rw [before_snoc_len]; exact h2) (arrived_len_succ hm h3)
  have := hm.rx.mpr ⟨t, ht⟩
  simp [h4] at this

theorem sound_c04Unrelated (tr : Trace) (l : Label) (o : Obs) (r : Nat)
    (h : (monStepT (monAfter {} tr) l o).2 = some (.c04Unrelated r)) : ¬ P_c04Unrelated (tr ++ [(l, o)]) := by
  obtain ⟨m, hm, h1, h2, q, hq, h3, h4, h5⟩ := fires_of_step h
  intro hP
  have hr : r < m.reqs.length := (List.getElem?_eq_some_iff.mp hq).1
  rcases hP tr.length (len_lt_snoc _ _) r (by rw [obsAt_snoc_len]; exact h1)
    (by rw [before_snoc_len]; exact h2) (arrived_len_succ hm hr) with ⟨t, _, id, ht, hi⟩ | hp | ⟨t, _, ha, ht⟩
  · have := (hm.req r q hq).pc.mpr ⟨t, id, ht, hi⟩
    simp [h3] at this
  · rw [obsAt_snoc_len] at hp; exact h4 hp
  · have := (hm.req r q hq).p2d.mpr ⟨t, ha, ht⟩
    simp [h5] at this

theorem sound_c04NotCancelled (tr : Trace) (l : Label) (o : Obs) (id r : Nat)
    (h : (monStepT (monAfter {} tr) l o).2 = some (.c04NotCancelled id r)) :
    ¬ P_c04NotCancelled (tr ++ [(l, o)]) := by
  obtain ⟨m, hm, h1, q, hq, h2, h3, h4, h5, h6⟩ := fires_of_step h
  intro hP
  have hq' := hm.req r q hq
  obtain ⟨t, id', ht, hi⟩ := hq'.pc.mp h2
  obtain ⟨e, he, hr, hid, _⟩ := hq'.kind
  have : e = .readCall id := by
    rw [h3] at hid
    cases e <;> simp_all [Ev.reqId]
  subst this
  obtain ⟨tr0, hread⟩ := exists_readAt _ he
  obtain ⟨x, hx, hxr⟩ := hP tr.length (len_lt_snoc _ _) id (by rw [evAt_snoc_len, h1]) r
    ⟨t, evAt_snoc_le ht, id', ht, hi⟩ ⟨tr0, hread⟩
    (by
      rintro ⟨t2, _, ha, ht2⟩
      have := hq'.p2d.mpr ⟨t2, ha, ht2⟩
      simp [h4] at this)
    (by rw [before_snoc_len]; exact h6)
  rw [before_snoc_len, obsAt_snoc_len] at hx
  exact h5 x hx hxr

/-- `Connection.Cancel(id)` runs only for an id that a received notifications/cancelled named, once per
notification: at every `K1 id`, the number of `K1 id` so far does not exceed the number of
`read cancel id` so far.  (Otherwise a request the peer did not name may be cancelled, and the one
it named is not: "cancels … the peer's handler for exactly that request".) -/
def P_c04CancelOnlyAsked (tr : Trace) : Prop :=
  ∀ k id, k < tr.length → evAt tr k = some (.k1 id) →
    cnt (tr.take (k + 1)) (· == .k1 id) ≤ cnt (tr.take (k + 1)) (· == .readCancel id)

theorem sound_c04CancelUnasked (tr : Trace) (l : Label) (o : Obs) (id : Nat)
    (h : (monStepT (monAfter {} tr) l o).2 = some (.c04CancelUnasked id)) :
    ¬ P_c04CancelOnlyAsked (tr ++ [(l, o)]) := by
  obtain ⟨m, hc, rest, hu⟩ := fires_of_step_cancel h
  intro hP
  obtain ⟨k, hk, he, hlt⟩ := hc.un id (by rw [hu]; simp)
  have := hP k id hk he
  omega

/-! ## C03 — a notification's handler finishes before the handler of any later message starts;
handlers start in arrival order -/

/-- The handler of request `j` (which had arrived) was seen running at a position before `k`. -/
def startedBefore (tr : Trace) (j k : Nat) : Prop :=
  ∃ i, i < k ∧ arrived tr j (i + 1) ∧ PTok.h j ∈ (obsAt tr i).parked

/-- When the handler of request `j` is first seen running, every earlier request whose handler has
started has released the dispatcher (called `Async`, or its processResult is past P2) — c03BeforeSync —
and no later request's handler has started — c03LaterFirst. -/
def P_c03Order (tr : Trace) : Prop :=
  ∀ k, k < tr.length → ∀ j, PTok.h j ∈ (obsAt tr k).parked → ¬ startedBefore tr j k →
    (∀ i, i < j → startedBefore tr i k →
      ∃ t, t ≤ k ∧ arrived tr i t ∧ (evAt tr t = some (.hasync i) ∨ evAt tr t = some (.p2 i))) ∧
    (∀ i, j < i → ¬ startedBefore tr i k)

theorem startedBefore_of_hist {tr : Trace} {m : Mon} {r : Nat} {q : MReq} (hm : Hist tr n m)
    (hq : m.reqs[r]? = some q) : q.started = true ↔ startedBefore tr r n :=
  (hm.req r q hq).st

theorem sound_c03BeforeSync (tr : Trace) (l : Label) (o : Obs) (j i : Nat)
    (h : (monStepT (monAfter {} tr) l o).2 = some (.c03BeforeSync j i)) : ¬ P_c03Order (tr ++ [(l, o)]) := by
  obtain ⟨m, hm, h1, _, qj, qi, hqj, hsj, hqi, hij, hsi, hai, hpi⟩ := fires_of_step h
  intro hP
  have hnj : ¬ startedBefore (tr ++ [(l, o)]) j tr.length := by
    rw [← startedBefore_of_hist hm hqj, hsj]; simp
  obtain ⟨hP1, _⟩ := hP tr.length (len_lt_snoc _ _) j (by rw [obsAt_snoc_len]; exact h1) hnj
  obtain ⟨t, _, ha, ht | ht⟩ := hP1 i hij ((startedBefore_of_hist hm hqi).mp hsi)
  · have := (hm.req i qi hqi).asy.mpr ⟨t, ha, ht⟩
    simp [hai] at this
  · have := (hm.req i qi hqi).p2d.mpr ⟨t, ha, ht⟩
    simp [hpi] at this

theorem sound_c03LaterFirst (tr : Trace) (l : Label) (o : Obs) (i j : Nat)
    (h : (monStepT (monAfter {} tr) l o).2 = some (.c03LaterFirst i j)) : ¬ P_c03Order (tr ++ [(l, o)]) := by
  obtain ⟨m, hm, h1, _, qj, qi, hqj, hsj, hqi, hij, hsi⟩ := fires_of_step h
  intro hP
  have hnj : ¬ startedBefore (tr ++ [(l, o)]) j tr.length := by
    rw [← startedBefore_of_hist hm hqj, hsj]; simp
  obtain ⟨_, hP2⟩ := hP tr.length (len_lt_snoc _ _) j (by rw [obsAt_snoc_len]; exact h1) hnj
  exact hP2 i hij ((startedBefore_of_hist hm hqi).mp hsi)

/-! ## non-vacuity: every predicate holds on a small good trace whose hypotheses are exercised, and
fails (the monitor fires) on a tiny bad one -/

namespace SoundExamples

/-! ### C05 -/

/-- graceful close with a request in flight whose A2 ran after shutdown began, a response write that
really failed, then the transport closed once, idle. -/
def good05 : Trace :=
  [(.read (.call 7), {closing := true, inc := 1}),
   (.a2 0, {closing := true, inc := 1}),
   (.wret (.resp 0) .broken, {closing := true, writeErr := true, x := [(0, .write)]}),
   (.cl1, {closing := true, writeErr := true, x := [(0, .write)], tc := 1, od := 1, done := true})]

example : P_c05TcTwice good05 := by
  intro k; rcases k with _|_|_|_|k <;> simp [obsAt, good05]
example : P_c05OdTwice good05 := by
  intro k; rcases k with _|_|_|_|k <;> simp [obsAt, good05]
example : P_c05ClosedBusy good05 := by
  intro k hk; rcases k with _|_|_|_|k <;> simp [obsAt, before, good05, Obs.idle] at hk ⊢
example : P_c05DoneBusy good05 := by
  intro k hk; rcases k with _|_|_|_|k <;> simp [obsAt, good05, Obs.idle] at hk ⊢
example : P_c05ClosedRunning good05 := by
  intro k hk; rcases k with _|_|_|_|k <;> simp [obsAt, before, good05] at hk ⊢
example : P_c05DoneRunning good05 := by
  intro k hk; rcases k with _|_|_|_|k <;> simp [obsAt, good05] at hk ⊢
example : P_c05LateDispatch good05 := by
  intro i r h hb j hij hj
  rcases j with _|_|_|_|j <;> simp [obsAt, good05] at hj ⊢
example : P_c05WriteCause good05 := by
  intro k hk r h1 h2
  refine ⟨2, ?_, some 0, by simp [evAt, good05, evOf, Who.resp?]⟩
  rcases k with _|_|_|_|k <;> simp [obsAt, before, good05] at hk h1 h2 ⊢

/-! ### C01 -/

def good01 : Trace :=
  [(.ecall, {oc := [1], parked := [.c1 1]}),
   (.read (.resp 1 5), {fins := [.call 1 (.ok 5)], done := true}),
   (.ecall, {done := true, fins := [.call 1 (.ok 5)], parked := [.c1 2]}),
   (.c1 2, {done := true, fins := [.call 1 (.ok 5), .call 2 .closed]})]

example : P_c01Final good01 := by
  intro i j n r hij hj hm
  rcases j with _|_|_|_|j <;> rcases i with _|_|_|_|i <;>
    simp [obsAt, good01] at hij hj hm ⊢ <;>
    first
      | omega
      | (obtain ⟨rfl, rfl⟩ := hm; simp [finCall]; done)
      | (rcases hm with ⟨hn, hr⟩ | ⟨hn, hr⟩ <;> subst hn <;> subst hr <;> simp [finCall])
example : P_c01Own good01 := by
  intro j hj n pl hm
  refine ⟨1, ?_, ?_⟩ <;>
  rcases j with _|_|_|_|j <;> simp [obsAt, good01, evAt, evOf] at hj hm ⊢ <;> simp [hm]
example : P_c01Unparsable good01 := by
  intro j n r hm
  rcases j with _|_|_|_|j <;> simp [obsAt, good01] at hm ⊢ <;>
    first
      | (obtain ⟨rfl, rfl⟩ := hm; simp; done)
      | (rcases hm with ⟨hn, hr⟩ | ⟨hn, hr⟩ <;> subst hn <;> subst hr <;> simp)
example : P_c01Panic good01 := by
  intro j n
  rcases j with _|_|_|_|j <;> simp [obsAt, good01]
example : P_c01Blocked good01 := by
  intro j hj hd n h1 hn
  rcases j with _|_|_|_|j <;> simp [obsAt, good01, callNoAt, cnt, evOf, Ev.isCallStart] at hj hd hn ⊢ <;>
    (have : n = 1 ∨ n = 2 := by omega) <;> rcases this with rfl | rfl <;> simp [finCall, Obs.callParked, PTok.callNo] at hn ⊢
example : P_c01Late good01 := by
  intro i hi he hd j hij hj r hr
  rcases i with _|_|_|_|i <;> simp [good01, evAt, evOf, before, obsAt] at hi he hd
  rcases j with _|_|_|_|j <;> simp [good01, obsAt, callNoAt, cnt, evOf, finCall, Ev.isCallStart] at hij hj hr ⊢
  exact .inl hr.symm

/-! ### C02, C04, C03 -/

def good24 : Trace :=
  [(.read (.call 7), {}),
   (.a1 0, {parked := [.h 0]}),
   (.k1 7, {parked := [.h 0], x := [(0, .other)]}),
   (.w1 (.resp 0), {x := [(0, .other)]}),
   (.p2 0, {x := [(0, .other)]}),
   (.read .notif, {x := [(0, .other)], parked := [.h 1]})]

theorem good24_readAt {r t : Nat} {e : Ev} (h : ReadAt good24 r t e) :
    (r = 0 ∧ t = 0 ∧ e = .readCall 7) ∨ (r = 1 ∧ t = 5 ∧ e = .readNotif) := by
  obtain ⟨he, hr, hn⟩ := h
  have := evAt_some_lt he
  rcases t with _|_|_|_|_|_|t <;>
    simp [good24, evAt, evOf, nreadsBefore, reads, Ev.isRead, List.filter_cons] at he hn this <;> subst he <;> first | (subst hn; simp; done) | simp_all [Ev.isRead]

example : P_c02Twice good24 := by
  intro r; simp [cnt, good24, evOf, Who.resp?]
example : P_c02NotifAnswered good24 := by
  intro r t e hr he t' hlt hw
  have := evAt_some_lt hw
  rcases good24_readAt hr with ⟨rfl, rfl, rfl⟩ | ⟨rfl, rfl, rfl⟩
  · simp at he
  · simp [good24] at this; omega
example : P_c02Answered good24 := by
  intro r t id hr
  rcases good24_readAt hr with ⟨rfl, rfl, h⟩ | ⟨rfl, rfl, h⟩
  · exact ⟨3, by omega, by simp [good24, evAt, evOf]⟩
  · cases h

theorem good24_idx : indexedAt good24 2 7 = some 0 := by
  simp [indexedAt, idxAt, good24, evAt, evOf, reqIdAt, reads, Ev.isRead, Ev.reqId, List.filter_cons]
theorem good24_arr0 (t : Nat) (h : 0 < t) : arrived good24 0 t := by
  refine arrived_mono (show 1 ≤ t from h) ?_
  simp [arrived, nreadsBefore, good24, reads, evOf, Ev.isRead, List.filter_cons]

example : P_c04Unrelated good24 := by
  intro k hk r h1 h2 ha
  refine .inl ⟨2, ?_, 7, by simp [good24, evAt, evOf], ?_⟩
  · rcases k with _|_|_|_|_|_|k <;> simp [good24, obsAt, before] at hk h1 h2 ⊢
  · have : r = 0 := by
      rcases k with _|_|_|_|_|_|k <;> simp [good24, obsAt, before] at hk h1 h2 ⊢ <;> assumption
    subst this; exact good24_idx

example : P_c04NotCancelled good24 := by
  intro k hk id he r hidx hread hnp2 hrun
  obtain ⟨t, ht, id', he', hi⟩ := hidx
  have hk2 : k = 2 := by
    rcases k with _|_|_|_|_|_|k <;> simp [good24, evAt, evOf] at hk he ⊢
  subst hk2
  have ht2 : t = 2 := by
    rcases t with _|_|_|t <;> simp [good24, evAt, evOf] at ht he' ⊢
  subst ht2
  have hid : id' = 7 := by simpa [good24, evAt, evOf] using he'.symm
  subst hid
  rw [good24_idx] at hi
  cases hi
  exact ⟨(0, .other), by simp [good24, obsAt], rfl⟩

example : P_c03Order good24 := by
  intro k hk j hj hns
  rcases k with _|_|_|_|_|_|k <;> simp [good24, obsAt] at hk hj
  · subst hj
    refine ⟨fun i hi => absurd hi (Nat.not_lt_zero _), ?_⟩
    rintro i hi ⟨p, hp, _, hm⟩
    rcases p with _|p <;> simp [good24, obsAt] at hp hm
  · subst hj
    exact absurd ⟨1, by omega, good24_arr0 _ (by omega), by simp [good24, obsAt]⟩ hns
  · subst hj
    refine ⟨?_, ?_⟩
    · intro i hi _
      have : i = 0 := by omega
      subst this
      exact ⟨4, by omega, good24_arr0 _ (by omega), .inr (by simp [good24, evAt, evOf])⟩
    · rintro i hi ⟨p, hp, _, hm⟩
      rcases p with _|_|_|_|_|p <;> simp [good24, obsAt] at hp hm <;> omega

/-- a call whose context is cancelled while blocked in Await, and a read error that cancels a handler context -/
def good4b : Trace :=
  [(.ecall, {oc := [1]}),
   (.ectx 1, {oc := [1], parked := [.r 1]}),
   (.read (.call 7), {oc := [1], parked := [.r 1]}),
   (.rx, {readErr := true, x := [(0, .read)]})]

example : P_c04CtxStuck good4b := by
  intro k hk n he hp
  rcases k with _|_|_|_|k <;> simp [good4b, evAt, evOf, obsAt] at hk he ⊢
  exact .inl he.symm
example : P_c04ReadCause good4b := by
  intro k hk r h1 h2 _
  refine ⟨3, ?_, by simp [good4b, evAt, evOf]⟩
  rcases k with _|_|_|_|k <;> simp [good4b, obsAt, before] at hk h1 h2 ⊢

/-! ### the monitor fires (and, by soundness, the clause fails) on tiny bad traces -/

example : ¬ P_c05TcTwice ([] ++ [(.eclose, {tc := 2})]) := sound_c05TcTwice _ _ _ (by decide)
example : ¬ P_c05OdTwice ([] ++ [(.eclose, {od := 2})]) := sound_c05OdTwice _ _ _ (by decide)
example : ¬ P_c05ClosedBusy ([] ++ [(.eclose, {tc := 1, hr := true})]) := sound_c05ClosedBusy _ _ _ (by decide)
example : ¬ P_c05DoneBusy ([] ++ [(.eclose, {done := true, inc := 1})]) := sound_c05DoneBusy _ _ _ (by decide)
-- the under-counting implementation: `in=0` (it looks idle to `chkClosedIdle`) while the handler of r0 runs
example : ¬ P_c05ClosedRunning ([] ++ [(.cl1, {closing := true, tc := 1, parked := [.h 0]})]) :=
  sound_c05ClosedRunning _ _ _ 0 (by decide)
example : ¬ P_c05DoneRunning ([] ++ [(.cl1, {closing := true, done := true, parked := [.h 0]})]) :=
  sound_c05DoneRunning _ _ _ 0 (by decide)
example : ¬ P_c05LateDispatch ([(.read (.call 7), {closing := true})] ++ [(.a2 0, {closing := true, parked := [.h 0]})]) :=
  sound_c05LateDispatch _ _ _ 0 (by decide)
example : ¬ P_c05WriteCause ([(.read (.call 7), ({} : Obs))] ++ [(.d1, {x := [(0, .write)]})]) :=
  sound_c05WriteCause _ _ _ 0 (by decide)

example : ¬ P_c01Final ([(.ecall, ({} : Obs)), (.read (.resp 1 5), {fins := [.call 1 (.ok 5)]})] ++ [(.rresp, {fins := [.call 1 .closed]})]) :=
  sound_c01Twice _ _ _ 1 (.ok 5) .closed (by decide)
example : ¬ P_c01Final ([(.ecall, ({} : Obs)), (.read (.resp 1 5), {fins := [.call 1 (.ok 5)]})] ++ [(.rresp, ({} : Obs))]) :=
  sound_c01Lost _ _ _ 1 (by decide)
example : ¬ P_c01Own ([(.ecall, ({} : Obs))] ++ [(.read (.resp 1 5), {fins := [.call 1 (.ok 6)]})]) :=
  sound_c01Foreign _ _ _ 1 6 (by decide)
example : ¬ P_c01Unparsable ([(.ecall, ({} : Obs))] ++ [(.c1 1, {fins := [.call 1 .okPlain]})]) :=
  sound_c01Unparsable _ _ _ 1 .okPlain (by decide)
example : ¬ P_c01Panic ([(.ecall, ({} : Obs))] ++ [(.c1 1, {fins := [.call 1 .panic]})]) :=
  sound_c01Panic _ _ _ 1 (by decide)
example : ¬ P_c01Blocked ([(.ecall, ({} : Obs))] ++ [(.read .eof, {done := true})]) :=
  sound_c01Blocked _ _ _ 1 (by decide)
example : ¬ P_c01Late ([(.read .eof, {done := true}), (.ecall, {done := true, parked := [.c1 1]})] ++
    [(.c1 1, {done := true, fins := [.call 1 .read]})]) :=
  sound_c01Late _ _ _ 1 .read (by decide)

example : ¬ P_c02Twice ([(.read (.call 7), ({} : Obs)), (.wret (.resp 0) .ok, ({} : Obs))] ++ [(.wret (.resp 0) .ok, ({} : Obs))]) :=
  sound_c02Twice _ _ _ 0 (by decide)
example : ¬ P_c02NotifAnswered ([(.read .notif, ({} : Obs))] ++ [(.w1 (.resp 0), ({} : Obs))]) :=
  sound_c02NotifAnswered _ _ _ 0 (by decide)
example : ¬ P_c02Answered [(.read (.call 7), ({} : Obs))] := sound_c02NoAttempt _ 0 (by decide)
example : ¬ P_c02Answered [(.read (.call 7), ({} : Obs)), (.a1 0, ({} : Obs)), (.read (.call 7), ({} : Obs)), (.a1 1, ({} : Obs)), (.w1 (.resp 0), ({} : Obs))] :=
  sound_c02Dropped _ 1 (by decide)

example : ¬ P_c03Order ([(.read .notif, ({} : Obs)), (.read .notif, {parked := [.h 0]})] ++ [(.d1, {parked := [.h 0, .h 1]})]) :=
  sound_c03BeforeSync _ _ _ 1 0 (by decide)
example : ¬ P_c03Order ([(.read .notif, ({} : Obs)), (.read .notif, {parked := [.h 1]})] ++ [(.d1, {parked := [.h 0, .h 1]})]) :=
  sound_c03LaterFirst _ _ _ 1 0 (by decide)

example : ¬ P_c04CtxStuck ([(.ecall, ({} : Obs))] ++ [(.ectx 1, ({} : Obs))]) := sound_c04CtxStuck _ _ _ 1 (by decide)
example : ¬ P_c04ReadCause ([(.read (.call 7), ({} : Obs))] ++ [(.d1, {x := [(0, .read)]})]) :=
  sound_c04ReadCause _ _ _ 0 (by decide)
example : ¬ P_c04Unrelated ([(.read (.call 7), ({} : Obs))] ++ [(.d1, {x := [(0, .other)]})]) :=
  sound_c04Unrelated _ _ _ 0 (by decide)
example : ¬ P_c04NotCancelled ([(.read (.call 7), ({} : Obs)), (.a1 0, {parked := [.a2 0]}),
    (.read (.cancel 7), {parked := [.a2 0]}), (.a1 1, {parked := [.a2 0]})] ++ [(.k1 7, {parked := [.a2 0]})]) :=
  sound_c04NotCancelled _ _ _ 7 0 (by decide)
/-- The F33 shape: the peer named request 8, the canceller invoked Cancel(7). -/
example : ¬ P_c04CancelOnlyAsked ([(.read (.call 7), ({} : Obs)), (.a1 0, ({} : Obs)), (.read (.cancel 8), ({} : Obs)),
    (.a1 1, ({} : Obs))] ++ [(.k1 7, ({} : Obs))]) :=
  sound_c04CancelUnasked _ _ _ 7 (by decide)
example : P_c04CancelOnlyAsked [(.read (.call 7), ({} : Obs)), (.a1 0, ({} : Obs)), (.read (.cancel 7), ({} : Obs)),
    (.a1 1, ({} : Obs)), (.k1 7, ({} : Obs))] := by
  intro k id hk he
  have hk : k < 5 := hk
  have : k = 4 ∧ id = 7 := by
    rcases (by omega : k = 0 ∨ k = 1 ∨ k = 2 ∨ k = 3 ∨ k = 4) with rfl | rfl | rfl | rfl | rfl <;> simp [evAt, evOf] at he
    exact ⟨rfl, he.symm⟩
  obtain ⟨rfl, rfl⟩ := this
  decide

end SoundExamples

end Conn
