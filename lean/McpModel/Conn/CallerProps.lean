import McpModel.Conn.CallerLive
import McpModel.Conn.Terminate
/-!
# C01 / C04 liveness theorems

* C01 "a call never stays blocked once the session has terminated; calls started after that fail
  immediately": `terminated_calls_unblocked`, `terminated_call_returns_within_3`, `late_call_fails_at_once`.
* C04 "cancelling … makes the call return promptly … even if the peer never answers and even if the
  cancellation notice itself cannot be delivered": `cancelled_call_unblocked`,
  `cancelled_call_returns_within_4`.
* In general: `caller_takes_at_most_5_steps`.

"Promptly" is made precise as: the caller needs at most `k` critical sections of its *own*, every one of
which is enabled as soon as the caller stands before it, in every state, whatever the other processes —
reader, dispatcher, handlers, other callers, the detached `notifications/cancelled` sender, the peer — do
or fail to do (`own_step_enabled`); the only thing it may have to wait for is the transport's `Write` of
its own request, which a transport that honours `Close` / the write's context returns from (environment
label `wret`, shown enabled). What remains trusted is scheduler fairness: an enabled critical section of
the caller eventually runs.
-/
namespace Conn

/-- Number of the caller's own critical sections in a label list. -/
def ownSteps (n : Nat) (ls : List Label) : Nat := (ls.filter (Label.ofCaller n)).length

theorem ownSteps_cons (n : Nat) (l : Label) (ls : List Label) :
    ownSteps n (l :: ls) = (if l.ofCaller n then 1 else 0) + ownSteps n ls := by
  unfold ownSteps
  by_cases h : l.ofCaller n = true <;> simp [h] <;> omega

/-- Own steps to go, in any state: C1, W1, W2, R, R. -/
def rankU : CallPc → Nat
  | .c1 => 5 | .w1 => 4 | .wr => 3 | .w2 _ => 3 | .r _ => 2 | .await => 1 | .rc => 1 | .fin => 0
/-- Own steps to go once the connection is shutting down: C1 refuses, the write gate W1 is closed. -/
def rankT : CallPc → Nat
  | .c1 => 2 | .w1 => 3 | .wr => 3 | .w2 _ => 3 | .r _ => 2 | .await => 1 | .rc => 1 | .fin => 0
/-- Own steps to go once the caller's context is done: the transport write can only fail. -/
def rankC : CallPc → Nat
  | .c1 => 4 | .w1 => 3 | .wr => 2 | .w2 _ => 3 | .r _ => 2 | .await => 1 | .rc => 1 | .fin => 0

theorem rankU_le (p : CallPc) : rankU p ≤ 5 := by cases p <;> simp [rankU]
theorem rankT_le (p : CallPc) : rankT p ≤ 3 := by cases p <;> simp [rankT]
theorem rankC_le (p : CallPc) : rankC p ≤ 4 := by cases p <;> simp [rankC]
theorem rankT_zero {p : CallPc} : rankT p = 0 ↔ p = .fin := by cases p <;> simp [rankT]
theorem rankC_zero {p : CallPc} : rankC p = 0 ↔ p = .fin := by cases p <;> simp [rankC]

theorem cstep_rankU {sd ctx own : Bool} {p p' : CallPc} (h : CStep sd ctx own p p') :
    (if own then 1 else 0) + rankU p' ≤ rankU p := by
  cases h <;> simp [rankU]

theorem cstep_rankT {ctx own : Bool} {p p' : CallPc} (h : CStep true ctx own p p') :
    (if own then 1 else 0) + rankT p' ≤ rankT p := by
  cases h <;> simp_all [rankT]

theorem cstep_rankC {sd own : Bool} {p p' : CallPc} (h : CStep sd true own p p') :
    (if own then 1 else 0) + rankC p' ≤ rankC p := by
  cases h <;> simp_all [rankC]

/-- **caller_takes_at_most_5_steps.** In any run from any state, whatever else happens, the caller of call
`n` executes at most `rankU pc ≤ 5` critical sections of its own (C1, W1, W2, R, R) — there is no loop in
`mcp.call`/`Connection.Call`. -/
theorem caller_takes_at_most_5_steps (ls : List Label) : ∀ (s s' : St) (n : Nat) (c : Call), run s ls = some s' →
    getCall s n = some c → ∃ c', getCall s' n = some c' ∧ ownSteps n ls + rankU c'.pc ≤ rankU c.pc := by
  induction ls with
  | nil => intro s s' n c h hc; simp [run] at h; subst h; exact ⟨c, hc, by simp [ownSteps]⟩
  | cons l ls ih =>
    intro s s' n c h hc
    simp only [run] at h
    cases hs : step s l with
    | none => simp [hs] at h
    | some s1 =>
      simp only [hs] at h
      obtain ⟨c1, hc1, _, hcs⟩ := caller_step hs hc
      obtain ⟨c', hc', hb⟩ := ih s1 s' n c1 h hc1
      have := cstep_rankU hcs
      exact ⟨c', hc', by rw [ownSteps_cons]; omega⟩

/-! ## C01 — nothing stays blocked after termination -/

/-- **terminated_calls_unblocked.** In every reachable state in which the session has terminated (`done`
closed: `Wait` may return) every caller either has returned, or stands before one of its own critical
sections, which is enabled (and stays so: nobody else touches the caller's program counter,
`caller_step`) — or it is inside the transport's `Write` of its own request on a transport that has
already been closed, and that `Write` can return (the environment's `wret` is enabled; a transport that
honours `Close` must). No caller is blocked in `Await`, and none waits for any other process of the
connection. -/
theorem terminated_calls_unblocked (ls : List Label) (s : St) (h : run {} ls = some s) (hd : s.done = true) :
    ∀ n c, getCall s n = some c →
      c.pc = .fin ∨
      (∃ l, ownLabel n c.pc = some l ∧ l.ofCaller n = true ∧ (step0 s l).isSome = true) ∨
      (c.pc = .wr ∧ s.closerUsed = true ∧ (step0 s (.wret (.call n) .rejected)).isSome = true) := by
  intro n c hc
  have hna := (done_implies_all_completed ls s h hd n c hc).2
  cases ho : ownLabel n c.pc with
  | some l => exact Or.inr (Or.inl ⟨l, rfl, ownLabel_ofCaller ho, own_step_enabled s n c hc l ho⟩)
  | none =>
    cases hp : c.pc <;> simp [hp, ownLabel] at ho
    · refine Or.inr (Or.inr ⟨rfl, (done_implies_quiescent ls s h hd).2.2.2.2.2.2.2, ?_⟩)
      simp [step0, hc, hp]
    · exact absurd hp hna
    · exact Or.inl rfl

/-- The shutting-down flag and the existence of call `n` along a run, with the rank bound. -/
theorem rankT_run (ls : List Label) : ∀ (s s' : St) (n : Nat) (c : Call), s.shuttingDown = true → run s ls = some s' →
    getCall s n = some c → ∃ c', getCall s' n = some c' ∧ ownSteps n ls + rankT c'.pc ≤ rankT c.pc := by
  induction ls with
  | nil => intro s s' n c _ h hc; simp [run] at h; subst h; exact ⟨c, hc, by simp [ownSteps]⟩
  | cons l ls ih =>
    intro s s' n c hsd h hc
    simp only [run] at h
    cases hs : step s l with
    | none => simp [hs] at h
    | some s1 =>
      simp only [hs] at h
      obtain ⟨c1, hc1, _, hcs⟩ := caller_step hs hc
      rw [hsd] at hcs
      obtain ⟨c', hc', hb⟩ := ih s1 s' n c1 (shuttingDown_mono_step hs hsd) h hc1
      have := cstep_rankT hcs
      exact ⟨c', hc', by rw [ownSteps_cons]; omega⟩

/-- **terminated_call_returns_within_3.** From a reachable state in which the session has terminated, along
any continuation `ls` whatsoever (any interleaving with other callers, late peer messages, users starting
new calls, …), a caller executes at most 3 critical sections of its own before it has returned: the
number of own steps taken plus the number still to go never exceeds `rankT pc ≤ 3`; and when 3 (or
`rankT pc`) own steps have been taken the caller has returned. -/
theorem terminated_call_returns_within_3 (pre ls : List Label) (s s' : St) (h0 : run {} pre = some s) (hd : s.done = true)
    (h : run s ls = some s') (n : Nat) (c : Call) (hc : getCall s n = some c) :
    ∃ c', getCall s' n = some c' ∧ ownSteps n ls + rankT c'.pc ≤ rankT c.pc ∧ rankT c.pc ≤ 3 ∧
      (rankT c.pc ≤ ownSteps n ls → c'.pc = .fin) := by
  obtain ⟨c', hc', hb⟩ := rankT_run ls s s' n c (done_is_shutting_down pre s h0 hd) h hc
  exact ⟨c', hc', hb, rankT_le _, fun hge => rankT_zero.mp (by omega)⟩

/-- **late_call_fails_at_once.** A call whose registration point is reached after the session has
terminated (in particular every call started after that) with a live context completes in that one
critical section — its first and only own step, always enabled — with the closed-connection error. -/
theorem late_call_fails_at_once (ls : List Label) (s : St) (h : run {} ls = some s) (hd : s.done = true)
    (n : Nat) (c : Call) (hc : getCall s n = some c) (hpc : c.pc = .c1) (hctx : c.ctxDone = false) :
    ∃ s' c', step s (.c1 n) = some s' ∧ getCall s' n = some c' ∧ c'.pc = .fin ∧
      c'.result = some (.err .clientClosing) ∧ c'.registered = false ∧ s'.outCalls = [] := by
  have he := own_step_enabled s n c hc (.c1 n) (by simp [hpc, ownLabel])
  cases hs0 : step0 s (.c1 n) with
  | none => simp [hs0] at he
  | some s0 =>
    have hst : step s (.c1 n) = some (settle s0) := by simp [step, hs0]
    obtain ⟨c', h1, h2, h3, h4, h5⟩ := refused_when_shutting_down ls s _ h n c hc hctx (done_is_shutting_down ls s h hd) hst
    exact ⟨_, c', hst, h1, h2, h3, h4, by rw [h5]; exact (done_implies_quiescent ls s h hd).1⟩

/-! ## C04 — a cancelled caller returns promptly -/

/-- **cancelled_call_unblocked.** In every reachable state, a caller whose context is done either has
returned, or stands before one of its own critical sections, which is enabled whatever the peer, the
transport, the reader, the detached `notifications/cancelled` sender or anybody else does — or it is
inside the transport's `Write` of its own request, whose context is done, so that the `Write` can return
with the context's error (the environment's `wret … ctx` is enabled). It is never blocked in `Await`. -/
theorem cancelled_call_unblocked (ls : List Label) (s : St) (h : run {} ls = some s) (n : Nat) (c : Call)
    (hc : getCall s n = some c) (hctx : c.ctxDone = true) :
    c.pc = .fin ∨
    (∃ l, ownLabel n c.pc = some l ∧ l.ofCaller n = true ∧ (step0 s l).isSome = true) ∨
    (c.pc = .wr ∧ (step0 s (.wret (.call n) .ctx)).isSome = true) := by
  cases ho : ownLabel n c.pc with
  | some l => exact Or.inr (Or.inl ⟨l, rfl, ownLabel_ofCaller ho, own_step_enabled s n c hc l ho⟩)
  | none =>
    cases hp : c.pc <;> simp [hp, ownLabel] at ho
    · exact Or.inr (Or.inr ⟨rfl, by simp [step0, hc, hp, hctx]⟩)
    · have := (await_inv ls s h n c hc hp).2; rw [hctx] at this; cases this
    · exact Or.inl rfl

theorem rankC_run (ls : List Label) : ∀ (s s' : St) (n : Nat) (c : Call), c.ctxDone = true → run s ls = some s' →
    getCall s n = some c → ∃ c', getCall s' n = some c' ∧ c'.ctxDone = true ∧ ownSteps n ls + rankC c'.pc ≤ rankC c.pc := by
  induction ls with
  | nil => intro s s' n c hx h hc; simp [run] at h; subst h; exact ⟨c, hc, hx, by simp [ownSteps]⟩
  | cons l ls ih =>
    intro s s' n c hx h hc
    simp only [run] at h
    cases hs : step s l with
    | none => simp [hs] at h
    | some s1 =>
      simp only [hs] at h
      obtain ⟨c1, hc1, hx1, hcs⟩ := caller_step_ctx_mono hs hc hx
      obtain ⟨c', hc', hx', hb⟩ := ih s1 s' n c1 hx1 h hc1
      have := cstep_rankC hcs
      exact ⟨c', hc', hx', by rw [ownSteps_cons]; omega⟩

/-- **cancelled_call_returns_within_4.** From any state (reachable or not) in which the context of call `n` is done,
along any continuation `ls` whatsoever — the peer never answers, the cancellation notice is stuck in a
stalled transport or refused, other calls come and go, Close is called or not — the caller executes at
most 4 critical sections of its own (C1, W1, R, R at the very most) before it has returned: own steps
taken plus own steps to go never exceed `rankC pc ≤ 4`, and once `rankC pc` own steps are taken it has
returned (with the context's error or the outcome that raced it, `completed_has_outcome`). By
`cancelled_call_unblocked` none of these steps waits for anybody. -/
theorem cancelled_call_returns_within_4 (ls : List Label) (s s' : St) (h : run s ls = some s') (n : Nat) (c : Call) (hc : getCall s n = some c) (hctx : c.ctxDone = true) :
    ∃ c', getCall s' n = some c' ∧ c'.ctxDone = true ∧ ownSteps n ls + rankC c'.pc ≤ rankC c.pc ∧ rankC c.pc ≤ 4 ∧
      (rankC c.pc ≤ ownSteps n ls → c'.pc = .fin) := by
  obtain ⟨c', hc', hx', hb⟩ := rankC_run ls s s' n c hctx h hc
  exact ⟨c', hc', hx', hb, rankC_le _, fun hge => rankC_zero.mp (by omega)⟩

/-! ### non-vacuity and tightness -/

/-- The bound 3 of `terminated_call_returns_within_3` is attained: a call registered and standing before
its write gate when the reader fails and the session terminates needs W1 (refused), R, and — its context
having been cancelled meanwhile — the eager R. -/
example : ∃ s s', run {} [.start, .ecall, .c1 1, .read .eof, .rx] = some s ∧ s.done = true ∧
    (∃ c, getCall s 1 = some c ∧ c.pc = .w1 ∧ rankT c.pc = 3) ∧
    run s [.ectx 1, .w1 (.call 1), .retire 1, .retire 1] = some s' ∧
    ownSteps 1 [.ectx 1, .w1 (.call 1), .retire 1, .retire 1] = 3 ∧
    (∃ c', getCall s' 1 = some c' ∧ c'.pc = .fin ∧ c'.result = some (.err .ctx)) :=
  ⟨_, _, rfl, rfl, ⟨_, rfl, rfl, rfl⟩, rfl, rfl, ⟨_, rfl, rfl, rfl⟩⟩

/-- A caller inside the transport's `Write` when the session terminates (third alternative of
`terminated_calls_unblocked`): reachable. -/
example : ∃ s, run {} [.start, .ecall, .c1 1, .w1 (.call 1), .read .eof, .rx] = some s ∧ s.done = true ∧
    (∃ c, getCall s 1 = some c ∧ c.pc = .wr ∧ c.ready = some (.err .read)) ∧ s.closerUsed = true :=
  ⟨_, rfl, rfl, ⟨_, rfl, rfl, rfl⟩, rfl⟩

/-- The bound 4 of `cancelled_call_returns_within_4` is attained: context cancelled before the call was
even registered, on a healthy connection with a silent peer. -/
example : ∃ s s', run {} [.start, .ecall, .ectx 1] = some s ∧ s.shuttingDown = false ∧
    (∃ c, getCall s 1 = some c ∧ c.ctxDone = true ∧ rankC c.pc = 4) ∧
    run s [.c1 1, .w1 (.call 1), .wret (.call 1) .ctx, .retire 1, .retire 1] = some s' ∧
    ownSteps 1 [.c1 1, .w1 (.call 1), .wret (.call 1) .ctx, .retire 1, .retire 1] = 4 ∧
    (∃ c', getCall s' 1 = some c' ∧ c'.pc = .fin ∧ c'.result = some (.err .ctx)) ∧ s'.shuttingDown = false :=
  ⟨_, _, rfl, rfl, ⟨_, rfl, rfl, rfl⟩, rfl, rfl, ⟨_, rfl, rfl, rfl⟩, rfl⟩

/-- Cancelling while the peer never answers: the caller is parked before its eager retire, takes it, and
has returned; the detached cancellation notice (`cnotifs`) has not even started. -/
example : ∃ s s', run {} [.start, .ecall, .c1 1, .w1 (.call 1), .wret (.call 1) .ok, .ectx 1] = some s ∧
    (∃ c, getCall s 1 = some c ∧ c.pc = .rc) ∧ run s [.retire 1] = some s' ∧
    (∃ c', getCall s' 1 = some c' ∧ c'.pc = .fin ∧ c'.result = some (.err .ctx)) ∧
    (∃ nf, s'.cnotifs[0]? = some nf ∧ nf.pc = .n1) ∧ s'.outCalls = [] :=
  ⟨_, _, rfl, ⟨_, rfl, rfl⟩, rfl, ⟨_, rfl, rfl, rfl⟩, ⟨_, rfl, rfl⟩, rfl⟩

end Conn
