import McpModel.Conn.FlagInv
/-! Invariants of the dispatcher (C03): FIFO start order, a synchronous handler finishes before the next starts. -/
namespace Conn

/-- What the dispatcher invariants see of a request's meta data. -/
structure MCore where
  started : Option Nat
  released : Bool
  asyncCalled : Bool
deriving DecidableEq

def ReqMeta.mcore (m : ReqMeta) : MCore := { started := m.started, released := m.released, asyncCalled := m.asyncCalled }

structure DView where
  cores : List ReqCore
  ms : List MCore
  disp : DispPc
  handlerRunning : Bool
  queue : List Nat
  clock : Nat

def dview (s : St) : DView :=
  { cores := s.cores, ms := s.metas.map ReqMeta.mcore, disp := s.disp, handlerRunning := s.handlerRunning,
    queue := s.queue, clock := s.clock }

structure DInv (v : DView) : Prop where
  lens : v.ms.length = v.cores.length
  /-- the dispatcher goroutine exists iff `handlerRunning` -/
  hr : v.handlerRunning = (v.disp != .none)
  /-- processResult on the dispatcher goroutine: the dispatcher is busy with exactly that request -/
  dsp : ∀ (r : Nat) (k : ReqCore), v.cores[r]? = some k → k.owner = .dispatcher → k.pc.inPR = true → v.disp = .busy r
  /-- a started handler that has not released the dispatcher is the one the dispatcher waits for -/
  unrel : ∀ (r : Nat) (m : MCore), v.ms[r]? = some m → m.started.isSome = true → m.released = false → v.disp = .waiting r
  /-- released means: declared asynchronous, or its processResult has completely finished -/
  rel : ∀ (r : Nat) (m : MCore) (k : ReqCore), v.ms[r]? = some m → v.cores[r]? = some k → m.released = true →
    m.asyncCalled = true ∨ k.pc = .fin
  /-- the handler queue is in arrival order -/
  sorted : v.queue.Pairwise (· < ·)
  /-- everything still queued arrived after everything already started -/
  above : ∀ i ∈ v.queue, ∀ (j : Nat) (m : MCore), v.ms[j]? = some m → m.started.isSome = true → j < i
  /-- start stamps follow arrival order (dispatch_fifo) -/
  fifo : ∀ (i j : Nat) (mi mj : MCore) (ti tj : Nat), i < j → v.ms[i]? = some mi → v.ms[j]? = some mj →
    mi.started = some ti → mj.started = some tj → ti < tj
  /-- a handler started earlier has released the dispatcher before a later one starts -/
  prev : ∀ (i j : Nat) (mi mj : MCore) (ti tj : Nat), v.ms[i]? = some mi → v.ms[j]? = some mj →
    mi.started = some ti → mj.started = some tj → ti < tj → mi.released = true
  stamps : ∀ (r : Nat) (m : MCore) (t : Nat), v.ms[r]? = some m → m.started = some t → t ≤ v.clock
  /-- requests not yet dispatched have no start stamp and have not released anything -/
  fresh : ∀ (r : Nat) (k : ReqCore) (m : MCore), v.cores[r]? = some k → v.ms[r]? = some m →
    (k.pc = .a1 ∨ k.pc = .a2 ∨ k.pc = .queued) → m.started = none ∧ m.released = false

/-! ### view-level operations -/

/-- A core update that neither makes a request dispatcher-owned-in-processResult, nor (re)creates a
not-yet-dispatched pc, nor leaves `fin`. -/
theorem DInv.core {v : DView} (i : DInv v) (r : Nat) (g : ReqCore → ReqCore)
    (hd : ∀ k, v.cores[r]? = some k → (g k).owner = .dispatcher → (g k).pc.inPR = true → k.owner = .dispatcher ∧ k.pc.inPR = true)
    (hf : ∀ k, v.cores[r]? = some k → ((g k).pc = .a1 ∨ (g k).pc = .a2 ∨ (g k).pc = .queued) → (k.pc = .a1 ∨ k.pc = .a2 ∨ k.pc = .queued))
    (hfin : ∀ k, v.cores[r]? = some k → k.pc = .fin → (g k).pc = .fin) :
    DInv { v with cores := v.cores.modify r g } := by
  have get : ∀ j k', (v.cores.modify r g)[j]? = some k' → ∃ k, v.cores[j]? = some k ∧ k' = (if r = j then g k else k) := by
    intro j k' h
    rw [List.getElem?_modify] at h
    cases hj : v.cores[j]? with
    | none => simp [hj] at h
    | some k => simp [hj] at h; exact ⟨k, rfl, h.symm⟩
  refine ⟨by simpa using i.lens, i.hr, ?_, i.unrel, ?_, i.sorted, i.above, i.fifo, i.prev, i.stamps, ?_⟩
  · intro j k' hk' ho hp
    obtain ⟨k, hk, rfl⟩ := get j k' hk'
    by_cases hrj : r = j
    · subst hrj; simp only [if_true] at ho hp
      obtain ⟨a, b⟩ := hd k hk ho hp
      exact i.dsp r k hk a b
    · simp only [hrj, if_false] at ho hp; exact i.dsp j k hk ho hp
  · intro j m k' hm hk' hrel
    obtain ⟨k, hk, rfl⟩ := get j k' hk'
    rcases i.rel j m k hm hk hrel with h | h
    · exact Or.inl h
    · right
      by_cases hrj : r = j
      · subst hrj; simp only [if_true]; exact hfin k hk h
      · simp only [hrj, if_false]; exact h
  · intro j k' m hk' hm hp
    obtain ⟨k, hk, rfl⟩ := get j k' hk'
    by_cases hrj : r = j
    · subst hrj; simp only [if_true] at hp
      exact i.fresh r k m hk hm (hf k hk hp)
    · simp only [hrj, if_false] at hp; exact i.fresh j k m hk hm hp

theorem DInv.clock {v : DView} (i : DInv v) (c : Nat) (h : v.clock ≤ c) : DInv { v with clock := c } :=
  ⟨i.lens, i.hr, i.dsp, i.unrel, i.rel, i.sorted, i.above, i.fifo, i.prev,
    fun r m t hm ht => Nat.le_trans (i.stamps r m t hm ht) h, i.fresh⟩

/-- A new request arrives. -/
theorem DInv.append {v : DView} (i : DInv v) (k : ReqCore) (hk : k.pc = .a1 ∧ k.owner = .reader)
    (hq : ∀ j ∈ v.queue, j < v.cores.length) :
    DInv { v with cores := v.cores ++ [k], ms := v.ms ++ [⟨none, false, false⟩] } := by
  have hl := i.lens
  have getm : ∀ j m, (v.ms ++ [(⟨none, false, false⟩ : MCore)])[j]? = some m →
      v.ms[j]? = some m ∨ (j = v.ms.length ∧ m = ⟨none, false, false⟩) := by
    intro j m h
    rw [List.getElem?_append] at h
    by_cases hlt : j < v.ms.length
    · simp only [hlt, if_true] at h; exact Or.inl h
    · simp only [hlt, if_false] at h
      have h0 : j - v.ms.length = 0 := by
        by_cases h0 : j - v.ms.length = 0
        · exact h0
        · have : ([(⟨none, false, false⟩ : MCore)])[j - v.ms.length]? = none := by apply List.getElem?_eq_none; simp; omega
          rw [this] at h; cases h
      rw [h0] at h; simp at h
      exact Or.inr ⟨by omega, h.symm⟩
  have getc : ∀ j k', (v.cores ++ [k])[j]? = some k' → v.cores[j]? = some k' ∨ (j = v.cores.length ∧ k' = k) := by
    intro j k' h
    rw [List.getElem?_append] at h
    by_cases hlt : j < v.cores.length
    · simp only [hlt, if_true] at h; exact Or.inl h
    · simp only [hlt, if_false] at h
      have h0 : j - v.cores.length = 0 := by
        by_cases h0 : j - v.cores.length = 0
        · exact h0
        · have : ([k])[j - v.cores.length]? = none := by apply List.getElem?_eq_none; simp; omega
          rw [this] at h; cases h
      rw [h0] at h; simp at h
      exact Or.inr ⟨by omega, h.symm⟩
  refine ⟨by simp [hl], i.hr, ?_, ?_, ?_, i.sorted, ?_, ?_, ?_, ?_, ?_⟩
  · intro j k' hk' ho hp
    rcases getc j k' hk' with h | ⟨_, rfl⟩
    · exact i.dsp j k' h ho hp
    · simp [hk.1, ReqPc.inPR] at hp
  · intro j m hm hs hr
    rcases getm j m hm with h | ⟨_, rfl⟩
    · exact i.unrel j m h hs hr
    · simp at hs
  · intro j m k' hm hk' hrel
    rcases getm j m hm with h | ⟨_, rfl⟩
    · rcases getc j k' hk' with h' | ⟨hj, _⟩
      · exact i.rel j m k' h h' hrel
      · have := (List.getElem?_eq_some_iff.mp h).1; omega
    · simp at hrel
  · intro a ha j m hm hs
    rcases getm j m hm with h | ⟨_, rfl⟩
    · exact i.above a ha j m h hs
    · simp at hs
  · intro a b ma mb ta tb hab hma hmb hta htb
    rcases getm a ma hma with h | ⟨_, rfl⟩
    · rcases getm b mb hmb with h' | ⟨_, rfl⟩
      · exact i.fifo a b ma mb ta tb hab h h' hta htb
      · simp at htb
    · simp at hta
  · intro a b ma mb ta tb hma hmb hta htb hlt
    rcases getm a ma hma with h | ⟨_, rfl⟩
    · rcases getm b mb hmb with h' | ⟨_, rfl⟩
      · exact i.prev a b ma mb ta tb h h' hta htb hlt
      · simp at htb
    · simp at hta
  · intro r m t hm ht
    rcases getm r m hm with h | ⟨_, rfl⟩
    · exact i.stamps r m t h ht
    · simp at ht
  · intro r k' m hk' hm hp
    rcases getm r m hm with h | ⟨_, rfl⟩
    · rcases getc r k' hk' with h' | ⟨hj, _⟩
      · exact i.fresh r k' m h' h hp
      · have := (List.getElem?_eq_some_iff.mp h).1; omega
    · exact ⟨rfl, rfl⟩

end Conn

namespace Conn

theorem ms_modify_get {l : List MCore} {r j : Nat} {f : MCore → MCore} {m' : MCore}
    (h : (l.modify r f)[j]? = some m') : ∃ m, l[j]? = some m ∧ m' = (if r = j then f m else m) := by
  rw [List.getElem?_modify] at h
  cases hj : l[j]? with
  | none => simp [hj] at h
  | some m => simp [hj] at h; exact ⟨m, rfl, h.symm⟩

/-- `Async` is called by the running handler of `r`: the dispatcher is released. -/
theorem DInv.async {v : DView} (i : DInv v) (r : Nat) (hrun : ∀ k, v.cores[r]? = some k → k.pc = .running) :
    DInv { v with ms := v.ms.modify r (fun m => { m with asyncCalled := true, released := true }) } := by
  refine ⟨by simpa using i.lens, i.hr, i.dsp, ?_, ?_, i.sorted, ?_, ?_, ?_, ?_, ?_⟩
  · intro j m' hm' hs hr
    obtain ⟨m, hm, rfl⟩ := ms_modify_get hm'
    by_cases hrj : r = j
    · subst hrj; simp at hr
    · simp only [hrj, if_false] at hs hr; exact i.unrel j m hm hs hr
  · intro j m' k hm' hk hrel
    obtain ⟨m, hm, rfl⟩ := ms_modify_get hm'
    by_cases hrj : r = j
    · subst hrj; simp
    · simp only [hrj, if_false] at hrel ⊢; exact i.rel j m k hm hk hrel
  · intro a ha j m' hm' hs
    obtain ⟨m, hm, rfl⟩ := ms_modify_get hm'
    exact i.above a ha j m hm (by split at hs <;> simpa using hs)
  · intro a b ma' mb' ta tb hab hma' hmb' hta htb
    obtain ⟨ma, hma, rfl⟩ := ms_modify_get hma'
    obtain ⟨mb, hmb, rfl⟩ := ms_modify_get hmb'
    exact i.fifo a b ma mb ta tb hab hma hmb (by split at hta <;> simpa using hta) (by split at htb <;> simpa using htb)
  · intro a b ma' mb' ta tb hma' hmb' hta htb hlt
    obtain ⟨ma, hma, rfl⟩ := ms_modify_get hma'
    obtain ⟨mb, hmb, rfl⟩ := ms_modify_get hmb'
    have := i.prev a b ma mb ta tb hma hmb (by split at hta <;> simpa using hta) (by split at htb <;> simpa using htb) hlt
    split <;> simp [this]
  · intro j m' t hm' ht
    obtain ⟨m, hm, rfl⟩ := ms_modify_get hm'
    exact i.stamps j m t hm (by split at ht <;> simpa using ht)
  · intro j k m' hk hm' hp
    obtain ⟨m, hm, rfl⟩ := ms_modify_get hm'
    have := i.fresh j k m hk hm hp
    by_cases hrj : r = j
    · subst hrj
      have := hrun k hk
      rcases hp with h | h | h <;> simp [this] at h
    · simp only [hrj, if_false]; exact this

end Conn

namespace Conn

/-- A2 enqueues the reader's request `r` (the newest one) and starts the dispatcher if there is none. -/
theorem DInv.enqueue {v : DView} (i : DInv v) (r : Nat) (k : ReqCore) (hk : v.cores[r]? = some k) (hpc : k.pc = .a2)
    (hlast : r + 1 = v.cores.length) (hq : ∀ j ∈ v.queue, j < v.cores.length) (hnq : r ∉ v.queue)
    (d : DispPc) (hrn : Bool)
    (hd : (v.handlerRunning = true ∧ d = v.disp ∧ hrn = true) ∨ (v.handlerRunning = false ∧ d = .d1 ∧ hrn = true)) :
    DInv { v with cores := v.cores.modify r (fun k => { k with pc := .queued }), queue := v.queue ++ [r],
                  disp := d, handlerRunning := hrn } := by
  have i1 : DInv { v with cores := v.cores.modify r (fun k => { k with pc := .queued }) } :=
    i.core r _ (fun k' hk' ho hp => by simp [ReqPc.inPR] at hp) (fun k' hk' _ => by rw [hk] at hk'; cases hk'; exact Or.inr (Or.inl hpc))
      (fun k' hk' hf => by rw [hk] at hk'; cases hk'; simp [hpc] at hf)
  have hdisp : v.handlerRunning = false → v.disp = .none := by
    intro h; have := i.hr; rw [h] at this
    cases hdd : v.disp <;> simp [hdd] at this ⊢
  obtain ⟨m, hm⟩ : ∃ m, v.ms[r]? = some m := by
    have : r < v.ms.length := by rw [i.lens]; omega
    exact ⟨_, List.getElem?_eq_getElem this⟩
  have hfr := i.fresh r k m hk hm (Or.inr (Or.inl hpc))
  refine ⟨i1.lens, ?_, ?_, ?_, i1.rel, ?_, ?_, i1.fifo, i1.prev, i1.stamps, i1.fresh⟩
  · rcases hd with ⟨h1, rfl, rfl⟩ | ⟨h1, rfl, rfl⟩
    · simpa [h1] using i.hr
    · simp
  · intro j k' hk' ho hp
    have := i1.dsp j k' hk' ho hp
    rcases hd with ⟨h1, rfl, _⟩ | ⟨h1, rfl, _⟩
    · exact this
    · simp only at this; rw [hdisp h1] at this; cases this
  · intro j m' hm' hs hr
    have := i1.unrel j m' hm' hs hr
    rcases hd with ⟨h1, rfl, _⟩ | ⟨h1, rfl, _⟩
    · exact this
    · simp only at this; rw [hdisp h1] at this; cases this
  · show (v.queue ++ [r]).Pairwise (· < ·)
    rw [List.pairwise_append]
    refine ⟨i.sorted, by simp, ?_⟩
    intro a ha b hb
    simp at hb; subst hb
    have := hq a ha
    have : a ≠ b := fun h => hnq (h ▸ ha)
    omega
  · intro a ha j m' hm' hs
    simp only [List.mem_append, List.mem_singleton] at ha
    rcases ha with ha | rfl
    · exact i.above a ha j m' hm' hs
    · have hj : j < v.ms.length := (List.getElem?_eq_some_iff.mp hm').1
      rw [i.lens] at hj
      have : j ≠ a := by
        intro h; subst h
        rw [hm] at hm'; cases hm'
        simp [hfr.1] at hs
      omega

end Conn

namespace Conn

theorem DInv.d1empty {v : DView} (i : DInv v) (hd : v.disp = .d1) (hq : v.queue = []) :
    DInv { v with handlerRunning := false, disp := .none } := by
  refine ⟨i.lens, rfl, ?_, ?_, i.rel, i.sorted, i.above, i.fifo, i.prev, i.stamps, i.fresh⟩
  · intro r k hk ho hp; have := i.dsp r k hk ho hp; rw [hd] at this; cases this
  · intro r m hm hs hr; have := i.unrel r m hm hs hr; rw [hd] at this; cases this

/-- Facts about the head of the queue when the dispatcher is at D1. -/
theorem DInv.head {v : DView} (i : DInv v) (h : Nat) (rest : List Nat) (hq : v.queue = h :: rest) :
    (∀ a ∈ rest, h < a) ∧ rest.Pairwise (· < ·) ∧ (∀ (j : Nat) (m : MCore), v.ms[j]? = some m → m.started.isSome = true → j < h) := by
  have hs := i.sorted; rw [hq] at hs
  have := List.pairwise_cons.mp hs
  exact ⟨this.1, this.2, fun j m hm hst => i.above h (by simp [hq]) j m hm hst⟩

/-- D1 finds the head already cancelled: processResult on the dispatcher goroutine. -/
theorem DInv.d1cancel {v : DView} (i : DInv v) (hd : v.disp = .d1) (h : Nat) (rest : List Nat) (hq : v.queue = h :: rest)
    (k : ReqCore) (hk : v.cores[h]? = some k) (hpc : k.pc = .queued) :
    DInv { v with queue := rest, disp := .busy h,
                  cores := v.cores.modify h (fun k => { k with owner := .dispatcher, pc := if k.isCall then .p1 else .p2 }) } := by
  obtain ⟨h1, h2, h3⟩ := i.head h rest hq
  have hr := i.hr; rw [hd] at hr
  have hrn : v.handlerRunning = true := by rw [hr]; rfl
  refine ⟨by simpa using i.lens, by simp [hrn], ?_, ?_, ?_, h2, ?_, i.fifo, i.prev, i.stamps, ?_⟩
  · intro j k' hk' ho hp
    rw [List.getElem?_modify] at hk'
    by_cases hj : h = j
    · subst hj; rfl
    · simp only [hj, if_false] at hk'
      cases hc : v.cores[j]? with
      | none => simp [hc] at hk'
      | some k0 =>
        simp [hc] at hk'; subst hk'
        have := i.dsp j k0 hc ho hp; rw [hd] at this; cases this
  · intro r m hm hs hrr; have := i.unrel r m hm hs hrr; rw [hd] at this; cases this
  · intro j m k' hm hk' hrel
    rw [List.getElem?_modify] at hk'
    cases hc : v.cores[j]? with
    | none => simp [hc] at hk'
    | some k0 =>
      simp [hc] at hk'; subst hk'
      by_cases hj : h = j
      · subst hj
        rw [hk] at hc; cases hc
        have := (i.fresh h k m hk hm (Or.inr (Or.inr hpc))).2
        simp [this] at hrel
      · simp only [hj, if_false]; exact i.rel j m k0 hm hc hrel
  · intro a ha j m hm hs; exact i.above a (by simp [hq, ha]) j m hm hs
  · intro j k' m hk' hm hp
    rw [List.getElem?_modify] at hk'
    cases hc : v.cores[j]? with
    | none => simp [hc] at hk'
    | some k0 =>
      simp [hc] at hk'; subst hk'
      by_cases hj : h = j
      · subst hj; simp at hp; split at hp <;> simp at hp
      · simp only [hj, if_false] at hp; exact i.fresh j k0 m hc hm hp

/-- D1 starts the handler of the head of the queue. -/
theorem DInv.d1start {v : DView} (i : DInv v) (hd : v.disp = .d1) (h : Nat) (rest : List Nat) (hq : v.queue = h :: rest)
    (k : ReqCore) (hk : v.cores[h]? = some k) (hpc : k.pc = .queued) :
    DInv { v with queue := rest, disp := .waiting h, clock := v.clock + 1,
                  cores := v.cores.modify h (fun k => { k with pc := .running, owner := .handler }),
                  ms := v.ms.modify h (fun m => { m with started := some (v.clock + 1) }) } := by
  obtain ⟨h1, h2, h3⟩ := i.head h rest hq
  have hr := i.hr; rw [hd] at hr
  have hallrel : ∀ (j : Nat) (m : MCore), v.ms[j]? = some m → m.started.isSome = true → m.released = true := by
    intro j m hm hs
    cases hrl : m.released with
    | true => rfl
    | false => have := i.unrel j m hm hs hrl; rw [hd] at this; cases this
  obtain ⟨mh, hmh⟩ : ∃ m, v.ms[h]? = some m := by
    have : h < v.ms.length := by rw [i.lens]; exact (List.getElem?_eq_some_iff.mp hk).1
    exact ⟨_, List.getElem?_eq_getElem this⟩
  have hfr := i.fresh h k mh hk hmh (Or.inr (Or.inr hpc))
  have hrn : v.handlerRunning = true := by rw [hr]; rfl
  refine ⟨by simpa using i.lens, by simp [hrn], ?_, ?_, ?_, h2, ?_, ?_, ?_, ?_, ?_⟩
  · intro j k' hk' ho hp
    rw [List.getElem?_modify] at hk'
    cases hc : v.cores[j]? with
    | none => simp [hc] at hk'
    | some k0 =>
      simp [hc] at hk'; subst hk'
      by_cases hj : h = j
      · subst hj; simp at ho
      · simp only [hj, if_false] at ho hp; have := i.dsp j k0 hc ho hp; rw [hd] at this; cases this
  · intro j m' hm' hs hrl
    obtain ⟨m, hm, rfl⟩ := ms_modify_get hm'
    by_cases hj : h = j
    · subst hj; rfl
    · simp only [hj, if_false] at hs hrl
      have := hallrel j m hm hs; simp [this] at hrl
  · intro j m' k' hm' hk' hrel
    obtain ⟨m, hm, rfl⟩ := ms_modify_get hm'
    rw [List.getElem?_modify] at hk'
    cases hc : v.cores[j]? with
    | none => simp [hc] at hk'
    | some k0 =>
      simp [hc] at hk'; subst hk'
      by_cases hj : h = j
      · subst hj
        rw [hmh] at hm; cases hm
        simp [hfr.2] at hrel
      · simp only [hj, if_false] at hrel ⊢; exact i.rel j m k0 hm hc hrel
  · intro a ha j m' hm' hs
    obtain ⟨m, hm, rfl⟩ := ms_modify_get hm'
    by_cases hj : h = j
    · subst hj; exact h1 a ha
    · simp only [hj, if_false] at hs; exact i.above a (by simp [hq, ha]) j m hm hs
  · intro a b ma' mb' ta tb hab hma' hmb' hta htb
    obtain ⟨ma, hma, rfl⟩ := ms_modify_get hma'
    obtain ⟨mb, hmb, rfl⟩ := ms_modify_get hmb'
    by_cases ha : h = a
    · subst ha
      have hb : ¬ h = b := by omega
      simp only [hb, if_false] at htb
      have := h3 b mb hmb (by simp [htb]); omega
    · simp only [ha, if_false] at hta
      by_cases hb : h = b
      · subst hb; simp at htb; subst htb
        have := i.stamps a ma ta hma hta; omega
      · simp only [hb, if_false] at htb; exact i.fifo a b ma mb ta tb hab hma hmb hta htb
  · intro a b ma' mb' ta tb hma' hmb' hta htb hlt
    obtain ⟨ma, hma, rfl⟩ := ms_modify_get hma'
    obtain ⟨mb, hmb, rfl⟩ := ms_modify_get hmb'
    by_cases ha : h = a
    · subst ha; simp at hta; subst hta
      by_cases hb : h = b
      · subst hb; simp at htb; omega
      · simp only [hb, if_false] at htb
        have := i.stamps b mb tb hmb htb; omega
    · simp only [ha, if_false] at hta ⊢
      exact hallrel a ma hma (by simp [hta])
  · intro j m' t hm' ht
    obtain ⟨m, hm, rfl⟩ := ms_modify_get hm'
    by_cases hj : h = j
    · subst hj; simp at ht; show t ≤ v.clock + 1; omega
    · simp only [hj, if_false] at ht; have := i.stamps j m t hm ht; show t ≤ v.clock + 1; omega
  · intro j k' m' hk' hm' hp
    obtain ⟨m, hm, rfl⟩ := ms_modify_get hm'
    rw [List.getElem?_modify] at hk'
    cases hc : v.cores[j]? with
    | none => simp [hc] at hk'
    | some k0 =>
      simp [hc] at hk'; subst hk'
      by_cases hj : h = j
      · subst hj; simp at hp
      · simp only [hj, if_false] at hp ⊢; exact i.fresh j k0 m hc hm hp

end Conn

namespace Conn

/-- P2 on the dispatcher goroutine: the request is finished, the dispatcher returns to D1. -/
theorem DInv.p2disp {v : DView} (i : DInv v) (r : Nat) (k : ReqCore) (hk : v.cores[r]? = some k)
    (ho : k.owner = .dispatcher) (hpc : k.pc = .p2) :
    DInv { v with cores := v.cores.modify r (fun k => { k with pc := .fin }), disp := .d1 } := by
  have hb := i.dsp r k hk ho (by simp [hpc, ReqPc.inPR])
  have i1 : DInv { v with cores := v.cores.modify r (fun k => { k with pc := .fin }) } :=
    i.core r _ (fun k' _ _ hp => by simp [ReqPc.inPR] at hp) (fun k' _ hp => by rcases hp with h | h | h <;> simp at h) (fun _ _ _ => rfl)
  have hrn : v.handlerRunning = true := by rw [i.hr, hb]; rfl
  refine ⟨i1.lens, by simp [hrn], ?_, ?_, i1.rel, i1.sorted, i1.above, i1.fifo, i1.prev, i1.stamps, i1.fresh⟩
  · intro j k' hk' ho' hp'
    have := i1.dsp j k' hk' ho' hp'
    simp only at this; rw [hb] at this
    have hj : r = j := by cases this; rfl
    subst hj
    simp [List.getElem?_modify, hk] at hk'; subst hk'
    simp [ReqPc.inPR] at hp'
  · intro j m hm hs hrl
    have := i.unrel j m hm hs hrl; rw [hb] at this; cases this

/-- P2 on the handler goroutine: the request is finished and (softly) releases the dispatcher. -/
theorem DInv.p2handler {v : DView} (i : DInv v) (r : Nat) :
    DInv { v with cores := v.cores.modify r (fun k => { k with pc := .fin }),
                  ms := v.ms.modify r (fun m => { m with released := true }) } := by
  have i1 : DInv { v with cores := v.cores.modify r (fun k => { k with pc := .fin }) } :=
    i.core r _ (fun k' _ _ hp => by simp [ReqPc.inPR] at hp) (fun k' _ hp => by rcases hp with h | h | h <;> simp at h) (fun _ _ _ => rfl)
  refine ⟨by simpa using i1.lens, i1.hr, i1.dsp, ?_, ?_, i1.sorted, ?_, ?_, ?_, ?_, ?_⟩
  · intro j m' hm' hs hrl
    obtain ⟨m, hm, rfl⟩ := ms_modify_get hm'
    by_cases hj : r = j
    · subst hj; simp at hrl
    · simp only [hj, if_false] at hs hrl; exact i1.unrel j m hm hs hrl
  · intro j m' k' hm' hk' hrel
    obtain ⟨m, hm, rfl⟩ := ms_modify_get hm'
    by_cases hj : r = j
    · subst hj
      right
      simp only [List.getElem?_modify] at hk'
      cases hc : v.cores[r]? with
      | none => simp [hc] at hk'
      | some k0 => simp [hc] at hk'; subst hk'; rfl
    · simp only [hj, if_false] at hrel ⊢; exact i1.rel j m k' hm hk' hrel
  · intro a ha j m' hm' hs
    obtain ⟨m, hm, rfl⟩ := ms_modify_get hm'
    exact i1.above a ha j m hm (by split at hs <;> simpa using hs)
  · intro a b ma' mb' ta tb hab hma' hmb' hta htb
    obtain ⟨ma, hma, rfl⟩ := ms_modify_get hma'
    obtain ⟨mb, hmb, rfl⟩ := ms_modify_get hmb'
    exact i1.fifo a b ma mb ta tb hab hma hmb (by split at hta <;> simpa using hta) (by split at htb <;> simpa using htb)
  · intro a b ma' mb' ta tb hma' hmb' hta htb hlt
    obtain ⟨ma, hma, rfl⟩ := ms_modify_get hma'
    obtain ⟨mb, hmb, rfl⟩ := ms_modify_get hmb'
    have := i1.prev a b ma mb ta tb hma hmb (by split at hta <;> simpa using hta) (by split at htb <;> simpa using htb) hlt
    split <;> simp [this]
  · intro j m' t hm' ht
    obtain ⟨m, hm, rfl⟩ := ms_modify_get hm'
    exact i1.stamps j m t hm (by split at ht <;> simpa using ht)
  · intro j k' m' hk' hm' hp
    obtain ⟨m, hm, rfl⟩ := ms_modify_get hm'
    by_cases hj : r = j
    · subst hj
      simp only [List.getElem?_modify] at hk'
      cases hc : v.cores[r]? with
      | none => simp [hc] at hk'
      | some k0 => simp [hc] at hk'; subst hk'; rcases hp with h | h | h <;> simp at h
    · simp only [hj, if_false]; exact i1.fresh j k' m hk' hm hp

/-- The dispatcher blocked on the releaser goes on to D1 once its request was released. -/
theorem DInv.settle {v : DView} (i : DInv v) (r : Nat) (m : MCore) (hd : v.disp = .waiting r) (hm : v.ms[r]? = some m)
    (hrel : m.released = true) : DInv { v with disp := .d1 } := by
  have hrn : v.handlerRunning = true := by rw [i.hr, hd]; rfl
  refine ⟨i.lens, by simp [hrn], ?_, ?_, i.rel, i.sorted, i.above, i.fifo, i.prev, i.stamps, i.fresh⟩
  · intro j k hk ho hp; have := i.dsp j k hk ho hp; rw [hd] at this; cases this
  · intro j m' hm' hs hrl
    have := i.unrel j m' hm' hs hrl; rw [hd] at this
    have hj : j = r := by cases this; rfl
    subst hj; rw [hm] at hm'; cases hm'; simp [hrel] at hrl

end Conn

namespace Conn

theorem map_mcore_modify (l : List ReqMeta) (r : Nat) (f : ReqMeta → ReqMeta) (g : MCore → MCore)
    (h : ∀ m, (f m).mcore = g m.mcore) : (l.modify r f).map ReqMeta.mcore = (l.map ReqMeta.mcore).modify r g := by
  apply List.ext_getElem?; intro j
  simp only [List.getElem?_map, List.getElem?_modify]
  cases l[j]? with
  | none => simp
  | some q => by_cases hj : r = j <;> simp [hj, h]

theorem map_mcore_modify_id (l : List ReqMeta) (r : Nat) (f : ReqMeta → ReqMeta)
    (h : ∀ m, (f m).mcore = m.mcore) : (l.modify r f).map ReqMeta.mcore = l.map ReqMeta.mcore := by
  rw [map_mcore_modify l r f id h]
  apply List.ext_getElem?; intro j; simp

@[simp] theorem dview_tail (s : St) : dview (tail s) = dview s := by simp [dview]
@[simp] theorem dview_modCall (s : St) (n : Nat) (f : Call → Call) : dview (modCall s n f) = dview s := rfl
@[simp] theorem dview_setNotif (s : St) (w : Who) (f : Notif → Notif) : dview (setNotif s w f) = dview s := by
  cases w <;> rfl
@[simp] theorem dview_retireIn (s : St) (n : Nat) (r : Res) : dview (retireIn s n r) = dview s := by simp [dview]
@[simp] theorem dview_modCore (s : St) (r : Nat) (g : ReqCore → ReqCore) :
    dview (modCore s r g) = { dview s with cores := ((dview s).cores.modify r g) } := rfl
@[simp] theorem dview_cancelReq (s : St) (r : Nat) (c : Cause) : dview (cancelReq s r c) = dview s := by
  simp only [dview, cancelReq, modMeta]
  congr 1
  exact map_mcore_modify_id _ _ _ (fun m => by split <;> rfl)
theorem dview_foldl_cancel (l : List (Nat × Nat)) (c : Cause) (s : St) :
    dview (l.foldl (fun s p => cancelReq s p.2 c) s) = dview s := by
  induction l generalizing s with
  | nil => rfl
  | cons p t ih => simp [List.foldl, ih]
theorem dview_foldl_retire (l : List Nat) (r : Res) (s : St) :
    dview (l.foldl (fun s n => retireIn s n r) s) = dview s := by
  induction l generalizing s with
  | nil => rfl
  | cons a t ih => simp [List.foldl, ih]
@[simp] theorem dview_markBroken (s : St) : dview (markBroken s) = dview s := by
  unfold markBroken; split
  · rfl
  · rw [dview_foldl_cancel]; rfl
@[simp] theorem dview_toP2 (s : St) (r : Nat) :
    dview (toP2 s r) = { dview s with cores := ((dview s).cores.modify r (fun k => { k with pc := .p2 })) } := by
  unfold toP2; rw [dview_cancelReq]; rfl
theorem dview_beginPR (s : St) (r : Nat) (own : Owner) :
    dview (beginPR s r own) = { dview s with cores := ((dview s).cores.modify r
      (fun k => { k with owner := own, pc := if k.isCall then .p1 else .p2 })) } := by
  have h1 := congrArg ReqView.cores (reqView_beginPR s r own)
  simp only [reqView, ReqView.mod] at h1
  have h2 : (beginPR s r own).metas.map ReqMeta.mcore = s.metas.map ReqMeta.mcore := by
    unfold beginPR; split
    · rfl
    · split
      · rfl
      · simp only [toP2, cancelReq, modMeta, modCore]
        exact map_mcore_modify_id _ _ _ (fun m => by split <;> rfl)
  have h3 : (beginPR s r own).disp = s.disp ∧ (beginPR s r own).handlerRunning = s.handlerRunning ∧
      (beginPR s r own).queue = s.queue ∧ (beginPR s r own).clock = s.clock := by
    unfold beginPR; split
    · exact ⟨rfl, rfl, rfl, rfl⟩
    · split <;> exact ⟨rfl, rfl, rfl, rfl⟩
  simp only [dview, h1, h2, h3.1, h3.2.1, h3.2.2.1, h3.2.2.2]
@[simp] theorem dview_settleCalls (s : St) : dview (settleCalls s) = dview s := rfl
@[simp] theorem dview_settleWaiters (s : St) : dview (settleWaiters s) = dview s := by simp [dview]

/-- A meta update that does not touch start stamp / release / async flags. -/
theorem dview_modMeta_id (s : St) (r : Nat) (f : ReqMeta → ReqMeta) (h : ∀ m, (f m).mcore = m.mcore) :
    dview (modMeta s r f) = dview s := by
  simp only [dview, modMeta]; congr 1; exact map_mcore_modify_id _ _ _ h

theorem dview_modMeta_started (s : St) (r : Nat) (t : Nat) :
    dview (modMeta s r fun m => { m with started := some t }) =
      { dview s with ms := ((dview s).ms.modify r (fun m => { m with started := some t })) } := by
  simp only [dview, modMeta]; congr 1
  exact map_mcore_modify _ _ _ _ (fun m => rfl)

def Label.touchesDisp : Label → Bool
  | .read _ | .hasync _ | .hret _ _ | .a1 _ | .a2 _ | .d1 | .p1 _ | .p2 _ | .w1 (.resp _) | .w2 (.resp _)
  | .wret (.resp _) _ => true
  | _ => false

set_option maxRecDepth 4000 in
theorem frame_disp (s s' : St) (l : Label) (h : step0 s l = some s') (hl : l.touchesDisp = false) :
    dview s' = dview s := by
  cases l <;> simp [Label.touchesDisp] at hl <;> simp only [step0] at h
  case k1 id =>
    split at h
    · cases h
    · split at h <;> cases h <;> first | (simp [dview]; done) | (rw [dview_cancelReq]; simp [dview])
  case rx =>
    split at h
    · cases h
    · cases h
      rw [dview_tail, dview_foldl_cancel]
      have := dview_foldl_retire s.outCalls (.err .read) { s with reader := .gone, reading := false, readErr := true }
      simp only [dview] at this ⊢
      simp_all
  all_goals (repeat' (split at h))
  all_goals first
    | (simp [Label.touchesDisp] at hl; done)
    | (simp at h; done)
    | (injection h with h; subst h; first | rfl | (simp; done) | (simp [dview]; done))

end Conn

namespace Conn

/-- Core moves that keep the owner and stay inside processResult (or enter it from a non-dispatcher owner). -/
theorem DInv.coreSimple {v : DView} (i : DInv v) (r : Nat) (g : ReqCore → ReqCore)
    (h : ∀ k, v.cores[r]? = some k →
      ((g k).owner = .dispatcher → (g k).pc.inPR = true → k.owner = .dispatcher ∧ k.pc.inPR = true) ∧
      (((g k).pc = .a1 ∨ (g k).pc = .a2 ∨ (g k).pc = .queued) → (k.pc = .a1 ∨ k.pc = .a2 ∨ k.pc = .queued)) ∧
      (k.pc = .fin → (g k).pc = .fin)) :
    DInv { v with cores := v.cores.modify r g } :=
  i.core r g (fun k hk => (h k hk).1) (fun k hk => (h k hk).2.1) (fun k hk => (h k hk).2.2)

theorem dinv_read {s s' : St} {m : RMsg} (hr : RInv (reqView s)) (i : DInv (dview s)) (h : step0 s (.read m) = some s') :
    DInv (dview s') := by
  simp only [step0] at h
  split at h
  · cases h
  · have hq : ∀ j ∈ (dview s).queue, j < (dview s).cores.length := fun j hj => hr.qr j hj
    cases m <;> simp only at h <;> cases h
    · rename_i id
      have key := i.append { id := some id, isCall := true } ⟨rfl, rfl⟩ hq
      simpa [dview, ReqMeta.mcore] using key
    · have key := i.append {} ⟨rfl, rfl⟩ hq
      simpa [dview, ReqMeta.mcore] using key
    · have key := i.append {} ⟨rfl, rfl⟩ hq
      simpa [dview, ReqMeta.mcore] using key
    · exact i
    · exact i

theorem dinv_hasync {s s' : St} {r : Nat} (i : DInv (dview s)) (h : step0 s (.hasync r) = some s') : DInv (dview s') := by
  simp only [step0] at h
  split at h
  · rename_i q m hq hm
    split at h
    · cases h
    · rename_i hc
      cases h
      have hpc : q.pc = .running := by
        simp only [Bool.or_eq_true, not_or] at hc; simpa using hc.1
      have hv : dview (modMeta s r fun m => { m with asyncCalled := true, released := true }) =
          { dview s with ms := (dview s).ms.modify r (fun m => { m with asyncCalled := true, released := true }) } := by
        simp only [dview, modMeta]; congr 1
        exact map_mcore_modify _ _ _ _ (fun m => rfl)
      rw [hv]
      exact i.async r (fun k hk => by rw [show (dview s).cores[r]? = s.cores[r]? from rfl, hq] at hk; cases hk; exact hpc)
  · cases h

theorem dinv_hret {s s' : St} {r : Nat} {e : Bool} (i : DInv (dview s)) (h : step0 s (.hret r e) = some s') :
    DInv (dview s') := by
  simp only [step0] at h
  split at h
  · cases h
  · rename_i q hq
    split at h
    · cases h
    · rename_i hpc
      have hpc : q.pc = .running := by simpa using hpc
      cases h
      rw [dview_beginPR]
      have hv : dview (modMeta { s with clock := s.clock + 1 } r fun q => { q with ended := some (s.clock + 1) }) =
          { dview s with clock := s.clock + 1 } := by
        rw [dview_modMeta_id _ r (fun q => { q with ended := some (s.clock + 1) }) (fun m => rfl)]; rfl
      rw [hv]
      have i1 : DInv { dview s with clock := s.clock + 1 } := i.clock _ (by simp [dview])
      refine DInv.coreSimple (v := { dview s with clock := s.clock + 1 }) i1 r _ ?_
      intro k hk
      have : k = q := by rw [show ({ dview s with clock := s.clock + 1 } : DView).cores[r]? = s.cores[r]? from rfl, hq] at hk; cases hk; rfl
      subst this
      refine ⟨fun ho => by simp at ho, fun hp => ?_, fun hf => by simp [hpc] at hf⟩
      simp at hp; split at hp <;> simp at hp

end Conn

namespace Conn

/-- A core update of a request that is not in processResult on the dispatcher and not finished, to a
state that is not dispatcher-owned and not an undispatched pc (or stays the same undispatched class). -/
theorem DInv.coreFrom {v : DView} (i : DInv v) (r : Nat) (q : ReqCore) (g : ReqCore → ReqCore)
    (hq : v.cores[r]? = some q)
    (h1 : (g q).owner = .dispatcher → (g q).pc.inPR = true → q.owner = .dispatcher ∧ q.pc.inPR = true)
    (h2 : ((g q).pc = .a1 ∨ (g q).pc = .a2 ∨ (g q).pc = .queued) → (q.pc = .a1 ∨ q.pc = .a2 ∨ q.pc = .queued))
    (h3 : q.pc = .fin → (g q).pc = .fin) :
    DInv { v with cores := v.cores.modify r g } :=
  i.coreSimple r g (fun k hk => by rw [hq] at hk; cases hk; exact ⟨h1, h2, h3⟩)

theorem dinv_a1 {s s' : St} {r : Nat} (i : DInv (dview s)) (h : step0 s (.a1 r) = some s') : DInv (dview s') := by
  simp only [step0] at h
  split at h
  · cases h
  · rename_i q hq
    split at h
    · cases h
    · rename_i hpc
      have hpc : q.pc = .a1 := by simpa using hpc
      have hq' : (dview s).cores[r]? = some q := hq
      -- every branch is one or two core updates of request r starting from pc = a1
      have hv0 : ∀ X : St, X.cores = s.cores → X.metas = s.metas → X.disp = s.disp → X.handlerRunning = s.handlerRunning →
          X.queue = s.queue → X.clock = s.clock → dview X = dview s := by
        intro X a b c d e f; simp [dview, a, b, c, d, e, f]
      (repeat' (split at h)) <;> cases h
      · -- duplicate id
        rw [dview_tail, dview_beginPR, dview_modMeta_id _ r (fun m => { m with rejected := true }) (fun m => rfl), dview_modCore]
        rw [hv0 { s with incoming := s.incoming + 1 } rfl rfl rfl rfl rfl rfl]
        have i1 := i.coreFrom r q (fun k => { k with isCall := false }) hq' (fun a b => ⟨a, b⟩) (fun a => a) (fun a => a)
        refine DInv.coreSimple (v := { dview s with cores := (dview s).cores.modify r fun k => { k with isCall := false } }) i1 r _ ?_
        intro k hk
        simp only [List.getElem?_modify, hq', if_true, Option.map_some] at hk
        cases hk
        refine ⟨fun ho => by simp at ho, fun hp => by simp at hp, fun hf => by simp [hpc] at hf⟩
      · -- indexed, refused
        rw [dview_tail, dview_beginPR, dview_modMeta_id _ r (fun m => { m with rejected := true }) (fun m => rfl)]
        rename_i id _ _ _ _
        rw [hv0 { s with incoming := s.incoming + 1, byID := s.byID ++ [(id, r)] } rfl rfl rfl rfl rfl rfl]
        refine i.coreFrom r q _ hq' (fun ho => by simp at ho) (fun hp => ?_) (fun hf => by simp [hpc] at hf)
        simp at hp; split at hp <;> simp at hp
      · -- indexed, accepted
        rename_i id _ _ _ _
        rw [dview_tail, dview_modMeta_id _ r (fun m => { m with seen := true }) (fun m => rfl), dview_modCore]
        rw [hv0 { s with incoming := s.incoming + 1, byID := s.byID ++ [(id, r)] } rfl rfl rfl rfl rfl rfl]
        exact i.coreFrom r q _ hq' (fun ho hp => by simp [ReqPc.inPR] at hp) (fun _ => Or.inl hpc) (fun hf => by simp [hpc] at hf)
      · -- notification with a cancel target
        rw [dview_tail, dview_modMeta_id _ r (fun m => { m with seen := true }) (fun m => rfl), dview_modCore]
        rename_i id _
        rw [hv0 { s with incoming := s.incoming + 1, cancels := s.cancels ++ [id] } rfl rfl rfl rfl rfl rfl]
        exact i.coreFrom r q _ hq' (fun ho hp => by simp [ReqPc.inPR] at hp) (fun _ => Or.inl hpc) (fun hf => by simp [hpc] at hf)
      · rw [dview_tail, dview_modMeta_id _ r (fun m => { m with seen := true }) (fun m => rfl), dview_modCore]
        rw [hv0 { s with incoming := s.incoming + 1 } rfl rfl rfl rfl rfl rfl]
        exact i.coreFrom r q _ hq' (fun ho hp => by simp [ReqPc.inPR] at hp) (fun _ => Or.inl hpc) (fun hf => by simp [hpc] at hf)

end Conn

namespace Conn

theorem hv0 (s X : St) (a : X.cores = s.cores) (b : X.metas = s.metas) (c : X.disp = s.disp)
    (d : X.handlerRunning = s.handlerRunning) (e : X.queue = s.queue) (f : X.clock = s.clock) : dview X = dview s := by
  simp [dview, a, b, c, d, e, f]

theorem dinv_a2 {s s' : St} {r : Nat} (hr : RInv (reqView s)) (i : DInv (dview s)) (h : step0 s (.a2 r) = some s') :
    DInv (dview s') := by
  simp only [step0] at h
  split at h
  · cases h
  · rename_i q hq
    split at h
    · cases h
    · rename_i hpc
      have hpc : q.pc = .a2 := by simpa using hpc
      have hq' : (dview s).cores[r]? = some q := hq
      have o := hr.ok r q hq
      split at h
      · cases h
        rw [dview_tail, dview_beginPR, dview_modMeta_id _ r (fun m => { m with rejected := true }) (fun m => rfl)]
        refine i.coreFrom r q _ hq' (fun ho => by simp at ho) (fun hp => ?_) (fun hf => by simp [hpc] at hf)
        simp at hp; split at hp <;> simp at hp
      · have hlast : r + 1 = (dview s).cores.length := (o.rdr (Or.inr (Or.inl hpc))).2
        have hqr : ∀ j ∈ (dview s).queue, j < (dview s).cores.length := fun j hj => hr.qr j hj
        have hnq : r ∉ (dview s).queue := fun hm => by have := o.que.mpr hm; simp [hpc] at this
        split at h <;> cases h <;> rw [dview_tail]
        · rename_i hrun
          have hrun' : s.handlerRunning = true := by simpa [modCore] using hrun
          have key := i.enqueue r q hq' hpc hlast hqr hnq s.disp true (Or.inl ⟨hrun', rfl, rfl⟩)
          simpa [dview, modCore, hrun'] using key
        · rename_i hrun
          have hrun' : s.handlerRunning = false := by simpa [modCore] using hrun
          have key := i.enqueue r q hq' hpc hlast hqr hnq .d1 true (Or.inr ⟨hrun', rfl, rfl⟩)
          simpa [dview, modCore] using key

theorem dinv_d1 {s s' : St} (hr : RInv (reqView s)) (i : DInv (dview s)) (h : step0 s .d1 = some s') : DInv (dview s') := by
  simp only [step0] at h
  split at h
  · cases h
  · rename_i hd
    have hd : (dview s).disp = .d1 := by simpa [dview] using hd
    split at h
    · rename_i hqe
      cases h; rw [dview_tail]
      exact i.d1empty hd hqe
    · rename_i _ hh rest hqu
      have hrq : hh ∈ (reqView s).queue := by simp [reqView, hqu]
      have hlen := hr.qr hh hrq
      obtain ⟨q, hq⟩ : ∃ q, (reqView s).cores[hh]? = some q := ⟨_, List.getElem?_eq_getElem hlen⟩
      have hpc : q.pc = .queued := (hr.ok hh q hq).que.mpr hrq
      have hq' : (dview s).cores[hh]? = some q := hq
      split at h
      · cases h
      · split at h <;> cases h
        · rw [dview_beginPR]
          have hv : dview { tail { s with queue := rest } with disp := DispPc.busy hh } =
              { dview s with queue := rest, disp := .busy hh } := by simp [dview]
          rw [hv]
          exact i.d1cancel hd hh rest hqu q hq' hpc
        · rw [dview_modMeta_started, dview_modCore]
          have hv : dview { tail { s with queue := rest } with
                clock := (tail { s with queue := rest }).clock + 1, disp := DispPc.waiting hh } =
              { dview s with queue := rest, disp := .waiting hh, clock := s.clock + 1 } := by simp [dview]
          rw [hv]
          have key := i.d1start hd hh rest hqu q hq' hpc
          simpa [dview] using key

end Conn

namespace Conn

/-- Moves inside processResult keeping the owner. -/
theorem DInv.inPR {v : DView} (i : DInv v) (r : Nat) (q : ReqCore) (g : ReqCore → ReqCore) (hq : v.cores[r]? = some q)
    (hold : q.pc.inPR = true) (hown : (g q).owner = q.owner) (hnew : (g q).pc.inPR = true) :
    DInv { v with cores := v.cores.modify r g } :=
  i.coreFrom r q g hq (fun ho _ => ⟨hown ▸ ho, hold⟩)
    (fun hp => by rcases hp with h | h | h <;> simp [h, ReqPc.inPR] at hnew)
    (fun hf => by simp [hf, ReqPc.inPR] at hold)

theorem dinv_p1 {s s' : St} {r : Nat} (i : DInv (dview s)) (h : step0 s (.p1 r) = some s') : DInv (dview s') := by
  simp only [step0] at h
  split at h
  · cases h
  · rename_i q hq
    split at h
    · cases h
    · rename_i hpc
      have hpc : q.pc = .p1 := by simpa using hpc
      cases h
      have key : ∀ X : St, X.cores = s.cores → X.metas = s.metas → X.disp = s.disp → X.handlerRunning = s.handlerRunning →
          X.queue = s.queue → X.clock = s.clock → DInv (dview (tail (modCore X r fun q => { q with pc := .w1 }))) := by
        intro X a b c d e f
        rw [dview_tail, dview_modCore, hv0 s X a b c d e f]
        exact i.inPR r q _ hq (by simp [hpc, ReqPc.inPR]) rfl (by simp [ReqPc.inPR])
      split <;> exact key _ rfl rfl rfl rfl rfl rfl

theorem dinv_w1 {s s' : St} {r : Nat} (i : DInv (dview s)) (h : step0 s (.w1 (.resp r)) = some s') : DInv (dview s') := by
  simp only [step0] at h
  split at h
  · cases h
  · rename_i q hq
    split at h
    · cases h
    · rename_i hpc
      have hpc : q.pc = .w1 := by simpa using hpc
      have hq' : (dview s).cores[r]? = some q := hq
      have i1 : DInv (dview (modCore s r fun q => { q with wrote := q.wrote + 1 })) := by
        rw [dview_modCore]; exact i.inPR r q _ hq' (by simp [hpc, ReqPc.inPR]) rfl (by simp [hpc, ReqPc.inPR])
      have hq1 : (dview (modCore s r fun q => { q with wrote := q.wrote + 1 })).cores[r]? = some { q with wrote := q.wrote + 1 } := by
        simp [dview, modCore, List.getElem?_modify, hq]
      split at h <;> cases h
      · rw [dview_tail, dview_modCore]
        exact i1.inPR r _ _ hq1 (by simp [hpc, ReqPc.inPR]) rfl (by simp [ReqPc.inPR])
      · rw [dview_toP2, dview_tail]
        exact i1.inPR r _ _ hq1 (by simp [hpc, ReqPc.inPR]) rfl (by simp [ReqPc.inPR])

theorem dinv_wret {s s' : St} {r : Nat} {o : WOut} (i : DInv (dview s)) (h : step0 s (.wret (.resp r) o) = some s') :
    DInv (dview s') := by
  simp only [step0] at h
  split at h
  · cases h
  · rename_i q hq
    split at h
    · cases h
    · rename_i hpc
      have hpc : q.pc = .wr := by simpa using hpc
      have hq' : (dview s).cores[r]? = some q := hq
      cases o <;> simp only at h <;> cases h
      · rw [dview_toP2, dview_modCore]
        have i1 : DInv { dview s with cores := (dview s).cores.modify r fun q => { q with responses := q.responses + 1 } } :=
          i.inPR r q _ hq' (by simp [hpc, ReqPc.inPR]) rfl (by simp [hpc, ReqPc.inPR])
        have hq1 : ({ dview s with cores := (dview s).cores.modify r fun q => { q with responses := q.responses + 1 } } : DView).cores[r]? =
            some { q with responses := q.responses + 1 } := by
          simp [dview, List.getElem?_modify, hq]
        exact i1.inPR r _ _ hq1 (by simp [hpc, ReqPc.inPR]) rfl (by simp [ReqPc.inPR])
      · rw [dview_modCore]
        exact i.inPR r q _ hq' (by simp [hpc, ReqPc.inPR]) rfl (by simp [ReqPc.inPR])
      · rw [dview_toP2]
        exact i.inPR r q _ hq' (by simp [hpc, ReqPc.inPR]) rfl (by simp [ReqPc.inPR])

theorem dinv_w2 {s s' : St} {r : Nat} (i : DInv (dview s)) (h : step0 s (.w2 (.resp r)) = some s') : DInv (dview s') := by
  simp only [step0] at h
  split at h
  · cases h
  · rename_i q hq
    split at h
    · rename_i e hpc
      cases h
      rw [dview_toP2, dview_tail, dview_markBroken]
      exact i.inPR r q _ hq (by simp [hpc, ReqPc.inPR]) rfl (by simp [ReqPc.inPR])
    · cases h

theorem dinv_p2 {s s' : St} {r : Nat} (i : DInv (dview s)) (h : step0 s (.p2 r) = some s') : DInv (dview s') := by
  simp only [step0] at h
  split at h
  · cases h
  · rename_i q hq
    split at h
    · cases h
    · rename_i hpc
      have hpc : q.pc = .p2 := by simpa using hpc
      have hq' : (dview s).cores[r]? = some q := hq
      cases h
      have hv : ∀ X : St, X.cores = s.cores → X.metas = s.metas → X.disp = s.disp → X.handlerRunning = s.handlerRunning →
          X.queue = s.queue → X.clock = s.clock →
          dview (tail (modCore X r fun q => { q with pc := .fin })) =
            { dview s with cores := (dview s).cores.modify r (fun k => { k with pc := .fin }) } := by
        intro X a b c d e f
        rw [dview_tail, dview_modCore, hv0 s X a b c d e f]
      have hm : ∀ Y : St, dview (modMeta Y r fun q => { q with released := true }) =
          { dview Y with ms := (dview Y).ms.modify r (fun m => { m with released := true }) } := by
        intro Y; simp only [dview, modMeta]; congr 1
        exact map_mcore_modify _ _ _ _ (fun m => rfl)
      have key : ∀ X : St, X.cores = s.cores → X.metas = s.metas → X.disp = s.disp → X.handlerRunning = s.handlerRunning →
          X.queue = s.queue → X.clock = s.clock →
          DInv (dview (afterP2 (tail (modCore X r fun q => { q with pc := .fin })) r q.owner)) := by
        intro X a b c d e f
        cases hown : q.owner with
        | reader =>
          simp only [afterP2]
          rw [show ∀ Y : St, dview { Y with reader := ReaderPc.read } = dview Y from fun _ => rfl, hv X a b c d e f]
          exact i.coreFrom r q _ hq' (fun _ hp => by simp [ReqPc.inPR] at hp) (fun hp => by simp at hp) (fun _ => rfl)
        | dispatcher =>
          simp only [afterP2]
          rw [show ∀ Y : St, dview { Y with disp := DispPc.d1 } = { dview Y with disp := .d1 } from fun _ => rfl, hv X a b c d e f]
          exact i.p2disp r q hq' hown hpc
        | handler =>
          simp only [afterP2]
          rw [hm, hv X a b c d e f]
          exact i.p2handler r
      split <;> exact key _ rfl rfl rfl rfl rfl rfl

end Conn

namespace Conn

theorem dinv_step0 {s s' : St} {l : Label} (hr : RInv (reqView s)) (i : DInv (dview s)) (h : step0 s l = some s') :
    DInv (dview s') := by
  by_cases hl : l.touchesDisp = true
  · cases l <;> simp [Label.touchesDisp] at hl
    case read m => exact dinv_read hr i h
    case wret w o => cases w <;> simp [Label.touchesDisp] at hl; exact dinv_wret i h
    case hasync r => exact dinv_hasync i h
    case hret r e => exact dinv_hret i h
    case a1 r => exact dinv_a1 i h
    case a2 r => exact dinv_a2 hr i h
    case d1 => exact dinv_d1 hr i h
    case p1 r => exact dinv_p1 i h
    case p2 r => exact dinv_p2 i h
    case w1 w => cases w <;> simp [Label.touchesDisp] at hl; exact dinv_w1 i h
    case w2 w => cases w <;> simp [Label.touchesDisp] at hl; exact dinv_w2 i h
  · exact (frame_disp s s' l h (by simpa using hl)) ▸ i

theorem dinv_settle {s : St} (i : DInv (dview s)) : DInv (dview (settle s)) := by
  unfold settle settleDisp
  have hv : dview (settleWaiters (settleCalls s)) = dview s := by simp
  split
  · rename_i r hd
    split
    · rename_i m hm
      split
      · rename_i hrel
        have hd' : (dview s).disp = .waiting r := by rw [← hv]; exact hd
        have hm' : (dview s).ms[r]? = some m.mcore := by
          have : (settleWaiters (settleCalls s)).metas = s.metas := by simp [settleCalls]
          simp only [dview, List.getElem?_map]; rw [← this, hm]; rfl
        have := i.settle r m.mcore hd' hm' hrel
        have e : dview { settleWaiters (settleCalls s) with disp := DispPc.d1 } = { dview s with disp := .d1 } := by
          rw [← hv]; rfl
        rw [e]; exact this
      · rw [hv]; exact i
    · rw [hv]; exact i
  · rw [hv]; exact i

theorem dinv_init : DInv (dview ({} : St)) :=
  ⟨rfl, rfl, fun r k hk => by simp [dview] at hk, fun r m hm => by simp [dview] at hm,
    fun r m k hm => by simp [dview] at hm, by simp [dview], fun i hi => by simp [dview] at hi,
    fun i j mi mj ti tj _ hmi => by simp [dview] at hmi, fun i j mi mj ti tj hmi => by simp [dview] at hmi,
    fun r m t hm => by simp [dview] at hm, fun r k m hk => by simp [dview] at hk⟩

/-- The full invariant including the dispatcher part. -/
structure Inv2 (s : St) : Prop where
  base : Inv s
  disp : DInv (dview s)

theorem inv2_init : Inv2 ({} : St) := ⟨inv_init, dinv_init⟩

theorem inv2_step {s s' : St} {l : Label} (i : Inv2 s) (h : step s l = some s') : Inv2 s' := by
  refine ⟨inv_step i.base h, ?_⟩
  simp only [step, Option.map_eq_some_iff] at h
  obtain ⟨s0, h0, rfl⟩ := h
  exact dinv_settle (dinv_step0 i.base.reqs i.disp h0)

theorem inv2_run {s s' : St} (ls : List Label) (i : Inv2 s) (h : run s ls = some s') : Inv2 s' := by
  induction ls generalizing s with
  | nil => simp [run] at h; exact h ▸ i
  | cons l ls ih =>
    simp only [run] at h
    split at h
    · cases h
    · rename_i s1 h1; exact ih (inv2_step i h1) h

end Conn
