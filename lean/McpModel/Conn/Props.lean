import McpModel.Conn.Model
/-! Property theorems for E1 (C01–C05) — under construction. -/
namespace Conn
end Conn
