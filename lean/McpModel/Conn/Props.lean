import McpModel.Conn.CallInv
import McpModel.Conn.ReqInv
/-!
# Property theorems for E1 — the jsonrpc2 connection (C01–C05)

All theorems quantify over **every label list** `ls` (every interleaving of every number of callers,
notifiers, incoming requests, responses in any order with any ids, reader failure, write outcomes
(ok / broken / rejected / cancelled), context cancellations, Close and Wait calls) executed from the
initial state `{}` of the model `Conn.step` (one label = one atomic section of conn.go).
-/
namespace Conn

/-! ## C01 — every outgoing call completes exactly once, with its own response or an error -/

/-- **retire_at_most_once.** In every reachable state each call's `AsyncCall.retire` has run at most
once — exactly once iff its outcome is fixed — and the "retire called twice" panic is unreachable. -/
theorem retire_at_most_once (ls : List Label) (s : St) (h : run {} ls = some s) :
    s.panicRetire = false ∧
    ∀ n c, getCall s n = some c → c.retires ≤ 1 ∧ (c.retires = 1 ↔ c.ready.isSome = true) := by
  have i := cinv_run ls cinv_init h
  refine ⟨i.nopanic, fun n c hc => ?_⟩
  have := (i.ok n c hc).retires
  cases hr : c.ready <;> simp [hr] at this ⊢ <;> omega

/-- **registered_iff_unretired.** The `outgoingCalls` table holds exactly the calls that were registered
and whose outcome is not fixed yet, each once: removal from the table is the single completion point. -/
theorem registered_iff_unretired (ls : List Label) (s : St) (h : run {} ls = some s) :
    s.outCalls.Nodup ∧
    ∀ n c, getCall s n = some c → (n ∈ s.outCalls ↔ (c.registered = true ∧ c.ready = none)) := by
  have i := cinv_run ls cinv_init h
  exact ⟨i.nodup, fun n c hc => (i.ok n c hc).reg⟩

/-- **response_is_own.** If a call completed with a response payload `p`, then the reader took a
response message carrying *this call's id* and payload `p` off the wire (`respLog` records, at RR,
every (id, payload) the reader matched); a call never receives the response to a different call, and
what `call()` returns is that very payload. -/
theorem response_is_own (ls : List Label) (s : St) (h : run {} ls = some s) :
    ∀ n c p, getCall s n = some c →
      (c.ready = some (.resp p) → (n, p) ∈ s.respLog) ∧
      (c.result = some (.resp p) → c.ready = some (.resp p) ∧ (n, p) ∈ s.respLog) := by
  have i := cinv_run ls cinv_init h
  intro n c p hc
  have o := i.ok n c hc
  refine ⟨o.own p, fun hr => ?_⟩
  rcases (o.result _ hr).2 with h1 | ⟨h1, _⟩
  · exact ⟨h1, o.own p h1⟩
  · cases h1

/-- **completed_has_outcome.** A call whose `call()` has returned has a fixed outcome (it was retired,
or it never registered because the connection was shutting down), and what it returned is either
that outcome or the context's error after the caller's context ended. -/
theorem completed_has_outcome (ls : List Label) (s : St) (h : run {} ls = some s) :
    ∀ n c, getCall s n = some c → c.pc = .fin →
      c.ready.isSome = true ∧ ∃ r, c.result = some r ∧ (c.ready = some r ∨ (r = .err .ctx ∧ c.ctxDone = true)) := by
  have i := cinv_run ls cinv_init h
  intro n c hc hf
  have o := i.ok n c hc
  obtain ⟨h1, h2⟩ := o.fin hf
  cases hr : c.result with
  | none => simp [hr] at h1
  | some r => exact ⟨h2, r, rfl, (o.result r hr).2⟩

/-- **await_wait_free.** After every label no caller is left blocked in `Await` once its call is ready
or its context is done: the caller's next step needs nobody else (it has returned, or it is parked
before its own eager `Retire`). -/
theorem await_wait_free (s s' : St) (l : Label) (h : step s l = some s') :
    ∀ n c, getCall s' n = some c → c.pc = .await → c.ready = none ∧ c.ctxDone = false := by
  simp only [step, Option.map_eq_some_iff] at h
  obtain ⟨s0, _, rfl⟩ := h
  intro n c hc hpc
  have hcalls : (settle s0).calls = s0.calls.map settleCall := by
    have := congrArg CallView.calls (show callView (settle s0) = callView (settleCalls s0) by simp [settle])
    simpa [callView, settleCalls] using this
  simp only [getCall_eq, hcalls, List.getElem?_map] at hc
  by_cases hn : n = 0
  · simp [hn] at hc
  · simp only [hn, if_false] at hc
    cases h0 : s0.calls[n - 1]? with
    | none => simp [h0] at hc
    | some c0 =>
      simp [h0] at hc; subst hc
      unfold settleCall at hpc ⊢
      split at hpc
      · split at hpc
        · split at hpc
          · simp at hpc
          · split at hpc <;> simp at hpc
        · split at hpc <;> simp at hpc
        · rename_i hr
          split at hpc
          · simp at hpc
          · rename_i hctx
            simp_all
      · rename_i hne; exact absurd hpc hne

/-- **refused_when_shutting_down.** A call that reaches its registration point (C1) while the
connection is closing or its reader or writer has failed is completed at once with the
"client closing" class of error, which `mcp.call` reports as `ErrConnectionClosed`; it is never
registered and never written. -/
theorem refused_when_shutting_down (ls : List Label) (s s' : St) (hr : run {} ls = some s)
    (n : Nat) (c : Call) (hc : getCall s n = some c)
    (hctx : c.ctxDone = false) (hsd : s.shuttingDown = true) (h : step s (.c1 n) = some s') :
    ∃ c', getCall s' n = some c' ∧ c'.pc = .fin ∧ c'.result = some (.err .clientClosing) ∧
      c'.registered = false ∧ s'.outCalls = s.outCalls := by
  have i := cinv_run ls cinv_init hr
  have hn := getCall_some_pos hc
  simp only [step, Option.map_eq_some_iff] at h
  obtain ⟨s0, h0, rfl⟩ := h
  simp only [step0, hc] at h0
  split at h0
  · cases h0
  · rename_i hpc
    have hpc : c.pc = .c1 := by simpa using hpc
    obtain ⟨hreg, hready⟩ := (i.ok n c hc).fresh hpc
    cases h0
    have hc2 : getCall (modCall (tail s) n fun c => { c with pc := .await }) n = some { c with pc := .await } := by
      rw [getCall_modCall _ _ _ _ hn.1]; simp [hc]
    have hg := getCall_retireIn _ n n _ (.err .clientClosing) hc2 hready
    have hf := retireIn_frame _ n _ (.err .clientClosing) hc2 hready
    simp only [if_true] at hg
    have hv : callView (settle (retireIn (modCall (tail s) n fun c => { c with pc := .await }) n (.err .clientClosing))) =
        callView (settleCalls (retireIn (modCall (tail s) n fun c => { c with pc := .await }) n (.err .clientClosing))) := by
      simp [settle]
    have hcalls := congrArg CallView.calls hv
    have hoc := congrArg CallView.outCalls hv
    simp only [callView, settleCalls] at hcalls hoc
    refine ⟨settleCall { c with pc := .await, ready := some (.err .clientClosing), retires := c.retires + 1 }, ?_, ?_, ?_, ?_, ?_⟩
    · simp only [getCall_eq] at hg ⊢
      have hn0 : n ≠ 0 := by omega
      simp only [hn0, if_false] at hg ⊢
      rw [hcalls, List.getElem?_map, hg]; rfl
    · simp [settleCall, Err.closing, hctx]
    · simp [settleCall, Err.closing, hctx]
    · simp [settleCall, Err.closing, hctx, hreg]
    · rw [hoc, hf.1]; simp [modCall]

/-! ## C02 — every incoming call is answered exactly once (connection level) -/

/-- **answer_at_most_once.** In every reachable state every incoming request has had at most one
response write attempted and at most one response delivered to the transport; a call that has left
processResult (parked before P2, or finished) had exactly one attempted. -/
theorem answer_at_most_once (ls : List Label) (s : St) (h : run {} ls = some s) :
    ∀ (r : Nat) (k : ReqCore), s.cores[r]? = some k →
      k.wrote ≤ 1 ∧ k.responses ≤ k.wrote ∧ (k.isCall = true → (k.pc = .p2 ∨ k.pc = .fin) → k.wrote = 1) := by
  have i := rinv_run ls rinv_init h
  intro r k hk
  exact (i.ok r k hk).post

/-- **notification_unanswered.** A request without an id (a notification, or — see the known finding
F3 — a call whose id was already in flight and was therefore stripped of it at A1) never enters the
response path: no response is ever attempted for it. -/
theorem notification_unanswered (ls : List Label) (s : St) (h : run {} ls = some s) :
    ∀ (r : Nat) (k : ReqCore), s.cores[r]? = some k → k.isCall = false → k.wrote = 0 ∧ k.responses = 0 := by
  have i := rinv_run ls rinv_init h
  intro r k hk hc
  have o := i.ok r k hk
  have := o.post.2.1
  exact ⟨(o.notif hc).1, by have := (o.notif hc).1; omega⟩

/-- **incoming_exact.** `incoming` counts exactly the requests that were accepted (A1 done) and whose
processResult has not finished (P2 not done); in particular it never underflows: the
"processResult called when incoming count is already zero" panic is unreachable. -/
theorem incoming_exact (ls : List Label) (s : St) (h : run {} ls = some s) :
    s.panicIncoming = false ∧ s.incoming = countInflight s.cores := by
  have i := rinv_run ls rinv_init h
  exact ⟨i.nopanic, i.cnt⟩

/-- **indexed_iff_unanswered.** `incomingByID` maps a wire id to request `r` exactly while `r` is a call
with that id that has not reached the point (P1) where its response is produced; ids in the index are
unique, so `Cancel(id)` can only ever find the one unanswered request bearing that id. -/
theorem indexed_iff_unanswered (ls : List Label) (s : St) (h : run {} ls = some s) :
    (s.byID.map (·.1)).Nodup ∧
    ∀ (r : Nat) (k : ReqCore), s.cores[r]? = some k → ∀ id, ((id, r) ∈ s.byID ↔ (k.isCall = true ∧ k.id = some id ∧ k.pc.indexed = true)) := by
  have i := rinv_run ls rinv_init h
  exact ⟨i.keys, fun r k hk id => (i.ok r k hk).idx id⟩

/-- **usable_write_reaches_transport.** While the connection is usable (not closing, reader and writer
healthy) the response of a request parked at the write gate is handed to the transport. -/
theorem usable_write_reaches_transport (s s' : St) (r : Nat) (k : ReqCore) (hk : s.cores[r]? = some k)
    (hpc : k.pc = .w1) (husable : s.shuttingDown = false) (h : step s (.w1 (.resp r)) = some s') :
    ∃ k', s'.cores[r]? = some k' ∧ k'.pc = .wr := by
  simp only [step, Option.map_eq_some_iff] at h
  obtain ⟨s0, h0, rfl⟩ := h
  simp only [step0, hk] at h0
  have hg : gateOpen (modCore s r fun q => { q with wrote := q.wrote + 1 }) false = true := by
    simp [gateOpen, St.shuttingDown, modCore] at husable ⊢; simp [St.shuttingDown, husable]
  simp [hpc, hg] at h0
  subst h0
  have hc := congrArg ReqView.cores (reqView_settle
    (tail (modCore (modCore s r fun q => { q with wrote := q.wrote + 1 }) r fun q => { q with pc := .wr })))
  simp only [reqView, tail_cores] at hc
  refine ⟨{ k with wrote := k.wrote + 1, pc := .wr }, ?_, rfl⟩
  rw [hc]; simp [modCore, List.getElem?_modify, hk]

end Conn
