import McpModel.Conn.DispInv
import McpModel.Conn.Usable
/-!
# Property theorems for E1 — the jsonrpc2 connection (C01–C05)

All theorems quantify over **every label list** `ls` (every interleaving of every number of callers,
notifiers, incoming requests, responses in any order with any ids, reader failure, write outcomes
(ok / broken / rejected / cancelled), context cancellations, Close and Wait calls) executed from the
initial state `{}` of the model `Conn.step` (one label = one atomic section of conn.go).
-/
namespace Conn

/-! ## C01 — every outgoing call completes exactly once, with its own response or an error -/

/-- **retire_at_most_once.** In every reachable state each call's `AsyncCall.retire` has run at most
once — exactly once iff its outcome is fixed — and the "retire called twice" panic is unreachable. -/
theorem retire_at_most_once (ls : List Label) (s : St) (h : run {} ls = some s) :
    s.panicRetire = false ∧
    ∀ n c, getCall s n = some c → c.retires ≤ 1 ∧ (c.retires = 1 ↔ c.ready.isSome = true) := by
  have i := cinv_run ls cinv_init h
  refine ⟨i.nopanic, fun n c hc => ?_⟩
  have := (i.ok n c hc).retires
  cases hr : c.ready <;> simp [hr] at this ⊢ <;> omega

/-- **registered_iff_unretired.** The `outgoingCalls` table holds exactly the calls that were registered
and whose outcome is not fixed yet, each once: removal from the table is the single completion point. -/
theorem registered_iff_unretired (ls : List Label) (s : St) (h : run {} ls = some s) :
    s.outCalls.Nodup ∧
    ∀ n c, getCall s n = some c → (n ∈ s.outCalls ↔ (c.registered = true ∧ c.ready = none)) := by
  have i := cinv_run ls cinv_init h
  exact ⟨i.nodup, fun n c hc => (i.ok n c hc).reg⟩

/-- **response_is_own.** If a call completed with a response payload `p`, then the reader took a
response message carrying *this call's id* and payload `p` off the wire (`respLog` records, at RR,
every (id, payload) the reader matched); a call never receives the response to a different call, and
what `call()` returns is that very payload. -/
theorem response_is_own (ls : List Label) (s : St) (h : run {} ls = some s) :
    ∀ n c p, getCall s n = some c →
      (c.ready = some (.resp p) → (n, p) ∈ s.respLog) ∧
      (c.result = some (.resp p) → c.ready = some (.resp p) ∧ (n, p) ∈ s.respLog) := by
  have i := cinv_run ls cinv_init h
  intro n c p hc
  have o := i.ok n c hc
  refine ⟨o.own p, fun hr => ?_⟩
  rcases (o.result _ hr).2 with h1 | ⟨h1, _⟩
  · exact ⟨h1, o.own p h1⟩
  · cases h1

/-- **completed_has_outcome.** A call whose `call()` has returned has a fixed outcome (it was retired,
or it never registered because the connection was shutting down), and what it returned is either
that outcome or the context's error after the caller's context ended. -/
theorem completed_has_outcome (ls : List Label) (s : St) (h : run {} ls = some s) :
    ∀ n c, getCall s n = some c → c.pc = .fin →
      c.ready.isSome = true ∧ ∃ r, c.result = some r ∧ (c.ready = some r ∨ (r = .err .ctx ∧ c.ctxDone = true)) := by
  have i := cinv_run ls cinv_init h
  intro n c hc hf
  have o := i.ok n c hc
  obtain ⟨h1, h2⟩ := o.fin hf
  cases hr : c.result with
  | none => simp [hr] at h1
  | some r => exact ⟨h2, r, rfl, (o.result r hr).2⟩

/-- **await_wait_free.** After every label no caller is left blocked in `Await` once its call is ready
or its context is done: the caller's next step needs nobody else (it has returned, or it is parked
before its own eager `Retire`). -/
theorem await_wait_free (s s' : St) (l : Label) (h : step s l = some s') :
    ∀ n c, getCall s' n = some c → c.pc = .await → c.ready = none ∧ c.ctxDone = false := by
  simp only [step, Option.map_eq_some_iff] at h
  obtain ⟨s0, _, rfl⟩ := h
  intro n c hc hpc
  have hcalls : (settle s0).calls = s0.calls.map settleCall := by
    have := congrArg CallView.calls (show callView (settle s0) = callView (settleCalls s0) by simp [settle])
    simpa [callView, settleCalls] using this
  simp only [getCall_eq, hcalls, List.getElem?_map] at hc
  by_cases hn : n = 0
  · simp [hn] at hc
  · simp only [hn, if_false] at hc
    cases h0 : s0.calls[n - 1]? with
    | none => simp [h0] at hc
    | some c0 =>
      simp [h0] at hc; subst hc
      unfold settleCall at hpc ⊢
      split at hpc
      · split at hpc
        · split at hpc
          · simp at hpc
          · split at hpc <;> simp at hpc
        · split at hpc <;> simp at hpc
        · rename_i hr
          split at hpc
          · simp at hpc
          · rename_i hctx
            simp_all
      · rename_i hne; exact absurd hpc hne

/-- **refused_when_shutting_down.** A call that reaches its registration point (C1) while the
connection is closing or its reader or writer has failed is completed at once with the
"client closing" class of error, which `mcp.call` reports as `ErrConnectionClosed`; it is never
registered and never written. -/
theorem refused_when_shutting_down (ls : List Label) (s s' : St) (hr : run {} ls = some s)
    (n : Nat) (c : Call) (hc : getCall s n = some c)
    (hctx : c.ctxDone = false) (hsd : s.shuttingDown = true) (h : step s (.c1 n) = some s') :
    ∃ c', getCall s' n = some c' ∧ c'.pc = .fin ∧ c'.result = some (.err .clientClosing) ∧
      c'.registered = false ∧ s'.outCalls = s.outCalls := by
  have i := cinv_run ls cinv_init hr
  have hn := getCall_some_pos hc
  simp only [step, Option.map_eq_some_iff] at h
  obtain ⟨s0, h0, rfl⟩ := h
  simp only [step0, hc] at h0
  split at h0
  · cases h0
  · rename_i hpc
    have hpc : c.pc = .c1 := by simpa using hpc
    obtain ⟨hreg, hready⟩ := (i.ok n c hc).fresh hpc
    cases h0
    have hc2 : getCall (modCall (tail s) n fun c => { c with pc := .await }) n = some { c with pc := .await } := by
      rw [getCall_modCall _ _ _ _ hn.1]; simp [hc]
    have hg := getCall_retireIn _ n n _ (.err .clientClosing) hc2 hready
    have hf := retireIn_frame _ n _ (.err .clientClosing) hc2 hready
    simp only [if_true] at hg
    have hv : callView (settle (retireIn (modCall (tail s) n fun c => { c with pc := .await }) n (.err .clientClosing))) =
        callView (settleCalls (retireIn (modCall (tail s) n fun c => { c with pc := .await }) n (.err .clientClosing))) := by
      simp [settle]
    have hcalls := congrArg CallView.calls hv
    have hoc := congrArg CallView.outCalls hv
    simp only [callView, settleCalls] at hcalls hoc
    refine ⟨settleCall { c with pc := .await, ready := some (.err .clientClosing), retires := c.retires + 1 }, ?_, ?_, ?_, ?_, ?_⟩
    · simp only [getCall_eq] at hg ⊢
      have hn0 : n ≠ 0 := by omega
      simp only [hn0, if_false] at hg ⊢
      rw [hcalls, List.getElem?_map, hg]; rfl
    · simp [settleCall, Err.closing, hctx]
    · simp [settleCall, Err.closing, hctx]
    · simp [settleCall, Err.closing, hctx, hreg]
    · rw [hoc, hf.1]; simp [modCall]

/-! ## C02 — every incoming call is answered exactly once (connection level) -/

/-- **answer_at_most_once.** In every reachable state every incoming request has had at most one
response write attempted and at most one response delivered to the transport; a call that has left
processResult (parked before P2, or finished) had exactly one attempted. -/
theorem answer_at_most_once (ls : List Label) (s : St) (h : run {} ls = some s) :
    ∀ (r : Nat) (k : ReqCore), s.cores[r]? = some k →
      k.wrote ≤ 1 ∧ k.responses ≤ k.wrote ∧ (k.isCall = true → (k.pc = .p2 ∨ k.pc = .fin) → k.wrote = 1) := by
  have i := rinv_run ls rinv_init h
  intro r k hk
  exact (i.ok r k hk).post

/-- **notification_unanswered.** A request without an id (a notification, or — see the known finding
F3 — a call whose id was already in flight and was therefore stripped of it at A1) never enters the
response path: no response is ever attempted for it. -/
theorem notification_unanswered (ls : List Label) (s : St) (h : run {} ls = some s) :
    ∀ (r : Nat) (k : ReqCore), s.cores[r]? = some k → k.isCall = false → k.wrote = 0 ∧ k.responses = 0 := by
  have i := rinv_run ls rinv_init h
  intro r k hk hc
  have o := i.ok r k hk
  have := o.post.2.1
  exact ⟨(o.notif hc).1, by have := (o.notif hc).1; omega⟩

/-- **incoming_exact.** `incoming` counts exactly the requests that were accepted (A1 done) and whose
processResult has not finished (P2 not done); in particular it never underflows: the
"processResult called when incoming count is already zero" panic is unreachable. -/
theorem incoming_exact (ls : List Label) (s : St) (h : run {} ls = some s) :
    s.panicIncoming = false ∧ s.incoming = countInflight s.cores := by
  have i := rinv_run ls rinv_init h
  exact ⟨i.nopanic, i.cnt⟩

/-- **indexed_iff_unanswered.** `incomingByID` maps a wire id to request `r` exactly while `r` is a call
with that id that has not reached the point (P1) where its response is produced; ids in the index are
unique, so `Cancel(id)` can only ever find the one unanswered request bearing that id. -/
theorem indexed_iff_unanswered (ls : List Label) (s : St) (h : run {} ls = some s) :
    (s.byID.map (·.1)).Nodup ∧
    ∀ (r : Nat) (k : ReqCore), s.cores[r]? = some k → ∀ id, ((id, r) ∈ s.byID ↔ (k.isCall = true ∧ k.id = some id ∧ k.pc.indexed = true)) := by
  have i := rinv_run ls rinv_init h
  exact ⟨i.keys, fun r k hk id => (i.ok r k hk).idx id⟩

/-- **response_reaches_transport_unless_writer_broken.** The response of a request parked at the write
gate is handed to the transport whenever the writer is not known to be broken — also while the
connection is shutting down (a graceful Close delivers the results of the handlers it lets finish). -/
theorem response_reaches_transport_unless_writer_broken (s s' : St) (r : Nat) (k : ReqCore)
    (hk : s.cores[r]? = some k) (hpc : k.pc = .w1) (hw : s.writeErr = false)
    (h : step s (.w1 (.resp r)) = some s') :
    ∃ k', s'.cores[r]? = some k' ∧ k'.pc = .wr := by
  simp only [step, Option.map_eq_some_iff] at h
  obtain ⟨s0, h0, rfl⟩ := h
  simp only [step0, hk] at h0
  simp [hpc, hw] at h0
  subst h0
  have hc := congrArg ReqView.cores (reqView_settle
    (tail (modCore (modCore s r fun q => { q with wrote := q.wrote + 1 }) r fun q => { q with pc := .wr })))
  simp only [reqView, tail_cores] at hc
  refine ⟨{ k with wrote := k.wrote + 1, pc := .wr }, ?_, rfl⟩
  rw [hc]; simp [modCore, List.getElem?_modify, hk]

/-- **usable_write_reaches_transport.** While the connection is usable (not closing, reader and writer
healthy) the response of a request parked at the write gate is handed to the transport. -/
theorem usable_write_reaches_transport (s s' : St) (r : Nat) (k : ReqCore) (hk : s.cores[r]? = some k)
    (hpc : k.pc = .w1) (husable : s.shuttingDown = false) (h : step s (.w1 (.resp r)) = some s') :
    ∃ k', s'.cores[r]? = some k' ∧ k'.pc = .wr := by
  refine response_reaches_transport_unless_writer_broken s s' r k hk hpc ?_ h
  simp [St.shuttingDown] at husable; simp [husable]

/-! ## C05 — Close is graceful, terminates, leaves nothing running (safety part) -/

/-- **no_panic_state.** None of the panics of conn.go is reachable: `retire` twice, `incoming` already
zero in processResult, non-idle after done. -/
theorem no_panic_state (ls : List Label) (s : St) (h : run {} ls = some s) : s.panicked = false := by
  have i := inv_run ls inv_init h
  have h3 : s.panicIdle = false := i.flags.np
  have h2 : s.panicIncoming = false := i.reqs.nopanic
  simp [St.panicked, i.calls.nopanic, h2, h3]

/-- **transport_closed_at_most_once / done_once.** The transport's `Close` is called at most once (exactly
once iff the closer was consumed), `onDone` runs at most once — exactly when `done` is closed — so the
session is removed from its Client/Server exactly once. -/
theorem closed_and_done_once (ls : List Label) (s : St) (h : run {} ls = some s) :
    s.transportCloses = (if s.closerUsed then 1 else 0) ∧ s.onDone = (if s.done then 1 else 0) := by
  have i := inv_run ls inv_init h
  exact ⟨i.flags.tc, i.flags.od⟩

/-- **done_implies_quiescent.** Once `done` is closed (Close and every Wait may return) nothing is in
flight: no registered outgoing call, no outgoing notification being written, no unanswered incoming
request, no dispatcher, the reader has exited, the transport has been closed, and the connection is
shutting down. -/
theorem done_implies_quiescent (ls : List Label) (s : St) (h : run {} ls = some s) (hd : s.done = true) :
    s.outCalls = [] ∧ s.outNotifs = 0 ∧ s.incoming = 0 ∧ s.handlerRunning = false ∧ s.byID = [] ∧
    s.shuttingDown = true ∧ s.reading = false ∧ s.closerUsed = true := by
  have i := inv_run ls inv_init h
  obtain ⟨h1, h2, h3, h4⟩ := i.flags.dn hd
  have ho := idle_outCalls h1
  simp only [fview, FV.idle, Bool.and_eq_true, beq_iff_eq, Bool.not_eq_true'] at h1
  exact ⟨ho, h1.1.1.2, h1.1.2, h1.2, rinv_byID_empty i.reqs h1.1.2, h2, h3, h4⟩

/-- **transport_closed_only_when_idle.** The only place the transport is closed is the common tail of a
critical section, and only in a state that is idle and shutting down: running handlers, pending
outgoing calls and notifications being written all come first. -/
theorem transport_closed_only_when_idle (s : St) (h : (tail s).transportCloses ≠ s.transportCloses) :
    s.idle = true ∧ s.shuttingDown = true := by
  unfold tail finish closeTransport at h
  by_cases hd : s.done = true
  · simp only [hd, if_true] at h; split at h <;> exact absurd rfl h
  · simp only [hd, if_false] at h
    by_cases hc : (s.idle && s.shuttingDown) = true
    · simpa using hc
    · simp only [hc] at h; exact absurd rfl h

/-- **close_cancels_nothing.** The critical section of `Close` only sets `connClosing`: no handler context
is cancelled, no queued request is dropped, no call is retired — handlers that are already running run
to completion. -/
theorem close_cancels_nothing (s s' : St) (h : step s .cl1 = some s') :
    s'.metas = s.metas ∧ s'.cores = s.cores ∧ s'.queue = s.queue ∧ s'.outCalls = s.outCalls ∧ s'.closing = true := by
  simp only [step, Option.map_eq_some_iff] at h
  obtain ⟨s0, h0, rfl⟩ := h
  simp only [step0] at h0
  split at h0
  · cases h0
  · cases h0
    have e1 : ∀ X : St, (settle X).metas = X.metas := fun X => settle_metas X
    have e2 : ∀ X : St, (settle X).cores = X.cores := fun X => congrArg ReqView.cores (reqView_settle X)
    have e3 : ∀ X : St, (settle X).queue = X.queue := fun X => congrArg ReqView.queue (reqView_settle X)
    have e4 : ∀ X : St, (settle X).outCalls = X.outCalls := fun X => by
      have := congrArg CallView.outCalls (show callView (settle X) = callView (settleCalls X) by simp [settle])
      simpa [callView, settleCalls] using this
    have e5 : ∀ X : St, (settle X).closing = X.closing := fun X => congrArg FV.closing (fview_settle X)
    have t5 : ∀ X : St, (tail X).closing = X.closing := fun X => tail_closing X
    refine ⟨by rw [e1]; simp, by rw [e2]; simp, by rw [e3]; simp, by rw [e4]; simp, by rw [e5, t5]⟩

/-- **no_dispatch_after_shutdown.** A request that reaches the enqueue point (A2) while the connection
is closing or broken is not handed to the handler: it goes straight to processResult (a call is
answered with the closing error if the writer still accepts it), and the handler queue is unchanged,
so after Close begins the queue can only shrink. -/
theorem no_dispatch_after_shutdown (s s' : St) (r : Nat) (hsd : s.shuttingDown = true)
    (h : step s (.a2 r) = some s') : s'.queue = s.queue ∧ ∃ k, s'.cores[r]? = some k ∧ (k.pc = .p1 ∨ k.pc = .p2) := by
  simp only [step, Option.map_eq_some_iff] at h
  obtain ⟨s0, h0, rfl⟩ := h
  simp only [step0] at h0
  split at h0
  · cases h0
  · rename_i q hq
    split at h0
    · cases h0
    · cases h0
      have hv := reqView_settle (tail (beginPR (modMeta s r fun q => { q with rejected := true }) r .reader))
      rw [reqView_tail, reqView_beginPR] at hv
      have e3 := congrArg ReqView.queue hv
      have e2 := congrArg ReqView.cores hv
      simp only [reqView, ReqView.mod] at e3 e2
      refine ⟨e3, ?_⟩
      rw [e2]
      have hget : (s.cores.modify r fun k => { k with owner := Owner.reader, pc := if k.isCall then ReqPc.p1 else ReqPc.p2 })[r]? =
          some { q with owner := .reader, pc := if q.isCall then .p1 else .p2 } := by
        simp [List.getElem?_modify, hq]
      refine ⟨_, hget, ?_⟩
      by_cases hc : q.isCall = true
      · exact Or.inl (by simp [hc])
      · exact Or.inr (by simp [hc])

/-! ## C01, continued: nothing stays blocked after termination -/

theorem await_inv_aux (ls : List Label) : ∀ (s0 s : St),
    (∀ n c, getCall s0 n = some c → c.pc = .await → c.ready = none ∧ c.ctxDone = false) →
    run s0 ls = some s → ∀ n c, getCall s n = some c → c.pc = .await → c.ready = none ∧ c.ctxDone = false := by
  induction ls with
  | nil => intro s0 s h0 hr; simp [run] at hr; exact hr ▸ h0
  | cons l ls ih =>
    intro s0 s _ hr
    simp only [run] at hr
    split at hr
    · cases hr
    · rename_i s1 h1
      exact ih s1 s (await_wait_free s0 s1 l h1) hr

theorem await_inv (ls : List Label) (s : St) (h : run {} ls = some s) :
    ∀ n c, getCall s n = some c → c.pc = .await → c.ready = none ∧ c.ctxDone = false :=
  await_inv_aux ls {} s (fun n c hc => by simp [getCall_eq] at hc) h

/-- **done_implies_all_completed.** After termination (`done` closed: the session's Wait has returned)
every call that was ever registered has its outcome fixed, and no caller is blocked in `Await`:
a call never stays blocked once the session has terminated. -/
theorem done_implies_all_completed (ls : List Label) (s : St) (h : run {} ls = some s) (hd : s.done = true) :
    ∀ n c, getCall s n = some c → (c.registered = true → c.ready.isSome = true) ∧ c.pc ≠ .await := by
  have i := inv_run ls inv_init h
  have hoc := (done_implies_quiescent ls s h hd).1
  intro n c hc
  have o := i.calls.ok n c hc
  have hreg : c.registered = true → c.ready.isSome = true := by
    intro hr
    cases hrd : c.ready with
    | some _ => rfl
    | none => have := o.reg.mpr ⟨hr, hrd⟩; rw [hoc] at this; cases this
  refine ⟨hreg, fun hpc => ?_⟩
  obtain ⟨hnone, _⟩ := await_inv ls s h n c hc hpc
  by_cases hr : c.registered = true
  · have := hreg hr; simp [hnone] at this
  · have := o.refused (by simpa using hr) (by simp [hpc]); simp [hnone] at this

/-- **call_after_termination_fails_closed.** A call started after termination reaches C1 in a
shutting-down state and therefore completes at once with the closed-connection error
(see `refused_when_shutting_down`). -/
theorem done_is_shutting_down (ls : List Label) (s : St) (h : run {} ls = some s) (hd : s.done = true) :
    s.shuttingDown = true := (done_implies_quiescent ls s h hd).2.2.2.2.2.1

/-! ## C03 — in-order dispatch -/

/-- **dispatch_fifo.** In every reachable state, handlers were entered in arrival order: if requests
`i < j` (arrival numbers) have both been handed to the handler, `i`'s start stamp is smaller. The
handler queue itself is in arrival order and holds only requests that arrived after every request
already started. -/
theorem dispatch_fifo (ls : List Label) (s : St) (h : run {} ls = some s) :
    (∀ (i j : Nat) (mi mj : ReqMeta) (ti tj : Nat), i < j → s.metas[i]? = some mi → s.metas[j]? = some mj →
      mi.started = some ti → mj.started = some tj → ti < tj) ∧
    s.queue.Pairwise (· < ·) ∧
    (∀ q ∈ s.queue, ∀ (j : Nat) (m : ReqMeta), s.metas[j]? = some m → m.started.isSome = true → j < q) := by
  have i := (inv2_run ls inv2_init h).disp
  refine ⟨?_, i.sorted, ?_⟩
  · intro a b ma mb ta tb hab hma hmb hta htb
    exact i.fifo a b ma.mcore mb.mcore ta tb hab (by simp [dview, hma]) (by simp [dview, hmb]) hta htb
  · intro q hq j m hm hs
    exact i.above q hq j m.mcore (by simp [dview, hm]) hs

/-- **sync_finishes_before_next_starts.** Whenever the dispatcher is about to take the next request
(it is parked at D1 — the only label that enters a handler), every handler started so far has either
declared itself asynchronous (`Async`) or its request is completely finished, processResult
included (response written or refused, `incoming` decremented). So the handler of a notification —
and of any call that does not call `Async`, such as `initialize` — finishes before the handler of any
later message starts. -/
theorem sync_finishes_before_next_starts (ls : List Label) (s : St) (h : run {} ls = some s) (hd : s.disp = .d1) :
    ∀ (i : Nat) (m : ReqMeta) (k : ReqCore), s.metas[i]? = some m → s.cores[i]? = some k →
      m.started.isSome = true → m.asyncCalled = true ∨ k.pc = .fin := by
  have iv := (inv2_run ls inv2_init h).disp
  intro i m k hm hk hs
  have hmm : (dview s).ms[i]? = some m.mcore := by simp [dview, hm]
  have hrel : m.released = true := by
    cases hr : m.released with
    | true => rfl
    | false =>
      have := iv.unrel i m.mcore hmm hs hr
      simp [dview, hd] at this
  exact iv.rel i m.mcore k hmm hk hrel

/-- **started_earlier_released.** A handler that was started earlier than another one had released the
dispatcher (Async or completely finished) — in every reachable state, for every pair. -/
theorem started_earlier_released (ls : List Label) (s : St) (h : run {} ls = some s) :
    ∀ (i j : Nat) (mi mj : ReqMeta) (ki : ReqCore) (ti tj : Nat), s.metas[i]? = some mi → s.metas[j]? = some mj →
      s.cores[i]? = some ki → mi.started = some ti → mj.started = some tj → ti < tj →
      mi.asyncCalled = true ∨ ki.pc = .fin := by
  have iv := (inv2_run ls inv2_init h).disp
  intro i j mi mj ki ti tj hmi hmj hki hti htj hlt
  have h1 : (dview s).ms[i]? = some mi.mcore := by simp [dview, hmi]
  have h2 : (dview s).ms[j]? = some mj.mcore := by simp [dview, hmj]
  have hrel := iv.prev i j mi.mcore mj.mcore ti tj h1 h2 hti htj hlt
  exact iv.rel i mi.mcore ki h1 hki hrel

/-- **single_dispatcher.** There is a dispatcher goroutine exactly while `handlerRunning` is set; when it
runs processResult itself (request cancelled before dispatch) it is busy with exactly that request,
and it waits for exactly the one started handler that has not released it. -/
theorem single_dispatcher (ls : List Label) (s : St) (h : run {} ls = some s) :
    s.handlerRunning = (s.disp != .none) ∧
    (∀ (r : Nat) (k : ReqCore), s.cores[r]? = some k → k.owner = .dispatcher → k.pc.inPR = true → s.disp = .busy r) ∧
    (∀ (r : Nat) (m : ReqMeta), s.metas[r]? = some m → m.started.isSome = true → m.released = false → s.disp = .waiting r) := by
  have iv := (inv2_run ls inv2_init h).disp
  refine ⟨iv.hr, iv.dsp, ?_⟩
  intro r m hm hs hr
  exact iv.unrel r m.mcore (by simp [dview, hm]) hs hr

end Conn

namespace Conn

/-! ## C04 — cancellation -/

theorem settle_metas' (X : St) : (settle X).metas = X.metas := settle_metas X

/-- **cancel_hits_only_matching.** `Cancel(id)` cancels the context of exactly the request currently
indexed under `id` (if any) and of no other request; it changes no bookkeeping. -/
theorem cancel_hits_only_matching (s s' : St) (id : Nat) (h : step s (.k1 id) = some s') :
    s'.cores = s.cores ∧ s'.byID = s.byID ∧
    ∀ (r : Nat), s'.metas[r]? ≠ s.metas[r]? → s.byID.lookup id = some r := by
  simp only [step, Option.map_eq_some_iff] at h
  obtain ⟨s0, h0, rfl⟩ := h
  simp only [step0] at h0
  split at h0
  · cases h0
  · have e2 : ∀ X : St, (settle X).cores = X.cores := fun X => congrArg ReqView.cores (reqView_settle X)
    have e3 : ∀ X : St, (settle X).byID = X.byID := fun X => congrArg ReqView.byID (reqView_settle X)
    split at h0 <;> cases h0
    · rename_i r hl
      have hl' : s.byID.lookup id = some r := by simpa using hl
      refine ⟨by rw [e2]; simp, by rw [e3]; simp, ?_⟩
      intro j hj
      rw [settle_metas] at hj
      by_cases hjr : j = r
      · subst hjr; exact hl'
      · exfalso; apply hj
        simp [cancelReq, modMeta, List.getElem?_modify, Ne.symm hjr]
    · refine ⟨by rw [e2]; simp, by rw [e3]; simp, ?_⟩
      intro j hj; exfalso; apply hj; rw [settle_metas]; simp

/-- **late_response_discarded.** A response whose id is not (or no longer) registered — a late answer to
an abandoned call, a duplicate, an id never issued — changes nothing but the ghost log. -/
theorem late_response_discarded (s s' : St) (id p : Nat) (hrd : s.reader = .rr id p) (hno : id ∉ s.outCalls)
    (h : step0 s .rresp = some s') : s'.calls = s.calls ∧ s'.outCalls = s.outCalls ∧ s'.cores = s.cores := by
  simp only [step0, hrd] at h
  have hc : s.outCalls.contains id = false := by simpa using hno
  simp only [hc] at h
  cases h
  exact ⟨by simp, by simp, by simp⟩

end Conn

namespace Conn

/-- **cancel_returns_without_peer.** A caller whose context has ended is parked before its own eager
`Retire` (never blocked in `Await`, see `await_wait_free`); that step is enabled whatever the peer and
the transport do — it waits for nobody. It completes the call with the context's error
(`completed_has_outcome`); the cancellation notice is a separate goroutine (`cnotifs`) that the caller
never waits for. -/
theorem cancel_returns_without_peer (s : St) (n : Nat) (c : Call) (hc : getCall s n = some c) (hpc : c.pc = .rc) :
    ∃ s', step s (.retire n) = some s' := by
  simp only [step, step0, hc, hpc]
  exact ⟨_, rfl⟩

/-- **notify_allowed_while_draining.** During shutdown an outgoing notification is admitted exactly while
some call is still in flight in either direction (so cancellations can still be delivered); otherwise
it is refused with the closing error. -/
theorem notify_allowed_while_draining (s s' : St) (w : Who) (nf : Notif) (hnf : getNotif s w = some nf) (hpc : nf.pc = .n1)
    (h : step0 s (.n1 w) = some s') :
    (s'.outNotifs = s.outNotifs + 1 ↔ ¬ (s.outCalls.isEmpty = true ∧ s.byID.isEmpty = true ∧ s.shuttingDown = true)) := by
  have t1 : ∀ X : St, (tail X).outNotifs = X.outNotifs := fun X => by
    unfold tail finish closeTransport; repeat' split
    all_goals rfl
  have t2 : ∀ (X : St) (f : Notif → Notif), (setNotif X w f).outNotifs = X.outNotifs := fun X f => congrArg FV.outNotifs (fview_setNotif X w f)
  simp only [step0, hnf] at h
  split at h
  · rename_i hne; exact absurd hpc hne
  · split at h
    · rename_i hc
      cases h
      simp only [Bool.and_eq_true] at hc
      rw [t1, t2]
      simp [hc.1.1, hc.1.2, hc.2]
    · rename_i hc
      cases h
      simp only [Bool.and_eq_true, not_and] at hc
      rw [t1, t2]
      simp only [true_iff]
      intro ⟨a, b, c⟩; exact hc ⟨a, b⟩ c

/-! ## C01, continued: after the reader failed nothing is registered any more -/

theorem oc_retireIn (s : St) (n : Nat) (r : Res) : (retireIn s n r).outCalls = s.outCalls :=
  congrArg FV.outCalls (fview_retireIn s n r)
theorem oc_foldl_retire (l : List Nat) (r : Res) (s : St) :
    (l.foldl (fun s n => retireIn s n r) s).outCalls = s.outCalls :=
  congrArg FV.outCalls (fview_foldl_retire l r s)
theorem oc_foldl_cancel (l : List (Nat × Nat)) (c : Cause) (s : St) :
    (l.foldl (fun s p => cancelReq s p.2 c) s).outCalls = s.outCalls :=
  congrArg FV.outCalls (fview_foldl_cancel l c s)
theorem oc_markBroken (s : St) : (markBroken s).outCalls = s.outCalls :=
  congrArg CallView.outCalls (callView_markBroken s)
theorem oc_setNotif (s : St) (w : Who) (f : Notif → Notif) : (setNotif s w f).outCalls = s.outCalls :=
  congrArg FV.outCalls (fview_setNotif s w f)
theorem oc_settle (s : St) : (settle s).outCalls = s.outCalls := congrArg FV.outCalls (fview_settle s)
theorem readErr_settle (s : St) : (settle s).readErr = s.readErr := congrArg FV.readErr (fview_settle s)

set_option maxRecDepth 8000 in
/-- The table of registered calls grows only at a C1 that is admitted (connection not shutting down). -/
theorem outCalls_step0 {s s' : St} {l : Label} (h : step0 s l = some s') :
    ∀ x ∈ s'.outCalls, x ∈ s.outCalls ∨ (l = .c1 x ∧ s.shuttingDown = false) := by
  by_cases hl : l.touchesCalls = false
  · have hv : s'.outCalls = s.outCalls := congrArg CallView.outCalls (frame_calls s s' l h hl)
    intro x hx; left; rw [← hv]; exact hx
  · cases l <;> simp [Label.touchesCalls] at hl <;> simp only [step0] at h
    all_goals (repeat' (split at h))
    all_goals first
      | (simp at h; done)
      | (simp at hl; done)
      | (injection h with h; subst h; intro x hx
         try simp only [tail_outCalls, oc_retireIn, oc_foldl_cancel, oc_markBroken, oc_setNotif, modCall] at hx
         first
           | (left; exact hx)
           | (simp at hx; done)
           | (left; exact List.mem_of_mem_erase hx)
           | (rename_i hsd; simp only [List.mem_append, List.mem_singleton] at hx
              rcases hx with hx | rfl
              · left; exact hx
              · right; exact ⟨rfl, by simpa using hsd⟩))

theorem FV.tail_readErr (v : FV) : v.tail.readErr = v.readErr := by
  unfold FV.tail
  cases hd : v.done <;> cases hcu : v.closerUsed <;> cases hrd : v.reading <;>
    cases hidle : v.idle <;> cases hsd : v.shuttingDown <;> simp [hrd]

theorem readErr_setNotif (s : St) (w : Who) (f : Notif → Notif) : (setNotif s w f).readErr = s.readErr :=
  congrArg FV.readErr (fview_setNotif s w f)

theorem readErr_tail (s : St) : (tail s).readErr = s.readErr := by
  have := congrArg FV.readErr (fview_tail s)
  rw [FV.tail_readErr] at this
  exact this

/-- `readErr` is set by the reader's exit section RX and by nothing else, and RX empties the table. -/
theorem readErr_step0 {s s' : St} {l : Label} (h : step0 s l = some s') (hr : s'.readErr = true) :
    s.readErr = true ∨ (l = .rx ∧ s'.outCalls = []) := by
  by_cases hb : l.breaks = false
  · left; rw [← (flags_only_by s s' l h hb).2.1]; exact hr
  · cases l <;> simp [Label.breaks] at hb <;> simp only [step0] at h
    case cl1 =>
      split at h
      · cases h
      · cases h; left; rw [readErr_tail] at hr; exact hr
    case rx =>
      split at h
      · cases h
      · cases h; right; exact ⟨rfl, by simp [tail_outCalls, oc_foldl_cancel]⟩
    case w2 w =>
      left
      have hm : (markBroken s).readErr = s.readErr := by
        unfold markBroken; split
        · rfl
        · exact (foldl_cancel_flags s.byID .write { s with writeErr := true }).2.1
      repeat' (split at h)
      all_goals first
        | (cases h; done)
        | (cases h
           have h2 : ∀ (X : St) r, (toP2 X r).readErr = X.readErr := fun _ _ => rfl
           have h3 : ∀ (X : St) n (f : Call → Call), (modCall X n f).readErr = X.readErr := fun _ _ _ => rfl
           simp only [readErr_tail, readErr_setNotif, h2, h3] at hr
           exact hm ▸ hr)

/-- `readErr` is never cleared, and RX sets it. -/
theorem readErr_mono_step0 {s s' : St} {l : Label} (h : step0 s l = some s') (hr : s.readErr = true ∨ l = .rx) :
    s'.readErr = true := by
  by_cases hb : l.breaks = false
  · rw [(flags_only_by s s' l h hb).2.1]
    rcases hr with hr | rfl
    · exact hr
    · simp [Label.breaks] at hb
  · cases l <;> simp [Label.breaks] at hb <;> simp only [step0] at h
    case cl1 =>
      split at h
      · cases h
      · cases h; rw [readErr_tail]; rcases hr with hr | hr
        · exact hr
        · cases hr
    case rx =>
      split at h
      · cases h
      · cases h
        rw [readErr_tail, (foldl_cancel_flags _ _ _).2.1]
        show (List.foldl (fun s n => retireIn s n (Res.err Err.read)) _ s.outCalls).readErr = true
        have := congrArg FV.readErr (fview_foldl_retire s.outCalls (.err .read)
          { s with reader := .gone, reading := false, readErr := true })
        exact this
    case w2 w =>
      have hs : s.readErr = true := by
        rcases hr with hr | hr
        · exact hr
        · cases hr
      have hm : (markBroken s).readErr = s.readErr := by
        unfold markBroken; split
        · rfl
        · exact (foldl_cancel_flags s.byID .write { s with writeErr := true }).2.1
      repeat' (split at h)
      all_goals first
        | (cases h; done)
        | (cases h
           have h2 : ∀ (X : St) r, (toP2 X r).readErr = X.readErr := fun _ _ => rfl
           have h3 : ∀ (X : St) n (f : Call → Call), (modCall X n f).readErr = X.readErr := fun _ _ _ => rfl
           simp only [readErr_tail, readErr_setNotif, h2, h3]
           rw [hm]; exact hs)

/-- The invariant behind `read_failure_leaves_no_registered_call`, one step. -/
theorem rxInv_step {s s' : St} {l : Label} (h : step s l = some s') (i : s.readErr = true → s.outCalls = []) :
    s'.readErr = true → s'.outCalls = [] := by
  simp only [step, Option.map_eq_some_iff] at h
  obtain ⟨s0, h0, rfl⟩ := h
  rw [readErr_settle, oc_settle]
  intro hr
  rcases readErr_step0 h0 hr with hs | ⟨_, ho⟩
  · rw [List.eq_nil_iff_forall_not_mem]
    intro x hx
    rcases outCalls_step0 h0 x hx with hx' | ⟨_, hsd⟩
    · rw [i hs] at hx'; cases hx'
    · simp [St.shuttingDown, hs] at hsd
  · exact ho

/-- **read_failure_leaves_no_registered_call.** Once the reader has failed (its exit section RX ran:
`readErr` is set) no outgoing call is registered, in any reachable state: RX completes every pending
call and empties the table, and every call started afterwards is refused at C1 (the connection is
shutting down) — a call started after the connection broke fails at once, nothing is left waiting
for a response that can never be read. -/
theorem read_failure_leaves_no_registered_call (ls : List Label) (s : St) (h : run {} ls = some s)
    (hr : s.readErr = true) : s.outCalls = [] := by
  have key : ∀ (ls : List Label) (s0 s : St), (s0.readErr = true → s0.outCalls = []) → run s0 ls = some s →
      (s.readErr = true → s.outCalls = []) := by
    intro ls
    induction ls with
    | nil => intro s0 s i h; simp [run] at h; subst h; exact i
    | cons l ls ih =>
      intro s0 s i h
      simp only [run] at h
      cases hs : step s0 l with
      | none => simp [hs] at h
      | some s1 => simp only [hs] at h; exact ih s1 s (rxInv_step hs i) h
  exact key ls {} s (fun h => by simp at h) h hr

/-- **write_failure_admits_no_new_call.** While the connection is shutting down (Close was called, the
reader failed or a transport write failed) the registration point C1 never adds to the table of
registered calls. -/
theorem write_failure_admits_no_new_call (s s' : St) (n : Nat) (h : step s (.c1 n) = some s')
    (hsd : s.shuttingDown = true) : s'.outCalls = s.outCalls := by
  simp only [step, Option.map_eq_some_iff] at h
  obtain ⟨s0, h0, rfl⟩ := h
  rw [oc_settle]
  simp only [step0] at h0
  repeat' (split at h0)
  all_goals first
    | (cases h0; done)
    | (cases h0; simp [oc_retireIn, modCall, tail_outCalls]; done)
    | (exfalso; simp_all; done)

end Conn
