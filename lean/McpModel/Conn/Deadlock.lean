import McpModel.Conn.Progress
/-!
Deadlock freedom of the connection, part 2: in every reachable state that is shutting down and not yet
done, some critical section is enabled, or the connection is waiting for something *outside* it that the
property's proviso promises: a handler that has not returned, a transport Write that has not returned,
the peer's answer to an outgoing call (or the caller's context), or the transport's Read after the
transport was closed ("the transport honours Close").
-/
namespace Conn

/-- Labels that are steps of the connection's own goroutines (critical sections), as opposed to what users,
handlers, the peer and the transport do. -/
def Label.internal : Label → Bool
  | .ecall | .ecallbad | .enotify | .ectx _ | .eclose | .ewait | .read _ | .wret _ _ | .hasync _ | .hret _ _ => false
  | _ => true

def Enabled (s : St) : Prop := ∃ l, l.internal = true ∧ (step0 s l).isSome = true
/-- a user handler is running (proviso: handlers return) -/
def HandlerRunning (s : St) : Prop := ∃ (r : Nat) (k : ReqCore), s.cores[r]? = some k ∧ k.pc = .running
/-- a message is inside the transport's Write (proviso: Write returns) -/
def WriteInFlight (s : St) : Prop :=
  (∃ (n : Nat) (c : Call), getCall s n = some c ∧ c.pc = .wr) ∨ (∃ (r : Nat) (k : ReqCore), s.cores[r]? = some k ∧ k.pc = .wr) ∨
  (∃ (w : Who) (nf : Notif), getNotif s w = some nf ∧ nf.pc = .wr)
/-- an outgoing call is waiting for the peer's response with a live context -/
def AwaitingPeer (s : St) : Prop :=
  ∃ (n : Nat) (c : Call), n ∈ s.outCalls ∧ getCall s n = some c ∧ c.pc = .await ∧ c.ready = none ∧ c.ctxDone = false

def Progress (s : St) : Prop := Enabled s ∨ HandlerRunning s ∨ WriteInFlight s ∨ AwaitingPeer s

theorem enabled_of {s : St} (l : Label) (hi : l.internal = true) (h : (step0 s l).isSome = true) : Progress s :=
  Or.inl ⟨l, hi, h⟩

/-- A request inside the reader's / dispatcher's / handler goroutine's bookkeeping can always move. -/
theorem core_progress {s : St} {r : Nat} {k : ReqCore} (hk : s.cores[r]? = some k)
    (hpc : k.pc ≠ .queued ∧ k.pc ≠ .fin) : Progress s := by
  cases hp : k.pc with
  | a1 =>
    refine enabled_of (.a1 r) rfl ?_
    simp only [step0, hk]; simp only [hp, ne_eq, not_true_eq_false, if_false]
    (repeat' split) <;> rfl
  | a2 =>
    refine enabled_of (.a2 r) rfl ?_
    simp only [step0, hk]; simp only [hp, ne_eq, not_true_eq_false, if_false]
    (repeat' split) <;> rfl
  | queued => exact absurd hp hpc.1
  | running => exact Or.inr (Or.inl ⟨r, k, hk, hp⟩)
  | p1 =>
    refine enabled_of (.p1 r) rfl ?_
    simp only [step0, hk]; simp [hp]
  | w1 =>
    refine enabled_of (.w1 (.resp r)) rfl ?_
    simp only [step0, hk]; simp only [hp, ne_eq, not_true_eq_false, if_false]
    (repeat' split) <;> rfl
  | wr => exact Or.inr (Or.inr (Or.inl (Or.inr (Or.inl ⟨r, k, hk, hp⟩))))
  | w2 e =>
    refine enabled_of (.w2 (.resp r)) rfl ?_
    simp only [step0, hk]; simp [hp]
  | p2 =>
    refine enabled_of (.p2 r) rfl ?_
    simp only [step0, hk]; simp [hp]
  | fin => exact absurd hp hpc.2

theorem inPR_cases {p : ReqPc} (h : p.inPR = true) : p ≠ .queued ∧ p ≠ .fin := by
  cases p <;> simp [ReqPc.inPR] at h ⊢

end Conn

namespace Conn

theorem metas_of_cores {s : St} (d : DInv (dview s)) {r : Nat} (h : r < s.cores.length) : ∃ q, s.metas[r]? = some q := by
  have : r < s.metas.length := by
    have := d.lens; simp only [dview, List.length_map] at this; omega
  exact ⟨_, List.getElem?_eq_getElem this⟩

/-- An existing dispatcher goroutine can always move, or waits for a handler / a transport write. -/
theorem disp_progress {s : St} (i : Inv4 s) (hd : s.disp ≠ .none) : Progress s := by
  have d := i.base.base.disp
  have L := i.base.link
  have hr := i.base.base.base.reqs
  cases hdp : s.disp with
  | none => exact absurd hdp hd
  | d1 =>
    refine enabled_of .d1 rfl ?_
    simp only [step0, hdp, ne_eq, not_true_eq_false, if_false]
    split
    · rfl
    · rename_i r rest hq
      have hlen : r < s.cores.length := hr.qr r (by simp [reqView, hq])
      obtain ⟨q, hq'⟩ := metas_of_cores d hlen
      have tm : ∀ X : St, (tail X).metas = X.metas := by
        intro X; unfold tail finish closeTransport; repeat' split
        all_goals rfl
      simp only [tm, hq']
      split <;> rfl
  | waiting r =>
    obtain ⟨m, hm, hst⟩ := L.wait r (by simp [dview, hdp])
    obtain ⟨q, hq, rfl⟩ := dview_ms_get s r m hm
    have hrel : q.released = false := i.st.disp r q hdp hq
    have hlen : r < s.cores.length := by
      have := (List.getElem?_eq_some_iff.mp hq).1
      have hl := d.lens; simp only [dview, List.length_map] at hl; omega
    obtain ⟨k, hk⟩ : ∃ k, s.cores[r]? = some k := ⟨_, List.getElem?_eq_getElem hlen⟩
    have ho := L.own r k q.mcore hk hm hst
    refine core_progress hk ⟨fun hp => ?_, fun hp => ?_⟩
    · have := (d.fresh r k q.mcore hk hm (Or.inr (Or.inr hp))).1
      simp [this] at hst
    · have := ho.2 hp
      simp [ReqMeta.mcore, hrel] at this
  | busy r =>
    obtain ⟨k, hk, hp, _⟩ := L.busy r (by simp [dview, hdp])
    exact core_progress hk (inPR_cases hp)

/-- A registered, unanswered outgoing call can always move, or waits for the transport or the peer. -/
theorem call_progress {s : St} (i : Inv4 s) {n : Nat} (hn : n ∈ s.outCalls) : Progress s := by
  have c := i.base.base.base.calls
  obtain ⟨h1, h2⟩ := c.inrange n hn
  obtain ⟨cl, hc⟩ : ∃ cl, getCall s n = some cl := by
    have : n - 1 < s.calls.length := by omega
    refine ⟨s.calls[n - 1], ?_⟩
    simp only [getCall_eq]; rw [if_neg (by omega)]; exact List.getElem?_eq_getElem this
  have o := c.ok n cl hc
  obtain ⟨hreg, hready⟩ := o.reg.mp hn
  cases hp : cl.pc with
  | c1 => have := (o.fresh hp).1; simp [hreg] at this
  | w1 =>
    refine enabled_of (.w1 (.call n)) rfl ?_
    simp only [step0, hc]; simp only [hp, ne_eq, not_true_eq_false, if_false]
    split <;> rfl
  | wr => exact Or.inr (Or.inr (Or.inl (Or.inl ⟨n, cl, hc, hp⟩)))
  | w2 e =>
    refine enabled_of (.w2 (.call n)) rfl ?_
    simp only [step0, hc]; simp [hp]
  | r e =>
    refine enabled_of (.retire n) rfl ?_
    simp only [step0, hc]; simp only [hp]
    split <;> rfl
  | await =>
    obtain ⟨_, hctx⟩ := i.aw n cl hc hp
    exact Or.inr (Or.inr (Or.inr ⟨n, cl, hn, hc, hp, hready, hctx⟩))
  | rc =>
    refine enabled_of (.retire n) rfl ?_
    simp only [step0, hc]; simp only [hp]
    split <;> rfl
  | fin => have := (o.fin hp).2; simp [hready] at this

theorem cntW_pos (l : List Notif) (h : 0 < cntW l) : ∃ (k : Nat) (nf : Notif), l[k]? = some nf ∧ nf.pc.writing = true := by
  induction l with
  | nil => simp [cntW] at h
  | cons a t ih =>
    by_cases ha : a.pc.writing = true
    · exact ⟨0, a, rfl, ha⟩
    · have : 0 < cntW t := by simp [cntW, ha] at h; exact h
      obtain ⟨k, nf, hk, hw⟩ := ih this
      exact ⟨k + 1, nf, by simpa using hk, hw⟩

theorem notif_progress_of {s : St} (w : Who) (nf : Notif) (hw : getNotif s w = some nf) (hnc : ∀ n, w ≠ .call n)
    (hnr : ∀ r, w ≠ .resp r) (hp : nf.pc.writing = true) : Progress s := by
  cases hpc : nf.pc with
  | n1 => simp [hpc, NotifPc.writing] at hp
  | fin r => simp [hpc, NotifPc.writing] at hp
  | w1 =>
    refine enabled_of (.w1 w) rfl ?_
    cases w with
    | call n => exact absurd rfl (hnc n)
    | resp r => exact absurd rfl (hnr r)
    | unotif k => simp only [step0, hw]; simp only [hpc, ne_eq, not_true_eq_false, if_false]; split <;> rfl
    | cnotif k => simp only [step0, hw]; simp only [hpc, ne_eq, not_true_eq_false, if_false]; split <;> rfl
  | wr => exact Or.inr (Or.inr (Or.inl (Or.inr (Or.inr ⟨w, nf, hw, hpc⟩))))
  | w2 e =>
    refine enabled_of (.w2 w) rfl ?_
    cases w with
    | call n => exact absurd rfl (hnc n)
    | resp r => exact absurd rfl (hnr r)
    | unotif k => simp only [step0, hw]; simp [hpc]
    | cnotif k => simp only [step0, hw]; simp [hpc]
  | n2 res =>
    refine enabled_of (.n2 w) rfl ?_
    simp only [step0, hw]; simp [hpc]

theorem notif_progress {s : St} (i : Inv4 s) (h : s.outNotifs ≠ 0) : Progress s := by
  have hn := i.ni
  unfold NInv at hn; simp only [nview] at hn
  by_cases hu : 0 < cntW s.unotifs
  · obtain ⟨k, nf, hk, hw⟩ := cntW_pos _ hu
    exact notif_progress_of (.unotif k) nf hk (fun _ h => by cases h) (fun _ h => by cases h) hw
  · have hc : 0 < cntW s.cnotifs := by omega
    obtain ⟨k, nf, hk, hw⟩ := cntW_pos _ hc
    exact notif_progress_of (.cnotif k) nf hk (fun _ h => by cases h) (fun _ h => by cases h) hw

theorem countInflight_pos' (l : List ReqCore) (h : 0 < countInflight l) :
    ∃ (r : Nat) (k : ReqCore), l[r]? = some k ∧ k.pc.inflight = true := by
  induction l with
  | nil => simp [countInflight] at h
  | cons a t ih =>
    by_cases ha : a.pc.inflight = true
    · exact ⟨0, a, rfl, ha⟩
    · have : 0 < countInflight t := by simp [countInflight, ha] at h; exact h
      obtain ⟨r, k, hk, hw⟩ := ih this
      exact ⟨r + 1, k, by simpa using hk, hw⟩

theorem incoming_progress {s : St} (i : Inv4 s) (h : s.incoming ≠ 0) : Progress s := by
  have hr := i.base.base.base.reqs
  have hc := hr.cnt; simp only [reqView] at hc
  obtain ⟨r, k, hk, hin⟩ := countInflight_pos' s.cores (by omega)
  by_cases hq : k.pc = .queued
  · have hmem : r ∈ s.queue := (hr.ok r k hk).que.mp hq
    have hne : s.queue ≠ [] := fun he => by rw [he] at hmem; cases hmem
    exact disp_progress i (i.base.link.qd hne)
  · exact core_progress hk ⟨hq, fun hf => by simp [hf, ReqPc.inflight] at hin⟩

/-- The case analysis behind `closing_progress`, from the invariant alone (so that it can be used at any
state known to satisfy `Inv4`, not only at the end of a run from the initial state). -/
theorem progress_of_inv4 {s : St} (i : Inv4 s) (hsd : s.shuttingDown = true) (hnd : s.done = false) :
    Progress s ∨ (s.reader = .read ∧ s.closerUsed = true) := by
  by_cases hidle : s.idle = true
  · -- nothing in flight: the transport has been closed; the reader is the only thing left
    have ht := i.ti (by simpa [fview, FV.idle, St.idle] using hidle) (by simpa [fview, FV.shuttingDown, St.shuttingDown] using hsd)
    have hcu : s.closerUsed = true := ht.1
    have hrd : s.reading = true := by
      rcases ht.2 with h' | h'
      · exact h'
      · simp [fview, hnd] at h'
    have hact := i.base.base.base.flags.rd
    simp only [fview, hrd] at hact
    cases hr : s.reader with
    | start => simp [hr, ReaderPc.active] at hact
    | gone => simp [hr, ReaderPc.active] at hact
    | read => exact Or.inr ⟨rfl, hcu⟩
    | rr id p => exact Or.inl (enabled_of .rresp rfl (by simp [step0, hr]))
    | rx => exact Or.inl (enabled_of .rx rfl (by simp [step0, hr]))
    | busy =>
      obtain ⟨k, hk, hp⟩ := i.rb (by simp [reqView, hr])
      have hk' : s.cores[s.cores.length - 1]? = some k := hk
      refine Or.inl (core_progress hk' ?_)
      rcases hp with hp | hp | ⟨_, hp⟩
      · simp [hp]
      · simp [hp]
      · exact inPR_cases hp
  · left
    simp only [St.idle, Bool.and_eq_true, Bool.not_eq_true', not_and, beq_iff_eq, List.isEmpty_iff] at hidle
    by_cases h1 : s.outCalls = []
    · by_cases h2 : s.outNotifs = 0
      · by_cases h3 : s.incoming = 0
        · have h4 : s.handlerRunning = true := by
            cases hh : s.handlerRunning
            · exact absurd hh (hidle ⟨⟨h1, h2⟩, h3⟩)
            · rfl
          have := i.base.base.disp.hr
          simp only [dview, h4] at this
          exact disp_progress i (fun hn => by simp [hn] at this)
        · exact incoming_progress i h3
      · exact notif_progress i h2
    · obtain ⟨n, hn⟩ := List.exists_mem_of_ne_nil _ h1
      exact call_progress i hn

/-- **closing_progress (deadlock freedom).** In every reachable state of a connection that is shutting
down (Close was called, or the reader or the writer failed) and is not yet done, either one of the
connection's own critical sections is enabled, or the connection is waiting for a user handler that
has not returned, for a transport `Write` that has not returned, for the peer's answer to an outgoing
call whose context is still live — or everything is finished, the transport has been closed, and the
reader is parked in the transport's `Read`, which must now fail because the transport honours `Close`
(then `rx` runs and `done` is closed). There is no other way to be stuck. -/
theorem closing_progress (ls : List Label) (s : St) (h : run {} ls = some s)
    (hsd : s.shuttingDown = true) (hnd : s.done = false) :
    Progress s ∨ (s.reader = .read ∧ s.closerUsed = true) :=
  progress_of_inv4 (inv4_run ls inv4_init h) hsd hnd

/-- **done_wakes_everyone.** Once `done` is closed no `Close()` or `Wait()` caller is left blocked on it,
and each of them that has not returned yet can take its last step. -/
theorem done_wakes_everyone (ls : List Label) (s : St) (h : run {} ls = some s) (hd : s.done = true) :
    s.closeWaiting = 0 ∧ s.waitWaiting = 0 ∧
    (0 < s.closeWt → (step0 s (.wt false)).isSome = true) ∧ (0 < s.waitWt → (step0 s (.wt true)).isSome = true) := by
  have i := inv4_run ls inv4_init h
  obtain ⟨a, b⟩ := i.st.wake hd
  refine ⟨a, b, fun hc => ?_, fun hw => ?_⟩
  · simp only [step0, hd]; simp; omega
  · simp only [step0, hd]; simp; omega

end Conn

namespace Conn

/-! Non-vacuity: both alternatives of `closing_progress` occur in reachable, shutting-down, not-done states. -/

/-- Close on an idle connection: the transport is closed and the reader is the last thing left. -/
example : ∃ s, run {} [.start, .eclose, .cl1] = some s ∧ s.shuttingDown = true ∧ s.done = false ∧
    s.reader = .read ∧ s.closerUsed = true := ⟨_, rfl, rfl, rfl, rfl, rfl⟩

/-- Close while a handler is running: the connection waits for the handler (and has not closed the transport). -/
example : ∃ s, run {} [.start, .read (.call 1), .a1 0, .a2 0, .d1, .eclose, .cl1] = some s ∧ s.shuttingDown = true ∧
    s.done = false ∧ s.closerUsed = false ∧ (∃ k, s.cores[0]? = some k ∧ k.pc = .running) :=
  ⟨_, rfl, rfl, rfl, rfl, _, rfl, rfl⟩

/-- … and after the handler returned, the response was written and P2 ran, the connection is done. -/
example : ∃ s, run {} [.start, .read (.call 1), .a1 0, .a2 0, .d1, .eclose, .cl1, .hret 0 false, .p1 0,
    .w1 (.resp 0), .wret (.resp 0) .ok, .p2 0, .d1, .read .eof, .rx] = some s ∧ s.done = true ∧ s.transportCloses = 1 :=
  ⟨_, rfl, rfl, rfl⟩

end Conn
