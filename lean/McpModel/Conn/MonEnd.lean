import McpModel.Conn.MonChecks
import McpModel.Conn.Deadlock
/-!
End of a case: when the harness has drained the connection (Close called, every handler returned,
every Write returned, the reader was given EOF, no caller waits for the peer with a live context, and
every goroutine that could run has run), the model answers `clean` (`allFinished`) and the end-of-case
monitor raises nothing but the known finding F3 (a call whose id was already in flight is dropped).
-/
namespace Conn

/-- What the harness has established when it prints the end-of-case record. -/
structure Drained (s : St) : Prop where
  /-- Close was called (CL1 ran), or the reader or the writer failed -/
  shutting : s.shuttingDown = true
  /-- every goroutine parked before a critical section has been released and has run -/
  quiet : ¬ Enabled s
  /-- every handler returned -/
  handlers : ¬ HandlerRunning s
  /-- every transport Write returned -/
  writes : ¬ WriteInFlight s
  /-- every caller's context was cancelled (or its call completed) -/
  callers : ¬ AwaitingPeer s
  /-- the reader was given EOF: it is not parked in the transport's Read -/
  eof : s.reader ≠ .read

theorem not_enabled {s : St} (q : ¬ Enabled s) (l : Label) (hi : l.internal = true) : step0 s l = none := by
  cases h : step0 s l with
  | none => rfl
  | some x => exact absurd ⟨l, hi, by simp [h]⟩ q

theorem drained_done {s : St} (i : Inv4 s) (d : Drained s) : s.done = true := by
  cases hd : s.done with
  | true => rfl
  | false =>
    exfalso
    have key := progress_of_inv4 i d.shutting hd
    rcases key with (h | h | h | h) | ⟨h, _⟩
    · exact d.quiet h
    · exact d.handlers h
    · exact d.writes h
    · exact d.callers h
    · exact d.eof h

theorem drained_call_fin {s : St} (i : Inv4 s) (d : Drained s) (hd : s.done = true) {n : Nat} {c : Call}
    (hc : getCall s n = some c) : c.pc = .fin := by
  have q := d.quiet
  cases hpc : c.pc with
  | fin => rfl
  | c1 =>
    have := not_enabled q (.c1 n) rfl
    simp [step0, hc, hpc] at this
    split at this <;> simp at this
  | w1 =>
    have := not_enabled q (.w1 (.call n)) rfl
    simp [step0, hc, hpc] at this
    split at this <;> simp at this
  | wr => exact absurd (Or.inl ⟨n, c, hc, hpc⟩) d.writes
  | w2 e =>
    have := not_enabled q (.w2 (.call n)) rfl
    simp [step0, hc, hpc] at this
  | r e =>
    have := not_enabled q (.retire n) rfl
    simp [step0, hc, hpc] at this
  | rc =>
    have := not_enabled q (.retire n) rfl
    simp [step0, hc, hpc] at this
  | await =>
    exfalso
    have o := i.base.base.base.calls.ok n c hc
    obtain ⟨hnone, _⟩ := i.aw n c hc hpc
    have hidle := (i.base.base.base.flags.dn hd).1
    have hoc : s.outCalls = [] := by
      have : (fview s).outCalls.isEmpty = true := by
        simp only [FV.idle, Bool.and_eq_true] at hidle; exact hidle.1.1.1
      simpa [fview] using this
    by_cases hr : c.registered = true
    · have := o.reg.mpr ⟨hr, hnone⟩; rw [hoc] at this; cases this
    · have := o.refused (by simpa using hr) (by simp [hpc]); simp [hnone] at this

theorem drained_notif_fin {s : St} (d : Drained s) {w : Who} {nf : Notif} (hw : getNotif s w = some nf) :
    ∃ r, nf.pc = .fin r := by
  have q := d.quiet
  have hkind : (∃ k, w = .unotif k) ∨ (∃ k, w = .cnotif k) := by
    cases w <;> simp [getNotif] at hw ⊢
  cases hpc : nf.pc with
  | fin r => exact ⟨r, rfl⟩
  | wr => exact absurd (Or.inr (Or.inr ⟨w, nf, hw, hpc⟩)) d.writes
  | n1 =>
    exfalso
    have := not_enabled q (.n1 w) rfl
    simp [step0, hw, hpc] at this
    split at this <;> simp at this
  | n2 res =>
    exfalso
    have := not_enabled q (.n2 w) rfl
    simp [step0, hw, hpc] at this
  | w1 =>
    exfalso
    have := not_enabled q (.w1 w) rfl
    rcases hkind with ⟨k, rfl⟩ | ⟨k, rfl⟩ <;>
    · simp [step0, hw, hpc] at this
      split at this <;> simp at this
  | w2 e =>
    exfalso
    have := not_enabled q (.w2 w) rfl
    rcases hkind with ⟨k, rfl⟩ | ⟨k, rfl⟩ <;> simp [step0, hw, hpc] at this

theorem drained_core_fin {s : St} (i : Inv4 s) (d : Drained s) (hd : s.done = true) {r : Nat} {k : ReqCore}
    (hk : s.cores[r]? = some k) : k.pc = .fin := by
  have q := d.quiet
  have hidle := (i.base.base.base.flags.dn hd).1
  have hinc : s.incoming = 0 := by
    have : ((fview s).incoming == 0) = true := by
      simp only [FV.idle, Bool.and_eq_true] at hidle; exact hidle.1.2
    simpa [fview] using this
  have hcnt := i.base.base.base.reqs.cnt
  simp only [reqView, hinc] at hcnt
  have hnotin : k.pc.inflight = false := by
    cases hin : k.pc.inflight with
    | false => rfl
    | true => have := countInflight_pos _ _ k hk hin; omega
  cases hpc : k.pc with
  | fin => rfl
  | a1 =>
    have := not_enabled q (.a1 r) rfl
    simp [step0, hk, hpc] at this
    repeat' (split at this)
    all_goals simp at this
  | _ => simp [hpc, ReqPc.inflight] at hnotin

theorem inv4_not_panicked {s : St} (i : Inv4 s) : s.panicked = false := by
  have a := i.base.base.base.calls.nopanic
  have b := i.base.base.base.reqs.nopanic
  have c := i.base.base.base.flags.np
  simp only [reqView, fview] at b c
  simp [St.panicked, a, b, c]

theorem drained_misc {s : St} (i : Inv4 s) (d : Drained s) (hd : s.done = true) :
    s.reader = .gone ∧ s.disp = .none ∧ s.cancels = [] ∧ s.closeCl1 = 0 ∧ s.closeWaiting = 0 ∧ s.closeWt = 0 ∧
    s.waitWaiting = 0 ∧ s.waitWt = 0 := by
  have q := d.quiet
  obtain ⟨hidle, _, hrd, _⟩ := i.base.base.base.flags.dn hd
  have hreader : s.reader = .gone := by
    have hact := i.base.base.base.flags.rd
    rw [hrd] at hact
    cases hr : s.reader with
    | gone => rfl
    | start =>
      have := not_enabled q .start rfl
      simp [step0, hr, hd] at this
    | _ => simp [fview, hr, ReaderPc.active] at hact
  have hhr : s.handlerRunning = false := by
    have : (!(fview s).handlerRunning) = true := by
      simp only [FV.idle, Bool.and_eq_true] at hidle; exact hidle.2
    simpa [fview] using this
  have hdisp : s.disp = .none := by
    have := i.base.base.disp.hr
    simp only [dview, hhr] at this
    cases hdp : s.disp <;> simp [hdp] at this ⊢
  have hcan : s.cancels = [] := by
    cases hc : s.cancels with
    | nil => rfl
    | cons id t =>
      have := not_enabled q (.k1 id) rfl
      simp only [step0, hc] at this
      simp at this
      split at this <;> simp at this
  have hcl1 : s.closeCl1 = 0 := by
    cases hc : s.closeCl1 with
    | zero => rfl
    | succ n =>
      have := not_enabled q .cl1 rfl
      simp [step0, hc] at this
  obtain ⟨hcw, hww⟩ := i.st.wake hd
  have hcwt : s.closeWt = 0 := by
    cases hc : s.closeWt with
    | zero => rfl
    | succ n =>
      have := not_enabled q (.wt false) rfl
      simp [step0, hd, hc] at this
  have hwwt : s.waitWt = 0 := by
    cases hc : s.waitWt with
    | zero => rfl
    | succ n =>
      have := not_enabled q (.wt true) rfl
      simp [step0, hd, hc] at this
  exact ⟨hreader, hdisp, hcan, hcl1, hcw, hcwt, hww, hwwt⟩

theorem notifToks_fin {w : Who} {nf : Notif} (h : ∃ r, nf.pc = .fin r) : notifToks w nf = [] := by
  obtain ⟨r, hr⟩ := h
  simp [notifToks, hr]

theorem drained_parked {s : St} (i : Inv4 s) (d : Drained s) (hd : s.done = true) : parkedToks s = [] := by
  obtain ⟨hreader, hdisp, hcan, hcl1, _, hcwt, _, hwwt⟩ := drained_misc i d hd
  have h1 : readerToks s = [] := by simp [readerToks, hreader]
  have h2 : callToks s = [] := by
    rw [List.eq_nil_iff_forall_not_mem]
    intro t ht
    obtain ⟨n, c, hc, hh⟩ := (mem_callToks s t).mp ht
    have hf := drained_call_fin i d hd hc
    rcases hh with ⟨h, _⟩ | ⟨h, _⟩ | ⟨h, _⟩ | ⟨⟨e, h⟩, _⟩ | ⟨h | ⟨e, h⟩, _⟩ <;> simp [hf] at h
  have h3 : unotifToks s = [] := by
    rw [List.eq_nil_iff_forall_not_mem]
    intro t ht
    simp only [unotifToks, List.mem_flatMap] at ht
    obtain ⟨⟨nf, k⟩, hm, ht⟩ := ht
    have hk : s.unotifs[k]? = some nf := by
      have := List.mem_zipIdx_iff_getElem?.mp hm
      simpa using this
    rw [notifToks_fin (drained_notif_fin d (w := .unotif k) (by simpa [getNotif] using hk))] at ht
    cases ht
  have h4 : cnotifToks s = [] := by
    rw [List.eq_nil_iff_forall_not_mem]
    intro t ht
    simp only [cnotifToks, List.mem_flatMap] at ht
    obtain ⟨nf, hm, ht⟩ := ht
    obtain ⟨k, hk⟩ := List.mem_iff_getElem?.mp hm
    rw [notifToks_fin (drained_notif_fin d (w := .cnotif k) (by simpa [getNotif] using hk))] at ht
    cases ht
  have h5 : reqToks s = [] := by
    rw [List.eq_nil_iff_forall_not_mem]
    intro t ht
    obtain ⟨r, k, hk, hh⟩ := (mem_reqToks s t).mp ht
    have hf := drained_core_fin i d hd hk
    rcases hh with ⟨h, _⟩ | ⟨h, _⟩ | ⟨h, _⟩ | ⟨h, _⟩ | ⟨h, _⟩ | ⟨h, _⟩ | ⟨⟨e, h⟩, _⟩ | ⟨h, _⟩ <;> simp [hf] at h
  have h6 : miscToks s = [] := by simp [miscToks, hdisp, hcan, hcl1, hcwt, hwwt]
  simp [parkedToks, h1, h2, h3, h4, h5, h6]

/-- **The model answers `clean` to the end-of-case record of a drained connection.** -/
theorem drained_allFinished {s : St} (i : Inv4 s) (d : Drained s) : allFinished s = true := by
  have hd := drained_done i d
  obtain ⟨_, _, _, hcl1, hcw, hcwt, hww, hwwt⟩ := drained_misc i d hd
  have hcalls : s.calls.all (fun c => c.pc == .fin) = true := by
    rw [List.all_eq_true]
    intro c hc
    obtain ⟨k, hk⟩ := List.mem_iff_getElem?.mp hc
    have : getCall s (k + 1) = some c := by simp [getCall_eq, hk]
    simp [drained_call_fin i d hd this]
  have hun : ∀ nf ∈ s.unotifs, ∃ r, nf.pc = .fin r := by
    intro nf hm
    obtain ⟨k, hk⟩ := List.mem_iff_getElem?.mp hm
    exact drained_notif_fin d (w := .unotif k) (nf := nf) (by simpa [getNotif] using hk)
  have hcn : ∀ nf ∈ s.cnotifs, ∃ r, nf.pc = .fin r := by
    intro nf hm
    obtain ⟨k, hk⟩ := List.mem_iff_getElem?.mp hm
    exact drained_notif_fin d (w := .cnotif k) (nf := nf) (by simpa [getNotif] using hk)
  unfold allFinished
  simp only [hd, inv4_not_panicked i, drained_parked i d hd, hcalls, hcl1, hcw, hcwt, hww, hwwt, Bool.and_eq_true,
    List.all_eq_true]
  simp only [Bool.not_false, List.isEmpty_nil, beq_self_eq_true, and_true, true_and]
  exact ⟨fun nf hm => by obtain ⟨r, hr⟩ := hun nf hm; simp [hr], fun nf hm => by obtain ⟨r, hr⟩ := hcn nf hm; simp [hr]⟩

/-- Once every request is finished the end-of-case monitor can only report a call that lost its id
because the id was already in flight (known finding F3). -/
theorem monEnd_of_finished {m : Mon} {s : St} (mr : MonReqs m s) (i : Inv4 s)
    (hall : ∀ (r : Nat) (k : ReqCore), s.cores[r]? = some k → k.pc = .fin) :
    ∀ c, monEndT m none = some c →
      ∃ r q, c = .c02Dropped r ∧ m.reqs[r]? = some q ∧ q.dup = true ∧ q.isNotif = false := by
  intro c hc
  simp only [monEndT] at hc
  obtain ⟨⟨q, r⟩, hx, hf⟩ := List.exists_of_findSome?_eq_some hc
  have hq := mem_zipIdx0 hx
  obtain ⟨k, mt, hk, hmt, R⟩ := req_lookup mr i hq
  simp only [] at hf
  split at hf
  · rename_i hcond
    split at hf
    · rename_i hdup
      cases hf
      simp only [Bool.and_eq_true, Bool.not_eq_true', beq_iff_eq] at hcond
      exact ⟨r, q, rfl, hq, hdup, hcond.1.1⟩
    · rename_i hdup
      exfalso
      simp only [Bool.and_eq_true, Bool.not_eq_true', beq_iff_eq] at hcond
      obtain ⟨⟨hn, _⟩, hw⟩ := hcond
      have hw : q.w1count = 0 := by simpa using hw
      have hcall : k.isCall = true := by
        rw [R.kind, hn]
        cases hd : q.dup with
        | true => exact absurd hd hdup
        | false => rfl
      have ok := i.base.base.base.reqs.ok r k hk
      have := ok.post.2.2 hcall (Or.inr (hall r k hk))
      rw [← R.w1] at this
      simp only [] at this; omega
  · cases hf

theorem monrel_run_from (ls : List Label) : ∀ (m : Mon) (s s' : St), MonRel m s → Inv4 s → run s ls = some s' →
    MonRel (monAfter m (traceFrom s ls)) s' := by
  induction ls with
  | nil => intro m s s' R _ h; simp [run] at h; subst h; exact R
  | cons l ls ih =>
    intro m s s' R i h
    simp only [run] at h
    cases hs : step s l with
    | none => simp [hs] at h
    | some s1 =>
      simp only [hs] at h
      simp only [traceFrom, hs, monAfter]
      exact ih _ s1 s' (monrel_step R i hs).2 (inv4_step i hs) h

end Conn
