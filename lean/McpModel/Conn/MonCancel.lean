import McpModel.Conn.MonReqsStep
/-!
The cancellation part of `MonRel` (`MonCancel`): the monitor books the ids named by `read cancel`
labels and lets every `K1` consume one; in the model every `Cancel(id)` goroutine stems from the A1 of
a cancel notification read earlier, so the monitor never sees an unasked Cancel.
-/
namespace Conn

/-- The part of the state the cancel bookkeeping talks about. -/
structure CView where
  cancels : List Nat
  targets : List (Option Nat)

def cview (s : St) : CView := { cancels := s.cancels, targets := s.metas.map (·.cancelTarget) }

theorem map_ct_modify (l : List ReqMeta) (r : Nat) (f : ReqMeta → ReqMeta) (h : ∀ m, (f m).cancelTarget = m.cancelTarget) :
    (l.modify r f).map (·.cancelTarget) = l.map (·.cancelTarget) := by
  apply List.ext_getElem?
  intro i
  simp only [List.getElem?_map, List.getElem?_modify]
  by_cases hi : r = i
  · subst hi; cases l[r]? <;> simp [h]
  · simp [hi]

@[simp] theorem cview_modMeta (s : St) (r : Nat) (f : ReqMeta → ReqMeta) (h : ∀ m, (f m).cancelTarget = m.cancelTarget) :
    cview (modMeta s r f) = cview s := by
  simp [cview, modMeta, map_ct_modify _ _ _ h]
@[simp] theorem cview_modCall (s : St) (n : Nat) (f : Call → Call) : cview (modCall s n f) = cview s := rfl
@[simp] theorem cview_modCore (s : St) (r : Nat) (f : ReqCore → ReqCore) : cview (modCore s r f) = cview s := rfl
@[simp] theorem cview_setNotif (s : St) (w : Who) (f : Notif → Notif) : cview (setNotif s w f) = cview s := by cases w <;> rfl
@[simp] theorem cview_cancelReq (s : St) (r : Nat) (c : Cause) : cview (cancelReq s r c) = cview s := by
  unfold cancelReq
  apply cview_modMeta
  intro m; split <;> rfl
@[simp] theorem cview_toP2 (s : St) (r : Nat) : cview (toP2 s r) = cview s := by simp [toP2]
@[simp] theorem cview_beginPR (s : St) (r : Nat) (o : Owner) : cview (beginPR s r o) = cview s := by
  unfold beginPR; split
  · rfl
  · split <;> simp
@[simp] theorem cview_afterP2 (s : St) (r : Nat) (o : Owner) : cview (afterP2 s r o) = cview s := by
  cases o
  · rfl
  · rfl
  · exact cview_modMeta _ _ _ (fun _ => rfl)
@[simp] theorem cview_tail (s : St) : cview (tail s) = cview s := by
  unfold tail finish closeTransport; split
  · split <;> rfl
  · split
    · split <;> split <;> rfl
    · rfl
@[simp] theorem cview_retireIn (s : St) (n : Nat) (r : Res) : cview (retireIn s n r) = cview s := by
  unfold retireIn; split
  · rfl
  · simp only []; split <;> rfl
theorem cview_foldl_cancel (l : List (Nat × Nat)) (c : Cause) (s : St) :
    cview (l.foldl (fun s p => cancelReq s p.2 c) s) = cview s := by
  induction l generalizing s with
  | nil => rfl
  | cons p t ih => simp [List.foldl, ih]
theorem cview_foldl_retire (l : List Nat) (r : Res) (s : St) :
    cview (l.foldl (fun s n => retireIn s n r) s) = cview s := by
  induction l generalizing s with
  | nil => rfl
  | cons p t ih => simp [List.foldl, ih]
@[simp] theorem cview_markBroken (s : St) : cview (markBroken s) = cview s := by
  unfold markBroken; split
  · rfl
  · rw [cview_foldl_cancel]; rfl
@[simp] theorem cview_settle (s : St) : cview (settle s) = cview s := by
  have h1 : ∀ X : St, cview (settleCalls X) = cview X := fun _ => rfl
  have h2 : ∀ X : St, cview (settleWaiters X) = cview X := by intro X; unfold settleWaiters; split <;> rfl
  have h3 : ∀ X : St, cview (settleDisp X) = cview X := by
    intro X; unfold settleDisp; split
    · split
      · split <;> rfl
      · rfl
    · rfl
  simp [settle, h1, h2, h3]

@[simp] theorem cview_with_cnotifs (X : St) (c : List Notif) : cview { X with cnotifs := c } = cview X := rfl
@[simp] theorem cview_with_clock_disp (X : St) (c : Nat) (d : DispPc) : cview { X with clock := c, disp := d } = cview X := rfl
@[simp] theorem cview_with_hr_disp (X : St) (b : Bool) (d : DispPc) : cview { X with handlerRunning := b, disp := d } = cview X := rfl
@[simp] theorem cview_with_disp (X : St) (d : DispPc) : cview { X with disp := d } = cview X := rfl
@[simp] theorem cview_with_reader (X : St) (d : ReaderPc) : cview { X with reader := d } = cview X := rfl

def Label.cancelLabel : Label → Bool
  | .read _ | .a1 _ | .k1 _ => true
  | _ => false

set_option maxRecDepth 8000 in
theorem frame_cancel {s s' : St} {l : Label} (h : step0 s l = some s') (hl : l.cancelLabel = false) :
    cview s' = cview s := by
  cases l <;> simp [Label.cancelLabel] at hl <;> simp only [step0] at h
  case rx =>
    split at h
    · cases h
    · cases h
      rw [cview_tail, cview_foldl_cancel]
      have := cview_foldl_retire s.outCalls (.err .read) { s with reader := .gone, reading := false, readErr := true }
      simp only [cview] at this ⊢
      simp_all
  all_goals (repeat' (split at h))
  all_goals first
    | (simp at h; done)
    | (injection h with h; subst h
       repeat (first
         | rfl
         | (refine Eq.trans (cview_modMeta _ _ _ (by intro _; rfl)) ?_)
         | (simp only [cview_tail, cview_toP2, cview_modCore, cview_modCall, cview_setNotif, cview_cancelReq, cview_beginPR,
              cview_afterP2, cview_retireIn, cview_markBroken, cview_with_cnotifs, cview_with_clock_disp, cview_with_hr_disp, cview_with_disp, cview_with_reader])))


/-! ### a request is at A1 only right after it was read -/

def A1Sub (l0 l : List ReqCore) : Prop :=
  ∀ (j : Nat) (k0 : ReqCore), l0[j]? = some k0 → k0.pc = .a1 → ∃ k : ReqCore, l[j]? = some k ∧ k.pc = .a1

theorem A1Sub.refl (l : List ReqCore) : A1Sub l l := fun _ k0 h hr => ⟨k0, h, hr⟩

theorem A1Sub.modify {l0 l : List ReqCore} (h : A1Sub l0 l) (r : Nat) (g : ReqCore → ReqCore)
    (hg : ∀ k, (g k).pc = .a1 → k.pc = .a1) : A1Sub (l0.modify r g) l := by
  intro j k0 hj hr
  rw [List.getElem?_modify] at hj
  cases hl : l0[j]? with
  | none => simp [hl] at hj
  | some k1 =>
    simp only [hl] at hj
    split at hj
    · cases hj; exact h j k1 hl (hg _ hr)
    · cases hj; exact h j _ hl hr

open ReqsC in
set_option linter.unusedSimpArgs false in
set_option maxRecDepth 8000 in
theorem a1sub_step0 {s s0 : St} {l : Label} (h : step0 s l = some s0) (hl : ∀ m, l ≠ .read m) : A1Sub s0.cores s.cores := by
  by_cases ht : l.touchesReqs = false
  · have := congrArg ReqView.cores (frame_reqs s s0 l h ht)
    simp only [reqView] at this
    rw [this]; exact A1Sub.refl _
  · by_cases hrx : l = .rx
    · subst hrx
      obtain ⟨cs, pr, rfl⟩ := rx_eq h
      rw [tail_cores]; exact A1Sub.refl _
    cases l <;> simp [Label.touchesReqs] at ht <;> simp only [step0] at h
    all_goals (repeat' (split at h))
    all_goals first
      | (exact absurd rfl (hl _))
      | (simp at hrx; done)
      | (simp [Label.touchesReqs] at ht; done)
      | (simp at h; done)
      | (injection h with h; subst h
         try simp only [tail_cores, modMeta_cores, modCore_cores', toP2_cores', beginPR_cores', afterP2_cores',
           markBroken_cores, setNotif_cores, modCall_cores, retireIn_cores]
         first
         | exact A1Sub.refl _
         | (repeat (first | exact A1Sub.refl _ | (refine A1Sub.modify ?_ _ _ (fun k hk => by first | exact hk | (simp at hk; done) | (simp only [] at hk; split at hk <;> simp at hk))))))

/-! ### the three labels that touch the cancel bookkeeping -/

theorem read_spec {s s0 : St} {msg : RMsg} (h : step0 s (.read msg) = some s0) :
    s.reader = .read ∧ s0.cancels = s.cancels ∧
    ((s0.cores = s.cores ∧ s0.metas = s.metas) ∨
     (∃ k mt, s0.cores = s.cores ++ [k] ∧ s0.metas = s.metas ++ [mt] ∧
        mt.cancelTarget = (match msg with | .cancel id => some id | _ => none))) := by
  simp only [step0] at h
  split at h
  · cases h
  · rename_i hr
    have hr : s.reader = .read := by simpa using hr
    cases msg <;> simp only [] at h <;> cases h
    · exact ⟨hr, rfl, Or.inr ⟨_, _, rfl, rfl, rfl⟩⟩
    · exact ⟨hr, rfl, Or.inr ⟨_, _, rfl, rfl, rfl⟩⟩
    · exact ⟨hr, rfl, Or.inr ⟨_, _, rfl, rfl, rfl⟩⟩
    · exact ⟨hr, rfl, Or.inl ⟨rfl, rfl⟩⟩
    · exact ⟨hr, rfl, Or.inl ⟨rfl, rfl⟩⟩

theorem k1_spec {s s0 : St} {id : Nat} (h : step0 s (.k1 id) = some s0) :
    s.cancels.contains id = true ∧ s0.cores = s.cores ∧
    cview s0 = { cancels := s.cancels.erase id, targets := (cview s).targets } := by
  have hc : s0.cores = s.cores := congrArg ReqView.cores (frame_reqs s s0 _ h rfl)
  simp only [step0] at h
  split at h
  · cases h
  · rename_i hcon
    have hcon : s.cancels.contains id = true := by simpa using hcon
    refine ⟨hcon, hc, ?_⟩
    split at h <;> cases h <;> simp only [cview_cancelReq, cview_tail] <;> rfl

open ReqsC in
theorem a1_spec {s s0 : St} {r : Nat} (h : step0 s (.a1 r) = some s0) :
    ∃ k, s.cores[r]? = some k ∧ k.pc = .a1 ∧ (cview s0).targets = (cview s).targets ∧
      (∀ k0, s0.cores[r]? = some k0 → k0.pc ≠ .a1) ∧
      (s0.cancels = s.cancels ∨
        ∃ id, (s.metas[r]?).bind (·.cancelTarget) = some id ∧ s0.cancels = s.cancels ++ [id]) := by
  simp only [step0] at h
  split at h
  · cases h
  · rename_i k hk
    split at h
    · cases h
    · rename_i hpc
      have hpc : k.pc = .a1 := by simpa using hpc
      refine ⟨k, hk, hpc, ?_⟩
      have key : ∀ (S0 : St) (c : List Nat), cview S0 = { cancels := c, targets := (cview s).targets } →
          (∀ k0, S0.cores[r]? = some k0 → k0.pc ≠ .a1) →
          (c = s.cancels ∨ ∃ id, (s.metas[r]?).bind (·.cancelTarget) = some id ∧ c = s.cancels ++ [id]) →
          (cview S0).targets = (cview s).targets ∧ (∀ k0, S0.cores[r]? = some k0 → k0.pc ≠ .a1) ∧
          (S0.cancels = s.cancels ∨
            ∃ id, (s.metas[r]?).bind (·.cancelTarget) = some id ∧ S0.cancels = s.cancels ++ [id]) := by
        intro S0 c hv hp hc
        refine ⟨by rw [hv], hp, ?_⟩
        have : S0.cancels = c := congrArg CView.cancels hv
        rw [this]; exact hc
      repeat' (split at h)
      all_goals (cases h)
      all_goals first
        | (rename_i hid; refine key _ (s.cancels ++ [_]) ?_ ?_ (Or.inr ⟨_, hid, rfl⟩))
        | refine key _ s.cancels ?_ ?_ (Or.inl rfl)
      all_goals first
        | (simp (disch := (intro _; rfl)) only [cview_tail, cview_toP2, cview_modCore, cview_beginPR, cview_modMeta]
           rfl)
        | skip
      all_goals
        intro k0 hk0
        simp only [tail_cores, modMeta_cores, beginPR_cores', modCore_cores', List.getElem?_modify] at hk0
        simp [hk] at hk0
        subst hk0
        first | (simp; done) | (simp only []; split <;> simp)

/-! ### the pending cancel notification -/

theorem metas_len' {s : St} (i : Inv4 s) : s.metas.length = s.cores.length := by
  have := i.base.base.disp.lens
  simpa [dview] using this

theorem pend_some {s : St} (i : Inv4 s) {id : Nat} (h : pendCancel s = some id) :
    ∃ r k mt, r + 1 = s.cores.length ∧ s.cores[r]? = some k ∧ k.pc = .a1 ∧ s.metas[r]? = some mt ∧
      mt.cancelTarget = some id := by
  unfold pendCancel at h
  split at h
  · rename_i k mt hk hmt
    split at h
    · rename_i hpc
      rw [List.getLast?_eq_getElem?] at hk hmt
      rw [metas_len' i] at hmt
      have hpos : 0 < s.cores.length := by
        cases hl : s.cores.length with
        | zero => simp [List.length_eq_zero_iff.mp hl] at hk
        | succ n => omega
      exact ⟨s.cores.length - 1, k, mt, by omega, hk, hpc, hmt, h⟩
    · cases h
  · cases h

theorem pend_of {s : St} (i : Inv4 s) {r : Nat} {k : ReqCore} {mt : ReqMeta} (hr : r + 1 = s.cores.length)
    (hk : s.cores[r]? = some k) (hpc : k.pc = .a1) (hmt : s.metas[r]? = some mt) : pendCancel s = mt.cancelTarget := by
  unfold pendCancel
  have h1 : s.cores.getLast? = some k := by
    rw [List.getLast?_eq_getElem?]; rw [← hr]; simpa using hk
  have h2 : s.metas.getLast? = some mt := by
    rw [List.getLast?_eq_getElem?, metas_len' i, ← hr]; simpa using hmt
  simp [h1, h2, hpc]

theorem pend_congr {s s' : St} (h1 : s'.cores = s.cores) (h2 : s'.metas = s.metas) : pendCancel s' = pendCancel s := by
  simp [pendCancel, h1, h2]

theorem pend_settle (s : St) : pendCancel (settle s) = pendCancel s :=
  pend_congr (congrArg ReqView.cores (reqView_settle s)) (settle_metas s)

/-! ### what `bookCancel` and `book` do to the cancel fields -/

theorem evOf_k1' {l : Label} {id : Nat} (h : evOf l = .k1 id) : l = .k1 id := by
  cases l with
  | read m => cases m <;> simp [evOf] at h
  | w1 w => cases w <;> simp [evOf] at h
  | k1 id' => simp [evOf] at h; rw [h]
  | _ => simp [evOf] at h

theorem evOf_readCancel' {l : Label} {id : Nat} (h : evOf l = .readCancel id) : l = .read (.cancel id) := by
  cases l with
  | read m => cases m <;> simp [evOf] at h; rw [h]
  | w1 w => cases w <;> simp [evOf] at h
  | _ => simp [evOf] at h

theorem bookCancel_other (m : Mon) {e : Ev} (h1 : ∀ id, e ≠ .readCancel id) (h2 : ∀ id, e ≠ .k1 id) :
    m.bookCancel e = m := by
  cases e <;> first | rfl | exact absurd rfl (h1 _) | exact absurd rfl (h2 _)

theorem book_cancelAsked (m : Mon) (p : Obs) (e : Ev) :
    (m.book p e).cancelAsked = m.cancelAsked ∧ (m.book p e).unasked = m.unasked := by
  cases e <;> simp only [Mon.book]
  all_goals (repeat' split)
  all_goals first | exact ⟨rfl, rfl⟩ | (simp [modR]; done)

/-! ### preservation -/

theorem ind_le (a b : Option Nat) (id : Nat) (h : a = some id → b = some id) :
    (if a = some id then 1 else 0) ≤ (if b = some id then 1 else 0) := by
  by_cases ha : a = some id
  · simp [ha, h ha]
  · simp [ha]

theorem moncancel_step {m : Mon} {s s' : St} {l : Label} (C : MonCancel m s) (i : Inv4 s) (i' : Inv4 s')
    (h : step s l = some s') : MonCancel (m.bookCancel (evOf l)) s' := by
  have hs := h
  simp only [step, Option.map_eq_some_iff] at hs
  obtain ⟨s0, h0, rfl⟩ := hs
  have hcan : (settle s0).cancels = s0.cancels := congrArg CView.cancels (cview_settle s0)
  have hcores : (settle s0).cores = s0.cores := congrArg ReqView.cores (reqView_settle s0)
  have hmetas : (settle s0).metas = s0.metas := settle_metas s0
  by_cases hl : l.cancelLabel = false
  · -- nothing the cancel bookkeeping talks about changes
    have hv := frame_cancel h0 hl
    have hb : m.bookCancel (evOf l) = m := by
      apply bookCancel_other
      · intro id he; rw [evOf_readCancel' he] at hl; simp [Label.cancelLabel] at hl
      · intro id he; rw [evOf_k1' he] at hl; simp [Label.cancelLabel] at hl
    rw [hb]
    refine ⟨fun id => ?_, C.un⟩
    have hc : (settle s0).cancels = s.cancels := hcan.trans (congrArg CView.cancels hv)
    have ht : s0.metas.map (·.cancelTarget) = s.metas.map (·.cancelTarget) := congrArg CView.targets hv
    have hlen : s0.cores.length = s.cores.length := by
      rw [← hcores, ← metas_len' i', hmetas, ← metas_len' i]
      simpa using congrArg List.length ht
    have hp : pendCancel (settle s0) = some id → pendCancel s = some id := by
      intro hp
      obtain ⟨r, k0, mt0, hr, hk0, hpc0, hmt0, hct⟩ := pend_some i' hp
      rw [hcores] at hr hk0
      rw [hmetas] at hmt0
      obtain ⟨k, hk, hpc⟩ := a1sub_step0 h0 (fun msg he => by rw [he] at hl; simp [Label.cancelLabel] at hl) r k0 hk0 hpc0
      have hmt : ∃ mt, s.metas[r]? = some mt ∧ mt.cancelTarget = some id := by
        have := congrArg (fun l => l[r]?) ht
        simp only [List.getElem?_map, hmt0, Option.map_some] at this
        cases hm : s.metas[r]? with
        | none => simp [hm] at this
        | some mt => simp [hm, hct] at this; exact ⟨mt, rfl, this.symm⟩
      obtain ⟨mt, hmt, hct'⟩ := hmt
      rw [pend_of i (by omega) hk hpc hmt]; exact hct'
    have := C.asked id
    have h2 := ind_le _ _ id hp
    rw [hc]; omega
  · cases l <;> simp [Label.cancelLabel] at hl
    case read msg =>
      obtain ⟨hrd, hc, hcase⟩ := read_spec h0
      have hmono : ∀ id, m.cancelAsked.count id ≤ (m.bookCancel (evOf (.read msg))).cancelAsked.count id := by
        intro id
        cases msg <;> simp [evOf, Mon.bookCancel, List.count_append]
      have hun : (m.bookCancel (evOf (.read msg))).unasked = [] := by
        cases msg <;> exact C.un
      refine ⟨fun id => ?_, hun⟩
      rw [hcan, hc]
      have hI := C.asked id
      by_cases hp : pendCancel (settle s0) = some id
      · rcases hcase with ⟨hc1, hc2⟩ | ⟨k, mt, hc1, hc2, hct⟩
        · -- cores unchanged: the pending request is the old one
          have : pendCancel (settle s0) = pendCancel s := pend_congr (hcores.trans hc1) (hmetas.trans hc2)
          rw [this] at hp ⊢
          have := hmono id; omega
        · obtain ⟨r, k0, mt0, hr, hk0, hpc0, hmt0, hct0⟩ := pend_some i' hp
          rw [hcores, hc1] at hr
          rw [hmetas, hc2] at hmt0
          have hlen := metas_len' i
          have hr' : r = s.metas.length := by simp at hr; omega
          subst hr'
          simp at hmt0
          subst hmt0
          rw [hct0] at hct
          cases msg <;> simp at hct
          subst hct
          simp [hp, evOf, Mon.bookCancel, List.count_append]
          omega
      · simp only [hp, if_false, Nat.add_zero]
        have := hmono id; omega
    case a1 r =>
      obtain ⟨k, hk, hpc, ht, hne, hcs⟩ := a1_spec h0
      have hb : m.bookCancel (evOf (.a1 r)) = m := rfl
      rw [hb]
      refine ⟨fun id => ?_, C.un⟩
      have hrdr := (i.base.base.base.reqs.ok r k (by simpa [reqView] using hk)).rdr (Or.inl hpc)
      have hr : r + 1 = s.cores.length := by simpa [reqView] using hrdr.2
      have hlen : s0.cores.length = s.cores.length := by
        rw [← hcores, ← metas_len' i', hmetas, ← metas_len' i]
        simpa [cview] using congrArg List.length ht
      have hp0 : pendCancel (settle s0) ≠ some id := by
        intro hp
        obtain ⟨r', k0, mt0, hr', hk0, hpc0, _, _⟩ := pend_some i' hp
        rw [hcores] at hr' hk0
        have : r' = r := by omega
        subst this
        exact hne k0 hk0 hpc0
      simp only [hp0, if_false, Nat.add_zero]
      rw [hcan]
      have hI := C.asked id
      rcases hcs with hcs | ⟨id0, hid0, hcs⟩
      · rw [hcs]; omega
      · rw [hcs]
        have hlt : r < s.metas.length := by rw [metas_len' i]; omega
        have hmt : s.metas[r]? = some s.metas[r] := List.getElem?_eq_getElem hlt
        have hct : (s.metas[r]).cancelTarget = some id0 := by simpa [hmt] using hid0
        have hps : pendCancel s = some id0 := by rw [pend_of i hr hk hpc hmt]; exact hct
        rw [hps] at hI
        simp only [List.count_append, List.count_singleton]
        by_cases he : id0 = id
        · subst he; simp at hI ⊢; omega
        · have : ¬ (some id0 = some id) := by simpa using he
          simp [this, he] at hI ⊢
          omega
    case k1 id0 =>
      obtain ⟨hcon, hc, hv⟩ := k1_spec h0
      have hmem : id0 ∈ s.cancels := List.contains_iff_mem.mp hcon
      have hpos : 0 < s.cancels.count id0 := List.count_pos_iff.mpr hmem
      have hI0 := C.asked id0
      have hposA : 0 < m.cancelAsked.count id0 := by omega
      have hconA : m.cancelAsked.contains id0 = true := List.contains_iff_mem.mpr (List.count_pos_iff.mp hposA)
      have hb : m.bookCancel (evOf (.k1 id0)) = { m with cancelAsked := m.cancelAsked.erase id0 } := by
        simp [evOf, Mon.bookCancel, List.count_pos_iff.mp hposA]
      rw [hb]
      refine ⟨fun id => ?_, C.un⟩
      have hcs : (settle s0).cancels = s.cancels.erase id0 := hcan.trans (congrArg CView.cancels hv)
      have hmt : s0.metas.map (·.cancelTarget) = s.metas.map (·.cancelTarget) := congrArg CView.targets hv
      have hlen : s0.cores.length = s.cores.length := by rw [hc]
      have hp : pendCancel (settle s0) = some id → pendCancel s = some id := by
        intro hp
        obtain ⟨r, k0, mt0, hr, hk0, hpc0, hmt0, hct⟩ := pend_some i' hp
        rw [hcores, hc] at hr hk0
        rw [hmetas] at hmt0
        have hmt' : ∃ mt, s.metas[r]? = some mt ∧ mt.cancelTarget = some id := by
          have := congrArg (fun l => l[r]?) hmt
          simp only [List.getElem?_map, hmt0, Option.map_some] at this
          cases hm : s.metas[r]? with
          | none => simp [hm] at this
          | some mt => simp [hm, hct] at this; exact ⟨mt, rfl, this.symm⟩
        obtain ⟨mt, hmt1, hct'⟩ := hmt'
        rw [pend_of i hr hk0 hpc0 hmt1]; exact hct'
      have h2 := ind_le _ _ id hp
      have hI := C.asked id
      rw [hcs]
      show _ ≤ (m.cancelAsked.erase id0).count id
      by_cases he : id = id0
      · subst he
        rw [List.count_erase_self, List.count_erase_self]; omega
      · rw [List.count_erase_of_ne he, List.count_erase_of_ne he]; omega

/-- `book` and `mark` do not touch the cancel bookkeeping. -/
theorem moncancel_book {m : Mon} {s : St} (C : MonCancel m s) (p o : Obs) (e : Ev) :
    MonCancel { (m.book p e).mark o with prev := o } s := by
  obtain ⟨h1, h2⟩ := book_cancelAsked m p e
  exact ⟨fun id => by show _ ≤ (m.book p e).cancelAsked.count id; rw [h1]; exact C.asked id,
    by show (m.book p e).unasked = []; rw [h2]; exact C.un⟩

end Conn
