import McpModel.Conn.Variant
/-!
# C01 / C04 liveness: what one label can do to one caller

A *caller* is the goroutine inside `mcp.call` for one outgoing call `n`. Its own critical sections are
`c1 n` (register or be refused), `w1 (call n)` (write gate), `w2 (call n)` (write broke) and `retire n`
(after a failed write, and the eager retire after its context ended). Besides these it waits in two
places only: inside the transport's `Write` (`pc = wr`, ended by the environment label `wret`) and in
`Await` (`pc = await`, left by `settle` as soon as the call is ready or its context is done).

`caller_step` says exactly what any label does to the program counter of call `n`; the rank lemmas turn
it into bounds on the number of the caller's own steps:

* `rankU` — in any run whatsoever a caller takes at most 5 steps of its own in its whole life;
* `rankT` — at most 3 once the connection is shutting down (in particular after termination, C01);
* `rankC` — at most 4 once its context is done (C04).

Each own step is enabled whenever the caller is at the corresponding program counter, in *every* state
(`own_step_enabled`): no own step is ever blocked by another process.
-/
namespace Conn

/-- The critical sections executed by the caller goroutine of call `n`. -/
def Label.ofCaller (n : Nat) : Label → Bool
  | .c1 m | .retire m | .w1 (.call m) | .w2 (.call m) => m == n
  | _ => false

/-- The caller's next own critical section, by program counter (`none`: inside the transport's `Write`,
blocked in `Await`, or returned). -/
def ownLabel (n : Nat) : CallPc → Option Label
  | .c1 => some (.c1 n)
  | .w1 => some (.w1 (.call n))
  | .w2 _ => some (.w2 (.call n))
  | .r _ => some (.retire n)
  | .rc => some (.retire n)
  | .wr | .await | .fin => none

theorem ownLabel_ofCaller {n : Nat} {p : CallPc} {l : Label} (h : ownLabel n p = some l) : l.ofCaller n = true := by
  cases p <;> simp [ownLabel] at h <;> subst h <;> simp [Label.ofCaller]

theorem ownLabel_internal {n : Nat} {p : CallPc} {l : Label} (h : ownLabel n p = some l) : l.internal = true := by
  cases p <;> simp [ownLabel] at h <;> subst h <;> rfl

/-- **own_step_enabled.** In *every* state (no invariant, no assumption on what other processes have
done or are doing) a caller that stands before one of its own critical sections can take it: the
caller's own steps are never blocked by anybody. -/
theorem own_step_enabled (s : St) (n : Nat) (c : Call) (hc : getCall s n = some c) (l : Label)
    (hl : ownLabel n c.pc = some l) : (step0 s l).isSome = true := by
  cases hp : c.pc <;> simp [hp, ownLabel] at hl <;> subst hl
  · simp only [step0, hc]; simp only [hp, ne_eq, not_true_eq_false, if_false]; split <;> rfl
  · simp only [step0, hc]; simp only [hp, ne_eq, not_true_eq_false, if_false]; split <;> rfl
  · simp only [step0, hc]; simp [hp]
  · simp only [step0, hc]; simp only [hp]; split <;> rfl
  · simp only [step0, hc]; simp only [hp]; split <;> rfl

/-! ### the projection (pc, ctxDone) of call `n` and how the helper functions act on it -/

/-- What the progress argument needs to see of call `n`: its program counter and whether its context is done. -/
def cpx (s : St) (n : Nat) : Option (CallPc × Bool) := (getCall s n).map (fun c => (c.pc, c.ctxDone))

theorem cpx_of_calls {X s : St} (h : X.calls = s.calls) (n : Nat) : cpx X n = cpx s n := by
  simp [cpx, getCall_eq, h]

@[simp] theorem cpx_tail (s : St) (n : Nat) : cpx (tail s) n = cpx s n := cpx_of_calls (tail_calls s) n
@[simp] theorem cpx_markBroken (s : St) (n : Nat) : cpx (markBroken s) n = cpx s n := cpx_of_calls (markBroken_calls s) n

/-- `retire` changes neither the program counter nor the context flag of any call. -/
theorem retireIn_map_pcx (s : St) (m : Nat) (r : Res) :
    (retireIn s m r).calls.map (fun c => (c.pc, c.ctxDone)) = s.calls.map (fun c => (c.pc, c.ctxDone)) := by
  cases hc : getCall s m with
  | none => simp [retireIn, hc]
  | some c =>
    have key : ∀ c' : Call, c'.pc = c.pc → c'.ctxDone = c.ctxDone →
        (s.calls.modify (m - 1) fun _ => c').map (fun c => (c.pc, c.ctxDone)) = s.calls.map (fun c => (c.pc, c.ctxDone)) := by
      intro c' hpc hcx
      apply List.ext_getElem?; intro j
      simp only [List.getElem?_map, List.getElem?_modify]
      by_cases hj : m - 1 = j
      · subst hj; simp [calls_get0 hc, hpc, hcx]
      · simp [hj]
    cases hr : c.ready with
    | some x => simp only [retireIn, hc, retireCall, hr, if_true]; exact key c rfl rfl
    | none => simp only [retireIn, hc, retireCall, hr]; exact key _ rfl rfl

theorem cpx_retireIn (s : St) (m : Nat) (r : Res) (n : Nat) : cpx (retireIn s m r) n = cpx s n := by
  have hmap := retireIn_map_pcx s m r
  unfold cpx
  simp only [getCall_eq]
  split
  · rfl
  · have := congrArg (fun l => l[n - 1]?) hmap
    simpa [List.getElem?_map] using this

theorem cpx_foldl_retire (l : List Nat) (r : Res) (s : St) (n : Nat) :
    cpx (l.foldl (fun s m => retireIn s m r) s) n = cpx s n := by
  induction l generalizing s with
  | nil => rfl
  | cons a t ih => simp [List.foldl, ih, cpx_retireIn]

theorem foldl_cancel_calls (l : List (Nat × Nat)) (c : Cause) (s : St) :
    (l.foldl (fun s p => cancelReq s p.2 c) s).calls = s.calls := by
  induction l generalizing s with
  | nil => rfl
  | cons p t ih => simp [List.foldl, ih]

theorem cpx_modCall_ne (s : St) (m n : Nat) (f : Call → Call) (hm : 1 ≤ m) (hne : n ≠ m) :
    cpx (modCall s m f) n = cpx s n := by
  simp [cpx, getCall_modCall s m n f hm, hne]

theorem cpx_modCall_eq (s : St) (n : Nat) (f : Call → Call) (c : Call) (hc : getCall s n = some c) :
    cpx (modCall s n f) n = some ((f c).pc, (f c).ctxDone) := by
  simp [cpx, getCall_modCall s n n f (getCall_some_pos hc).1, hc]

theorem cpx_append (s : St) (x : Call) (n : Nat) (c : Call) (hc : getCall s n = some c) :
    cpx { s with calls := s.calls ++ [x] } n = cpx s n := by
  obtain ⟨h1, h2⟩ := getCall_some_pos hc
  have hn : n ≠ 0 := by omega
  simp only [cpx, getCall_eq, hn, if_false]
  rw [List.getElem?_append_left (by omega)]

theorem cpx_some {s : St} {n : Nat} {c : Call} (hc : getCall s n = some c) : cpx s n = some (c.pc, c.ctxDone) := by
  simp [cpx, hc]

theorem cpx_get {s : St} {n : Nat} {p : CallPc} {b : Bool} (h : cpx s n = some (p, b)) :
    ∃ c, getCall s n = some c ∧ c.pc = p ∧ c.ctxDone = b := by
  unfold cpx at h
  cases hc : getCall s n with
  | none => simp [hc] at h
  | some c => simp [hc] at h; exact ⟨c, rfl, h.1, h.2⟩

/-! ### the atomic section (`step0`) seen from call `n` -/

/-- The call a label acts on (its program counter or context), if any. -/
def Label.callIdx : Label → Option Nat
  | .ectx m | .wret (.call m) _ | .c1 m | .retire m | .w1 (.call m) | .w2 (.call m) => some m
  | _ => none

set_option maxRecDepth 8000 in
/-- A label about another call, or about no call at all, leaves `(pc, ctxDone)` of call `n` alone. -/
theorem cpx_other {s s0 : St} {l : Label} (h : step0 s l = some s0) {n : Nat} {c : Call} (hc : getCall s n = some c)
    (hl : l.callIdx ≠ some n) : cpx s0 n = cpx s n := by
  by_cases ht : l.touchesCalls = false
  · exact cpx_of_calls (congrArg CallView.calls (frame_calls s s0 l h ht)) n
  · cases l <;> simp [Label.touchesCalls] at ht <;> simp only [step0] at h
    case ecall => cases h; exact cpx_append s _ n c hc
    case ecallbad => cases h; exact cpx_append s _ n c hc
    case ectx m =>
      have hne : n ≠ m := fun e => hl (by simp [Label.callIdx, e])
      split at h
      · cases h
      · rename_i cm hcm
        split at h <;> cases h
        exact cpx_modCall_ne s m n _ (getCall_some_pos hcm).1 hne
    case wret w o =>
      cases w <;> simp at ht
      simp only at h
      rename_i m
      have hne : n ≠ m := fun e => hl (by simp [Label.callIdx, e])
      split at h
      · cases h
      · rename_i cm hcm
        have h1 := (getCall_some_pos hcm).1
        (repeat' (split at h)) <;> first
          | (cases h; done)
          | (cases h; first
              | exact cpx_modCall_ne _ m n _ h1 hne
              | (rw [cpx_modCall_ne _ m n _ h1 hne]; exact cpx_of_calls rfl n))
    case c1 m =>
      have hne : n ≠ m := fun e => hl (by simp [Label.callIdx, e])
      split at h
      · cases h
      · rename_i cm hcm
        have h1 := (getCall_some_pos hcm).1
        (repeat' (split at h)) <;> first
          | (cases h; done)
          | (cases h; rw [cpx_retireIn, cpx_modCall_ne _ m n _ h1 hne, cpx_tail])
          | (cases h; rw [cpx_tail, cpx_modCall_ne _ m n _ h1 hne]; exact cpx_of_calls rfl n)
    case retire m =>
      have hne : n ≠ m := fun e => hl (by simp [Label.callIdx, e])
      split at h
      · cases h
      · rename_i cm hcm
        have h1 := (getCall_some_pos hcm).1
        split at h
        · cases h
        · rename_i err viaCtx _
          generalize hS : tail (if s.outCalls.contains m = true then
              retireIn { s with outCalls := s.outCalls.erase m } m (.err err) else s) = S at h
          have hS1 : cpx S n = cpx s n := by
            rw [← hS, cpx_tail]; split
            · rw [cpx_retireIn]; exact cpx_of_calls rfl n
            · rfl
          split at h <;> cases h
          · refine (cpx_of_calls (s := modCall S m fun c => { c with pc := .fin, result := some (.err .ctx) }) rfl n).trans ?_
            rw [cpx_modCall_ne _ m n _ h1 hne]; exact hS1
          · rw [cpx_modCall_ne _ m n _ h1 hne]; exact hS1
    case rresp =>
      split at h
      · cases h; rw [cpx_tail]
        split
        · rw [cpx_retireIn]; exact cpx_of_calls rfl n
        · exact cpx_of_calls rfl n
      · cases h
    case rx =>
      split at h
      · cases h
      · cases h
        rw [cpx_tail, cpx_of_calls (foldl_cancel_calls _ _ _) n]
        have : ∀ X : St, cpx { X with outCalls := [] } n = cpx X n := fun X => cpx_of_calls rfl n
        rw [this, cpx_foldl_retire]; exact cpx_of_calls rfl n
    case w1 w =>
      cases w <;> simp at ht
      simp only at h
      rename_i m
      have hne : n ≠ m := fun e => hl (by simp [Label.callIdx, e])
      split at h
      · cases h
      · rename_i cm hcm
        have h1 := (getCall_some_pos hcm).1
        (repeat' (split at h)) <;> first
          | (cases h; done)
          | (cases h; rw [cpx_tail, cpx_modCall_ne _ m n _ h1 hne])
    case w2 w =>
      cases w <;> simp at ht
      simp only at h
      rename_i m
      have hne : n ≠ m := fun e => hl (by simp [Label.callIdx, e])
      split at h
      · cases h
      · rename_i cm hcm
        have h1 := (getCall_some_pos hcm).1
        split at h
        · cases h; rw [cpx_tail, cpx_modCall_ne _ m n _ h1 hne, cpx_markBroken]
        · cases h

theorem getCall_retireIn_ready (s : St) (n : Nat) (c : Call) (r : Res) (hc : getCall s n = some c) (x : Res)
    (hr : c.ready = some x) : getCall (retireIn s n r) n = some c := by
  have hn := (getCall_some_pos hc).1
  simp only [retireIn, hc, retireCall, hr]
  show getCall (modCall s n fun _ => c) n = some c
  rw [getCall_modCall _ _ _ _ hn, hc]; simp

/-- C1 of call `n`. -/
theorem own_c1 {s s0 : St} {n : Nat} {c : Call} (h : step0 s (.c1 n) = some s0) (hc : getCall s n = some c) :
    c.pc = .c1 ∧ ∃ c0, getCall s0 n = some c0 ∧ c0.ctxDone = c.ctxDone ∧
      ((s.shuttingDown = false ∧ c0.pc = .w1) ∨ (s.shuttingDown = true ∧ c0.pc = .await ∧ c0.ready.isSome = true)) := by
  have hn := (getCall_some_pos hc).1
  simp only [step0, hc] at h
  split at h
  · cases h
  · rename_i hpc
    have hpc : c.pc = .c1 := by simpa using hpc
    refine ⟨hpc, ?_⟩
    split at h <;> cases h
    · rename_i hsd
      have hc2 : getCall (modCall (tail s) n fun c => { c with pc := .await }) n = some { c with pc := .await } := by
        rw [getCall_modCall _ _ _ _ hn]; simp [hc]
      cases hr : c.ready with
      | none =>
        have hg := getCall_retireIn _ n n _ (.err .clientClosing) hc2 hr
        simp only [if_true] at hg
        exact ⟨_, hg, rfl, Or.inr ⟨hsd, rfl, rfl⟩⟩
      | some x =>
        exact ⟨{ c with pc := .await }, getCall_retireIn_ready _ n _ _ hc2 x hr, rfl, Or.inr ⟨hsd, rfl, by simp [hr]⟩⟩
    · rename_i hsd
      refine ⟨{ c with pc := .w1, registered := true }, ?_, rfl, Or.inl ⟨by simpa using hsd, rfl⟩⟩
      rw [getCall_tail, getCall_modCall _ _ _ _ hn]
      have : getCall { s with outCalls := s.outCalls ++ [n] } n = some c := hc
      simp [this]

/-- W1 of call `n`. -/
theorem own_w1 {s s0 : St} {n : Nat} {c : Call} (h : step0 s (.w1 (.call n)) = some s0) (hc : getCall s n = some c) :
    c.pc = .w1 ∧ ((s.shuttingDown = false ∧ cpx s0 n = some (.wr, c.ctxDone)) ∨
      (s.shuttingDown = true ∧ cpx s0 n = some (.r .serverClosing, c.ctxDone))) := by
  simp only [step0, hc] at h
  split at h
  · cases h
  · rename_i hpc
    have hpc : c.pc = .w1 := by simpa using hpc
    refine ⟨hpc, ?_⟩
    split at h <;> cases h
    · rename_i hg
      have hg : s.shuttingDown = false := by simpa [gateOpen] using hg
      exact Or.inl ⟨hg, by rw [cpx_tail, cpx_modCall_eq s n _ c hc]⟩
    · rename_i hg
      have hg : s.shuttingDown = true := by simpa [gateOpen] using hg
      exact Or.inr ⟨hg, by rw [cpx_tail, cpx_modCall_eq s n _ c hc]⟩

/-- W2 of call `n`. -/
theorem own_w2 {s s0 : St} {n : Nat} {c : Call} (h : step0 s (.w2 (.call n)) = some s0) (hc : getCall s n = some c) :
    ∃ e, c.pc = .w2 e ∧ cpx s0 n = some (.r e, c.ctxDone) := by
  simp only [step0, hc] at h
  split at h
  · rename_i e hpc
    cases h
    have hc' : getCall (markBroken s) n = some c := by
      simpa [getCall_eq, markBroken_calls] using hc
    exact ⟨e, hpc, by rw [cpx_tail, cpx_modCall_eq _ n _ c hc']⟩
  · cases h

/-- R of call `n` (after a failed or refused write: back to `Await`; after the context ended: return). -/
theorem own_retire {s s0 : St} {n : Nat} {c : Call} (h : step0 s (.retire n) = some s0) (hc : getCall s n = some c) :
    ((∃ e, c.pc = .r e) ∧ cpx s0 n = some (.await, c.ctxDone)) ∨ (c.pc = .rc ∧ cpx s0 n = some (.fin, c.ctxDone)) := by
  simp only [step0, hc] at h
  split at h
  · cases h
  · rename_i err viaCtx he
    generalize hS : tail (if s.outCalls.contains n = true then retireIn { s with outCalls := s.outCalls.erase n } n (.err err) else s) = S at h
    have hS1 : cpx S n = cpx s n := by
      rw [← hS, cpx_tail]
      split
      · rw [cpx_retireIn]; exact cpx_of_calls rfl n
      · rfl
    obtain ⟨cS, hcS, hpS, hxS⟩ := cpx_get (hS1.trans (cpx_some hc))
    cases hp : c.pc <;> simp [hp] at he
    · rename_i e'
      obtain ⟨rfl, rfl⟩ := he
      simp at h; subst h
      exact Or.inl ⟨⟨e', rfl⟩, by rw [cpx_modCall_eq S n _ cS hcS]; simp [hxS]⟩
    · obtain ⟨rfl, rfl⟩ := he
      simp at h; subst h
      refine Or.inr ⟨rfl, ?_⟩
      refine (cpx_of_calls (s := modCall S n fun c => { c with pc := .fin, result := some (.err .ctx) }) rfl n).trans ?_
      rw [cpx_modCall_eq S n _ cS hcS]; simp [hxS]

/-- The transport's `Write` of call `n`'s request returns. -/
theorem env_wret {s s0 : St} {n : Nat} {o : WOut} {c : Call} (h : step0 s (.wret (.call n) o) = some s0)
    (hc : getCall s n = some c) :
    c.pc = .wr ∧ ((c.ctxDone = false ∧ (cpx s0 n = some (.await, false) ∨ ∃ e, cpx s0 n = some (.w2 e, false))) ∨
      ∃ e, cpx s0 n = some (.r e, c.ctxDone)) := by
  simp only [step0, hc] at h
  split at h
  · cases h
  · rename_i hpc
    have hpc : c.pc = .wr := by simpa using hpc
    refine ⟨hpc, ?_⟩
    split at h <;> cases h
    · rename_i hx; exact Or.inl ⟨hx, Or.inl (by rw [cpx_modCall_eq s n _ c hc]; simp [hx])⟩
    · rename_i hx
      refine Or.inl ⟨hx, Or.inr ⟨.broken, ?_⟩⟩
      have hc' : getCall { s with brokenWrites := s.brokenWrites + 1 } n = some c := hc
      rw [cpx_modCall_eq _ n _ c hc']; simp [hx]
    · exact Or.inr ⟨.broken, by rw [cpx_modCall_eq s n _ c hc]⟩
    · exact Or.inr ⟨.rejected, by rw [cpx_modCall_eq s n _ c hc]⟩
    · exact Or.inr ⟨.ctx, by rw [cpx_modCall_eq s n _ c hc]⟩

/-- The context of call `n` ends. -/
theorem env_ectx {s s0 : St} {n : Nat} {c : Call} (h : step0 s (.ectx n) = some s0) (hc : getCall s n = some c) :
    cpx s0 n = some (c.pc, true) := by
  simp only [step0, hc] at h
  split at h <;> cases h
  rw [cpx_modCall_eq s n _ c hc]

/-! ### `settle` seen from call `n` -/

theorem settle_calls (s : St) : (settle s).calls = s.calls.map settleCall := by
  have := congrArg CallView.calls (show callView (settle s) = callView (settleCalls s) by simp [settle])
  simpa [callView, settleCalls] using this

theorem getCall_settle (s : St) (n : Nat) : getCall (settle s) n = (getCall s n).map settleCall := by
  simp only [getCall_eq, settle_calls, List.getElem?_map]
  split <;> rfl

theorem settleCall_ctx (c : Call) : (settleCall c).ctxDone = c.ctxDone := by
  unfold settleCall; repeat' split
  all_goals rfl

theorem settleCall_pc_ne (c : Call) (h : c.pc ≠ .await) : (settleCall c).pc = c.pc := by
  unfold settleCall; simp [h]

/-- Out of `Await`: stay (not ready, context live), return (ready, context live), or go to the eager
retire (context done). -/
theorem settleCall_await (c : Call) (h : c.pc = .await) :
    ((settleCall c).pc = .await ∧ c.ready = none ∧ c.ctxDone = false) ∨
    ((settleCall c).pc = .fin ∧ c.ready.isSome = true ∧ c.ctxDone = false) ∨
    ((settleCall c).pc = .rc ∧ c.ctxDone = true) := by
  unfold settleCall
  simp only [h, if_true]
  cases hr : c.ready with
  | none => cases hx : c.ctxDone <;> simp [h]
  | some r =>
    cases r with
    | resp p => cases hx : c.ctxDone <;> simp
    | err e => cases hx : c.ctxDone <;> cases hcl : e.closing <;> simp

/-! ### one label, seen from call `n` -/

/-- What one label does to the program counter of a call: `CStep sd ctx own p p'` — the connection was
(`sd`) shutting down before the label, the caller's context was (`ctx`) done before it, the label is
(`own`) one of the caller's own critical sections, and the program counter goes from `p` to `p'`. -/
inductive CStep (sd ctx : Bool) : Bool → CallPc → CallPc → Prop
  | c1_reg : sd = false → CStep sd ctx true .c1 .w1
  | c1_refused_fin : sd = true → ctx = false → CStep sd ctx true .c1 .fin
  | c1_refused_rc : sd = true → ctx = true → CStep sd ctx true .c1 .rc
  | w1_open : sd = false → CStep sd ctx true .w1 .wr
  | w1_closed : sd = true → CStep sd ctx true .w1 (.r .serverClosing)
  | w2 (e : Err) : CStep sd ctx true (.w2 e) (.r e)
  | r_await (e : Err) : ctx = false → CStep sd ctx true (.r e) .await
  | r_fin (e : Err) : ctx = false → CStep sd ctx true (.r e) .fin
  | r_rc (e : Err) : ctx = true → CStep sd ctx true (.r e) .rc
  | rc_fin : CStep sd ctx true .rc .fin
  | wret_await : ctx = false → CStep sd ctx false .wr .await
  | wret_fin : ctx = false → CStep sd ctx false .wr .fin
  | wret_w2 (e : Err) : ctx = false → CStep sd ctx false .wr (.w2 e)
  | wret_r (e : Err) : CStep sd ctx false .wr (.r e)
  | same (p : CallPc) : CStep sd ctx false p p
  | woke_fin : ctx = false → CStep sd ctx false .await .fin
  | woke_rc : CStep sd ctx false .await .rc

/-- After the atomic section put call `n` at `(p0, x0)`, `settle` leaves it there unless `p0 = await`. -/
theorem settle_from {s0 : St} {n : Nat} {p0 : CallPc} {x0 : Bool} (h : cpx s0 n = some (p0, x0)) :
    ∃ c0 c', getCall s0 n = some c0 ∧ c0.pc = p0 ∧ c0.ctxDone = x0 ∧ getCall (settle s0) n = some c' ∧
      c' = settleCall c0 ∧ c'.ctxDone = x0 := by
  obtain ⟨c0, hc0, hp, hx⟩ := cpx_get h
  exact ⟨c0, settleCall c0, hc0, hp, hx, by rw [getCall_settle, hc0]; rfl, rfl, by rw [settleCall_ctx, hx]⟩

/-- **caller_step.** Any label of the model, executed in any state, seen from call `n`: the call still
exists, its context flag is unchanged unless the label is the cancellation of that very context, and its
program counter moves according to `CStep`. No invariant is needed. -/
theorem caller_step {s s' : St} {l : Label} (h : step s l = some s') {n : Nat} {c : Call} (hc : getCall s n = some c) :
    ∃ c', getCall s' n = some c' ∧ (c'.ctxDone = c.ctxDone ∨ (l = .ectx n ∧ c'.ctxDone = true)) ∧
      CStep s.shuttingDown c.ctxDone (l.ofCaller n) c.pc c'.pc := by
  simp only [step, Option.map_eq_some_iff] at h
  obtain ⟨s0, h0, rfl⟩ := h
  -- everything that leaves (pc, ctx) alone before `settle`
  have keep : cpx s0 n = some (c.pc, c.ctxDone) → l.ofCaller n = false →
      ∃ c', getCall (settle s0) n = some c' ∧ (c'.ctxDone = c.ctxDone ∨ (l = .ectx n ∧ c'.ctxDone = true)) ∧
        CStep s.shuttingDown c.ctxDone (l.ofCaller n) c.pc c'.pc := by
    intro hx hown
    obtain ⟨c0, c', hc0, hp, hxx, hg, rfl, hcx⟩ := settle_from hx
    refine ⟨_, hg, Or.inl hcx, ?_⟩
    rw [hown]
    by_cases ha : c0.pc = .await
    · rcases settleCall_await c0 ha with ⟨h1, _, _⟩ | ⟨h1, _, h3⟩ | ⟨h1, _⟩
      · rw [h1, ← hp, ha]; exact .same _
      · rw [h1, ← hp, ha]; exact .woke_fin (by rw [← hxx]; exact h3)
      · rw [h1, ← hp, ha]; exact .woke_rc
    · rw [settleCall_pc_ne c0 ha, hp]; exact .same _
  by_cases hidx : l.callIdx = some n
  · cases l <;> simp [Label.callIdx] at hidx
    case ectx m =>
      subst hidx
      have hx := env_ectx h0 hc
      obtain ⟨c0, c', hc0, hp, hxx, hg, rfl, hcx⟩ := settle_from hx
      refine ⟨_, hg, Or.inr ⟨rfl, hcx⟩, ?_⟩
      have hown : (Label.ectx m).ofCaller m = false := rfl
      rw [hown]
      by_cases ha : c0.pc = .await
      · rcases settleCall_await c0 ha with ⟨_, _, h3⟩ | ⟨_, _, h3⟩ | ⟨h1, _⟩
        · rw [hxx] at h3; cases h3
        · rw [hxx] at h3; cases h3
        · rw [h1, ← hp, ha]; exact .woke_rc
      · rw [settleCall_pc_ne c0 ha, hp]; exact .same _
    case wret w o =>
      cases w <;> simp at hidx
      subst hidx
      rename_i m
      have hown : (Label.wret (.call m) o).ofCaller m = false := rfl
      obtain ⟨hpc, hcase⟩ := env_wret h0 hc
      rw [hown, hpc]
      rcases hcase with ⟨hx, hx0 | ⟨e, hx0⟩⟩ | ⟨e, hx0⟩
      · obtain ⟨c0, c', hc0, hp, hxx, hg, rfl, hcx⟩ := settle_from hx0
        refine ⟨_, hg, Or.inl (hcx.trans hx.symm), ?_⟩
        rcases settleCall_await c0 hp with ⟨h1, _, _⟩ | ⟨h1, _, _⟩ | ⟨_, h3⟩
        · rw [h1]; exact .wret_await hx
        · rw [h1]; exact .wret_fin hx
        · rw [hxx] at h3; cases h3
      · obtain ⟨c0, c', hc0, hp, hxx, hg, rfl, hcx⟩ := settle_from hx0
        refine ⟨_, hg, Or.inl (hcx.trans hx.symm), ?_⟩
        rw [settleCall_pc_ne c0 (by rw [hp]; simp), hp]; exact .wret_w2 e hx
      · obtain ⟨c0, c', hc0, hp, hxx, hg, rfl, hcx⟩ := settle_from hx0
        refine ⟨_, hg, Or.inl hcx, ?_⟩
        rw [settleCall_pc_ne c0 (by rw [hp]; simp), hp]; exact .wret_r e
    case c1 m =>
      subst hidx
      have hown : (Label.c1 m).ofCaller m = true := by simp [Label.ofCaller]
      obtain ⟨hpc, c0, hc0, hx0, hcase⟩ := own_c1 h0 hc
      refine ⟨settleCall c0, by rw [getCall_settle, hc0]; rfl, Or.inl (by rw [settleCall_ctx, hx0]), ?_⟩
      rw [hown, hpc]
      rcases hcase with ⟨hsd, hp⟩ | ⟨hsd, hp, hr⟩
      · rw [settleCall_pc_ne c0 (by rw [hp]; simp), hp]; exact .c1_reg hsd
      · rcases settleCall_await c0 hp with ⟨_, h2, _⟩ | ⟨h1, _, h3⟩ | ⟨h1, h3⟩
        · simp [h2] at hr
        · rw [h1]; exact .c1_refused_fin hsd (by rw [← hx0]; exact h3)
        · rw [h1]; exact .c1_refused_rc hsd (by rw [← hx0]; exact h3)
    case retire m =>
      subst hidx
      have hown : (Label.retire m).ofCaller m = true := by simp [Label.ofCaller]
      rw [hown]
      rcases own_retire h0 hc with ⟨⟨e, hpc⟩, hx0⟩ | ⟨hpc, hx0⟩
      · obtain ⟨c0, c', hc0, hp, hxx, hg, rfl, hcx⟩ := settle_from hx0
        refine ⟨_, hg, Or.inl hcx, ?_⟩
        rw [hpc]
        rcases settleCall_await c0 hp with ⟨h1, _, h3⟩ | ⟨h1, _, h3⟩ | ⟨h1, h3⟩
        · rw [h1]; exact .r_await e (by rw [← hxx]; exact h3)
        · rw [h1]; exact .r_fin e (by rw [← hxx]; exact h3)
        · rw [h1]; exact .r_rc e (by rw [← hxx]; exact h3)
      · obtain ⟨c0, c', hc0, hp, hxx, hg, rfl, hcx⟩ := settle_from hx0
        refine ⟨_, hg, Or.inl hcx, ?_⟩
        rw [settleCall_pc_ne c0 (by rw [hp]; simp), hp, hpc]; exact .rc_fin
    case w1 w =>
      cases w <;> simp at hidx
      subst hidx
      rename_i m
      have hown : (Label.w1 (.call m)).ofCaller m = true := by simp [Label.ofCaller]
      rw [hown]
      obtain ⟨hpc, hcase⟩ := own_w1 h0 hc
      rw [hpc]
      rcases hcase with ⟨hsd, hx0⟩ | ⟨hsd, hx0⟩
      · obtain ⟨c0, c', hc0, hp, hxx, hg, rfl, hcx⟩ := settle_from hx0
        refine ⟨_, hg, Or.inl hcx, ?_⟩
        rw [settleCall_pc_ne c0 (by rw [hp]; simp), hp]; exact .w1_open hsd
      · obtain ⟨c0, c', hc0, hp, hxx, hg, rfl, hcx⟩ := settle_from hx0
        refine ⟨_, hg, Or.inl hcx, ?_⟩
        rw [settleCall_pc_ne c0 (by rw [hp]; simp), hp]; exact .w1_closed hsd
    case w2 w =>
      cases w <;> simp at hidx
      subst hidx
      rename_i m
      have hown : (Label.w2 (.call m)).ofCaller m = true := by simp [Label.ofCaller]
      rw [hown]
      obtain ⟨e, hpc, hx0⟩ := own_w2 h0 hc
      obtain ⟨c0, c', hc0, hp, hxx, hg, rfl, hcx⟩ := settle_from hx0
      refine ⟨_, hg, Or.inl hcx, ?_⟩
      rw [settleCall_pc_ne c0 (by rw [hp]; simp), hp, hpc]; exact .w2 e
  · have hown : l.ofCaller n = false := by
      cases l <;> simp [Label.callIdx] at hidx <;> simp [Label.ofCaller]
      all_goals first
        | (intro e; exact hidx e)
        | (rename_i w; cases w <;> simp_all)
    exact keep ((cpx_other h0 hc hidx).trans (cpx_some hc)) hown

/-- A done context stays done. -/
theorem caller_step_ctx_mono {s s' : St} {l : Label} (h : step s l = some s') {n : Nat} {c : Call} (hc : getCall s n = some c)
    (hx : c.ctxDone = true) : ∃ c', getCall s' n = some c' ∧ c'.ctxDone = true ∧
      CStep s.shuttingDown true (l.ofCaller n) c.pc c'.pc := by
  obtain ⟨c', hc', hx', hcs⟩ := caller_step h hc
  rw [hx] at hcs
  exact ⟨c', hc', hx'.elim (fun e => e.trans hx) (fun e => e.2), hcs⟩

end Conn
