import McpModel.Conn.MonReqsA
import McpModel.Conn.MonReqsB
import McpModel.Conn.MonReqsC
/-!
Preservation of the incoming-request part of `MonRel` by every step of the model (assembled from the
per-label lemmas of `MonReqsA/B/C.lean`), and the step facts about requests and the transport that the
C03/C05 checks need.
-/
namespace Conn

theorem monreqs_step0 {m : Mon} {s s0 : St} {l : Label} {p : Obs} (mr : MonReqs m s) (i : Inv4 s)
    (hp : p.shuttingDown = s.shuttingDown) (h : step0 s l = some s0) : MonReqs (m.book p (evOf l)) s0 := by
  cases l with
  | read msg => exact monreqs_read mr i hp h
  | a1 r => exact monreqs_a1 mr i hp h
  | a2 r => exact monreqs_a2 mr i hp h
  | d1 => exact monreqs_d1 mr i hp h
  | hasync r => exact monreqs_hasync mr i hp h
  | hret r e => exact monreqs_hret mr i hp h
  | p1 r => exact monreqs_p1 mr i hp h
  | p2 r => exact monreqs_p2 mr i hp h
  | w1 w =>
    cases w with
    | resp r => exact monreqs_w1resp mr i hp h
    | _ => exact monreqs_other mr i hp rfl h
  | wret w o =>
    cases w with
    | resp r => exact monreqs_wretresp mr i hp h
    | _ => exact monreqs_other mr i hp rfl h
  | w2 w =>
    cases w with
    | resp r => exact monreqs_w2resp mr i hp h
    | _ => exact monreqs_other mr i hp rfl h
  | _ => exact monreqs_other mr i hp rfl h

/-- A handler starts only at D1, for the head of the queue. -/
theorem running_new {s s0 : St} {l : Label} {j : Nat} {k0 : ReqCore} (h : step0 s l = some s0)
    (hk : s0.cores[j]? = some k0) (hr : k0.pc = .running) :
    (∃ k, s.cores[j]? = some k ∧ k.pc = .running) ∨ (l = .d1 ∧ s.disp = .d1 ∧ ∃ rest, s.queue = j :: rest) :=
  running_new' h hk hr

/-- The transport is closed only by a step that leaves the connection idle. -/
theorem tc_step {s s' : St} {l : Label} (h : step s l = some s') (hc : s'.transportCloses ≠ s.transportCloses) :
    s'.idle = true :=
  tc_step' h hc

end Conn
