import McpModel.Conn.ObsLemmas
/-!
Preservation of the incoming-request part of `MonRel` by every step of the model, and the step facts
about requests and the transport that the C03/C05 checks need.
-/
namespace Conn

theorem monreqs_step0 {m : Mon} {s s0 : St} {l : Label} {p : Obs} (mr : MonReqs m s) (i : Inv4 s)
    (hp : p.shuttingDown = s.shuttingDown) (h : step0 s l = some s0) : MonReqs (m.book p (evOf l)) s0 := by
  sorry

theorem monreqs_settle {m : Mon} {s0 : St} (mr : MonReqs m s0) : MonReqs m (settle s0) := by
  sorry

theorem monreqs_mark {m : Mon} {s : St} (mr : MonReqs m s) :
    MonReqs { m.mark (obsOf s) with prev := obsOf s } s := by
  sorry

/-- A handler starts only at D1, for the head of the queue. -/
theorem running_new {s s0 : St} {l : Label} {j : Nat} {k0 : ReqCore} (h : step0 s l = some s0)
    (hk : s0.cores[j]? = some k0) (hr : k0.pc = .running) :
    (∃ k, s.cores[j]? = some k ∧ k.pc = .running) ∨ (l = .d1 ∧ s.disp = .d1 ∧ ∃ rest, s.queue = j :: rest) := by
  sorry

/-- The transport is closed only by a step that leaves the connection idle. -/
theorem tc_step {s s' : St} {l : Label} (h : step s l = some s') (hc : s'.transportCloses ≠ s.transportCloses) :
    s'.idle = true := by
  sorry

end Conn
