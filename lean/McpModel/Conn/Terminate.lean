import McpModel.Conn.MonEnd
import McpModel.Conn.Variant
/-!
# C05 liveness: `Close` terminates

The step from *deadlock freedom* (`closing_progress`) and *absence of livelock*
(`internal_step_decreases`, `internal_runs_bounded`) to "shutdown reaches `done`, every `Close`/`Wait`
caller returns, and nothing of the connection is left running" — the well-founded argument that used to
be on paper.

What is assumed, and nothing else:

* **fairness** — an enabled critical section eventually runs. It enters as `Maximal s'`: the run of the
  connection's own steps is *maximal*, no critical section is enabled in its last state;
* **the environment's obligations** `Obligations s'`, exactly the four alternatives of
  `closing_progress`: (a) every started handler has returned, (b) no transport `Write` is pending,
  (c) no registered outgoing call with a live context still awaits the peer, (d) the transport
  honoured `Close` (the reader is not parked in `Read` of a transport that has been closed).

Each of (a)–(d) and fairness is necessary: the witnesses at the end of the file are reachable closing
states that stay as they are for ever when one of them is dropped.
-/
namespace Conn

/-- **Fairness, as a hypothesis on a run.** No critical section of the connection is enabled: every
goroutine parked before a critical section has been scheduled. A run of internal labels that ends in
such a state is *maximal*. -/
def Maximal (s : St) : Prop := ¬ Enabled s

/-- (d) of `closing_progress`: the reader is parked in the transport's `Read` although the transport has
been closed — a transport that honours `Close` makes that `Read` fail. -/
def ReadAfterClose (s : St) : Prop := s.reader = .read ∧ s.closerUsed = true

/-- **The environment's obligations**, fulfilled in state `s`: the four things `closing_progress` says a
shutting-down connection may legitimately be waiting for, all discharged. -/
structure Obligations (s : St) : Prop where
  /-- (a) every handler that was started has returned -/
  handlers : ¬ HandlerRunning s
  /-- (b) every transport `Write` has returned -/
  writes : ¬ WriteInFlight s
  /-- (c) no registered outgoing call with a live context is still waiting for the peer's answer -/
  peer : ¬ AwaitingPeer s
  /-- (d) the transport honoured `Close`: the reader is not parked in `Read` after the transport was closed -/
  transport : ¬ ReadAfterClose s

/-- Every `Close()` and every `Wait()` call that was started has returned. -/
structure AllReturned (s : St) : Prop where
  closeCl1 : s.closeCl1 = 0
  closeWaiting : s.closeWaiting = 0
  closeWt : s.closeWt = 0
  waitWaiting : s.waitWaiting = 0
  waitWt : s.waitWt = 0

/-- **Nothing is left.** Every process of the model is at its terminal program counter, nothing is
registered, queued, indexed or armed, the transport was closed exactly once and `onDone` ran exactly once. -/
structure Quiescent (s : St) : Prop where
  /-- every caller of `call()` has returned -/
  calls : ∀ (n : Nat) (c : Call), getCall s n = some c → c.pc = .fin ∧ c.result.isSome = true
  /-- every `Notify` (user's, and detached `notifications/cancelled`) has returned -/
  notifs : ∀ (w : Who) (nf : Notif), getNotif s w = some nf → ∃ r, nf.pc = .fin r
  /-- every incoming request is completely processed -/
  reqs : ∀ (r : Nat) (k : ReqCore), s.cores[r]? = some k → k.pc = .fin
  reader : s.reader = .gone
  disp : s.disp = .none
  /-- no `Cancel(id)` goroutine is pending -/
  cancels : s.cancels = []
  tables : s.outCalls = [] ∧ s.outNotifs = 0 ∧ s.incoming = 0 ∧ s.handlerRunning = false ∧ s.byID = [] ∧ s.queue = []
  once : s.transportCloses = 1 ∧ s.onDone = 1
  nopanic : s.panicked = false

theorem queue_nil_of_disp_none {s : St} (i : Inv4 s) (h : s.disp = .none) : s.queue = [] := by
  cases hq : s.queue with
  | nil => rfl
  | cons a t =>
    have := i.base.link.qd (by simp [dview, hq])
    exact absurd (by simpa [dview] using h) this

/-- **stable_closing_state_is_terminated.** The core of the argument, for any state satisfying the
invariant: a shutting-down connection in which no critical section is enabled and towards which the
environment has fulfilled its obligations is done, all `Close`/`Wait` callers have returned, and it is
quiescent. -/
theorem stable_closing_state_is_terminated {s : St} (i : Inv4 s) (hsd : s.shuttingDown = true)
    (hmax : Maximal s) (ob : Obligations s) : s.done = true ∧ AllReturned s ∧ Quiescent s := by
  have hd : s.done = true := by
    cases hd : s.done with
    | true => rfl
    | false =>
      exfalso
      rcases progress_of_inv4 i hsd hd with (h | h | h | h) | h
      · exact hmax h
      · exact ob.handlers h
      · exact ob.writes h
      · exact ob.peer h
      · exact ob.transport h
  have hI := i.base.base.base
  obtain ⟨hidle, _, hrdg, hcu⟩ := hI.flags.dn hd
  have hrne : s.reader ≠ .read := by
    intro hr
    have hact := hI.flags.rd
    rw [hrdg] at hact
    simp [fview, hr, ReaderPc.active] at hact
  have d : Drained s := ⟨hsd, hmax, ob.handlers, ob.writes, ob.peer, hrne⟩
  obtain ⟨hreader, hdisp, hcan, hcl1, hcw, hcwt, hww, hwwt⟩ := drained_misc i d hd
  have hoc := idle_outCalls hidle
  simp only [fview, FV.idle, Bool.and_eq_true, beq_iff_eq, Bool.not_eq_true'] at hidle
  have hinc : s.incoming = 0 := hidle.1.2
  refine ⟨hd, ⟨hcl1, hcw, hcwt, hww, hwwt⟩, ?_⟩
  refine ⟨fun n c hc => ?_, fun w nf hw => drained_notif_fin d hw, fun r k hk => drained_core_fin i d hd hk,
    hreader, hdisp, hcan, ⟨hoc, hidle.1.1.2, hinc, hidle.2, rinv_byID_empty hI.reqs hinc, queue_nil_of_disp_none i hdisp⟩,
    ?_, inv4_not_panicked i⟩
  · have hf := drained_call_fin i d hd hc
    exact ⟨hf, ((hI.calls.ok n c hc).fin hf).1⟩
  · have htc := hI.flags.tc
    have hod := hI.flags.od
    simp only [fview] at htc hod hcu
    simp only [hcu, hd, if_true] at htc hod
    exact ⟨htc, hod⟩

/-! ### `shuttingDown` is never cleared -/

theorem shuttingDown_mono_step0 {s s' : St} {l : Label} (h : step0 s l = some s') (hs : s.shuttingDown = true) :
    s'.shuttingDown = true := by
  by_cases hb : l.breaks = false
  · obtain ⟨a, b, c⟩ := flags_only_by s s' l h hb
    simpa [St.shuttingDown, a, b, c] using hs
  · cases l <;> simp [Label.breaks] at hb <;> simp only [step0] at h
    case cl1 =>
      split at h
      · cases h
      · cases h; simp [St.shuttingDown]
    case rx =>
      have := readErr_mono_step0 (l := .rx) (s := s) (s' := s') (by simpa only [step0] using h) (Or.inr rfl)
      simp [St.shuttingDown, this]
    case w2 w =>
      have hm : (markBroken s).writeErr = true := by
        unfold markBroken; split
        · assumption
        · exact (foldl_cancel_flags s.byID .write { s with writeErr := true }).2.2
      repeat' (split at h)
      all_goals first
        | (cases h; done)
        | (cases h
           have h2 : ∀ (X : St) r, (toP2 X r).writeErr = X.writeErr := fun _ _ => rfl
           have h3 : ∀ (X : St) n (f : Call → Call), (modCall X n f).writeErr = X.writeErr := fun _ _ _ => rfl
           simp [St.shuttingDown, hm])

theorem shuttingDown_mono_step {s s' : St} {l : Label} (h : step s l = some s') (hs : s.shuttingDown = true) :
    s'.shuttingDown = true := by
  simp only [step, Option.map_eq_some_iff] at h
  obtain ⟨s0, h0, rfl⟩ := h
  obtain ⟨a, b, c⟩ := settle_flags s0
  have := shuttingDown_mono_step0 h0 hs
  simpa [St.shuttingDown, a, b, c] using this

/-- Once shutdown has begun (Close was called, or the reader or the writer failed) it stays begun. -/
theorem shuttingDown_mono_run {s s' : St} (ls : List Label) (h : run s ls = some s') (hs : s.shuttingDown = true) :
    s'.shuttingDown = true := by
  induction ls generalizing s with
  | nil => simp [run] at h; exact h ▸ hs
  | cons l ls ih =>
    simp only [run] at h
    split at h
    · cases h
    · rename_i s1 h1; exact ih h (shuttingDown_mono_step h1 hs)

/-- **close_terminates.** Let `s` be any reachable state (any label list from the initial state) in which
shutdown has begun. Every run `ls` of the connection's own critical sections from `s` that is *maximal*
— no critical section is enabled in its last state `s'`; this is the fairness assumption, and the only
thing not proved — is at most `mu s` steps long and, when the environment's obligations (a)–(d) are
fulfilled in `s'`, ends in a state where `done` is closed, every `Close()`/`Wait()` caller has returned,
and the connection is quiescent: every process at its terminal program counter, nothing registered,
queued or armed, transport closed once, `onDone` run once, no panic. -/
theorem close_terminates (pre ls : List Label) (s s' : St) (h0 : run {} pre = some s)
    (hsd : s.shuttingDown = true) (hint : ∀ l ∈ ls, l.internal = true) (h : run s ls = some s')
    (hmax : Maximal s') (ob : Obligations s') :
    ls.length ≤ mu s ∧ s'.done = true ∧ AllReturned s' ∧ Quiescent s' := by
  have hb := internal_runs_bounded pre ls s s' h0 hint h
  have i' : Inv4 s' := inv4_run ls (inv4_run pre inv4_init h0) h
  exact ⟨by omega, stable_closing_state_is_terminated i' (shuttingDown_mono_run ls h hsd) hmax ob⟩

/-! ### existence and length of maximal runs -/

theorem run_append {s s1 s2 : St} (l1 l2 : List Label) (h1 : run s l1 = some s1) (h2 : run s1 l2 = some s2) :
    run s (l1 ++ l2) = some s2 := by
  induction l1 generalizing s with
  | nil => simp [run] at h1; subst h1; simpa using h2
  | cons l ls ih =>
    simp only [run, List.cons_append] at h1 ⊢
    cases hs : step s l with
    | none => simp [hs] at h1
    | some s' => simp only [hs] at h1 ⊢; exact ih h1

/-- From a state satisfying the invariant, the connection's own steps can always be run to exhaustion:
there is a maximal run of critical sections, and it is at most `mu s` long. -/
theorem maximal_run_of_inv4 : ∀ (m : Nat) (s : St), Inv4 s → mu s ≤ m →
    ∃ (ls : List Label) (s' : St), (∀ l ∈ ls, l.internal = true) ∧ run s ls = some s' ∧ Maximal s' ∧
      ls.length + mu s' ≤ mu s := by
  intro m
  induction m with
  | zero =>
    intro s i hm
    refine ⟨[], s, by simp, rfl, ?_, by simp⟩
    intro ⟨l, hl, he⟩
    cases hs : step0 s l with
    | none => simp [hs] at he
    | some s0 =>
      have := internal_step_decreases (s := s) (s' := settle s0) (l := l) i.base.base.base.reqs hl (by simp [step, hs])
      omega
  | succ m ih =>
    intro s i hm
    by_cases he : Enabled s
    · obtain ⟨l, hl, he⟩ := he
      cases hs : step0 s l with
      | none => simp [hs] at he
      | some s0 =>
        have hst : step s l = some (settle s0) := by simp [step, hs]
        have hlt := internal_step_decreases i.base.base.base.reqs hl hst
        obtain ⟨ls, s', hi, hr, hmx, hb⟩ := ih (settle s0) (inv4_step i hst) (by omega)
        refine ⟨l :: ls, s', ?_, by simp [run, hst, hr], hmx, by simp only [List.length_cons]; omega⟩
        intro l' hl'
        rcases List.mem_cons.mp hl' with rfl | h'
        · exact hl
        · exact hi l' h'
    · exact ⟨[], s, by simp, rfl, he, by simp⟩

/-- **maximal_run_exists.** From every reachable state there is a maximal run of critical sections, of
length `n ≤ mu s` (the scheduler only has to pick enabled critical sections; whichever it picks, after at
most `mu s` of them none is left). -/
theorem maximal_run_exists (pre : List Label) (s : St) (h0 : run {} pre = some s) :
    ∃ n, n ≤ mu s ∧ ∃ (ls : List Label) (s' : St), ls.length = n ∧ (∀ l ∈ ls, l.internal = true) ∧
      run s ls = some s' ∧ Maximal s' := by
  obtain ⟨ls, s', hi, hr, hm, hb⟩ := maximal_run_of_inv4 (mu s) s (inv4_run pre inv4_init h0) (Nat.le_refl _)
  exact ⟨ls.length, by omega, ls, s', rfl, hi, hr, hm⟩

/-- **internal_run_extends_to_maximal.** Whatever critical sections the scheduler has run so far (`ls`),
the run can be completed to a maximal one, and the whole of it is at most `mu s` long: a fair scheduler
reaches a state without enabled critical sections after at most `mu s` steps of the connection. -/
theorem internal_run_extends_to_maximal (pre ls : List Label) (s s1 : St) (h0 : run {} pre = some s)
    (hint : ∀ l ∈ ls, l.internal = true) (h : run s ls = some s1) :
    ∃ (ls' : List Label) (s' : St), (∀ l ∈ ls', l.internal = true) ∧ run s (ls ++ ls') = some s' ∧ Maximal s' ∧
      (ls ++ ls').length ≤ mu s := by
  have hb := internal_runs_bounded pre ls s s1 h0 hint h
  have i1 : Inv4 s1 := inv4_run ls (inv4_run pre inv4_init h0) h
  obtain ⟨ls', s', hi, hr, hm, hb'⟩ := maximal_run_of_inv4 (mu s1) s1 i1 (Nat.le_refl _)
  exact ⟨ls', s', hi, run_append ls ls' h hr, hm, by simp only [List.length_append]; omega⟩

/-- **close_terminates_exists.** Existence form: from every reachable state in which shutdown has begun
there is a run of `n ≤ mu s` critical sections after which none is enabled, and in its last state —
provided the environment's obligations are fulfilled there — `done` is closed, every `Close()`/`Wait()`
caller has returned and the connection is quiescent. -/
theorem close_terminates_exists (pre : List Label) (s : St) (h0 : run {} pre = some s) (hsd : s.shuttingDown = true) :
    ∃ n, n ≤ mu s ∧ ∃ (ls : List Label) (s' : St), ls.length = n ∧ (∀ l ∈ ls, l.internal = true) ∧
      run s ls = some s' ∧ Maximal s' ∧ (Obligations s' → s'.done = true ∧ AllReturned s' ∧ Quiescent s') := by
  obtain ⟨n, hn, ls, s', hl, hi, hr, hm⟩ := maximal_run_exists pre s h0
  exact ⟨n, hn, ls, s', hl, hi, hr, hm, fun ob => (close_terminates pre ls s s' h0 hsd hi hr hm ob).2⟩

end Conn
