import McpModel.Conn.MonCallsStep
import McpModel.Conn.MonReqsStep
import McpModel.Conn.MonCancel
import McpModel.Conn.MonBad
/-!
Under `MonRel` every check of the monitors returns `none` on the model's own observation.
-/
namespace Conn

/-! ### what `PrevOK` says about the previous observation -/

theorem prev_fins {p : Obs} {s : St} (h : PrevOK p s) : p.fins = (obsOf s).fins := by
  rcases h with rfl | ⟨rfl, rfl⟩
  · rfl
  · rw [obsOf_init_fins]

theorem prev_done {p : Obs} {s : St} (h : PrevOK p s) : p.done = s.done := by
  rcases h with rfl | ⟨rfl, rfl⟩ <;> rfl

theorem prev_sd {p : Obs} {s : St} (h : PrevOK p s) : p.shuttingDown = s.shuttingDown := by
  rcases h with rfl | ⟨rfl, rfl⟩ <;> rfl

theorem prev_tc {p : Obs} {s : St} (h : PrevOK p s) : p.tc = s.transportCloses := by
  rcases h with rfl | ⟨rfl, rfl⟩ <;> rfl

theorem prev_x {p : Obs} {s : St} (h : PrevOK p s) : p.x = (obsOf s).x := by
  rcases h with rfl | ⟨rfl, rfl⟩ <;> rfl

theorem prev_q {p : Obs} {s : St} (h : PrevOK p s) : p.q = s.queue := by
  rcases h with rfl | ⟨rfl, rfl⟩ <;> rfl

theorem prev_parked_sub {p : Obs} {s : St} (h : PrevOK p s) {t : PTok} (ht : t ∈ p.parked) : t ∈ (obsOf s).parked := by
  rcases h with rfl | ⟨rfl, rfl⟩
  · exact ht
  · simp at ht

theorem prev_parked_h {p : Obs} {s : St} (h : PrevOK p s) {j : Nat} (ht : PTok.h j ∈ (obsOf s).parked) : PTok.h j ∈ p.parked := by
  rcases h with rfl | ⟨rfl, rfl⟩
  · exact ht
  · rw [obsOf_init_parked] at ht; simp at ht

theorem prev_callParked {p : Obs} {s : St} (h : PrevOK p s) (n : Nat) : p.callParked n = (obsOf s).callParked n := by
  rcases h with rfl | ⟨rfl, rfl⟩
  · rfl
  · simp [Obs.callParked, obsOf_init_parked, PTok.callNo]

/-! ### helpers -/

theorem callFin_some {s : St} {n : Nat} {rt : RTok} (h : callFin s n = some rt) :
    ∃ c res, getCall s n = some c ∧ c.pc = .fin ∧ c.result = some res ∧ rt = resTok res := by
  unfold callFin at h
  cases hc : getCall s n with
  | none => simp [hc] at h
  | some c =>
    simp only [hc, Option.bind_some] at h
    split at h
    · rename_i hpc
      cases hr : c.result with
      | none => simp [hr] at h
      | some res => simp [hr] at h; exact ⟨c, res, rfl, hpc, hr, h.symm⟩
    · cases h

theorem resTok_ne_panic (r : Res) : resTok r ≠ .panic := by
  cases r with
  | resp p => simp [resTok]
  | err e => cases e <;> simp [resTok, errTok]

theorem resTok_ok {r : Res} {pl : Nat} (h : resTok r = .ok pl) : r = .resp pl := by
  cases r with
  | resp p => simp [resTok] at h; rw [h]
  | err e => cases e <;> simp [resTok, errTok] at h

theorem resTok_ne_bad (r : Res) (x : String) : resTok r ≠ .bad x := by
  cases r with
  | resp p => simp [resTok]
  | err e => cases e <;> simp [resTok, errTok]

theorem resTok_ne_okPlain (r : Res) : resTok r ≠ .okPlain := by
  cases r with
  | resp p => simp [resTok]
  | err e => cases e <;> simp [resTok, errTok]

/-! ### C01 -/

theorem chkFinal_none {p : Obs} {s s' : St} {l : Label} (hp : PrevOK p s) (h : step s l = some s') :
    chkFinal p (obsOf s') = none := by
  unfold chkFinal
  rw [List.findSome?_eq_none_iff]
  intro t ht
  cases t with
  | unotif k r => rfl
  | call n r =>
    rw [prev_fins hp] at ht
    have h1 := (mem_fins_call s n r).mp ht
    have h2 := callFin_step h h1
    simp [finCall_obsOf, h2]

theorem chkOwn_none {m : Mon} {s : St} (mc : MonCalls m s) (i : Inv4 s) : chkOwn m (obsOf s) = none := by
  unfold chkOwn
  rw [List.findSome?_eq_none_iff]
  intro t ht
  cases t with
  | unotif k r => rfl
  | call n rt =>
    have hf := (mem_fins_call s n rt).mp ht
    obtain ⟨c, res, hc, hpc, hres, rfl⟩ := callFin_some hf
    cases hrt : resTok res with
    | ok pl =>
      have hr := resTok_ok hrt
      subst hr
      have o := i.base.base.base.calls.ok n c hc
      have hready : c.ready = some (.resp pl) := by
        rcases (o.result _ hres).2 with h | ⟨h, _⟩
        · exact h
        · cases h
      have hm := mc.sent _ (o.own pl hready)
      simp [List.contains_iff_mem, hm]
    | bad x => exact absurd hrt (resTok_ne_bad res x)
    | okPlain => exact absurd hrt (resTok_ne_okPlain res)
    | _ => rfl

theorem chkPanic_none (s : St) : chkPanic (obsOf s) = none := by
  unfold chkPanic
  rw [List.findSome?_eq_none_iff]
  intro t ht
  cases t with
  | unotif k r => rfl
  | call n rt =>
    have hf := (mem_fins_call s n rt).mp ht
    obtain ⟨c, res, hc, hpc, hres, rfl⟩ := callFin_some hf
    cases hrt : resTok res with
    | panic => exact absurd hrt (resTok_ne_panic res)
    | _ => rfl

theorem getCall_of_lt {s : St} {k : Nat} (h : k < s.calls.length) : ∃ c, getCall s (k + 1) = some c := by
  simp only [getCall_eq]
  exact ⟨s.calls[k], by simp [List.getElem?_eq_getElem h]⟩

theorem callFin_isSome_of_fin {s : St} (i : Inv4 s) {n : Nat} {c : Call} (hc : getCall s n = some c) (hpc : c.pc = .fin) :
    (callFin s n).isSome = true := by
  have o := i.base.base.base.calls.ok n c hc
  have hr := (o.fin hpc).1
  cases hres : c.result with
  | none => simp [hres] at hr
  | some res => simp [callFin, hc, hpc, hres]

theorem chkBlocked_none {m : Mon} {s : St} (mc : MonCalls m s) (i : Inv4 s) : chkBlocked m (obsOf s) = none := by
  unfold chkBlocked
  split
  · rename_i hd
    have hd : s.done = true := hd
    rw [List.findSome?_eq_none_iff]
    intro k hk
    have hk : k < s.calls.length := by rw [← mc.ncalls]; simpa using hk
    obtain ⟨c, hc⟩ := getCall_of_lt hk
    have o := i.base.base.base.calls.ok (k + 1) c hc
    by_cases hp : c.pc.parked = true
    · have : (obsOf s).callParked (k + 1) = true := (callParked_iff s (k + 1)).mpr ⟨c, hc, hp⟩
      simp [this]
    · by_cases hf : c.pc = .fin
      · have := callFin_isSome_of_fin i hc hf
        rw [← finCall_obsOf] at this
        cases hfc : finCall (obsOf s).fins (k + 1) with
        | none => simp [hfc] at this
        | some r => simp
      · exfalso
        have haw : c.pc = .await := by
          cases hpc : c.pc <;> simp_all [CallPc.parked]
        obtain ⟨hnone, _⟩ := i.aw (k + 1) c hc haw
        have hidle := (i.base.base.base.flags.dn hd).1
        have hoc : s.outCalls = [] := by
          have : (fview s).outCalls.isEmpty = true := by
            simp only [FV.idle, Bool.and_eq_true] at hidle; exact hidle.1.1.1
          simpa [fview] using this
        by_cases hr : c.registered = true
        · have := o.reg.mpr ⟨hr, hnone⟩; rw [hoc] at this; cases this
        · have := o.refused (by simpa using hr) (by simp [haw]); simp [hnone] at this
  · rfl

theorem errTok_closed_or (e : Err) : errTok e = .closed ∨ (errTok e ≠ .closed ∧ errTok e ≠ .ctx) ∨ e = .ctx := by
  cases e <;> simp [errTok]

theorem chkLate_none {m : Mon} {s : St} (mc : MonCalls m s) (i : Inv4 s) : chkLate m (obsOf s) = none := by
  unfold chkLate
  rw [List.findSome?_eq_none_iff]
  intro n hn
  obtain ⟨_, c, hc, hcl⟩ := mc.late n hn
  rw [finCall_obsOf]
  cases hf : callFin s n with
  | none => rfl
  | some rt =>
    obtain ⟨c', res, hc', hpc, hres, rfl⟩ := callFin_some hf
    rw [hc] at hc'; cases hc'
    have o := i.base.base.base.calls.ok n c hc
    have hready : c.ready = some (.err .clientClosing) := by
      rcases hcl with h | h
      · rw [hpc] at h; cases h
      · exact h
    rcases (o.result _ hres).2 with h | ⟨h, hctx⟩
    · rw [hready] at h; cases h; simp [resTok, errTok]
    · subst h
      have := mc.ctxd n c hc hctx
      simp [resTok, errTok, List.contains_iff_mem, this]

/-! ### C01: nothing registered after the reader failed -/

theorem evOf_rx {l : Label} (h : evOf l = .rx) : l = .rx := by
  cases l with
  | read m => cases m <;> simp [evOf] at h
  | w1 w => cases w <;> simp [evOf] at h
  | rx => rfl
  | _ => simp [evOf] at h

theorem book_rxSeen_or (m : Mon) (p : Obs) (e : Ev) (h : (m.book p e).rxSeen = true) : m.rxSeen = true ∨ e = .rx := by
  cases e with
  | rx => exact Or.inr rfl
  | wret w out =>
    left
    simp only [Mon.book] at h
    cases w <;> simp only [] at h <;> (repeat' (split at h)) <;> first | exact h | (simpa [modR] using h)
  | a1 r =>
    left
    simp only [Mon.book] at h
    repeat' (split at h)
    all_goals first | exact h | (simpa [modR] using h)
  | k1 id =>
    left
    simp only [Mon.book] at h
    repeat' (split at h)
    all_goals first | exact h | (simpa [modR] using h)
  | a2 r =>
    left
    simp only [Mon.book] at h
    repeat' (split at h)
    all_goals first | exact h | (simpa [modR] using h)
  | _ => left; simpa [Mon.book, modR] using h

theorem monrx_step {m : Mon} {s s' : St} {l : Label} {p : Obs} (R : MonRx m s) (h : step s l = some s') :
    MonRx (m.book p (evOf l)) s' := by
  refine ⟨fun hs => ?_, rxInv_step h R.none⟩
  have h' := h
  simp only [step, Option.map_eq_some_iff] at h'
  obtain ⟨s0, h0, rfl⟩ := h'
  rw [readErr_settle]
  rcases book_rxSeen_or m p (evOf l) hs with hm | he
  · exact readErr_mono_step0 h0 (Or.inl (R.seen hm))
  · exact readErr_mono_step0 h0 (Or.inr (evOf_rx he))

theorem monrx_mark {m : Mon} {s : St} (R : MonRx m s) (o : Obs) : MonRx { m.mark o with prev := o } s :=
  ⟨R.seen, R.none⟩

theorem chkRegAfterRx_none {m : Mon} {s : St} (R : MonRx m s) : chkRegAfterRx m (obsOf s) = none := by
  unfold chkRegAfterRx
  by_cases hr : m.rxSeen = true
  · have hoc : s.outCalls = [] := R.none (R.seen hr)
    have : (obsOf s).oc.isEmpty = true := by simp [obsOf, sortNat, sortBy_isEmpty, hoc]
    simp [this]
  · simp [hr]

/-! ### C01: a returned call is no longer registered; the marshalling error only for bad calls -/

theorem chkStillRegistered_none {s : St} (i : Inv4 s) : chkStillRegistered (obsOf s) = none := by
  unfold chkStillRegistered
  rw [List.findSome?_eq_none_iff]
  intro t ht
  cases t with
  | unotif k r => rfl
  | call n rt =>
    have hf := (mem_fins_call s n rt).mp ht
    obtain ⟨c, res, hc, hpc, hres, rfl⟩ := callFin_some hf
    have o := i.base.base.base.calls.ok n c hc
    have hready := (o.fin hpc).2
    have hnot : n ∉ s.outCalls := by
      intro hm
      have := (o.reg.mp hm).2
      simp [this] at hready
    have hno : n ∉ (obsOf s).oc := by simpa [obsOf, sortNat, mem_sortBy] using hnot
    simp [hno]

theorem resTok_marshal {r : Res} (h : resTok r = .marshal) : r = .err .marshal := by
  cases r with
  | resp p => simp [resTok] at h
  | err e => cases e <;> simp [resTok, errTok] at h ⊢

theorem chkMarshal_none {m : Mon} {s : St} (B : MonBad m s) (i : Inv4 s) : chkMarshal m (obsOf s) = none := by
  unfold chkMarshal
  rw [List.findSome?_eq_none_iff]
  intro t ht
  cases t with
  | unotif k r => rfl
  | call n rt =>
    have hf := (mem_fins_call s n rt).mp ht
    obtain ⟨c, res, hc, hpc, hres, rfl⟩ := callFin_some hf
    cases hrt : resTok res with
    | marshal =>
      have hr := resTok_marshal hrt
      subst hr
      have o := i.base.base.base.calls.ok n c hc
      have hready : c.ready = some (.err .marshal) := by
        rcases (o.result _ hres).2 with h | ⟨h, _⟩
        · exact h
        · cases h
      have := B.bad n c hc (Or.inl hready)
      simp [this]
    | _ => rfl

/-! ### requests: looking up the model's side of a monitor entry -/

theorem metas_len {s : St} (i : Inv4 s) : s.metas.length = s.cores.length := by
  have := i.base.base.disp.lens
  simpa [dview] using this

theorem req_lookup {m : Mon} {s : St} (mr : MonReqs m s) (i : Inv4 s) {r : Nat} {q : MReq} (hq : m.reqs[r]? = some q) :
    ∃ k mt, s.cores[r]? = some k ∧ s.metas[r]? = some mt ∧ ReqRel q k mt := by
  have hlt : r < m.reqs.length := (List.getElem?_eq_some_iff.mp hq).1
  have h1 : r < s.cores.length := by rw [← mr.nreqs]; exact hlt
  have h2 : r < s.metas.length := by rw [metas_len i]; exact h1
  exact ⟨s.cores[r], s.metas[r], List.getElem?_eq_getElem h1, List.getElem?_eq_getElem h2,
    mr.req r q _ _ hq (List.getElem?_eq_getElem h1) (List.getElem?_eq_getElem h2)⟩

theorem mem_zipIdx0 {α : Type} {l : List α} {x : α × Nat} (h : x ∈ l.zipIdx 0) : l[x.2]? = some x.1 := by
  have := List.mem_zipIdx_iff_getElem?.mp h
  simpa using this

/-! ### C02 -/

theorem chkAnswer_none {m : Mon} {s : St} (mr : MonReqs m s) (i : Inv4 s) : chkAnswer m = none := by
  unfold chkAnswer
  rw [List.findSome?_eq_none_iff]
  intro x hx
  obtain ⟨q, r⟩ := x
  have hq : m.reqs[r]? = some q := mem_zipIdx0 hx
  obtain ⟨k, mt, hk, hmt, R⟩ := req_lookup mr i hq
  have ok := i.base.base.base.reqs.ok r k hk
  have h1 : q.okWrites ≤ 1 := by rw [R.ok]; have := ok.post; omega
  have h2 : q.p1count ≤ 1 := by rw [R.p1]; split <;> omega
  have h3 : (q.isNotif || q.isCancel) = true → q.w1count = 0 := by
    intro hn
    have hnot : q.isNotif = true := by
      cases hc : q.isCancel with
      | true => exact R.cancelKind hc
      | false => simpa [hc] using hn
    have : k.isCall = false := by rw [R.kind, hnot]; rfl
    rw [R.w1]; exact (ok.notif this).1
  have e1 : ¬ (q.okWrites > 1) := by omega
  have e2 : ¬ (q.p1count > 1) := by omega
  simp only [e1, e2, decide_false, Bool.or_self, Bool.false_eq_true, if_false]
  by_cases hn : (q.isNotif || q.isCancel) = true
  · simp [h3 hn]
  · simp [hn]

/-! ### C03 -/

theorem dview_ms_of {s : St} {r : Nat} {mt : ReqMeta} (h : s.metas[r]? = some mt) : (dview s).ms[r]? = some mt.mcore := by
  simp [dview, List.getElem?_map, h]

theorem chkOrder_none {m : Mon} {p : Obs} {s s0 : St} {l : Label} (hp : PrevOK p s) (mr : MonReqs m s) (i : Inv4 s)
    (h0 : step0 s l = some s0) : chkOrder (m.book p (evOf l)) p (obsOf (settle s0)) = none := by
  unfold chkOrder
  rw [List.findSome?_eq_none_iff]
  intro t ht
  cases t <;> first | rfl | skip
  rename_i j
  have hrun := (mem_parked_h (settle s0) j).mp ht
  obtain ⟨k0, hk0, hpc0⟩ := hrun
  have hcores : (settle s0).cores = s0.cores := congrArg ReqView.cores (reqView_settle s0)
  rw [hcores] at hk0
  rcases running_new h0 hk0 hpc0 with ⟨k, hk, hpc⟩ | ⟨rfl, hd1, rest, hq⟩
  · have : PTok.h j ∈ p.parked := prev_parked_h hp ((mem_parked_h s j).mpr ⟨k, hk, hpc⟩)
    simp [List.contains_iff_mem, this]
  · show (if p.parked.contains (PTok.h j) = true then none else
        match (m.book p (evOf Label.d1)).reqs[j]? with
        | some qj => if qj.started = true then none else _
        | none => none) = none
    have hb : m.book p (evOf Label.d1) = m := rfl
    rw [hb]
    split
    · rfl
    · cases hqj : m.reqs[j]? with
      | none => rfl
      | some qj =>
        simp only []
        split
        · rfl
        · rw [List.findSome?_eq_none_iff]
          intro x hx
          obtain ⟨qi, i'⟩ := x
          have hqi : m.reqs[i']? = some qi := mem_zipIdx0 hx
          obtain ⟨ki, mti, hki, hmti, Ri⟩ := req_lookup mr i hqi
          have D := i.base.base.disp
          have hms := dview_ms_of hmti
          by_cases hst : qi.started = true
          · have hsome : mti.mcore.started.isSome = true := Ri.st hst
            have hrel : mti.mcore.released = true := by
              cases hr : mti.mcore.released with
              | true => rfl
              | false =>
                have := D.unrel i' _ hms hsome hr
                simp [dview, hd1] at this
            have habove : i' < j := D.above j (by simp [dview, hq]) i' _ hms hsome
            have hfin := D.rel i' _ ki hms (by simpa [dview] using hki) hrel
            have hlt : ¬ (i' > j) := by omega
            have hdone : (qi.asyncd || qi.p2done) = true := by
              rcases hfin with ha | hf
              · have : qi.asyncd = true := by rw [Ri.asyncd]; exact ha
                simp [this]
              · have : qi.p2done = true := by rw [Ri.p2done]; simp [hf]
                simp [this]
            cases ha : qi.asyncd <;> cases hp2 : qi.p2done <;> simp_all
          · simp [hst]

/-! ### C04 -/

theorem evOf_k1 {l : Label} {id : Nat} (h : evOf l = .k1 id) : l = .k1 id := by
  cases l with
  | read m => cases m <;> simp [evOf] at h
  | w1 w => cases w <;> simp [evOf] at h
  | k1 id' => simp [evOf] at h; rw [h]
  | _ => simp [evOf] at h

theorem evOf_ectx {l : Label} {n : Nat} (h : evOf l = .ectx n) : l = .ectx n := by
  cases l with
  | read m => cases m <;> simp [evOf] at h
  | w1 w => cases w <;> simp [evOf] at h
  | ectx n' => simp [evOf] at h; rw [h]
  | _ => simp [evOf] at h

theorem chkCancelX_none {m : Mon} {p : Obs} {s : St} (mr : MonReqs m s) (i : Inv4 s) :
    chkCancelX m p (obsOf s) = none := by
  unfold chkCancelX
  rw [List.findSome?_eq_none_iff]
  intro e he
  obtain ⟨r, c⟩ := e
  obtain ⟨mt, hmt, hseen, cz, hcz, hc⟩ := (mem_x s r c).mp he
  split
  · rfl
  · cases hq : m.reqs[r]? with
    | none => rfl
    | some q =>
      obtain ⟨k, mt', hk, hmt', R⟩ := req_lookup mr i hq
      rw [hmt] at hmt'; cases hmt'
      cases cz with
      | read =>
        subst hc
        have := mr.rx r mt hmt hcz
        simp [causeTok, this]
      | write =>
        subst hc
        have := mr.bw (mr.bx r mt hmt hcz)
        simp [causeTok, this]
      | peer =>
        subst hc
        have := R.cpeer hcz
        simp [causeTok, this]
      | finished =>
        subst hc
        rcases R.cfin hcz with h2 | hf
        · have : PTok.p2 r ∈ (obsOf s).parked := (mem_parked_p2 s r).mpr ⟨k, hk, h2⟩
          simp [causeTok, this]
        · have : q.p2done = true := by rw [R.p2done]; simp [hf]
          simp [causeTok, this]

theorem chkEv_none {m : Mon} {p : Obs} {s s' : St} {l : Label} (hp : PrevOK p s) (i : Inv4 s) (h : step s l = some s')
    (mr' : MonReqs (m.book p (evOf l)) s') (i' : Inv4 s') :
    chkEv (m.book p (evOf l)) p (obsOf s') (evOf l) = none := by
  cases hev : evOf l with
  | k1 id =>
    have hl : l = .k1 id := evOf_k1 hev
    subst hl
    rw [hev] at mr'
    simp only [chkEv]
    rw [List.findSome?_eq_none_iff]
    intro x hx
    obtain ⟨q, r⟩ := x
    have hq := mem_zipIdx0 hx
    obtain ⟨k, mt, hk, hmt, R⟩ := req_lookup mr' i' hq
    simp only []
    split
    · rename_i hcond
      exfalso
      simp only [Bool.and_eq_true, Bool.or_eq_true, List.all_eq_true, bne_iff_ne, ne_eq, List.mem_append] at hcond
      obtain ⟨⟨⟨⟨hpeer, _⟩, _⟩, hno⟩, hvis⟩ := hcond
      -- the request was visible before the step: its pc is a2 / queued / running, and K1 does not touch the cores
      have hrv : reqView s' = reqView s := by
        simp only [step, Option.map_eq_some_iff] at h
        obtain ⟨s0, h0, rfl⟩ := h
        rw [reqView_settle]
        exact frame_reqs s s0 _ h0 rfl
      have hcores : s'.cores = s.cores := congrArg ReqView.cores hrv
      have hk' : s.cores[r]? = some k := by rw [← hcores]; exact hk
      have hpc : k.pc = .a2 ∨ k.pc = .queued ∨ k.pc = .running := by
        rcases hvis with (hh | ha) | hq
        · have := (mem_parked_h s r).mp (prev_parked_sub hp (List.contains_iff_mem.mp hh))
          obtain ⟨k2, hk2, hp2⟩ := this
          rw [hk'] at hk2; cases hk2; exact Or.inr (Or.inr hp2)
        · have := (mem_parked_a2 s r).mp (prev_parked_sub hp (List.contains_iff_mem.mp ha))
          obtain ⟨k2, hk2, hp2⟩ := this
          rw [hk'] at hk2; cases hk2; exact Or.inl hp2
        · have hq' : r ∈ s.queue := by rw [← prev_q hp]; exact List.contains_iff_mem.mp hq
          have := ((i.base.base.base.reqs.ok r k (by simpa [reqView] using hk')).que).mpr (by simpa [reqView] using hq')
          exact Or.inr (Or.inl this)
      have hseen := R.seen hpc
      have hcan := R.peer hpeer
      cases hcz : mt.cancelled with
      | none => simp [hcz] at hcan
      | some cz =>
        have hmem : (r, causeTok cz) ∈ (obsOf s').x := (mem_x s' r _).mpr ⟨mt, hmt, hseen, cz, hcz, rfl⟩
        exact hno (r, causeTok cz) (Or.inr hmem) rfl
    · rfl
  | ectx n =>
    have hl : l = .ectx n := evOf_ectx hev
    subst hl
    simp only [chkEv]
    obtain ⟨c, hc, hcases⟩ := ectx_unblocks i h
    rcases hcases with hpk | ⟨c', hc', hrc⟩ | hfin
    · have : p.callParked n = true := by rw [prev_callParked hp]; exact (callParked_iff s n).mpr ⟨c, hc, hpk⟩
      simp [this]
    · have : PTok.r n ∈ (obsOf s').parked := (mem_parked_r s' n).mpr ⟨c', hc', Or.inl hrc⟩
      simp [this]
    · rw [← finCall_obsOf] at hfin
      simp [hfin]
  | _ => rfl

/-! ### C05 -/

theorem chkTc_none {s : St} (i : Inv4 s) : chkTc (obsOf s) = none := by
  have := i.base.base.base.flags.tc
  simp only [fview] at this
  unfold chkTc
  have : ¬ ((obsOf s).tc > 1) := by
    show ¬ (s.transportCloses > 1)
    have : s.transportCloses ≤ 1 := by rw [this]; by_cases hc : s.closerUsed = true <;> simp [hc]
    omega
  simp [this]

theorem chkOd_none {s : St} (i : Inv4 s) : chkOd (obsOf s) = none := by
  have := i.base.base.base.flags.od
  simp only [fview] at this
  unfold chkOd
  have : ¬ ((obsOf s).od > 1) := by
    show ¬ (s.onDone > 1)
    have : s.onDone ≤ 1 := by rw [this]; by_cases hc : s.done = true <;> simp [hc]
    omega
  simp [this]

theorem chkDoneIdle_none {s : St} (i : Inv4 s) : chkDoneIdle (obsOf s) = none := by
  unfold chkDoneIdle
  by_cases hd : s.done = true
  · have := (i.base.base.base.flags.dn hd).1
    have hidle : (obsOf s).idle = true := by rw [obsOf_idle]; exact this
    simp [hidle]
  · have : (obsOf s).done = false := by simpa [obsOf] using hd
    simp [this]

theorem chkClosedIdle_none {p : Obs} {s s' : St} {l : Label} (hp : PrevOK p s) (h : step s l = some s') :
    chkClosedIdle p (obsOf s') = none := by
  unfold chkClosedIdle
  by_cases hc : s'.transportCloses = s.transportCloses
  · have h1 : (obsOf s').tc = s.transportCloses := hc
    rw [h1, prev_tc hp]
    by_cases h0 : s.transportCloses = 0 <;> simp [h0]
  · have : (obsOf s').idle = true := by rw [obsOf_idle]; exact tc_step h hc
    simp [this]

theorem chkLateDispatch_none {m : Mon} {s : St} (mr : MonReqs m s) (i : Inv4 s) : chkLateDispatch m (obsOf s) = none := by
  unfold chkLateDispatch
  rw [List.findSome?_eq_none_iff]
  intro x hx
  obtain ⟨q, r⟩ := x
  have hq := mem_zipIdx0 hx
  obtain ⟨k, mt, hk, hmt, R⟩ := req_lookup mr i hq
  simp only []
  split
  · rename_i hcond
    exfalso
    simp only [Bool.and_eq_true] at hcond
    obtain ⟨ha, hh⟩ := hcond
    obtain ⟨k2, hk2, hrun⟩ := (mem_parked_h s r).mp (List.contains_iff_mem.mp hh)
    rw [hk] at hk2; cases hk2
    rcases R.late ha with h1 | h1 <;> simp [hrun, ReqPc.inPR] at h1
  · rfl

/-- In an idle state no handler is running: `incoming` counts every request between A1 and P2
(`RInv.cnt`), a running handler among them. -/
theorem runningHandler_none_of_idle {s : St} (i : Inv4 s) (hidle : s.idle = true) :
    (obsOf s).runningHandler = none := by
  unfold Obs.runningHandler
  rw [List.findSome?_eq_none_iff]
  intro t ht
  cases t with
  | h r =>
    exfalso
    obtain ⟨k, hk, hrun⟩ := (mem_parked_h s r).mp ht
    have hcnt : s.incoming = countInflight s.cores := i.base.base.base.reqs.cnt
    have hpos := countInflight_pos s.cores r k hk (by simp [hrun, ReqPc.inflight])
    have h0 : s.incoming = 0 := by
      simp only [St.idle, Bool.and_eq_true, beq_iff_eq] at hidle
      exact hidle.1.2
    omega
  | _ => rfl

theorem chkClosedRunning_none {p : Obs} {s s' : St} {l : Label} (hp : PrevOK p s) (i' : Inv4 s')
    (h : step s l = some s') : chkClosedRunning p (obsOf s') = none := by
  unfold chkClosedRunning
  by_cases hc : s'.transportCloses = s.transportCloses
  · have h1 : (obsOf s').tc = s.transportCloses := hc
    rw [h1, prev_tc hp]
    by_cases h0 : s.transportCloses = 0 <;> simp [h0]
  · rw [runningHandler_none_of_idle i' (tc_step h hc)]
    simp

theorem chkDoneRunning_none {s : St} (i : Inv4 s) : chkDoneRunning (obsOf s) = none := by
  unfold chkDoneRunning
  by_cases hd : s.done = true
  · have hidle : s.idle = true := (i.base.base.base.flags.dn hd).1
    rw [runningHandler_none_of_idle i hidle]
    simp
  · have : (obsOf s).done = false := by simpa [obsOf] using hd
    simp [this]

/-! ### C04: Cancel only for ids the peer named -/

theorem bookCancel_fields (m : Mon) (e : Ev) : ∃ a u, m.bookCancel e = { m with cancelAsked := a, unasked := u } := by
  cases e <;> simp only [Mon.bookCancel]
  case k1 id => split <;> exact ⟨_, _, rfl⟩
  all_goals exact ⟨_, _, rfl⟩

theorem chkCancelAsked_none {m : Mon} {s : St} (C : MonCancel m s) : chkCancelAsked m = none := by
  simp [chkCancelAsked, C.un]

/-! ### one step -/

theorem none_orElse' {α : Type} (x : Option α) : (none <|> x) = x := by cases x <;> rfl

/-- **MonRel is preserved by every step of the model, and no check fires.** -/
theorem monrel_step {m : Mon} {s s' : St} {l : Label} (R : MonRel m s) (i : Inv4 s) (h : step s l = some s') :
    (monStepT m l (obsOf s')).2 = none ∧ MonRel (monStepT m l (obsOf s')).1 s' := by
  have i' : Inv4 s' := inv4_step i h
  have hs := h
  simp only [step, Option.map_eq_some_iff] at hs
  obtain ⟨s0, h0, rfl⟩ := hs
  have hp := R.prev
  obtain ⟨a, u, hbc⟩ := bookCancel_fields m (evOf l)
  have hprev : (m.bookCancel (evOf l)).prev = m.prev := by rw [hbc]
  have Rc : MonCalls (m.bookCancel (evOf l)) s := by
    rw [hbc]; exact ⟨R.calls.ncalls, R.calls.sent, R.calls.sentRR, R.calls.ctxd, R.calls.late⟩
  have Rr : MonReqs (m.bookCancel (evOf l)) s := by
    rw [hbc]; exact ⟨R.reqs.nreqs, R.reqs.idx, R.reqs.rx, R.reqs.bc, R.reqs.bn, R.reqs.bk, R.reqs.bw, R.reqs.bx, R.reqs.req⟩
  have Rb : MonBad (m.bookCancel (evOf l)) s := by
    rw [hbc]; exact ⟨R.bad.bad⟩
  have mb1 : MonBad ((m.bookCancel (evOf l)).book m.prev (evOf l)) (settle s0) := monbad_step Rb Rc h
  have Rx : MonRx (m.bookCancel (evOf l)) s := by
    rw [hbc]; exact ⟨R.rx.seen, R.rx.none⟩
  have mc1 : MonCalls ((m.bookCancel (evOf l)).book m.prev (evOf l)) (settle s0) := moncalls_step Rc i (prev_done hp) h
  have mr1 : MonReqs ((m.bookCancel (evOf l)).book m.prev (evOf l)) (settle s0) :=
    monreqs_settle (monreqs_step0 Rr i (prev_sd hp) h0)
  have mx1 : MonRx ((m.bookCancel (evOf l)).book m.prev (evOf l)) (settle s0) := monrx_step Rx h
  have C1 : MonCancel (m.bookCancel (evOf l)) (settle s0) := moncancel_step R.cancel i i' h
  have C2 := moncancel_book C1 m.prev (obsOf (settle s0)) (evOf l)
  have C3 : MonCancel ((m.bookCancel (evOf l)).book m.prev (evOf l)) (settle s0) := by
    obtain ⟨h1, h2⟩ := book_cancelAsked (m.bookCancel (evOf l)) m.prev (evOf l)
    exact ⟨fun id => by rw [h1]; exact C1.asked id, by rw [h2]; exact C1.un⟩
  refine ⟨?_, ?_, ?_, ?_, ?_, ?_, ?_⟩
  · show chkAll ((m.bookCancel (evOf l)).book m.prev (evOf l)) m.prev (obsOf (settle s0)) (evOf l) = none
    unfold chkAll
    rw [chkFinal_none hp h, chkOwn_none mc1 i', chkPanic_none, chkBlocked_none mc1 i', chkLate_none mc1 i',
      chkRegAfterRx_none mx1, chkStillRegistered_none i', chkMarshal_none mb1 i', chkAnswer_none mr1 i', chkOrder_none hp Rr i h0, chkCancelAsked_none C3, chkCancelX_none mr1 i', chkEv_none hp i h mr1 i',
      chkTc_none i', chkOd_none i', chkClosedIdle_none hp h, chkDoneIdle_none i', chkLateDispatch_none mr1 i',
      chkClosedRunning_none hp i' h, chkDoneRunning_none i']
    rfl
  · exact Or.inl rfl
  · exact moncalls_mark mc1 _
  · exact monreqs_mark mr1
  · exact monrx_mark mx1 _
  · exact C2
  · exact monbad_mark mb1 _

/-- No clause fires on the model's own observation trace, from any related pair of states. -/
theorem runMonFrom_traceFrom (ls : List Label) : ∀ (m : Mon) (s : St), MonRel m s → Inv4 s →
    runMonFrom m (traceFrom s ls) = none := by
  induction ls with
  | nil => intro m s _ _; rfl
  | cons l ls ih =>
    intro m s R i
    simp only [traceFrom]
    cases h : step s l with
    | none => rfl
    | some s' =>
      obtain ⟨hnone, R'⟩ := monrel_step R i h
      simp only [runMonFrom]
      cases hm : monStepT m l (obsOf s') with
      | mk m' c =>
        rw [hm] at hnone R'
        simp only at hnone
        subst hnone
        exact ih m' s' R' (inv4_step i h)

end Conn
