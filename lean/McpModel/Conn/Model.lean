/-
E1 — model of `jsonrpc2.Connection` (internal/jsonrpc2/conn.go) with the `mcp.call` caller
(mcp/transport.go:279-313) and the `canceller` preempter (mcp/transport.go:237-257) on top.
Serves C01–C05.

One label = one atomic section of the Go code: a critical section under `stateMu` (the 17
`updateInFlight` call sites, named as in DESIGN.md Appendix A) or an externally visible action
(a transport Read/Write returning, a handler calling Async/returning, a context being cancelled,
a user starting Call/Notify/Close/Wait).  `step` returns `none` when the label is not enabled.
After every label `settle` runs the goroutines that were blocked on a Go channel (Await, `<-done`,
`<-releaser.ch`) up to their next park point.  Ghost fields record history for the theorems.
Core Lean only (linked into the driver).
-/
namespace Conn

/-- Error classes (all the properties distinguish). -/
inductive Err where
  | clientClosing   -- wraps ErrClientClosing
  | serverClosing   -- wraps ErrServerClosing
  | read            -- the reader's error (EOF or other)
  | broken          -- the transport Write failed
  | rejected        -- Write failed with ErrRejected (per-message, connection stays usable)
  | ctx             -- the caller's context ended
  | marshal         -- the call's parameters could not be encoded (the call never reached the connection)
deriving DecidableEq, Repr, Inhabited

def Err.closing : Err → Bool
  | .clientClosing | .serverClosing => true
  | _ => false

/-- Outcome of an outgoing call. -/
inductive Res where
  | resp (payload : Nat)   -- the peer's response (result or error payload, identified by a tag)
  | err (e : Err)
deriving DecidableEq, Repr, Inhabited

inductive CallPc where
  | c1 | w1 | wr | w2 (e : Err) | r (e : Err) | await | rc | fin
deriving DecidableEq, Repr, Inhabited

structure Call where
  pc : CallPc := .c1
  ctxDone : Bool := false
  ready : Option Res := none
  retires : Nat := 0            -- ghost: how many times `ac.retire` ran
  registered : Bool := false    -- ghost: C1 registered it
  result : Option Res := none   -- what `call()` returned (at fin)
deriving Repr, Inhabited

inductive NotifPc where
  | n1 | w1 | wr | w2 (e : Err) | n2 (res : Option Err) | fin (res : Option Err)
deriving DecidableEq, Repr, Inhabited

structure Notif where
  pc : NotifPc := .n1
  cancelFor : Option Nat := none   -- the detached notifications/cancelled of call n
deriving Repr, Inhabited

inductive Owner where | reader | dispatcher | handler
deriving DecidableEq, Repr, Inhabited

/-- Why a request's context was cancelled (first cause wins, as with context.WithCancelCause). -/
inductive Cause where | peer | read | write | finished
deriving DecidableEq, Repr, Inhabited

inductive ReqPc where
  | a1 | a2 | queued | running | p1 | w1 | wr | w2 (e : Err) | p2 | fin
deriving DecidableEq, Repr, Inhabited

/-- The bookkeeping part of an incoming request (what the counters and tables depend on). -/
structure ReqCore where
  id : Option Nat := none          -- wire id of a call; none for a notification
  isCall : Bool := false           -- `req.IsCall()`: false for notifications and after A1 cleared a duplicate id
  pc : ReqPc := .a1
  owner : Owner := .reader         -- the goroutine that runs processResult for it
  wrote : Nat := 0                 -- ghost: response writes attempted (W1 reached)
  responses : Nat := 0             -- ghost: responses handed to a successful transport Write
deriving Repr, Inhabited, DecidableEq

/-- The rest of an incoming request: context cancellation, release of the dispatcher, ghost stamps. -/
structure ReqMeta where
  cancelTarget : Option Nat := none -- notifications/cancelled for this id
  cancelled : Option Cause := none
  released : Bool := false         -- the dispatcher may go on (Async, or the handler goroutine finished)
  asyncCalled : Bool := false
  rejected : Bool := false         -- refused at A1/A2 (never reaches the handler)
  seen : Bool := false             -- passed A1 and was offered to the preempter (its ctx is observable)
  started : Option Nat := none     -- ghost: stamp when Handle was entered
  ended : Option Nat := none       -- ghost: stamp when Handle returned
deriving Repr, Inhabited

inductive ReaderPc where
  | start            -- NewConnection parked at START
  | read             -- parked in Reader.Read
  | rr (id : Nat) (payload : Nat)  -- parked before RR with a response
  | rx               -- parked before RX (Read failed)
  | busy             -- running acceptRequest for the newest request
  | gone
deriving DecidableEq, Repr, Inhabited

inductive DispPc where
  | none | d1 | waiting (r : Nat) | busy (r : Nat)
deriving DecidableEq, Repr, Inhabited

structure St where
  -- inFlightState
  closing : Bool := false
  reading : Bool := false
  readErr : Bool := false
  writeErr : Bool := false
  closerUsed : Bool := false
  done : Bool := false
  outCalls : List Nat := []           -- keys of outgoingCalls
  outNotifs : Nat := 0
  incoming : Nat := 0
  byID : List (Nat × Nat) := []       -- incomingByID: wire id ↦ request number
  queue : List Nat := []
  handlerRunning : Bool := false
  -- processes
  reader : ReaderPc := .start
  disp : DispPc := .none
  calls : List Call := []             -- call n is calls[n-1]
  unotifs : List Notif := []          -- user Notify processes u0,u1,…
  cnotifs : List Notif := []          -- detached cancel notifications x0,x1,… (in order of creation; `cancelFor` names the call)
  cores : List ReqCore := []          -- request r is (cores[r], metas[r]) (arrival order)
  metas : List ReqMeta := []
  cancels : List Nat := []            -- Cancel(id) goroutines parked before K1
  closeCl1 : Nat := 0                 -- Close() goroutines parked before CL1
  closeWaiting : Nat := 0             -- … blocked on <-done
  closeWt : Nat := 0                  -- … parked before WT
  closeFin : Nat := 0
  waitWaiting : Nat := 0
  waitWt : Nat := 0
  waitFin : List Bool := []           -- results of Wait(): true = nil error
  -- ghost
  panicRetire : Bool := false          -- `ac.retire` called twice
  panicIncoming : Bool := false        -- processResult with incoming already zero
  panicIdle : Bool := false            -- updateInFlight left a done connection non-idle
  respLog : List (Nat × Nat) := []     -- every (id, payload) response the reader took off the wire (at RR)
  brokenWrites : Nat := 0              -- transport writes that failed as broken
  transportCloses : Nat := 0
  closedWhileBusy : Bool := false     -- the transport was closed in a non-idle state
  onDone : Nat := 0
  clock : Nat := 0
  wire : List (Nat × Bool) := []      -- (request number, isError) of responses successfully written
deriving Repr, Inhabited

def St.panicked (s : St) : Bool := s.panicRetire || s.panicIncoming || s.panicIdle

def St.idle (s : St) : Bool :=
  s.outCalls.isEmpty && s.outNotifs == 0 && s.incoming == 0 && !s.handlerRunning

def St.shuttingDown (s : St) : Bool := s.closing || s.readErr || s.writeErr

/-- `s.closer.Close()` once (conn.go:120-123). -/
def closeTransport (s : St) : St :=
  if s.closerUsed then s else { s with closerUsed := true, transportCloses := s.transportCloses + 1 }

/-- If the reader has exited: `onDone`, close `done` (conn.go:124-135). -/
def finish (s : St) : St :=
  if s.reading then s else { s with onDone := s.onDone + 1, done := true }

/-- The common tail of `updateInFlight` (conn.go:106-136). -/
def tail (s : St) : St :=
  if s.done then
    if s.idle then s else { s with panicIdle := true }
  else if s.idle && s.shuttingDown then finish (closeTransport s)
  else s

/-- `ac.retire`: panics when called twice. -/
def retireCall (c : Call) (r : Res) : Call × Bool :=
  match c.ready with
  | some _ => (c, true)
  | none => ({ c with ready := some r, retires := c.retires + 1 }, false)

def modCall (s : St) (n : Nat) (f : Call → Call) : St := { s with calls := s.calls.modify (n - 1) f }
def getCall (s : St) (n : Nat) : Option Call := if n = 0 then none else s.calls[n - 1]?
def modCore (s : St) (r : Nat) (f : ReqCore → ReqCore) : St := { s with cores := s.cores.modify r f }
def modMeta (s : St) (r : Nat) (f : ReqMeta → ReqMeta) : St := { s with metas := s.metas.modify r f }

def retireIn (s : St) (n : Nat) (res : Res) : St :=
  match getCall s n with
  | none => s
  | some c =>
    let (c', p) := retireCall c res
    let s := modCall s n (fun _ => c')
    if p then { s with panicRetire := true } else s

def cancelReq (s : St) (r : Nat) (cause : Cause) : St :=
  modMeta s r (fun q => if q.cancelled.isSome then q else { q with cancelled := some cause })

/-- Who is writing: an outgoing call, a user notification, a detached cancel notification, a response. -/
inductive Who where
  | call (n : Nat) | unotif (k : Nat) | cnotif (k : Nat) | resp (r : Nat)
deriving DecidableEq, Repr, Inhabited

inductive WOut where | ok | broken | rejected | ctx
deriving DecidableEq, Repr, Inhabited

inductive RMsg where
  | call (id : Nat) | notif | cancel (id : Nat) | resp (id : Nat) (payload : Nat) | eof
deriving DecidableEq, Repr, Inhabited

inductive Label where
  -- environment
  | ecall | enotify | ectx (n : Nat) | eclose | ewait
  | ecallbad   -- a user starts a call whose params cannot be encoded
  | read (m : RMsg)
  | wret (w : Who) (o : WOut)
  | hasync (r : Nat) | hret (r : Nat) (isErr : Bool)
  -- critical sections (yield sites)
  | start | n1 (w : Who) | n2 (w : Who) | c1 (n : Nat) | retire (n : Nat) | k1 (id : Nat) | wt (fromWait : Bool) | cl1
  | rresp | rx | a1 (r : Nat) | a2 (r : Nat) | d1 | p1 (r : Nat) | p2 (r : Nat) | w1 (w : Who) | w2 (w : Who)
deriving DecidableEq, Repr, Inhabited

def getNotif (s : St) : Who → Option Notif
  | .unotif k => s.unotifs[k]?
  | .cnotif n => s.cnotifs[n]?
  | _ => none

def setNotif (s : St) (w : Who) (f : Notif → Notif) : St :=
  match w with
  | .unotif k => { s with unotifs := s.unotifs.modify k f }
  | .cnotif n => { s with cnotifs := s.cnotifs.modify n f }
  | _ => s

/-- After a request's processResult finished (P2 done), whoever ran it continues. -/
def afterP2 (s : St) (r : Nat) (own : Owner) : St :=
  match own with
  | .reader => { s with reader := .read }
  | .dispatcher => { s with disp := .d1 }
  | .handler => modMeta s r (fun q => { q with released := true })

/-- The goroutine running processResult reaches the park point before P2; `req.cancel(nil)` has just run. -/
def toP2 (s : St) (r : Nat) : St :=
  cancelReq (modCore s r fun q => { q with pc := .p2 }) r .finished

/-- Begin processResult for request r on goroutine `own`: calls go to P1, notifications to P2. -/
def beginPR (s : St) (r : Nat) (own : Owner) : St :=
  match s.cores[r]? with
  | none => s
  | some q =>
    if q.isCall then modCore s r (fun q => { q with owner := own, pc := .p1 })
    else toP2 (modCore s r (fun q => { q with owner := own })) r

/-- A caller blocked in `Await` (mcp/transport.go:281-312) continues as soon as the call is ready or
its context is done: a closing-class error with a live context returns "connection closed"; a done
context leads to the eager `Retire` (park point R); otherwise the result is returned.
(Ready with a closing-class error *and* a done context makes Go's `select` choose at random; the
harness does not generate that schedule and the model takes the `rc` branch.) -/
def settleCall (c : Call) : Call :=
  if c.pc = .await then
    match c.ready with
    | some (.err e) =>
      if e.closing && !c.ctxDone then { c with pc := .fin, result := some (.err e) }
      else if c.ctxDone then { c with pc := .rc }
      else { c with pc := .fin, result := some (.err e) }
    | some r =>
      if c.ctxDone then { c with pc := .rc } else { c with pc := .fin, result := some r }
    | none => if c.ctxDone then { c with pc := .rc } else c
  else c

/-- Goroutines blocked on Go channels continue to their next park point. -/
def settleCalls (s : St) : St := { s with calls := s.calls.map settleCall }

/-- Close()/Wait() goroutines blocked on `<-c.done` reach their park point before WT once done is closed. -/
def settleWaiters (s : St) : St :=
  if s.done then
    { s with closeWt := s.closeWt + s.closeWaiting, closeWaiting := 0,
             waitWt := s.waitWt + s.waitWaiting, waitWaiting := 0 }
  else s

/-- The dispatcher blocked on `<-releaser.ch` goes on to D1 once the request was released. -/
def settleDisp (s : St) : St :=
  match s.disp with
  | .waiting r =>
    match s.metas[r]? with
    | some q => if q.released then { s with disp := .d1 } else s
    | none => s
  | _ => s

def settle (s : St) : St := settleDisp (settleWaiters (settleCalls s))

/-- The write gate W1 (conn.go:756-761) for message `w`; returns whether the write may proceed. -/
def gateOpen (s : St) (isNotification : Bool) : Bool :=
  if isNotification && s.outNotifs > 0 then true else !s.shuttingDown

/-- W2 (conn.go:777-784): mark the writer broken and cancel every indexed request. -/
def markBroken (s : St) : St :=
  if s.writeErr then s
  else s.byID.foldl (fun s p => cancelReq s p.2 .write) { s with writeErr := true }

/-- One atomic section (before the blocked goroutines are woken). -/
def step0 (s : St) : Label → Option St
  -- ───────────── environment ─────────────
  | .ecall => some { s with calls := s.calls ++ [{}] }
  -- `Call` with params that `NewCall` cannot marshal (conn.go:318-322): the id is taken from the
  -- sequence, the AsyncCall is retired with the marshalling error without being registered and
  -- without reaching C1; `mcp.call`'s Await returns that error at once
  | .ecallbad => some { s with calls := s.calls ++
      [{ pc := .fin, ready := some (.err .marshal), result := some (.err .marshal), retires := 1, registered := false }] }
  | .enotify => some { s with unotifs := s.unotifs ++ [{}] }
  | .eclose => some { s with closeCl1 := s.closeCl1 + 1 }
  | .ewait => some { s with waitWaiting := s.waitWaiting + 1 }
  | .ectx n =>
    match getCall s n with
    | none => none
    | some c => if c.ctxDone then none else some (modCall s n fun c => { c with ctxDone := true })
  | .read m =>
    if s.reader ≠ .read then none else
    match m with
    | .eof => some { s with reader := .rx }
    | .resp id p => some { s with reader := .rr id p }
    | .call id => some { s with reader := .busy, cores := s.cores ++ [{ id := some id, isCall := true }], metas := s.metas ++ [{}] }
    | .notif => some { s with reader := .busy, cores := s.cores ++ [{}], metas := s.metas ++ [{}] }
    | .cancel id => some { s with reader := .busy, cores := s.cores ++ [{}], metas := s.metas ++ [{ cancelTarget := some id }] }
  | .wret w o =>
    match w with
    | .call n =>
      match getCall s n with
      | none => none
      | some c =>
        if c.pc ≠ .wr then none else
        -- the scripted writer returns ok only while ctx is alive and ctx-error only when it is done
        match o, c.ctxDone with
        | .ok, false => some (modCall s n fun c => { c with pc := .await })
        | .broken, false => some (modCall { s with brokenWrites := s.brokenWrites + 1 } n fun c => { c with pc := .w2 .broken })
        | .broken, true => some (modCall s n fun c => { c with pc := .r .broken })
        | .rejected, _ => some (modCall s n fun c => { c with pc := .r .rejected })
        | .ctx, true => some (modCall s n fun c => { c with pc := .r .ctx })
        | _, _ => none
    | .resp r =>
      match s.cores[r]? with
      | none => none
      | some q =>
        if q.pc ≠ .wr then none else
        match o with
        | .ok => some (toP2 (modCore { s with wire := s.wire ++ [(r, false)] } r fun q => { q with responses := q.responses + 1 }) r)
        | .broken => some (modCore { s with brokenWrites := s.brokenWrites + 1 } r fun q => { q with pc := .w2 .broken })
        | .rejected => some (toP2 s r)
        | .ctx => none     -- response writes use notDone{ctx}: never cancelled
    | w =>
      match getNotif s w with
      | none => none
      | some nf =>
        if nf.pc ≠ .wr then none else
        match o with
        | .ok => some (setNotif s w fun nf => { nf with pc := .n2 none })
        | .broken => some (setNotif { s with brokenWrites := s.brokenWrites + 1 } w fun nf => { nf with pc := .w2 .broken })
        | .rejected => some (setNotif s w fun nf => { nf with pc := .n2 (some .rejected) })
        | .ctx => none     -- notification contexts are never cancelled by the harness
  | .hasync r =>
    match s.cores[r]?, s.metas[r]? with
    | some q, some m =>
      if q.pc ≠ .running || m.asyncCalled then none
      else some (modMeta s r fun m => { m with asyncCalled := true, released := true })
    | _, _ => none
  | .hret r _ =>
    match s.cores[r]? with
    | none => none
    | some q =>
      if q.pc ≠ .running then none
      else
        let s := { s with clock := s.clock + 1 }
        let s := modMeta s r fun q => { q with ended := some s.clock }
        some (beginPR s r .handler)
  -- ───────────── critical sections ─────────────
  | .start =>
    if s.reader ≠ .start then none
    else if s.done then some (tail { s with reader := .gone })   -- already closed: no reader is started
    else some (tail { s with reading := true, reader := .read })
  | .n1 w =>
    match getNotif s w with
    | none => none
    | some nf =>
      if nf.pc ≠ .n1 then none else
      if s.outCalls.isEmpty && s.byID.isEmpty && s.shuttingDown then
        some (tail (setNotif s w fun nf => { nf with pc := .fin (some .clientClosing) }))
      else some (tail (setNotif { s with outNotifs := s.outNotifs + 1 } w fun nf => { nf with pc := .w1 }))
  | .n2 w =>
    match getNotif s w with
    | none => none
    | some nf =>
      match nf.pc with
      | .n2 res => some (tail (setNotif { s with outNotifs := s.outNotifs - 1 } w fun nf => { nf with pc := .fin res }))
      | _ => none
  | .c1 n =>
    match getCall s n with
    | none => none
    | some c =>
      if c.pc ≠ .c1 then none else
      if s.shuttingDown then
        -- refused: retired locally right after the critical section, Call returns, Await sees it ready
        let s := tail s
        some (retireIn (modCall s n fun c => { c with pc := .await }) n (.err .clientClosing))
      else some (tail (modCall { s with outCalls := s.outCalls ++ [n] } n fun c => { c with pc := .w1, registered := true }))
  | .retire n =>   -- R: Retire(ac, err)
    match getCall s n with
    | none => none
    | some c =>
      let e? : Option (Err × Bool) := match c.pc with
        | .r e => some (e, false)
        | .rc => some (.ctx, true)
        | _ => none
      match e? with
      | none => none
      | some (e, viaCtx) =>
        let s := if s.outCalls.contains n
          then retireIn { s with outCalls := s.outCalls.erase n } n (.err e) else s
        let s := tail s
        if viaCtx then
          -- call(): spawn the detached notifications/cancelled, return ctx.Err()
          some { (modCall s n fun c => { c with pc := .fin, result := some (.err .ctx) }) with
                  cnotifs := s.cnotifs ++ [{ cancelFor := some n }] }
        else some (modCall s n fun c => { c with pc := .await })
  | .k1 id =>
    if !s.cancels.contains id then none else
    let s := { s with cancels := s.cancels.erase id }
    let s := tail s
    -- `req.cancel(nil)` follows outside the lock; merged into this label (it is idempotent and
    -- acts on the request object found under the lock, whatever happens in between)
    match s.byID.lookup id with
    | some r => some (cancelReq s r .peer)
    | none => some s
  | .cl1 =>
    if s.closeCl1 = 0 then none
    else some (tail { s with closing := true, closeCl1 := s.closeCl1 - 1, closeWaiting := s.closeWaiting + 1 })
  | .wt fromWait =>
    if !s.done then none else
    if fromWait then
      if s.waitWt = 0 then none
      else some (tail { s with waitWt := s.waitWt - 1, waitFin := s.waitFin ++ [true] })
    else
      if s.closeWt = 0 then none
      else some (tail { s with closeWt := s.closeWt - 1, closeFin := s.closeFin + 1 })
  | .rresp =>
    match s.reader with
    | .rr id p =>
      let s := { s with reader := .read, respLog := s.respLog ++ [(id, p)] }
      let s := if s.outCalls.contains id
        then retireIn { s with outCalls := s.outCalls.erase id } id (.resp p) else s
      some (tail s)
    | _ => none
  | .rx =>
    if s.reader ≠ .rx then none else
    let s := { s with reader := .gone, reading := false, readErr := true }
    let s := s.outCalls.foldl (fun s n => retireIn s n (.err .read)) s
    let s := { s with outCalls := [] }
    let s := s.byID.foldl (fun s p => cancelReq s p.2 .read) s
    some (tail s)
  | .a1 r =>
    match s.cores[r]? with
    | none => none
    | some q =>
      if q.pc ≠ .a1 then none else
      let s := { s with incoming := s.incoming + 1 }
      match q.id, q.isCall with
      | some id, true =>
        if (s.byID.lookup id).isSome then
          -- duplicate in-flight id: the request loses its id and is dropped as a notification
          let s := modMeta (modCore s r fun q => { q with isCall := false }) r fun m => { m with rejected := true }
          some (tail (beginPR s r .reader))
        else
          let s := { s with byID := s.byID ++ [(id, r)] }
          if s.shuttingDown then
            let s := modMeta s r fun q => { q with rejected := true }
            some (tail (beginPR s r .reader))
          else some (tail (modMeta (modCore s r fun q => { q with pc := .a2 }) r fun m => { m with seen := true }))
      | _, _ =>
        -- notification: the canceller preempter turns notifications/cancelled into `go Cancel(id)`
        let s := match (s.metas[r]?).bind (·.cancelTarget) with
          | some id => { s with cancels := s.cancels ++ [id] }
          | none => s
        some (tail (modMeta (modCore s r fun q => { q with pc := .a2 }) r fun m => { m with seen := true }))
  | .a2 r =>
    match s.cores[r]? with
    | none => none
    | some q =>
      if q.pc ≠ .a2 then none else
      if s.shuttingDown then
        let s := modMeta s r fun q => { q with rejected := true }
        some (tail (beginPR s r .reader))
      else
        let s := modCore { s with queue := s.queue ++ [r], reader := .read } r fun q => { q with pc := .queued }
        if s.handlerRunning then some (tail s)
        else some (tail { s with handlerRunning := true, disp := .d1 })
  | .d1 =>
    if s.disp ≠ .d1 then none else
    match s.queue with
    | [] => some (tail { s with handlerRunning := false, disp := .none })
    | r :: rest =>
      let s := tail { s with queue := rest }
      match s.metas[r]? with
      | none => none
      | some q =>
        if q.cancelled.isSome then
          some (beginPR { s with disp := .busy r } r .dispatcher)
        else
          let s := { s with clock := s.clock + 1, disp := .waiting r }
          some (modMeta (modCore s r fun q => { q with pc := .running, owner := .handler }) r fun m => { m with started := some s.clock })
  | .p1 r =>
    match s.cores[r]? with
    | none => none
    | some q =>
      if q.pc ≠ .p1 then none else
      let s := match q.id with
        | some id => { s with byID := s.byID.filter (fun p => p.1 ≠ id) }
        | none => s
      some (tail (modCore s r fun q => { q with pc := .w1 }))
  | .p2 r =>
    match s.cores[r]? with
    | none => none
    | some q =>
      if q.pc ≠ .p2 then none else
      let s := if s.incoming = 0 then { s with panicIncoming := true } else { s with incoming := s.incoming - 1 }
      let s := tail (modCore s r fun q => { q with pc := .fin })
      some (afterP2 s r q.owner)
  | .w1 w =>
    match w with
    | .call n =>
      match getCall s n with
      | none => none
      | some c =>
        if c.pc ≠ .w1 then none else
        if gateOpen s false then some (tail (modCall s n fun c => { c with pc := .wr }))
        else
          -- refused before reaching the transport: `write` returns the refusal at once (it says
          -- nothing about the writer's health, so there is no W2); Call then retires the call
          some (tail (modCall s n fun c => { c with pc := .r .serverClosing }))
    | .resp r =>
      match s.cores[r]? with
      | none => none
      | some q =>
        if q.pc ≠ .w1 then none else
        let s := modCore s r fun q => { q with wrote := q.wrote + 1 }
        -- a response passes the shutdown gate unless the writer is known to be broken: its request
        -- is still counted in `incoming`, so the transport cannot have been closed by us
        if !s.writeErr then some (tail (modCore s r fun q => { q with pc := .wr }))
        else some (toP2 (tail s) r)      -- refused: the response is dropped, no W2
    | w =>
      match getNotif s w with
      | none => none
      | some nf =>
        if nf.pc ≠ .w1 then none else
        if gateOpen s true then some (tail (setNotif s w fun nf => { nf with pc := .wr }))
        else some (tail (setNotif s w fun nf => { nf with pc := .n2 (some .serverClosing) }))
  | .w2 w =>
    match w with
    | .call n =>
      match getCall s n with
      | none => none
      | some c =>
        match c.pc with
        | .w2 e => some (tail (modCall (markBroken s) n fun c => { c with pc := .r e }))
        | _ => none
    | .resp r =>
      match s.cores[r]? with
      | none => none
      | some q =>
        match q.pc with
        | .w2 _ => some (toP2 (tail (markBroken s)) r)
        | _ => none
    | w =>
      match getNotif s w with
      | none => none
      | some nf =>
        match nf.pc with
        | .w2 e => some (tail (setNotif (markBroken s) w fun nf => { nf with pc := .n2 (some e) }))
        | _ => none

/-- One label: the atomic section, then every goroutine that was blocked on a channel and can now
continue runs to its next park point. -/
def step (s : St) (l : Label) : Option St := (step0 s l).map settle

def run (s : St) : List Label → Option St
  | [] => some s
  | l :: ls => match step s l with
    | none => none
    | some s' => run s' ls

end Conn
