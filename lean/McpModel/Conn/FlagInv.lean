import McpModel.Conn.ReqInv
import McpModel.Conn.CallInv
/-! Invariants of the shutdown flags and counters (C05; and "done ⇒ nothing pending" for C01). -/
namespace Conn

def ReaderPc.active : ReaderPc → Bool
  | .start | .gone => false
  | _ => true

/-- The part of the state the flag invariants talk about. -/
structure FV where
  closing : Bool
  reading : Bool
  readErr : Bool
  writeErr : Bool
  closerUsed : Bool
  done : Bool
  transportCloses : Nat
  onDone : Nat
  panicIdle : Bool
  outCalls : List Nat
  outNotifs : Nat
  incoming : Nat
  handlerRunning : Bool
  reader : ReaderPc

def fview (s : St) : FV :=
  { closing := s.closing, reading := s.reading, readErr := s.readErr, writeErr := s.writeErr, closerUsed := s.closerUsed,
    done := s.done, transportCloses := s.transportCloses, onDone := s.onDone, panicIdle := s.panicIdle,
    outCalls := s.outCalls, outNotifs := s.outNotifs, incoming := s.incoming, handlerRunning := s.handlerRunning,
    reader := s.reader }

def FV.idle (v : FV) : Bool := v.outCalls.isEmpty && v.outNotifs == 0 && v.incoming == 0 && !v.handlerRunning
def FV.shuttingDown (v : FV) : Bool := v.closing || v.readErr || v.writeErr

/-- View-level copy of `tail`. -/
def FV.tail (v : FV) : FV :=
  if v.done then
    if v.idle then v else { v with panicIdle := true }
  else if v.idle && v.shuttingDown then
    let v := if v.closerUsed then v else { v with closerUsed := true, transportCloses := v.transportCloses + 1 }
    if v.reading then v else { v with onDone := v.onDone + 1, done := true }
  else v

@[simp] theorem fview_tail (s : St) : fview (tail s) = (fview s).tail := by
  have hi : (fview s).idle = s.idle := rfl
  have hs : (fview s).shuttingDown = s.shuttingDown := rfl
  unfold tail FV.tail finish closeTransport
  rw [hi, hs]
  cases hd : s.done <;> cases hcu : s.closerUsed <;> cases hrd : s.reading <;>
    cases hidle : s.idle <;> cases hsd : s.shuttingDown <;>
    simp [fview, hd, hcu, hrd]

@[simp] theorem fview_modCall (s : St) (n : Nat) (f : Call → Call) : fview (modCall s n f) = fview s := rfl
@[simp] theorem fview_modCore (s : St) (r : Nat) (f : ReqCore → ReqCore) : fview (modCore s r f) = fview s := rfl
@[simp] theorem fview_modMeta (s : St) (r : Nat) (f : ReqMeta → ReqMeta) : fview (modMeta s r f) = fview s := rfl
@[simp] theorem fview_cancelReq (s : St) (r : Nat) (c : Cause) : fview (cancelReq s r c) = fview s := rfl
@[simp] theorem fview_toP2 (s : St) (r : Nat) : fview (toP2 s r) = fview s := rfl
@[simp] theorem fview_setNotif (s : St) (w : Who) (f : Notif → Notif) : fview (setNotif s w f) = fview s := by
  cases w <;> rfl
@[simp] theorem fview_beginPR (s : St) (r : Nat) (o : Owner) : fview (beginPR s r o) = fview s := by
  unfold beginPR; split
  · rfl
  · split <;> rfl
@[simp] theorem fview_retireIn (s : St) (n : Nat) (r : Res) : fview (retireIn s n r) = fview s := by
  unfold retireIn; split
  · rfl
  · simp only []; split <;> rfl
theorem fview_foldl_cancel (l : List (Nat × Nat)) (c : Cause) (s : St) :
    fview (l.foldl (fun s p => cancelReq s p.2 c) s) = fview s := by
  induction l generalizing s with
  | nil => rfl
  | cons p t ih => simp [List.foldl, ih]
theorem fview_foldl_retire (l : List Nat) (r : Res) (s : St) :
    fview (l.foldl (fun s n => retireIn s n r) s) = fview s := by
  induction l generalizing s with
  | nil => rfl
  | cons a t ih => simp [List.foldl, ih]
@[simp] theorem fview_markBroken (s : St) : fview (markBroken s) = { fview s with writeErr := true } := by
  unfold markBroken; split
  · rename_i h; simp [fview, h]
  · rw [fview_foldl_cancel]; rfl
@[simp] theorem fview_settleCalls (s : St) : fview (settleCalls s) = fview s := rfl
@[simp] theorem fview_settleWaiters (s : St) : fview (settleWaiters s) = fview s := by
  unfold settleWaiters; split <;> rfl
@[simp] theorem fview_settleDisp (s : St) : fview (settleDisp s) = fview s := by
  unfold settleDisp; split
  · split
    · split <;> rfl
    · rfl
  · rfl
@[simp] theorem fview_settle (s : St) : fview (settle s) = fview s := by simp [settle]

structure FInvV (v : FV) : Prop where
  /-- transport_closed_at_most_once -/
  tc : v.transportCloses = if v.closerUsed then 1 else 0
  /-- onDone / done exactly once -/
  od : v.onDone = if v.done then 1 else 0
  /-- the "non-idle after done" panic is unreachable -/
  np : v.panicIdle = false
  /-- a finished connection is idle, shut down, has no reader and a closed transport -/
  dn : v.done = true → v.idle = true ∧ v.shuttingDown = true ∧ v.reading = false ∧ v.closerUsed = true
  rd : v.reading = v.reader.active

def FInv (s : St) : Prop := FInvV (fview s)

/-- The common tail keeps the invariant (and is where `done` is established). -/
theorem finv_tail {v : FV} (i : FInvV v) : FInvV v.tail := by
  obtain ⟨tc, od, np, dn, rd⟩ := i
  unfold FV.tail
  cases hd : v.done <;> cases hcu : v.closerUsed <;> cases hrd : v.reading <;>
    cases hidle : v.idle <;> cases hsd : v.shuttingDown <;>
    simp only [hd, hcu, hrd, hidle, hsd, Bool.false_eq_true, if_false, if_true, Bool.and_false, Bool.and_true,
      Bool.false_and, Bool.true_and, Bool.and_self] <;>
    first
    | exact ⟨tc, od, np, dn, rd⟩
    | (refine ⟨?_, ?_, ?_, ?_, ?_⟩ <;> simp_all [FV.idle, FV.shuttingDown])

/-- A pre-tail update that leaves the closer/done counters alone. -/
theorem FInvV.upd {v v1 : FV} (i : FInvV v)
    (h1 : v1.closerUsed = v.closerUsed) (h2 : v1.transportCloses = v.transportCloses) (h3 : v1.done = v.done)
    (h4 : v1.onDone = v.onDone) (h5 : v1.panicIdle = v.panicIdle)
    (hdn : v.done = true → v1.idle = true ∧ v1.shuttingDown = true ∧ v1.reading = false)
    (hrd : v1.reading = v1.reader.active) : FInvV v1 :=
  ⟨by rw [h2, h1]; exact i.tc, by rw [h4, h3]; exact i.od, by rw [h5]; exact i.np,
    fun h => by rw [h3] at h; exact ⟨(hdn h).1, (hdn h).2.1, (hdn h).2.2, by rw [h1]; exact (i.dn h).2.2.2⟩, hrd⟩

end Conn

namespace Conn

theorem rinv_byID_empty {s : St} (i : RInv (reqView s)) (h : s.incoming = 0) : s.byID = [] := by
  cases hb : s.byID with
  | nil => rfl
  | cons p t =>
    exfalso
    have hm : p ∈ (reqView s).byID := by simp [reqView, hb]
    have hlt := i.byr p hm
    obtain ⟨k, hk⟩ : ∃ k, (reqView s).cores[p.2]? = some k := ⟨_, List.getElem?_eq_getElem hlt⟩
    have hidx := ((i.ok p.2 k hk).idx p.1).mp hm
    have hinfl : k.pc.inflight = true := by
      have := hidx.2.2
      cases hpc : k.pc <;> simp [hpc, ReqPc.indexed, ReqPc.inflight] at this ⊢
    have := countInflight_pos _ _ k hk hinfl
    have hc := i.cnt
    simp only [reqView] at hc this
    omega

/-- `tail` after a pre-tail update that leaves the closer/done counters alone. -/
theorem FInvV.updTail {v v1 : FV} (i : FInvV v)
    (h1 : v1.closerUsed = v.closerUsed) (h2 : v1.transportCloses = v.transportCloses) (h3 : v1.done = v.done)
    (h4 : v1.onDone = v.onDone) (h5 : v1.panicIdle = v.panicIdle)
    (hdn : v.done = true → v1.idle = true ∧ v1.shuttingDown = true ∧ v1.reading = false)
    (hrd : v1.reading = v1.reader.active) : FInvV v1.tail :=
  finv_tail (i.upd h1 h2 h3 h4 h5 hdn hrd)

/-- Labels whose effect on the flag view is not just `tail`. -/
def Label.special : Label → Bool
  | .read _ | .start | .n1 _ | .n2 _ | .c1 _ | .retire _ | .cl1 | .rresp | .rx | .a1 _ | .a2 _ | .d1 | .p2 _ | .w2 _ => true
  | _ => false

set_option maxRecDepth 8000 in
theorem finv_step0_easy {s s' : St} {l : Label} (i : FInv s) (h : step0 s l = some s') (hl : l.special = false) : FInv s' := by
  unfold FInv at i ⊢
  cases l <;> simp [Label.special] at hl <;> simp only [step0] at h
  all_goals (repeat' (split at h))
  all_goals first
    | (simp at h; done)
    | (injection h with h; subst h
       first
       | exact i
       | (simp only [fview_tail, fview_modCall, fview_modCore, fview_modMeta, fview_cancelReq, fview_toP2, fview_setNotif,
            fview_beginPR, fview_retireIn]
          first
          | exact i
          | exact finv_tail i))

end Conn

namespace Conn

theorem finv_read {s s' : St} {m : RMsg} (i : FInv s) (h : step0 s (.read m) = some s') : FInv s' := by
  unfold FInv at i ⊢
  simp only [step0] at h
  split at h
  · cases h
  · rename_i hrd
    have hrd : s.reader = .read := by simpa using hrd
    have hreading : s.reading = true := by have := i.rd; simpa [fview, hrd, ReaderPc.active] using this
    cases m <;> simp only at h <;> cases h <;>
      exact i.upd rfl rfl rfl rfl rfl (fun hd => ⟨(i.dn hd).1, (i.dn hd).2.1, (i.dn hd).2.2.1⟩)
        (by simp [fview, hreading, ReaderPc.active])

theorem finv_start {s s' : St} (i : FInv s) (h : step0 s .start = some s') : FInv s' := by
  unfold FInv at i ⊢
  simp only [step0] at h
  split at h
  · cases h
  · rename_i hrd
    have hrd : s.reader = .start := by simpa using hrd
    have hreading : s.reading = false := by have := i.rd; simpa [fview, hrd, ReaderPc.active] using this
    split at h <;> cases h <;> rw [fview_tail]
    · exact i.updTail rfl rfl rfl rfl rfl (fun hd => ⟨(i.dn hd).1, (i.dn hd).2.1, (i.dn hd).2.2.1⟩)
        (by simp [fview, hreading, ReaderPc.active])
    · rename_i hnd
      exact i.updTail rfl rfl rfl rfl rfl (fun hd => absurd hd hnd) (by simp [fview, ReaderPc.active])

theorem finv_n1 {s s' : St} {w : Who} (hr : RInv (reqView s)) (i : FInv s) (h : step0 s (.n1 w) = some s') : FInv s' := by
  unfold FInv at i ⊢
  simp only [step0] at h
  split at h
  · cases h
  · split at h
    · cases h
    · split at h <;> cases h <;> simp only [fview_tail, fview_setNotif]
      · exact finv_tail i
      · rename_i hadm
        refine i.updTail rfl rfl rfl rfl rfl ?_ i.rd
        intro hd
        exfalso
        obtain ⟨h1, h2, _, _⟩ := i.dn hd
        simp only [fview, FV.idle, Bool.and_eq_true, beq_iff_eq, Bool.not_eq_true'] at h1
        have hb := rinv_byID_empty hr h1.1.2
        apply hadm
        simp [h1.1.1.1, hb]
        exact h2

theorem finv_n2 {s s' : St} {w : Who} (i : FInv s) (h : step0 s (.n2 w) = some s') : FInv s' := by
  unfold FInv at i ⊢
  simp only [step0] at h
  split at h
  · cases h
  · split at h
    · cases h; simp only [fview_tail, fview_setNotif]
      refine i.updTail rfl rfl rfl rfl rfl ?_ i.rd
      intro hd
      obtain ⟨h1, h2, h3, _⟩ := i.dn hd
      simp only [fview, FV.idle, Bool.and_eq_true, beq_iff_eq, Bool.not_eq_true'] at h1
      refine ⟨?_, h2, h3⟩
      simp [fview, FV.idle, h1.1.1.1, h1.1.1.2, h1.1.2, h1.2]
    · cases h

theorem finv_cl1 {s s' : St} (i : FInv s) (h : step0 s .cl1 = some s') : FInv s' := by
  unfold FInv at i ⊢
  simp only [step0] at h
  split at h
  · cases h
  · cases h; rw [fview_tail]
    exact i.updTail rfl rfl rfl rfl rfl (fun hd => ⟨(i.dn hd).1, by simp [fview, FV.shuttingDown], (i.dn hd).2.2.1⟩) i.rd

theorem finv_w2 {s s' : St} {w : Who} (i : FInv s) (h : step0 s (.w2 w) = some s') : FInv s' := by
  unfold FInv at i ⊢
  have key : FInvV ({ fview s with writeErr := true } : FV).tail :=
    i.updTail rfl rfl rfl rfl rfl (fun hd => ⟨(i.dn hd).1, by simp [FV.shuttingDown], (i.dn hd).2.2.1⟩) i.rd
  simp only [step0] at h
  cases w <;> simp only at h <;> (repeat' (split at h)) <;>
    first
    | (cases h; done)
    | (cases h; simpa only [fview_tail, fview_modCall, fview_toP2, fview_setNotif, fview_markBroken] using key)

end Conn

namespace Conn

theorem idle_outCalls {v : FV} (h : v.idle = true) : v.outCalls = [] := by
  simp only [FV.idle, Bool.and_eq_true] at h
  have := h.1.1.1
  cases hv : v.outCalls with
  | nil => rfl
  | cons a t => simp [hv] at this

theorem finv_c1 {s s' : St} {n : Nat} (i : FInv s) (h : step0 s (.c1 n) = some s') : FInv s' := by
  unfold FInv at i ⊢
  simp only [step0] at h
  split at h
  · cases h
  · split at h
    · cases h
    · split at h <;> cases h
      · simp only [fview_retireIn, fview_modCall, fview_tail]; exact finv_tail i
      · rename_i hns
        simp only [fview_tail, fview_modCall]
        refine i.updTail rfl rfl rfl rfl rfl ?_ i.rd
        intro hd; exact absurd (i.dn hd).2.1 (by simpa [fview, FV.shuttingDown, St.shuttingDown] using hns)

theorem finv_retire {s s' : St} {n : Nat} (i : FInv s) (h : step0 s (.retire n) = some s') : FInv s' := by
  unfold FInv at i ⊢
  simp only [step0] at h
  split at h
  · cases h
  · split at h
    · cases h
    · -- the view after the (possible) retire + erase
      rename_i e viaCtx _
      have key : ∀ X : St, (X = (if s.outCalls.contains n = true then
            retireIn { s with outCalls := s.outCalls.erase n } n (.err e) else s)) → FInvV (fview X).tail := by
        intro X hX
        by_cases hc : s.outCalls.contains n = true
        · simp only [hc, if_true] at hX; subst hX
          rw [fview_retireIn]
          refine i.updTail rfl rfl rfl rfl rfl ?_ i.rd
          intro hd
          have := idle_outCalls (i.dn hd).1
          simp [fview] at this
          simp [this] at hc
        · simp only [hc] at hX; subst hX; exact finv_tail i
      split at h <;> cases h
      · have := key _ rfl
        rw [← fview_tail] at this
        exact this
      · have := key _ rfl
        simpa only [fview_modCall, fview_tail] using this

end Conn

namespace Conn

theorem finv_rresp {s s' : St} (i : FInv s) (h : step0 s .rresp = some s') : FInv s' := by
  unfold FInv at i ⊢
  simp only [step0] at h
  split at h
  · rename_i id p hrd
    have hreading : s.reading = true := by have := i.rd; simpa [fview, hrd, ReaderPc.active] using this
    have hnd : s.done = true → False := fun hd => by
      have := (i.dn hd).2.2.1; simp [fview, hreading] at this
    cases h; rw [fview_tail]
    split
    · rw [fview_retireIn]
      exact i.updTail rfl rfl rfl rfl rfl (fun hd => (hnd hd).elim) (by simp [fview, hreading, ReaderPc.active])
    · exact i.updTail rfl rfl rfl rfl rfl (fun hd => (hnd hd).elim) (by simp [fview, hreading, ReaderPc.active])
  · cases h

theorem finv_rx {s s' : St} (i : FInv s) (h : step0 s .rx = some s') : FInv s' := by
  unfold FInv at i ⊢
  simp only [step0] at h
  split at h
  · cases h
  · rename_i hrd
    have hrd : s.reader = .rx := by simpa using hrd
    have hreading : s.reading = true := by have := i.rd; simpa [fview, hrd, ReaderPc.active] using this
    have hnd : s.done = true → False := fun hd => by
      have := (i.dn hd).2.2.1; simp [fview, hreading] at this
    cases h
    rw [fview_tail, fview_foldl_cancel]
    have hv : fview { (s.outCalls.foldl (fun s n => retireIn s n (.err .read))
        { s with reader := .gone, reading := false, readErr := true }) with outCalls := [] } =
        { fview s with reader := .gone, reading := false, readErr := true, outCalls := [] } := by
      have := fview_foldl_retire s.outCalls (.err .read) { s with reader := .gone, reading := false, readErr := true }
      simp only [fview] at this ⊢
      simp_all
    rw [hv]
    exact i.updTail rfl rfl rfl rfl rfl (fun hd => (hnd hd).elim) (by simp [ReaderPc.active])

/-- A request parked at A1/A2 (or in processResult on the reader goroutine) means the reader is alive,
hence the connection is not done. -/
theorem not_done_of_reader_req {s : St} (hr : RInv (reqView s)) (i : FInvV (fview s)) {r : Nat} {q : ReqCore}
    (hq : s.cores[r]? = some q) (hp : q.pc = .a1 ∨ q.pc = .a2 ∨ (q.owner = .reader ∧ q.pc.inPR = true)) :
    s.reader = .busy ∧ s.reading = true ∧ s.done = false := by
  have hb : s.reader = .busy := ((hr.ok r q hq).rdr hp).1
  have hreading : s.reading = true := by have := i.rd; simpa [fview, hb, ReaderPc.active] using this
  refine ⟨hb, hreading, ?_⟩
  cases hd : s.done with
  | false => rfl
  | true => have := (i.dn hd).2.2.1; simp [fview, hreading] at this

theorem finv_a1 {s s' : St} {r : Nat} (hr : RInv (reqView s)) (i : FInv s) (h : step0 s (.a1 r) = some s') : FInv s' := by
  unfold FInv at i ⊢
  simp only [step0] at h
  split at h
  · cases h
  · rename_i q hq
    split at h
    · cases h
    · rename_i hpc
      have hpc : q.pc = .a1 := by simpa using hpc
      obtain ⟨_, _, hnd⟩ := not_done_of_reader_req hr i hq (Or.inl hpc)
      have key : FInvV ({ fview s with incoming := s.incoming + 1 } : FV).tail :=
        i.updTail rfl rfl rfl rfl rfl (fun hd => by simp [fview, hnd] at hd) i.rd
      (repeat' (split at h)) <;> cases h <;>
        (simp only [fview_tail, fview_beginPR, fview_modMeta, fview_modCore]; exact key)

theorem finv_a2 {s s' : St} {r : Nat} (hr : RInv (reqView s)) (i : FInv s) (h : step0 s (.a2 r) = some s') : FInv s' := by
  unfold FInv at i ⊢
  simp only [step0] at h
  split at h
  · cases h
  · rename_i q hq
    split at h
    · cases h
    · rename_i hpc
      have hpc : q.pc = .a2 := by simpa using hpc
      obtain ⟨hb, hreading, hnd⟩ := not_done_of_reader_req hr i hq (Or.inr (Or.inl hpc))
      split at h
      · cases h; simp only [fview_tail, fview_beginPR, fview_modMeta]; exact finv_tail i
      · split at h <;> cases h <;> simp only [fview_tail, fview_modCore]
        · exact i.updTail rfl rfl rfl rfl rfl (fun hd => by simp [fview, hnd] at hd) (by simp [fview, hreading, ReaderPc.active])
        · exact i.updTail rfl rfl rfl rfl rfl (fun hd => by simp [fview, hnd] at hd) (by simp [fview, modCore, hreading, ReaderPc.active])

theorem finv_d1 {s s' : St} (i : FInv s) (h : step0 s .d1 = some s') : FInv s' := by
  unfold FInv at i ⊢
  simp only [step0] at h
  split at h
  · cases h
  · split at h
    · cases h; rw [fview_tail]
      refine i.updTail rfl rfl rfl rfl rfl ?_ i.rd
      intro hd
      obtain ⟨h1, h2, h3, _⟩ := i.dn hd
      simp only [fview, FV.idle, Bool.and_eq_true, beq_iff_eq, Bool.not_eq_true'] at h1
      exact ⟨by simp [fview, FV.idle, h1.1.1.1, h1.1.1.2, h1.1.2], h2, h3⟩
    · rename_i r rest hqu
      have key : FInvV (fview (tail { s with queue := rest })) := by rw [fview_tail]; exact finv_tail i
      (repeat' (split at h)) <;>
      first
      | (cases h; done)
      | (cases h
         simp only [fview_beginPR, fview_modMeta, fview_modCore]
         exact key)

theorem finv_p2 {s s' : St} {r : Nat} (hr : RInv (reqView s)) (i : FInv s) (h : step0 s (.p2 r) = some s') : FInv s' := by
  unfold FInv at i ⊢
  simp only [step0] at h
  split at h
  · cases h
  · rename_i q hq
    split at h
    · cases h
    · rename_i hpc
      have hpc : q.pc = .p2 := by simpa using hpc
      have hpos : 1 ≤ s.incoming := by
        have := countInflight_pos _ r q hq (by simp [hpc, ReqPc.inflight])
        have hc := hr.cnt; simp only [reqView] at hc; omega
      have hne : ¬ s.incoming = 0 := by omega
      have hnd : s.done = false := by
        cases hd : s.done with
        | false => rfl
        | true =>
          have := (i.dn hd).1
          simp only [fview, FV.idle, Bool.and_eq_true, beq_iff_eq] at this
          omega
      cases h
      simp only [hne, if_false]
      have key : FInvV ({ fview s with incoming := s.incoming - 1 } : FV).tail :=
        i.updTail rfl rfl rfl rfl rfl (fun hd => by simp [fview, hnd] at hd) i.rd
      have key' : FInvV (fview (tail (modCore { s with incoming := s.incoming - 1 } r fun q => { q with pc := .fin }))) := by
        rw [fview_tail]; exact key
      cases hown : q.owner with
      | reader =>
        -- the reader goroutine returns to Read
        obtain ⟨_, hreading, _⟩ := not_done_of_reader_req hr i hq (Or.inr (Or.inr ⟨hown, by simp [hpc, ReqPc.inPR]⟩))
        have htr : ∀ X : St, (tail X).reading = X.reading := fun X => by
          unfold tail finish closeTransport; repeat' split
          all_goals rfl
        refine ⟨key'.tc, key'.od, key'.np, key'.dn, ?_⟩
        simp only [afterP2, fview, ReaderPc.active, htr, modCore]
        exact hreading
      | dispatcher => exact key'
      | handler => simp only [afterP2, fview_modMeta]; exact key'

end Conn

namespace Conn

theorem finv_step0 {s s' : St} {l : Label} (hr : RInv (reqView s)) (i : FInv s) (h : step0 s l = some s') : FInv s' := by
  by_cases hl : l.special = true
  · cases l <;> simp [Label.special] at hl
    case read m => exact finv_read i h
    case start => exact finv_start i h
    case n1 w => exact finv_n1 hr i h
    case n2 w => exact finv_n2 i h
    case c1 n => exact finv_c1 i h
    case retire n => exact finv_retire i h
    case cl1 => exact finv_cl1 i h
    case rresp => exact finv_rresp i h
    case rx => exact finv_rx i h
    case a1 r => exact finv_a1 hr i h
    case a2 r => exact finv_a2 hr i h
    case d1 => exact finv_d1 i h
    case p2 r => exact finv_p2 hr i h
    case w2 w => exact finv_w2 i h
  · exact finv_step0_easy i h (by simpa using hl)

/-- The joint invariant of the connection model. -/
structure Inv (s : St) : Prop where
  calls : CInv s
  reqs : RInv (reqView s)
  flags : FInv s

theorem inv_init : Inv ({} : St) :=
  ⟨cinv_init, rinv_init, ⟨rfl, rfl, rfl, fun h => by simp [fview] at h, rfl⟩⟩

theorem inv_step {s s' : St} {l : Label} (i : Inv s) (h : step s l = some s') : Inv s' := by
  refine ⟨cinv_step i.calls h, rinv_step i.reqs h, ?_⟩
  simp only [step, Option.map_eq_some_iff] at h
  obtain ⟨s0, h0, rfl⟩ := h
  unfold FInv; rw [fview_settle]; exact finv_step0 i.reqs i.flags h0

theorem inv_run {s s' : St} (ls : List Label) (i : Inv s) (h : run s ls = some s') : Inv s' := by
  induction ls generalizing s with
  | nil => simp [run] at h; exact h ▸ i
  | cons l ls ih =>
    simp only [run] at h
    split at h
    · cases h
    · rename_i s1 h1; exact ih (inv_step i h1) h

end Conn
