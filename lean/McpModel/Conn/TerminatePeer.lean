import McpModel.Conn.TerminateEnv
/-!
# C05 liveness with the peer's answers in the run

`close_terminates_env` lets the environment discharge obligation (c) — "no registered outgoing call with a
live context still awaits the peer" — by ending the caller's context or by failing the reader. The third
way, the one `closing_progress` names, is the peer's *answer*: the transport's `Read` returns a response
whose id is registered (`read (.resp id p)` with `id ∈ outCalls`). Whether a `read` label is such an
answer depends on the state, so the runs are described by `FulfilRun`. During shutdown nothing is
registered any more (`write_failure_admits_no_new_call`), each answer removes its call from the table, so
the number of answers is bounded by the registered calls not yet answered, `pendingPeer`; the measure is
`mu3 = mu2 + 2 · pendingPeer`.
-/
namespace Conn

/-- The reader holds the peer's response to call `n`, not yet processed (parked before RR). -/
def answered (s : St) (n : Nat) : Bool :=
  match s.reader with
  | .rr id _ => id == n
  | _ => false

/-- registered calls whose answer has not been read off the transport -/
def pendingPeer (s : St) : Nat := (s.outCalls.filter (fun n => !answered s n)).length

def mu3 (s : St) : Nat := mu2 s + 2 * pendingPeer s

/-- The peer answers a registered call: the transport's `Read` returns a response carrying its id. -/
def answers (s : St) : Label → Bool
  | .read (.resp id _) => s.outCalls.contains id
  | _ => false

/-- One step of the environment that fulfils an obligation, or a critical section of the connection. -/
def FulfilStep (s : St) (l : Label) : Prop := l.internal = true ∨ l.fulfils = true ∨ answers s l = true

/-- A label list in which, at each state the run passes through, the label is a critical section, a
fulfilling step of the environment, or an answer of the peer to a call registered at that moment. -/
def FulfilRun : St → List Label → Prop
  | _, [] => True
  | s, l :: ls => FulfilStep s l ∧ ∀ s1, step s l = some s1 → FulfilRun s1 ls

/-! ### the table of registered calls only shrinks during shutdown -/

theorem oc_modCall (s : St) (n : Nat) (f : Call → Call) : (modCall s n f).outCalls = s.outCalls := rfl

set_option maxRecDepth 8000 in
theorem outCalls_sublist_step0 {s s0 : St} {l : Label} (h : step0 s l = some s0) (hsd : s.shuttingDown = true) :
    s0.outCalls.Sublist s.outCalls := by
  by_cases ht : l.touchesCalls = false
  · have e : s0.outCalls = s.outCalls := congrArg CallView.outCalls (frame_calls s s0 l h ht)
    rw [e]; exact List.Sublist.refl _
  · cases l <;> simp [Label.touchesCalls] at ht <;> simp only [step0] at h
    case ecall => cases h; exact List.Sublist.refl _
    case ecallbad => cases h; exact List.Sublist.refl _
    case ectx m =>
      (repeat' (split at h)) <;> first
        | (cases h; done)
        | (cases h; exact List.Sublist.refl _)
    case wret w o =>
      cases w <;> simp at ht
      simp only at h
      (repeat' (split at h)) <;> first
        | (cases h; done)
        | (cases h; exact List.Sublist.refl _)
    case c1 m =>
      (repeat' (split at h)) <;> first
        | (cases h; done)
        | (cases h; rw [oc_retireIn, oc_modCall, tail_outCalls]; exact List.Sublist.refl _)
        | (exfalso; simp_all; done)
    case retire m =>
      split at h
      · cases h
      · split at h
        · cases h
        · rename_i err viaCtx _
          generalize hS : tail (if s.outCalls.contains m = true then
              retireIn { s with outCalls := s.outCalls.erase m } m (.err err) else s) = S at h
          have hS1 : S.outCalls.Sublist s.outCalls := by
            rw [← hS, tail_outCalls]; split
            · rw [oc_retireIn]; exact List.erase_sublist
            · exact List.Sublist.refl _
          split at h <;> cases h <;> exact hS1
    case rresp =>
      split at h
      · cases h; rw [tail_outCalls]
        split
        · rw [oc_retireIn]; exact List.erase_sublist
        · exact List.Sublist.refl _
      · cases h
    case rx =>
      split at h
      · cases h
      · cases h
        rw [tail_outCalls, oc_foldl_cancel]
        exact List.nil_sublist _
    case w1 w =>
      cases w <;> simp at ht
      simp only at h
      (repeat' (split at h)) <;> first
        | (cases h; done)
        | (cases h; rw [tail_outCalls, oc_modCall]; exact List.Sublist.refl _)
    case w2 w =>
      cases w <;> simp at ht
      simp only at h
      (repeat' (split at h)) <;> first
        | (cases h; done)
        | (cases h; rw [tail_outCalls, oc_modCall, oc_markBroken]; exact List.Sublist.refl _)

/-! ### who is `answered` changes only at `read (.resp …)` and RR -/

theorem answered_of_reader {X s : St} (h : X.reader = s.reader) (n : Nat) : answered X n = answered s n := by
  simp [answered, h]

theorem answered_false {s : St} (h : ∀ id p, s.reader ≠ .rr id p) (n : Nat) : answered s n = false := by
  unfold answered
  split
  · rename_i id p hr; exact absurd hr (h id p)
  · rfl

theorem rx_reader_gone {s s0 : St} (h : step0 s .rx = some s0) : s0.reader = .gone := by
  simp only [step0] at h
  split at h
  · cases h
  · cases h
    have key : ∀ (l : List (Nat × Nat)) (X : St), X.reader = .gone →
        (l.foldl (fun s p => cancelReq s p.2 .read) X).reader = .gone :=
      fun l X hX => (congrArg ReqView.reader (reqView_foldl_cancel l _ X)).trans hX
    rw [tail_reader]
    refine key _ _ ?_
    exact congrArg ReqView.reader (reqView_foldl_retire s.outCalls (.err .read)
      { s with reader := .gone, reading := false, readErr := true })

/-- Except for the peer's response arriving and being processed, nobody changes which call is answered. -/
theorem answered_step {s s' : St} {l : Label} (i : Inv4 s) (h : step s l = some s')
    (hl : l.internal = true ∨ l.fulfils = true) (hrr : l ≠ .rresp) : ∀ n, answered s' n = answered s n := by
  intro n
  simp only [step, Option.map_eq_some_iff] at h
  obtain ⟨s0, h0, rfl⟩ := h
  rw [answered_of_reader (settle_reader s0)]
  by_cases hs : l.setsReader = false
  · exact answered_of_reader (reader_step0 h0 hs) n
  · have hr := i.base.base.base.reqs
    cases l <;> simp [Label.setsReader] at hs
    case start =>
      simp only [step0] at h0
      split at h0
      · cases h0
      · rename_i hrd
        have hrd : s.reader = .start := by simpa using hrd
        rw [answered_false (s := s) (by simp [hrd])]
        split at h0 <;> cases h0 <;> exact answered_false (by simp [tail_reader]) n
    case read m =>
      rcases hl with hl | hl
      · cases hl
      · cases m <;> simp [Label.fulfils] at hl
        simp only [step0] at h0
        split at h0
        · cases h0
        · rename_i hrd
          have hrd : s.reader = .read := by simpa using hrd
          cases h0
          rw [answered_false (s := s) (by simp [hrd])]
          exact answered_false (by simp) n
    case rresp => exact absurd rfl hrr
    case rx =>
      have hg := rx_reader_gone h0
      have hrd : s.reader = .rx := by
        simp only [step0] at h0
        split at h0
        · cases h0
        · rename_i hrd; simpa using hrd
      rw [answered_false (s := s) (by simp [hrd])]
      exact answered_false (by simp [hg]) n
    case a2 r =>
      simp only [step0] at h0
      split at h0
      · cases h0
      · rename_i q hq
        split at h0
        · cases h0
        · rename_i hpc
          have hpc : q.pc = .a2 := by simpa using hpc
          have hbusy : s.reader = .busy := ((hr.ok r q hq).rdr (Or.inr (Or.inl hpc))).1
          rw [answered_false (s := s) (by simp [hbusy])]
          (repeat' (split at h0)) <;> first
            | (cases h0; done)
            | (cases h0; exact answered_false (by simp [tail_reader, hbusy]) n)
            | (cases h0; exact answered_false (by simp [tail_reader, modCore]) n)
    case p2 r =>
      simp only [step0] at h0
      split at h0
      · cases h0
      · rename_i q hq
        split at h0
        · cases h0
        · rename_i hpc
          have hpc : q.pc = .p2 := by simpa using hpc
          cases h0
          cases hown : q.owner with
          | reader =>
            have hbusy : s.reader = .busy := ((hr.ok r q hq).rdr (Or.inr (Or.inr ⟨hown, by simp [hpc, ReqPc.inPR]⟩))).1
            rw [answered_false (s := s) (by simp [hbusy])]
            exact answered_false (by simp [afterP2]) n
          | dispatcher =>
            apply answered_of_reader
            simp only [afterP2]
            split <;> simp [tail_reader]
          | handler =>
            apply answered_of_reader
            simp only [afterP2, modMeta_reader]
            split <;> simp [tail_reader]

/-! ### `pendingPeer` along a step -/

theorem filter_true' (l : List Nat) : l.filter (fun _ => true) = l := List.filter_eq_self.mpr (fun _ _ => rfl)

theorem oc_settle' (s : St) : (settle s).outCalls = s.outCalls := oc_settle s

theorem pendingPeer_le_of {s s' : St} (hsub : s'.outCalls.Sublist s.outCalls) (ha : ∀ n, answered s' n = answered s n) :
    pendingPeer s' ≤ pendingPeer s := by
  unfold pendingPeer
  have : (fun n => !answered s' n) = (fun n => !answered s n) := by funext n; rw [ha]
  rw [this]
  exact (List.Sublist.filter _ hsub).length_le

/-- RR: the answered call (if still registered) leaves the table; nobody else was answered. -/
theorem pendingPeer_rresp {s s' : St} (i : Inv4 s) (h : step s .rresp = some s') : pendingPeer s' = pendingPeer s := by
  have hnd := i.base.base.base.calls.nodup
  simp only [step, Option.map_eq_some_iff] at h
  obtain ⟨s0, h0, rfl⟩ := h
  simp only [step0] at h0
  split at h0
  · rename_i id p hrd
    cases h0
    unfold pendingPeer
    rw [oc_settle']
    have hans' : ∀ X : St, X.reader = .read → (fun n => !answered (settle X) n) = (fun _ => true) := by
      intro X hX; funext n
      rw [answered_of_reader (settle_reader X), answered_false (by simp [hX])]; rfl
    have hans : (fun n => !answered s n) = (fun n => n != id) := by
      funext n; simp only [answered, hrd]
      by_cases hn : id = n
      · subst hn; simp
      · have h1 : (id == n) = false := by simpa using hn
        have h2 : (n != id) = true := by simpa using (fun e => hn (Eq.symm e) : n ≠ id)
        rw [h1, h2]; rfl
    rw [hans, tail_outCalls]
    split
    · rename_i hc
      rw [hans' _ (by rw [tail_reader, retireIn_reader]), oc_retireIn, filter_true',
        ← List.Nodup.erase_eq_filter hnd id]
    · rename_i hc
      rw [hans' _ (by rw [tail_reader]), filter_true']
      have hnot : id ∉ s.outCalls := by simpa using hc
      symm; apply congrArg List.length
      rw [List.filter_eq_self]
      intro a ha
      have : a ≠ id := fun e => hnot (e ▸ ha)
      simpa using this
  · cases h0

/-- The peer's answer to a registered call: one pending call less. -/
theorem pendingPeer_answer {s s' : St} {id p : Nat} (i : Inv4 s) (h : step s (.read (.resp id p)) = some s')
    (hreg : s.outCalls.contains id = true) : pendingPeer s' + 1 = pendingPeer s ∧ mu s' ≤ mu s + 1 ∧
      readerLive s' = readerLive s := by
  have hnd := i.base.base.base.calls.nodup
  simp only [step, Option.map_eq_some_iff] at h
  obtain ⟨s0, h0, rfl⟩ := h
  simp only [step0] at h0
  split at h0
  · cases h0
  · rename_i hrd
    have hrd : s.reader = .read := by simpa using hrd
    cases h0
    have hmem : id ∈ s.outCalls := by simpa using hreg
    refine ⟨?_, ?_, ?_⟩
    · unfold pendingPeer
      rw [oc_settle']
      have h1 : (fun n => !answered (settle { s with reader := .rr id p }) n) = (fun n => n != id) := by
        funext n
        rw [answered_of_reader (settle_reader _)]
        simp only [answered]
        by_cases hn : id = n
        · subst hn; simp
        · have h1 : (id == n) = false := by simpa using hn
          have h2 : (n != id) = true := by simpa using (fun e => hn (Eq.symm e) : n ≠ id)
          rw [h1, h2]; rfl
      have h2 : (fun n => !answered s n) = (fun _ => true) := by
        funext n; rw [answered_false (by simp [hrd])]; rfl
      rw [h1, h2, filter_true']
      show (List.filter (fun n => n != id) s.outCalls).length + 1 = s.outCalls.length
      rw [← List.Nodup.erase_eq_filter hnd id, List.length_erase_of_mem hmem]
      have := List.length_pos_of_mem hmem
      omega
    · have hm : mu (settle { s with reader := .rr id p }) ≤ mu { s with reader := .rr id p } := mu_settle_le _
      have e1 : mu { s with reader := ReaderPc.rr id p } = mu s + 1 := by
        simp only [mu, muCalls, muNotifs, muReqs, muRest, hrd, wReader]; omega
      omega
    · rw [readerLive_of (settle_reader _)]
      simp [readerLive, hrd]

/-- **mu3_step_decreases.** In a state in which shutdown has begun, every critical section, every
fulfilling step of the environment and every answer of the peer to a registered call strictly decreases
`mu3`. -/
theorem mu3_step_decreases {s s' : St} {l : Label} (i : Inv4 s) (hsd : s.shuttingDown = true) (hl : FulfilStep s l)
    (h : step s l = some s') : mu3 s' < mu3 s := by
  rcases hl with hl | hl | hl
  · -- critical section
    have hm := mu2_step_decreases i (Or.inl hl) h
    have hp : pendingPeer s' ≤ pendingPeer s := by
      by_cases hrr : l = .rresp
      · subst hrr; exact Nat.le_of_eq (pendingPeer_rresp i h)
      · have hsub : s'.outCalls.Sublist s.outCalls := by
          have h' := h
          simp only [step, Option.map_eq_some_iff] at h'
          obtain ⟨s0, h0, rfl⟩ := h'
          rw [oc_settle']; exact outCalls_sublist_step0 h0 hsd
        exact pendingPeer_le_of hsub (answered_step i h (Or.inl hl) hrr)
    simp only [mu3]; omega
  · have hm := mu2_step_decreases i (Or.inr hl) h
    have hrr : l ≠ .rresp := by intro e; subst e; simp [Label.fulfils] at hl
    have hsub : s'.outCalls.Sublist s.outCalls := by
      have h' := h
      simp only [step, Option.map_eq_some_iff] at h'
      obtain ⟨s0, h0, rfl⟩ := h'
      rw [oc_settle']; exact outCalls_sublist_step0 h0 hsd
    have hp := pendingPeer_le_of hsub (answered_step i h (Or.inr hl) hrr)
    simp only [mu3]; omega
  · -- the peer's answer
    cases l <;> simp [answers] at hl
    rename_i m
    cases m <;> simp at hl
    rename_i id p
    obtain ⟨hp, hmu, hrl⟩ := pendingPeer_answer i h (by simpa using hl)
    have h1 := liveCtx_step h (l := .read (.resp id p)) rfl
    have h2 := syncs_step h (l := .read (.resp id p)) rfl
    simp only [mu3, mu2]; omega

/-- **shutdown_run_bounded_peer.** From a reachable state in which shutdown has begun, every run made of
critical sections, fulfilling steps of the environment and answers of the peer to calls registered at
that moment is at most `mu3 s` labels long. -/
theorem shutdown_run_bounded_peer (pre ls : List Label) (s s' : St) (h0 : run {} pre = some s)
    (hsd : s.shuttingDown = true) (hok : FulfilRun s ls) (h : run s ls = some s') : ls.length + mu3 s' ≤ mu3 s := by
  have i := inv4_run pre inv4_init h0
  clear h0
  induction ls generalizing s with
  | nil => simp [run] at h; subst h; simp
  | cons l ls ih =>
    simp only [run] at h
    cases h1 : step s l with
    | none => simp [h1] at h
    | some s1 =>
      simp only [h1] at h
      obtain ⟨hl, hrest⟩ := hok
      have hlt := mu3_step_decreases i hsd hl h1
      have := ih s1 (shuttingDown_mono_step h1 hsd) (hrest s1 h1) h (inv4_step i h1)
      simp only [List.length_cons]; omega

/-- **close_terminates_peer.** `close_terminates_env` with the peer's answers as a further way for the
environment to discharge obligation (c): from every reachable state in which shutdown has begun, every
run in which the connection executes critical sections while the environment returns from handlers and
writes, fails the read, ends caller contexts, and the peer answers registered calls — in any
interleaving — is at most `mu3 s` long, and if its last state is maximal (fairness) with no obligation
outstanding, `done` is closed, every `Close()`/`Wait()` caller has returned and the connection is
quiescent. -/
theorem close_terminates_peer (pre ls : List Label) (s s' : St) (h0 : run {} pre = some s)
    (hsd : s.shuttingDown = true) (hok : FulfilRun s ls) (h : run s ls = some s')
    (hmax : Maximal s') (ob : Obligations s') :
    ls.length ≤ mu3 s ∧ s'.done = true ∧ AllReturned s' ∧ Quiescent s' := by
  have hb := shutdown_run_bounded_peer pre ls s s' h0 hsd hok h
  have i' : Inv4 s' := inv4_run ls (inv4_run pre inv4_init h0) h
  exact ⟨by omega, stable_closing_state_is_terminated i' (shuttingDown_mono_run ls h hsd) hmax ob⟩

/-- A client that called `Close` while one of its calls awaits the peer (obligation (c) outstanding). -/
def closingAwaiting : List Label := [.start, .ecall, .c1 1, .w1 (.call 1), .wret (.call 1) .ok, .eclose, .cl1]

/-- the peer answers, the reader matches the response, the transport is closed and its `Read` fails, the
reader exits, `Close()` returns -/
def peerPart : List Label := [.read (.resp 1 42), .rresp, .read .eof, .rx, .wt false]

/-- the closing state with a call awaiting the peer -/
def awaitingSt : St := (run {} closingAwaiting).getD {}
/-- … and the state at the end of `peerPart` -/
def answeredSt : St := (run awaitingSt peerPart).getD {}

theorem awaitingSt_run : run {} closingAwaiting = some awaitingSt := rfl
theorem answeredSt_run : run awaitingSt peerPart = some answeredSt := rfl

theorem peerPart_fulfils : FulfilRun awaitingSt peerPart := by
  refine ⟨Or.inr (Or.inr rfl), fun s1 h1 => ?_⟩
  have e1 : s1 = (step awaitingSt (.read (.resp 1 42))).getD {} := by rw [h1]; rfl
  subst e1
  refine ⟨Or.inl rfl, fun s2 h2 => ?_⟩
  have e2 : s2 = (step ((step awaitingSt (.read (.resp 1 42))).getD {}) .rresp).getD {} := by rw [h2]; rfl
  subst e2
  refine ⟨Or.inr (Or.inl rfl), fun s3 h3 => ?_⟩
  refine ⟨Or.inl rfl, fun s4 h4 => ?_⟩
  exact ⟨Or.inl rfl, fun _ _ => trivial⟩

/-- **close_terminates_peer is not vacuous**: Close with a call awaiting the peer (obligation (c)
outstanding); the peer answers. The caller gets the peer's payload although Close had already been called. -/
theorem close_terminates_peer_nonvacuous :
    run {} closingAwaiting = some awaitingSt ∧ awaitingSt.shuttingDown = true ∧ awaitingSt.done = false ∧
      AwaitingPeer awaitingSt ∧ FulfilRun awaitingSt peerPart ∧ run awaitingSt peerPart = some answeredSt ∧
      Maximal answeredSt ∧ Obligations answeredSt ∧ peerPart.length ≤ mu3 awaitingSt ∧ answeredSt.done = true ∧
      AllReturned answeredSt ∧ Quiescent answeredSt ∧
      (∃ c, getCall answeredSt 1 = some c ∧ c.result = some (.resp 42)) := by
  have hm : Maximal answeredSt := maximal_of_enabledB rfl
  have ho : Obligations answeredSt := (obligationsB_iff _).mp rfl
  have hct := close_terminates_peer closingAwaiting peerPart _ _ awaitingSt_run rfl peerPart_fulfils answeredSt_run hm ho
  exact ⟨rfl, rfl, rfl, (awaitingPeerB_iff _).mp rfl, peerPart_fulfils, rfl, hm, ho, hct.1, hct.2.1, hct.2.2.1, hct.2.2.2,
    _, rfl, rfl⟩

end Conn
