import McpModel.Generated.BearerGen
/-
E10 — model of `auth.verify` and the `auth.RequireBearerToken` closure (auth/auth.go:97-176). Serves C14.

Pure decision logic: `verify` transliterates the if-chain of the Go function, `serve` the closure
around it.  Every status, message, the field count, the scheme, the order of the `errors.Is`
chain, the two expiry conditions and the challenge statuses come from
`Generated/BearerGen.lean`, which the extractor rewrites from /repo on every run.

Types: `σ` = scope strings (only compared), `α` = everything else a `TokenInfo` carries (UserID,
Extra, the pointer identity): the model is parametric in it, which is what "the handler sees the
verifier's info unchanged" means.  Instants and durations are integers (ns); `Info.exp = none` is
`Expiration.IsZero()`.
Modelled stdlib: `strings.Fields` (split on `unicode.IsSpace`), `strings.ToLower` restricted to
what matters for a comparison with an ASCII word, `errors.Is` (two booleans per error),
`time.Time.Add/Before` (integer arithmetic).
Core Lean only (linked into the driver).
-/
namespace Bearer
open Generated.Bearer

/-- Go `unicode.IsSpace`. -/
def isSpace (c : Char) : Bool :=
  let n := c.toNat
  (9 ≤ n && n ≤ 13) || n == 0x20 || n == 0x85 || n == 0xA0 || n == 0x1680 ||
  (0x2000 ≤ n && n ≤ 0x200a) || n == 0x2028 || n == 0x2029 || n == 0x202f || n == 0x205f || n == 0x3000

/-- `strings.Fields`, with the field under construction kept reversed in `cur`. -/
def fieldsAux : List Char → List Char → List (List Char)
  | [], cur => if cur.isEmpty then [] else [cur.reverse]
  | c :: cs, cur =>
    if isSpace c then
      (if cur.isEmpty then fieldsAux cs [] else cur.reverse :: fieldsAux cs [])
    else fieldsAux cs (c :: cur)

def fields (s : List Char) : List (List Char) := fieldsAux s []

/-- `strings.ToLower` on ASCII letters.  No rune outside ASCII lower-cases to an ASCII letter of
"bearer" (the Kelvin sign maps to `k`, the Angstrom sign to `å`), so for the comparison made by
`verify` this agrees with the Unicode mapping; the harness includes such runes. -/
def lowerChar (c : Char) : Char := if 'A' ≤ c ∧ c ≤ 'Z' then Char.ofNat (c.toNat + 32) else c
def lowerAscii (s : List Char) : List Char := s.map lowerChar

structure Info (σ α : Type) where
  scopes : List σ
  exp : Option Int          -- none: Expiration.IsZero()
  extra : α

/-- A non-nil error returned by the verifier, as `verify` can see it. -/
structure VErr where
  isInvalid : Bool          -- errors.Is(err, ErrInvalidToken)
  isOAuth : Bool            -- errors.Is(err, ErrOAuth)
  msg : String              -- err.Error()

/-- What the `TokenVerifier` returned. -/
structure VRes (σ α : Type) where
  err : Option VErr
  info : Option (Info σ α)

structure Opts (σ : Type) where
  rm : String               -- ResourceMetadataURL
  scopes : List σ
  allowMissing : Bool
  skew : Int

/-- `&RequireBearerTokenOptions{}` -/
def Opts.zero {σ : Type} : Opts σ := { rm := "", scopes := [], allowMissing := false, skew := 0 }

structure Input (σ α : Type) where
  header : List Char                 -- req.Header.Get("Authorization") ("" when absent)
  verifier : List Char → VRes σ α    -- the verifier as a function of the token it is given
  opts : Option (Opts σ)
  now : Int                          -- time.Now() at the expiry check

inductive Verdict (σ α : Type) where
  | pass (info : Info σ α)
  | reject (msg : String) (code : Nat)

def sentinelHolds (e : VErr) (s : Nat) : Bool :=
  if s = 0 then e.isInvalid else if s = 1 then e.isOAuth else false

/-- The `if errors.Is(err, …) { return … }` chain. -/
def errStatus (e : VErr) : List (Nat × Nat) → Nat
  | [] => stErrOther
  | (s, code) :: rest => if sentinelHolds e s then code else errStatus e rest

/-- `for _, s := range opts.Scopes { if !slices.Contains(tokenInfo.Scopes, s) { return … } }` -/
def missingScope {σ : Type} [DecidableEq σ] (required granted : List σ) : Bool :=
  required.any fun s => !granted.contains s

/-- The credential test: the fields pass iff there are exactly `nFields` of them and the first is
the scheme up to case.  Returns the token (`fields[1]`). -/
def credential (hdr : List Char) : Option (List Char) :=
  let fs := fields hdr
  if fs.length ≠ nFields ∨ lowerAscii (fs.headD []) ≠ scheme.toList then none
  else some ((fs.drop 1).headD [])

/-- The scope check, skipped under nil options:
`if opts != nil { for _, s := range opts.Scopes { … } }` -/
def scopeRejected {σ : Type} [DecidableEq σ] (opts : Option (Opts σ)) (granted : List σ) : Bool :=
  match opts with
  | some o => missingScope o.scopes granted
  | none => false

/-- The expiry check (`opts` already replaced by the zero options when nil): the rejection it
produces, if any. -/
def expiryRejected {σ : Type} (exp : Option Int) (o : Opts σ) (now : Int) : Option (String × Nat) :=
  match exp with
  | none => if missingRejected o.allowMissing then some (msgMissingExp, stMissingExp) else none
  | some e => if expired e o.skew now then some (msgExpired, stExpired) else none

/-- `auth.verify`.  Second component: the token the verifier was called with, if it was called. -/
def verify {σ α : Type} [DecidableEq σ] (i : Input σ α) : Verdict σ α × Option (List Char) :=
  match credential i.header with
  | none => (.reject msgNoBearer stNoBearer, none)
  | some tok =>
    let r := i.verifier tok
    match r.err with
    | some e => (.reject e.msg (errStatus e errChain), some tok)
    | none =>
      match r.info with
      | none => (.reject msgNilInfo stNilInfo, some tok)
      | some info =>
        if scopeRejected i.opts info.scopes then (.reject msgScope stScope, some tok)
        else
          match expiryRejected info.exp (i.opts.getD Opts.zero) i.now with
          | some (msg, code) => (.reject msg code, some tok)
          | none => (.pass info, some tok)

/-- One parameter of the `WWW-Authenticate: Bearer …` challenge. -/
inductive Param (σ : Type) where
  | resourceMetadata (url : String)
  | scope (scopes : List σ)
deriving DecidableEq

/-- What the middleware does with one request. -/
inductive Response (σ α : Type) where
  /-- `handler.ServeHTTP` with the context value `info` -/
  | next (info : Info σ α)
  /-- `http.Error(w, msg, code)`, preceded by `WWW-Authenticate` iff `challenge` is `some` -/
  | error (code : Nat) (msg : String) (challenge : Option (List (Param σ)))

def challengeParams {σ : Type} (o : Opts σ) : List (Param σ) :=
  (if o.rm ≠ "" then [Param.resourceMetadata o.rm] else []) ++
  (if o.scopes.length > 0 then [Param.scope o.scopes] else [])

/-- The `WWW-Authenticate` decision for a rejection with status `code`. -/
def challengeFor {σ : Type} (opts : Option (Opts σ)) (code : Nat) : Option (List (Param σ)) :=
  if challengeCodes.contains code then
    match opts with
    | none => none
    | some o => if (challengeParams o).length > 0 then some (challengeParams o) else none
  else none

/-- The closure returned by `RequireBearerToken(verifier, opts)(handler)`. -/
def serve {σ α : Type} [DecidableEq σ] (i : Input σ α) : Response σ α :=
  match (verify i).1 with
  | .pass info => .next info
  | .reject msg code => .error code msg (challengeFor i.opts code)

/-! ### The request context, stacked middlewares, and the response as sent

`RequireBearerToken` is a middleware: the request it receives may already have been through
another `RequireBearerToken` (gateway-level + route-level, different verifiers and scopes) or
through other code of the package that stored a `TokenInfo` in its context, and the
`ResponseWriter` it writes to snapshots the header map at the first `WriteHeader`. -/

/-- The request context as far as `tokenInfoKey{}` is concerned: the values stored under that key,
the most recent `context.WithValue` first.  Older values are shadowed, never removed or altered. -/
abbrev Ctx (σ α : Type) := List (Info σ α)

/-- `TokenInfoFromContext`: the most recently stored value, if any. -/
def tokenInfoFromContext {σ α : Type} (c : Ctx σ α) : Option (Info σ α) := c.head?

/-- `context.WithValue(r.Context(), tokenInfoKey{}, tokenInfo)` -/
def withTokenInfo {σ α : Type} (c : Ctx σ α) (info : Info σ α) : Ctx σ α := info :: c

/-- One `RequireBearerToken(verifier, opts)` in a chain of handlers.  The verifier is handed
`req.Context()` and the request, so it may depend on what the context already holds. -/
structure Layer (σ α : Type) where
  verifier : Ctx σ α → List Char → VRes σ α
  opts : Option (Opts σ)
  now : Int                          -- time.Now() at this middleware's expiry check

/-- What this middleware's `verify` sees of a request with `Authorization` value `hdr` and context `ctx`. -/
def Layer.input {σ α : Type} (l : Layer σ α) (hdr : List Char) (ctx : Ctx σ α) : Input σ α :=
  { header := hdr, verifier := l.verifier ctx, opts := l.opts, now := l.now }

/-- Where a request ends up. -/
inductive Outcome (σ α : Type) where
  /-- the handler behind the last middleware runs, with this request context -/
  | handler (ctx : Ctx σ α)
  /-- some middleware answered with `http.Error` -/
  | error (code : Nat) (msg : String) (challenge : Option (List (Param σ)))

/-- A request through middlewares `ls` (outermost first), arriving with context `ctx`:
each closure either answers itself or calls the next handler with
`r.WithContext(context.WithValue(r.Context(), tokenInfoKey{}, tokenInfo))`. -/
def stack {σ α : Type} [DecidableEq σ] (hdr : List Char) : List (Layer σ α) → Ctx σ α → Outcome σ α
  | [], ctx => .handler ctx
  | l :: ls, ctx =>
    match serve (l.input hdr ctx) with
    | .next info => stack hdr ls (withTokenInfo ctx info)
    | .error code msg ch => .error code msg ch

/-- One middleware reached by the request: the context it received, the token its verifier was
called with (if it was called), what it did. -/
structure Visit (σ α : Type) where
  ctxIn : Ctx σ α
  token : Option (List Char)
  resp : Response σ α

/-- The middlewares the request reaches, in order (the driver renders these). -/
def visits {σ α : Type} [DecidableEq σ] (hdr : List Char) : List (Layer σ α) → Ctx σ α → List (Visit σ α)
  | [], _ => []
  | l :: ls, ctx =>
    let i := l.input hdr ctx
    let v : Visit σ α := { ctxIn := ctx, token := (verify i).2, resp := serve i }
    match serve i with
    | .next info => v :: visits hdr ls (withTokenInfo ctx info)
    | .error _ _ _ => [v]

/-- A call the closure makes on its `http.ResponseWriter` when it rejects. -/
inductive WCall (σ : Type) where
  /-- `w.Header().Add("WWW-Authenticate", "Bearer "+…)` -/
  | addChallenge (ps : List (Param σ))
  /-- `http.Error(w, msg, code)`: content headers, `w.WriteHeader(code)`, `fmt.Fprintln(w, msg)` -/
  | httpError (msg : String) (code : Nat)

/-- The response as a client receives it. -/
structure Sent (σ : Type) where
  status : Nat
  challenges : List (List (Param σ))   -- the `WWW-Authenticate` values on the wire
  body : String
deriving DecidableEq

/-- net/http's `ResponseWriter` (and `httptest.ResponseRecorder.Result`): the header map stays
editable for ever, but it is snapshotted and sent at the first `WriteHeader`; what is added to the
map afterwards never reaches the client.  A second `WriteHeader` is ignored, further writes append
to the body. -/
structure Writer (σ : Type) where
  live : List (List (Param σ))         -- `WWW-Authenticate` values in the header map
  sent : Option (Sent σ)

def Writer.call {σ : Type} (w : Writer σ) : WCall σ → Writer σ
  | .addChallenge ps => { w with live := w.live ++ [ps] }
  | .httpError msg code =>
    match w.sent with
    | none => { w with sent := some { status := code, challenges := w.live, body := msg ++ "\n" } }
    | some s => { w with sent := some { s with body := s.body ++ msg ++ "\n" } }

/-- What reaches the client after these calls on a fresh writer (`none`: nothing written). -/
def sentBy {σ : Type} (calls : List (WCall σ)) : Option (Sent σ) :=
  (calls.foldl Writer.call { live := [], sent := none }).sent

/-- The writer calls of the closure's rejection path, in source order (structural fact
`bearer.middleware_shape`): the challenge is added first, `http.Error` comes last. -/
def rejectCalls {σ : Type} (code : Nat) (msg : String) (ch : Option (List (Param σ))) : List (WCall σ) :=
  (match ch with
   | some ps => [WCall.addChallenge ps]
   | none => []) ++ [WCall.httpError msg code]

/-- The writer calls of the closure itself (the inner handler's own are not the middleware's). -/
def wcalls {σ α : Type} : Response σ α → List (WCall σ)
  | .next _ => []
  | .error code msg ch => rejectCalls code msg ch

end Bearer
