import McpModel.Bearer.Model
/-! Helper lemmas for E10 (the property theorems are in `Props.lean`). -/
namespace Bearer
open Generated.Bearer
variable {σ α : Type} [DecidableEq σ]

/-- The credential test passes, yielding `tok`, iff `strings.Fields` gives exactly two fields, the
first being "bearer" up to ASCII case and the second `tok`. -/
theorem credential_some (hdr tok : List Char) :
    credential hdr = some tok ↔
      ∃ sch, fields hdr = [sch, tok] ∧ lowerAscii sch = ['b', 'e', 'a', 'r', 'e', 'r'] := by
  have hs : scheme.toList = ['b', 'e', 'a', 'r', 'e', 'r'] := by decide
  simp only [credential, nFields, hs]
  generalize fields hdr = fs
  match fs with
  | [] => simp
  | [a] => simp
  | [a, b] =>
    by_cases h : lowerAscii a = ['b', 'e', 'a', 'r', 'e', 'r']
    · simp only [List.length_cons, List.length_nil, ne_eq, not_true_eq_false, List.headD_cons, h,
        or_self, ↓reduceIte, List.drop_succ_cons, List.drop_zero, Option.some.injEq, List.cons.injEq, and_true]
      constructor
      · intro hb; exact ⟨a, ⟨rfl, hb⟩, h⟩
      · rintro ⟨sch, ⟨_, hb⟩, _⟩; exact hb
    · simp only [List.length_cons, List.length_nil, ne_eq, not_true_eq_false, List.headD_cons, h,
        false_or, List.cons.injEq, and_true]
      constructor
      · intro hb; cases hb
      · rintro ⟨sch, ⟨ha, _⟩, hl⟩; subst ha; exact absurd hl h
  | a :: b :: c :: r => simp

theorem credential_none (hdr : List Char) :
    credential hdr = none ↔
      ¬ ∃ sch tok, fields hdr = [sch, tok] ∧ lowerAscii sch = ['b', 'e', 'a', 'r', 'e', 'r'] := by
  constructor
  · intro h ⟨sch, tok, h1, h2⟩
    have := (credential_some hdr tok).2 ⟨sch, h1, h2⟩
    rw [h] at this; cases this
  · intro h
    cases hc : credential hdr with
    | none => rfl
    | some tok =>
      obtain ⟨sch, h1, h2⟩ := (credential_some hdr tok).1 hc
      exact absurd ⟨sch, tok, h1, h2⟩ h

theorem missingScope_false (req gr : List σ) :
    missingScope req gr = false ↔ ∀ s ∈ req, s ∈ gr := by
  simp [missingScope]

theorem missingScope_true (req gr : List σ) :
    missingScope req gr = true ↔ ∃ s ∈ req, s ∉ gr := by
  simp [missingScope]

/-- The `errors.Is` chain, evaluated: invalid-token first, then oauth, then anything else. -/
theorem errStatus_chain (e : VErr) :
    errStatus e errChain = if e.isInvalid then 401 else if e.isOAuth then 400 else 500 := by
  cases h1 : e.isInvalid <;> cases h2 : e.isOAuth <;>
    simp [errStatus, errChain, sentinelHolds, stErrOther, h1, h2]

/-- Nil options mean: no required scopes, strict expiry, zero skew (and no challenge parameters). -/
abbrev eff (o : Option (Opts σ)) : Opts σ := o.getD Opts.zero

theorem scopeRejected_false (o : Option (Opts σ)) (gr : List σ) :
    scopeRejected o gr = false ↔ ∀ s ∈ (eff o).scopes, s ∈ gr := by
  cases o with
  | none => simp [scopeRejected, eff, Opts.zero]
  | some o => simp [scopeRejected, eff, missingScope_false]

theorem scopeRejected_true (o : Option (Opts σ)) (gr : List σ) :
    scopeRejected o gr = true ↔ ∃ s ∈ (eff o).scopes, s ∉ gr := by
  cases o with
  | none => simp [scopeRejected, eff, Opts.zero]
  | some o => simp [scopeRejected, eff, missingScope_true]

/-- The expiry clause of the property: a token without expiration is accepted only when that is
explicitly allowed; a token with one is accepted unless `expiration + skew` is before now. -/
def Unexpired (exp : Option Int) (o : Opts σ) (now : Int) : Prop :=
  match exp with
  | none => o.allowMissing = true
  | some e => ¬ (e + o.skew < now)

omit [DecidableEq σ] in
theorem expiryRejected_none (exp : Option Int) (o : Opts σ) (now : Int) :
    expiryRejected exp o now = none ↔ Unexpired exp o now := by
  cases exp with
  | none => cases h : o.allowMissing <;> simp [expiryRejected, Unexpired, missingRejected, h]
  | some e =>
    by_cases h : e + o.skew < now <;> simp [expiryRejected, Unexpired, expired, h]

omit [DecidableEq σ] in
theorem expiryRejected_missing (o : Opts σ) (now : Int) (h : o.allowMissing = false) :
    expiryRejected none o now = some (msgMissingExp, 401) := by
  simp [expiryRejected, missingRejected, h, stMissingExp]

omit [DecidableEq σ] in
theorem expiryRejected_expired (e : Int) (o : Opts σ) (now : Int) (h : e + o.skew < now) :
    expiryRejected (some e) o now = some (msgExpired, 401) := by
  simp [expiryRejected, expired, h, stExpired]

theorem expired_iff (e skew now : Int) : expired e skew now = true ↔ e + skew < now := by
  simp [expired]

theorem missingRejected_iff (allow : Bool) : missingRejected allow = true ↔ allow = false := by
  cases allow <;> simp [missingRejected]

end Bearer
