import McpModel.Bearer.Session
import McpModel.Bearer.Props
import McpModel.Bearer.Bridge
import McpModel.Bearer.Sound
/-!
E10 — theorems about the middleware VALUE over its life (C14; model: Session.lean).

* `Sess.run_state`, `Sess.history_independent`, `Sess.wrapper_keeps_handler`, `Sess.handler_runs_iff`:
  over ALL histories of applications and requests, the answer to a request is `Bearer.serve` on that
  request alone under the value's options, and the handler that runs on admission is the one its
  wrapper was made for: no earlier request and no other application of the value matters.
* `advance_twice`, `Pool.run_eq`, `Pool.interleaving_independent`: over ALL schedules of the atomic
  sections of any number of requests in flight, every request ends with `Bearer.serve` on its own input.
* `sessMonitor_accepts_model`, `sound_strayHandler`, `sound_malformedRuns`, `sound_sessBase`,
  `sessMonitor_complete`: the bridge between the session monitor of the driver and these statements.
-/
namespace Bearer
open Generated.Bearer

variable {σ α : Type} [DecidableEq σ]

/-! ### Histories -/

/-- The state after any history: the options are the ones the value was made with, the wrappers are
extended by the applications, in order; requests leave no trace. -/
theorem Sess.run_state (s : Sess σ) (evs : List (Ev σ α)) :
    (s.run evs).1 = { opts := s.opts, wrappers := s.wrappers ++ wrapsOf evs } := by
  induction evs generalizing s with
  | nil => simp [Sess.run, wrapsOf]
  | cons e es ih =>
    cases e with
    | wrap j => simp [Sess.run, Sess.step, ih, wrapsOf]
    | req w i => simp [Sess.run, Sess.step, ih, wrapsOf]

theorem Sess.run_length (s : Sess σ) (evs : List (Ev σ α)) : (s.run evs).2.length = evs.length := by
  induction evs generalizing s with
  | nil => simp [Sess.run]
  | cons e es ih => simp [Sess.run, ih]

theorem Sess.run_append (s : Sess σ) (pre post : List (Ev σ α)) :
    (s.run (pre ++ post)).2 = (s.run pre).2 ++ ((s.run pre).1.run post).2 := by
  induction pre generalizing s with
  | nil => simp [Sess.run]
  | cons e es ih => simp [Sess.run, ih]

/-- **History independence.**  In any history `pre ++ [request through w] ++ post`, the answer to
that request is what a middleware value with the same options and only the applications of `pre`
gives to it: the requests of `pre` (any number, any outcomes) and everything in `post` are irrelevant. -/
theorem Sess.history_independent (s : Sess σ) (pre post : List (Ev σ α)) (w : Nat) (i : Input σ α) :
    (s.run (pre ++ Ev.req w i :: post)).2[pre.length]? =
      some (Sess.serveVia { opts := s.opts, wrappers := s.wrappers ++ wrapsOf pre } w i) := by
  rw [Sess.run_append]
  have hl := Sess.run_length s pre
  rw [List.getElem?_append_right (by omega)]
  simp [hl, Sess.run, Sess.step, Sess.run_state]

/-- A wrapper keeps the handler it was made for, whatever happens to the middleware value afterwards
(further applications included). -/
theorem Sess.wrapper_keeps_handler (s : Sess σ) (evs : List (Ev σ α)) (w j : Nat)
    (h : s.wrappers[w]? = some j) : (s.run evs).1.wrappers[w]? = some j := by
  rw [Sess.run_state]
  have hw : w < s.wrappers.length := by
    rcases Nat.lt_or_ge w s.wrappers.length with h' | h'
    · exact h'
    · rw [List.getElem?_eq_none h'] at h; cases h
  simp only []
  rw [List.getElem?_append_left hw]; exact h

theorem Sess.ran_iff (s : Sess σ) (w j : Nat) (i : Input σ α) (info : Info σ α) :
    s.serveVia w i = .ran j info ↔ s.wrappers[w]? = some j ∧ serve (s.input i) = .next info := by
  unfold Sess.serveVia
  cases hw : s.wrappers[w]? with
  | none => simp
  | some j' =>
    cases hs : serve (s.input i) with
    | next info' => simp
    | error c m ch => simp

/-- **admit_iff for a wrapped handler, over the life of the middleware value.**  Handler `j` runs for
a request through wrapper `w` — with `info` in the request context — if and only if `w` was made for
`j` and the request's own credential, verifier outcome, scopes and expiry check out under the value's
options. -/
theorem Sess.handler_runs_iff (s : Sess σ) (w j : Nat) (i : Input σ α) (info : Info σ α) :
    s.serveVia w i = .ran j info ↔
      s.wrappers[w]? = some j ∧
      ∃ tok, Credential i.header tok ∧
        (i.verifier tok).err = none ∧ (i.verifier tok).info = some info ∧
        (∀ sc ∈ (eff s.opts).scopes, sc ∈ info.scopes) ∧
        Unexpired info.exp (eff s.opts) i.now := by
  rw [Sess.ran_iff, admit_iff]
  rfl

/-- A request never runs a handler other than its wrapper's. -/
theorem Sess.no_stray_handler (s : Sess σ) (w j j' : Nat) (i : Input σ α) (info : Info σ α)
    (hw : s.wrappers[w]? = some j) (h : s.serveVia w i = .ran j' info) : j' = j := by
  have := ((Sess.ran_iff s w j' i info).1 h).1
  rw [hw] at this; cases this; rfl

/-! ### Several values -/

theorem World.run_state (wd : World σ) (evs : List (WEv σ α)) :
    (wd.run evs).1 = { vals := wd.vals ++ makesOf evs, wrappers := wd.wrappers ++ wrapsOfW evs } := by
  induction evs generalizing wd with
  | nil => simp [World.run, makesOf, wrapsOfW]
  | cons e es ih =>
    cases e with
    | make o => simp [World.run, World.step, ih, makesOf, wrapsOfW]
    | wrap v j => simp [World.run, World.step, ih, makesOf, wrapsOfW]
    | req w i => simp [World.run, World.step, ih, makesOf, wrapsOfW]

theorem World.run_length (wd : World σ) (evs : List (WEv σ α)) : (wd.run evs).2.length = evs.length := by
  induction evs generalizing wd with
  | nil => simp [World.run]
  | cons e es ih => simp [World.run, ih]

theorem World.run_append (wd : World σ) (pre post : List (WEv σ α)) :
    (wd.run (pre ++ post)).2 = (wd.run pre).2 ++ ((wd.run pre).1.run post).2 := by
  induction pre generalizing wd with
  | nil => simp [World.run]
  | cons e es ih => simp [World.run, ih]

/-- History independence with several values: the requests that went before — through this value or
any other — leave no trace; only the makes and applications count, each by appending. -/
theorem World.history_independent (wd : World σ) (pre post : List (WEv σ α)) (w : Nat) (i : Input σ α) :
    (wd.run (pre ++ WEv.req w i :: post)).2[pre.length]? =
      some (World.serveVia { vals := wd.vals ++ makesOf pre, wrappers := wd.wrappers ++ wrapsOfW pre } w i) := by
  rw [World.run_append]
  have hl := World.run_length wd pre
  rw [List.getElem?_append_right (by omega)]
  simp [hl, World.run, World.step, World.run_state]

/-- **Values do not see each other.**  A wrapper made from value `v` (options `o`) for handler `j`
answers every request — after any further history of makes, applications and requests through any
value — exactly as the one-value model of `v` alone does: `serve` under `o`, handler `j`. -/
theorem World.value_independent (wd : World σ) (evs : List (WEv σ α)) (w v j : Nat) (o : Option (Opts σ))
    (hw : wd.wrappers[w]? = some (v, j)) (hv : wd.vals[v]? = some o) (i : Input σ α) :
    (wd.run evs).1.serveVia w i = Sess.serveVia { opts := o, wrappers := [j] } 0 i := by
  rw [World.run_state]
  have hw' : w < wd.wrappers.length := by
    rcases Nat.lt_or_ge w wd.wrappers.length with h' | h'
    · exact h'
    · rw [List.getElem?_eq_none h'] at hw; cases hw
  have hv' : v < wd.vals.length := by
    rcases Nat.lt_or_ge v wd.vals.length with h' | h'
    · exact h'
    · rw [List.getElem?_eq_none h'] at hv; cases hv
  simp only [World.serveVia]
  rw [List.getElem?_append_left hw', hw]
  simp only []
  rw [List.getElem?_append_left hv', hv]

/-! ### Requests in flight -/

/-- The two atomic sections of the closure, one after the other, are `Bearer.serve`. -/
theorem advance_twice (i : Input σ α) : advanceN i 2 .idle = .done (serve i) := by
  simp only [advanceN, advance, serve, verify]
  cases hc : credential i.header with
  | none => simp
  | some tok =>
    simp only [leave]
    cases he : (i.verifier tok).err with
    | some e => simp
    | none =>
      cases hi : (i.verifier tok).info with
      | none => simp
      | some info =>
        simp only []
        by_cases hs : scopeRejected i.opts info.scopes = true
        · simp [hs]
        · simp only [hs]
          cases hx : expiryRejected info.exp (i.opts.getD Opts.zero) i.now with
          | none => simp
          | some p => obtain ⟨m, c⟩ := p; simp

theorem advanceN_done (i : Input σ α) (n : Nat) (r : Response σ α) : advanceN i n (.done r) = .done r := by
  induction n with
  | zero => rfl
  | succ n ih => simp [advanceN, advance, ih]

theorem advanceN_add (i : Input σ α) (m n : Nat) (p : Phase σ α) :
    advanceN i (m + n) p = advanceN i n (advanceN i m p) := by
  induction m generalizing p with
  | zero => simp [advanceN]
  | succ m ih => rw [Nat.succ_add]; simp [advanceN, ih]

/-- Once its two sections have run, a request is answered, and the answer is `Bearer.serve`. -/
theorem advanceN_ge_two (i : Input σ α) (n : Nat) (h : 2 ≤ n) : advanceN i n .idle = .done (serve i) := by
  obtain ⟨k, rfl⟩ : ∃ k, n = 2 + k := ⟨n - 2, by omega⟩
  rw [advanceN_add, advance_twice, advanceN_done]

/-- Frame: after any schedule, the phase of request `q` is what its own sections — as many as the
schedule gave it — make of its own phase.  The sections of other requests do not touch it. -/
theorem Pool.run_eq (reqs : Nat → Input σ α) (p : Pool σ α) (sched : List Nat) (q : Nat) :
    Pool.run reqs p sched q = advanceN (reqs q) (sched.count q) (p q) := by
  induction sched generalizing p with
  | nil => simp [Pool.run, advanceN]
  | cons x xs ih =>
    rw [Pool.run, ih]
    by_cases hx : x = q
    · subst hx
      simp [Pool.step, List.count_cons_self, advanceN]
    · have : (x :: xs).count q = xs.count q := by
        rw [List.count_cons_of_ne]; exact hx
      rw [this]
      have hq : ¬ q = x := fun h => hx h.symm
      simp [Pool.step, hq]

/-- **Interleaving independence.**  For any number of requests in flight through one middleware
value and ANY schedule of their atomic sections, every request that got to run its two sections is
answered exactly as `Bearer.serve` answers it alone (its own credential, its own verifier outcome, its
own `time.Now()`): requests that overlap inside the verifier — with equal tokens or not — do not
influence each other. -/
theorem Pool.interleaving_independent (reqs : Nat → Input σ α) (sched : List Nat) (q : Nat)
    (h : 2 ≤ sched.count q) :
    Pool.run reqs (fun _ => .idle) sched q = .done (serve (reqs q)) := by
  rw [Pool.run_eq]; exact advanceN_ge_two _ _ h

/-- **admit_iff under concurrency.**  Whatever else is in flight and however the sections are
scheduled, a request that has run its sections ended in its handler — with `info` in the request
context — if and only if its OWN credential, verifier outcome, scopes and expiry check out. -/
theorem Pool.admit_iff (reqs : Nat → Input σ α) (sched : List Nat) (q : Nat) (h : 2 ≤ sched.count q)
    (info : Info σ α) :
    Pool.run reqs (fun _ => .idle) sched q = .done (.next info) ↔
      ∃ tok, Credential (reqs q).header tok ∧
        ((reqs q).verifier tok).err = none ∧ ((reqs q).verifier tok).info = some info ∧
        (∀ sc ∈ (eff (reqs q).opts).scopes, sc ∈ info.scopes) ∧
        Unexpired info.exp (eff (reqs q).opts) (reqs q).now := by
  rw [Pool.interleaving_independent reqs sched q h, ← Bearer.admit_iff]
  constructor
  · intro h'; injection h'
  · intro h'; rw [h']

/-- The verifier is entered by a request only with the token of that request's own credential. -/
theorem Pool.in_verifier_own_token (reqs : Nat → Input σ α) (sched : List Nat) (q : Nat) (tok : List Char)
    (h : Pool.run reqs (fun _ => .idle) sched q = .inVerifier tok) : credential (reqs q).header = some tok := by
  rw [Pool.run_eq] at h
  generalize sched.count q = n at h
  match n with
  | 0 => simp [advanceN] at h
  | 1 =>
    simp only [advanceN, advance] at h
    cases hc : credential (reqs q).header with
    | none => simp [hc] at h
    | some t => simp [hc] at h; rw [h]
  | k + 2 =>
    rw [advanceN_ge_two _ _ (by omega)] at h; cases h

/-- Non-vacuity: two requests entering the verifier one after the other and leaving in the other order. -/
example (reqs : Nat → Input σ α) :
    Pool.run reqs (fun _ => .idle) [0, 1, 1, 0] 0 = .done (serve (reqs 0)) ∧
    Pool.run reqs (fun _ => .idle) [0, 1, 1, 0] 1 = .done (serve (reqs 1)) :=
  ⟨Pool.interleaving_independent reqs _ 0 (by decide), Pool.interleaving_independent reqs _ 1 (by decide)⟩

/-! ### The session monitor -/

theorem firstStray_runsOf_aux (made n : Nat) : ∀ (k lo : Nat),
    firstStray made lo ((List.range' lo k).map fun j => if j = made then n else 0) = none := by
  intro k
  induction k with
  | zero => intro lo; simp [firstStray]
  | succ k ih =>
    intro lo
    simp only [List.range'_succ, List.map_cons, firstStray]
    by_cases h : lo = made
    · simp [h, ih]
    · simp [h, ih]

theorem firstStray_runsOf (nh made n : Nat) : firstStray made 0 (runsOf nh made n) = none := by
  unfold runsOf
  rw [List.range_eq_range']
  exact firstStray_runsOf_aux made n nh 0

theorem runsOf_length (nh made n : Nat) : (runsOf nh made n).length = nh := by simp [runsOf]

theorem runsOf_made (nh made n : Nat) (h : made < nh) : (runsOf nh made n)[made]? = some n := by
  simp [runsOf, h]

/-- The request of a `sreq` record carries its identities. -/
theorem ofSession_tagged (opts : Option (Opts String)) (hdr : List Char) (s : Script) :
    (Req.ofSession opts hdr s).Tagged := ofScript_tagged _ _ _

/-- The request of a `sreq` record, as the session model's event sees it. -/
def Script.sessInput (sc : Script) (hdr : List Char) : Input String Tag := (sc.layer 0).input hdr []

/-- **What the driver renders for a `sreq` record is the session model's answer**: for a request
through wrapper `w` (made for handler `made`) of the value `s`, the observation `sessObsOf` derives
says "handler ran" exactly when `Sess.serveVia` runs handler `made`, and then only `made`'s count is
1; otherwise `serveVia` answers with an error whose status is the observation's. -/
theorem sessObsOf_serveVia (s : Sess String) (nh w made : Nat) (hdr : List Char) (sc : Script)
    (hw : s.wrappers[w]? = some made) (o : SObs)
    (ho : sessObsOf nh made (Req.ofSession s.opts hdr sc) = some o) :
    (o.obs.ran = 1 ∧ o.hr = runsOf nh made 1 ∧ ∃ info, s.serveVia w (sc.sessInput hdr) = .ran made info) ∨
    (o.obs.ran = 0 ∧ o.hr = runsOf nh made 0 ∧
      ∃ msg ch, s.serveVia w (sc.sessInput hdr) = .error o.obs.status msg ch) := by
  obtain ⟨o', ho', _, ha, h1, h0⟩ := obsOf_some (Req.ofSession s.opts hdr sc)
  simp only [sessObsOf, ho', Option.map_some, Option.some.injEq] at ho
  subst ho
  have hst : stack (Req.ofSession s.opts hdr sc).hdr (Req.ofSession s.opts hdr sc).layers (Req.ofSession s.opts hdr sc).ctx =
      match serve (s.input (sc.sessInput hdr)) with
      | .next info => .handler [info]
      | .error c m ch => .error c m ch := by
    simp only [Req.ofSession, Req.ofScript, layersFrom, stack, Script.sessInput, Sess.input, Layer.input, Script.layer,
      withTokenInfo]
    split <;> simp_all
  simp only [Sess.serveVia, hw]
  cases hs : serve (s.input (sc.sessInput hdr)) with
  | next info =>
    rw [hs] at hst
    left
    have := h1 ⟨_, hst⟩
    exact ⟨this, by rw [this], info, rfl⟩
  | error c m ch =>
    rw [hs] at hst
    right
    have hne : ¬ ∃ cx, stack (Req.ofSession s.opts hdr sc).hdr (Req.ofSession s.opts hdr sc).layers
        (Req.ofSession s.opts hdr sc).ctx = .handler cx := by
      rw [hst]; rintro ⟨_, h⟩; cases h
    have := h0 hne
    rw [hst] at ha
    refine ⟨this, by rw [this], m, ch, ?_⟩
    simp only [Answers] at ha
    rw [ha.1]

/-- The same for the driver's state with several values: the model line of a `sreq` record is the
world model's answer to the request through that wrapper. -/
theorem sessObsOf_worldServeVia (wd : World String) (nh w v made : Nat) (opts : Option (Opts String))
    (hdr : List Char) (sc : Script) (hw : wd.wrappers[w]? = some (v, made)) (hv : wd.vals[v]? = some opts)
    (o : SObs) (ho : sessObsOf nh made (Req.ofSession opts hdr sc) = some o) :
    (o.obs.ran = 1 ∧ o.hr = runsOf nh made 1 ∧ ∃ info, wd.serveVia w (sc.sessInput hdr) = .ran made info) ∨
    (o.obs.ran = 0 ∧ o.hr = runsOf nh made 0 ∧
      ∃ msg ch, wd.serveVia w (sc.sessInput hdr) = .error o.obs.status msg ch) := by
  simp only [World.serveVia, hw, hv]
  exact sessObsOf_serveVia { opts := opts, wrappers := [made] } nh 0 made hdr sc rfl o ho

/-- **No alarm on the model** (sessions): on what the model does with a request of a session, the
session monitor reports nothing. -/
theorem sessMonitor_accepts_model (nh made : Nat) (hm : made < nh) (r : Req) (ht : r.Tagged) :
    ∃ o, sessObsOf nh made r = some o ∧ sessMonitor nh made r o = none := by
  obtain ⟨o, ho, hmon⟩ := monitor_accepts_model r ht
  refine ⟨{ obs := o, hr := runsOf nh made o.ran }, by simp [sessObsOf, ho], ?_⟩
  simp [sessMonitor, runsOf_length, runsOf_made nh made o.ran hm, firstStray_runsOf, hmon]

theorem firstStray_some {made : Nat} : ∀ {l : List Nat} {lo j : Nat}, firstStray made lo l = some j →
    j ≠ made ∧ lo ≤ j ∧ ∃ n, l[j - lo]? = some n ∧ n ≠ 0 := by
  intro l
  induction l with
  | nil => intro lo j h; simp [firstStray] at h
  | cons x xs ih =>
    intro lo j h
    simp only [firstStray] at h
    split at h
    · rename_i hc
      cases h
      exact ⟨hc.1, Nat.le_refl _, x, by simp, hc.2⟩
    · obtain ⟨h1, h2, n, h3, h4⟩ := ih h
      refine ⟨h1, by omega, n, ?_, h4⟩
      have : j - lo = (j - (lo + 1)) + 1 := by omega
      rw [this]; simpa using h3

theorem firstStray_none {made : Nat} : ∀ {l : List Nat} {lo : Nat}, firstStray made lo l = none →
    ∀ k n, l[k]? = some n → lo + k ≠ made → n = 0 := by
  intro l
  induction l with
  | nil => intro lo _ k n h; simp at h
  | cons x xs ih =>
    intro lo h k n hk hne
    simp only [firstStray] at h
    split at h
    · cases h
    · rename_i hc
      cases k with
      | zero =>
        simp at hk; subst hk
        by_cases hx : x = 0
        · exact hx
        · exact absurd ⟨by simpa using hne, hx⟩ hc
      | succ k =>
        simp at hk
        exact ih h k n hk (by omega)

/-- **Soundness of `strayHandler`**: it is reported only if a handler other than the one the
wrapper was made for ran for this request. -/
theorem sound_strayHandler (nh made : Nat) (r : Req) (o : SObs) (m j : Nat)
    (h : sessMonitor nh made r o = some (.strayHandler m j)) :
    m = made ∧ j ≠ made ∧ ∃ n, o.hr[j]? = some n ∧ n ≠ 0 := by
  unfold sessMonitor at h
  split at h
  · cases h
  · split at h
    · rename_i j' hj
      cases h
      obtain ⟨h1, _, n, h3, h4⟩ := firstStray_some hj
      exact ⟨rfl, h1, n, by simpa using h3, h4⟩
    · cases hm : monitor r o.obs <;> simp [hm] at h

/-- **Soundness of `malformedRuns`**: the observation does not have one run count per handler with
the wrapper's own handler's count as `ran`. -/
theorem sound_malformedRuns (nh made : Nat) (r : Req) (o : SObs)
    (h : sessMonitor nh made r o = some .malformedRuns) :
    ¬ (o.hr.length = nh ∧ o.hr[made]? = some o.obs.ran) := by
  unfold sessMonitor at h
  split at h
  · rename_i hc; intro ⟨a, b⟩; rcases hc with hc | hc <;> contradiction
  · split at h
    · cases h
    · cases hm : monitor r o.obs <;> simp [hm] at h

/-- **Soundness of the single-request clauses inside a session**: a reported clause of the
single-request property is violated by this request's observation under the value's options
(`P_of`, Sound.lean), whatever came before or ran meanwhile. -/
theorem sound_sessBase (nh made : Nat) (r : Req) (o : SObs) (c : Clause)
    (h : sessMonitor nh made r o = some (.base c)) : ¬ P_of c r o.obs := by
  unfold sessMonitor at h
  split at h
  · cases h
  · split at h
    · cases h
    · cases hm : monitor r o.obs with
      | none => simp [hm] at h
      | some c' =>
        simp [hm] at h; subst h
        exact monitor_sound r o.obs c' hm

/-- **Completeness** (sessions): if the session monitor reports nothing, then only the wrapper's own
handler ran (as often as `ran` says) and every clause of the single-request property holds of this
request's observation. -/
theorem sessMonitor_complete (nh made : Nat) (r : Req) (o : SObs) (h : sessMonitor nh made r o = none) :
    o.hr.length = nh ∧ o.hr[made]? = some o.obs.ran ∧
    (∀ j n, o.hr[j]? = some n → j ≠ made → n = 0) ∧ ∀ cl, P_of cl r o.obs := by
  unfold sessMonitor at h
  split at h
  · cases h
  · rename_i hc
    have hc1 : o.hr.length = nh := by
      rcases Nat.decEq o.hr.length nh with h' | h'
      · exact absurd (Or.inl h') hc
      · exact h'
    have hc2 : o.hr[made]? = some o.obs.ran := by
      by_cases h' : o.hr[made]? = some o.obs.ran
      · exact h'
      · exact absurd (Or.inr h') hc
    split at h
    · cases h
    · rename_i hs
      cases hm : monitor r o.obs with
      | some c => simp [hm] at h
      | none =>
        refine ⟨hc1, hc2, ?_, monitor_complete r o.obs hm⟩
        intro j n hj hne
        exact firstStray_none hs j n hj (by simpa using hne)

/-! ### Non-vacuity: the session clauses can be reported, and silence is possible -/

section witnesses

private def wsc (gr : List String) (exp : Int) : Script := { err := none, info := some (gr, some exp), opts := none, now := 10 }
private def wop : Opts String := { rm := "https://rs/meta", scopes := ["a", "b"], allowMissing := false, skew := 0 }
private def wReq (gr : List String) : Req := Req.ofSession (some wop) "Bearer t".toList (wsc gr 20)
private def wRan : Obs :=
  { status := 299, ran := 1, layers := [{ seen := .found (.L 0), calls := 1, token := some "t".toList }], www := [], late := [], body := "inner" }

/-- two handlers, wrapper made for handler 0: the model's behaviour passes -/
example : sessMonitor 2 0 (wReq ["a", "b"]) { obs := wRan, hr := [1, 0] } = none := by decide
/-- the other handler ran instead (one handler object per middleware value, `next` overwritten) -/
example : sessMonitor 2 0 (wReq ["a", "b"]) { obs := { wRan with ran := 0 }, hr := [0, 1] } = some (.strayHandler 0 1) := by decide
/-- admitted although this request's token lacks a required scope (requirement struck off by earlier requests) -/
example : sessMonitor 2 0 (wReq ["a"]) { obs := wRan, hr := [1, 0] } = some (.base (.ranDespite 0 .scope)) := by decide
/-- the handler found another request's TokenInfo (verifications coalesced) -/
example : sessMonitor 2 0 (wReq ["a", "b"])
    { obs := { wRan with layers := [{ seen := .other "R0", calls := 0, token := none }] }, hr := [1, 0] } =
    some (.base (.wrongInfo 0 (.other "R0"))) := by decide
example : sessMonitor 2 0 (wReq ["a", "b"]) { obs := wRan, hr := [1] } = some .malformedRuns := by decide
/-- a second application of the value leaves the first wrapper's handler alone -/
example : (({ opts := none, wrappers := [] } : Sess String).run (α := Tag) [.wrap 0, .wrap 1]).1.wrappers = [0, 1] := rfl

end witnesses

end Bearer
