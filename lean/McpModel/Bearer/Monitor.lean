import McpModel.Bearer.Model
/-!
E10 — the typed core of the C14 monitor.

The driver (Driver.lean) parses a `req` record into a `Req` (the `Authorization` value, the stacked
middlewares with their scripted verifiers, the incoming request context) and the implementation's
observation into an `Obs` (status, run count of the final handler, per middleware what the handler
behind it found in the request context / verifier calls / token, the `WWW-Authenticate` values of the
response as sent and those put into the header map too late, each parsed into its auth-params), calls
`monitor`, and renders the `Clause` it returns (`Clause.text`, byte-identical to the texts of the
former string-level monitor).  Everything that decides WHICH clause of C14 is violated lives here, on
typed data, so that Bridge.lean (no alarm on any behaviour of the model) and Sound.lean (a clause
fires only if the property clause fails on the observation) can reason about it.

The monitor is the property itself, written with literal statuses and names; it reads
`Bearer.fields`/`lowerAscii` (the modelled `strings.Fields`/`strings.ToLower`) and the scripted
verifier, never `Bearer.verify`/`serve` or the regenerated constants.  Core Lean only.
-/
namespace Bearer

/-! ### Identities of `TokenInfo` values -/

/-- The identity of a `TokenInfo` value in a harness case: the one the verifier of middleware `k`
(0 = outermost) returns, or the one that was already in the incoming request's context. -/
inductive Tag
  | L (k : Nat)
  | up
deriving DecidableEq, Repr

/-- What the handler directly behind a middleware found in the request context (`TokenInfoFromContext`). -/
inductive Seen
  /-- `-`: that handler did not run -/
  | notRun
  /-- `L<j>` / `up`: the very value with that identity, contents unchanged -/
  | found (t : Tag)
  /-- `nil`: no TokenInfo -/
  | nil
  /-- `changed<j>` / `changedup`: the value with that identity, contents altered -/
  | changed (which : String)
  /-- anything else -/
  | other (s : String)
deriving DecidableEq, Repr

/-- What the harness saw of one middleware. -/
structure LObs where
  seen : Seen
  /-- verifier calls -/
  calls : Nat
  /-- token of the last verifier call -/
  token : Option (List Char)
deriving DecidableEq, Repr

/-- One `WWW-Authenticate` value: a `Bearer` challenge with its auth-params (name, unquoted value),
or something that does not read as one. -/
inductive WVal
  | chal (params : List (String × String))
  | raw (s : String)
deriving DecidableEq, Repr

/-- The implementation's observation of one request. -/
structure Obs where
  status : Nat
  /-- how often the final handler ran -/
  ran : Nat
  /-- per middleware, outermost first -/
  layers : List LObs
  /-- `WWW-Authenticate` values of the response AS SENT -/
  www : List WVal
  /-- values found in the writer's header map afterwards that were not sent -/
  late : List WVal
  body : String
deriving DecidableEq, Repr

/-! ### The request of one record -/

structure Req where
  hdr : List Char
  /-- outermost first -/
  layers : List (Layer String Tag)
  /-- the incoming request context -/
  ctx : Ctx String Tag

/-- One scripted middleware as the record carries it. -/
structure Script where
  err : Option VErr
  /-- granted scopes and expiration of the info the verifier returns (`none`: nil info) -/
  info : Option (List String × Option Int)
  opts : Option (Opts String)
  now : Int

/-- The `k`-th middleware of a case: its verifier returns the scripted outcome whatever the context
and the token; the info carries the identity `L k`. -/
def Script.layer (k : Nat) (s : Script) : Layer String Tag :=
  { verifier := fun _ _ => { err := s.err, info := s.info.map fun p => { scopes := p.1, exp := p.2, extra := Tag.L k } }
    opts := s.opts, now := s.now }

def layersFrom : Nat → List Script → List (Layer String Tag)
  | _, [] => []
  | k, s :: ss => s.layer k :: layersFrom (k + 1) ss

/-- The request of a record: scripted middlewares, and optionally a `TokenInfo` already in the context. -/
def Req.ofScript (hdr : List Char) (ss : List Script) (up : Option (List String × Option Int)) : Req :=
  { hdr := hdr, layers := layersFrom 0 ss
    ctx := match up with
      | some p => [{ scopes := p.1, exp := p.2, extra := Tag.up }]
      | none => [] }

/-! ### The property's verdict -/

/-- Why a request is not admitted. -/
inductive Cause
  | noCredential | invalidToken | oauthError | otherError | nilInfo | scope | missingExp | expired
deriving DecidableEq, Repr

/-- The status the property mandates for a cause. -/
def Cause.code : Cause → Nat
  | .noCredential => 401
  | .invalidToken => 401
  | .oauthError => 400
  | .otherError => 500
  | .nilInfo => 500
  | .scope => 403
  | .missingExp => 401
  | .expired => 401

inductive Want where
  | pass (info : Info String Tag)
  | reject (cause : Cause)

/-- The property's credential clause, literally. -/
def specCredential (hdr : List Char) : Option (List Char) :=
  match fields hdr with
  | [sch, tok] => if lowerAscii sch == "bearer".toList then some tok else none
  | _ => none

/-- The property's verdict: admitted (with the verifier's info) iff everything checks out, otherwise
the first failing cause. -/
def specWant (i : Input String Tag) : Want :=
  match specCredential i.header with
  | none => .reject .noCredential
  | some tok =>
    let r := i.verifier tok
    match r.err with
    | some e =>
      if e.isInvalid then .reject .invalidToken
      else if e.isOAuth then .reject .oauthError
      else .reject .otherError
    | none =>
      match r.info with
      | none => .reject .nilInfo
      | some inf =>
        let o : Opts String := match i.opts with
          | some o => o
          | none => { rm := "", scopes := [], allowMissing := false, skew := 0 }
        if !(o.scopes.all fun s => inf.scopes.elem s) then .reject .scope
        else match inf.exp with
          | none => if o.allowMissing then .pass inf else .reject .missingExp
          | some e => if e + o.skew < i.now then .reject .expired else .pass inf

/-! ### Clauses -/

inductive Clause
  /-- the observation does not have one entry per middleware -/
  | malformed
  /-- admit_iff: the final handler's run count contradicts what it recorded -/
  | ranInconsistent (ran : Nat)
  /-- admit_iff: handler did not run although everything checks out -/
  | notRun (k st : Nat)
  /-- admit_iff: handler ran despite a failing cause -/
  | ranDespite (k : Nat) (cause : Cause)
  /-- admit_iff: a middleware behind the rejecting one was reached -/
  | behindReached (k : Nat)
  /-- handler_sees_verifier_info -/
  | wrongInfo (k : Nat) (seen : Seen)
  /-- status_by_cause -/
  | wrongStatus (k : Nat) (cause : Cause) (st : Nat)
  /-- verifier_called_iff: consulted without a well-formed credential -/
  | calledWithout (k : Nat)
  /-- verifier_called_iff: not consulted exactly once with the credential's token -/
  | notCalledOnce (k : Nat)
  /-- challenge_on_401_403: a challenge where none is due -/
  | chalUnexpected (st : Nat)
  /-- challenge_on_401_403: a value put into the header map too late where none is due -/
  | chalUnexpectedLate (st : Nat)
  /-- challenge_on_401_403: a further value added after the response was written -/
  | chalFurtherLate (st : Nat)
  /-- challenge_on_401_403: not exactly the configured parameters -/
  | chalWrong
  /-- challenge_on_401_403: `n ≠ 1` values -/
  | chalCount (st n : Nat)
  /-- challenge_on_401_403: the challenge was only added after the response had been written -/
  | chalLateOnly (st : Nat)
deriving DecidableEq, Repr

/-! ### The challenge clause -/

/-- The parameters configured in the options (nil options configure nothing). -/
def configured : Option (Opts String) → List (String × String)
  | none => []
  | some op =>
    (if op.rm ≠ "" then [("resource_metadata", op.rm)] else []) ++
    (if op.scopes ≠ [] then [("scope", " ".intercalate op.scopes)] else [])

/-- The parameters a challenge is due with: on a rejection answered 401 or 403, the configured ones. -/
def expectParams (opts : Option (Opts String)) (admitted : Bool) (st : Nat) : List (String × String) :=
  if !admitted ∧ (st = 401 ∨ st = 403) then configured opts else []

/-- The values carried under an auth-param name. -/
def valuesOf (key : String) (ps : List (String × String)) : List String :=
  (ps.filter fun p => p.1 == key).map (·.2)

/-- The value is a Bearer challenge carrying, under `resource_metadata` and under `scope`, exactly
what `expect` has (further parameters are not the property's business). -/
def chalOk (expect : List (String × String)) : WVal → Bool
  | .chal ps =>
    valuesOf "resource_metadata" ps == valuesOf "resource_metadata" expect &&
    valuesOf "scope" ps == valuesOf "scope" expect
  | .raw _ => false

/-- The challenge clause, on the `WWW-Authenticate` values of the response AS SENT (`www`) and those
found in the writer's header map afterwards that were not sent (`late`). -/
def challengeClause (opts : Option (Opts String)) (admitted : Bool) (o : Obs) : Option Clause :=
  if (expectParams opts admitted o.status).isEmpty then
    if !o.www.isEmpty then some (.chalUnexpected o.status)
    else if !o.late.isEmpty then some (.chalUnexpectedLate o.status)
    else none
  else
    match o.www with
    | [w] =>
      if !o.late.isEmpty then some (.chalFurtherLate o.status)
      else if chalOk (expectParams opts admitted o.status) w then none
      else some .chalWrong
    | [] => if o.late.isEmpty then some (.chalCount o.status 0) else some (.chalLateOnly o.status)
    | _ => some (.chalCount o.status o.www.length)

/-! ### The walk, middleware by middleware -/

/-- verifier_called_iff for one middleware the request reaches. -/
def calledClause (hdr : List Char) (k : Nat) (ob : LObs) : Option Clause :=
  match specCredential hdr with
  | none => if ob.calls = 0 then none else some (.calledWithout k)
  | some tok => if ob.calls = 1 ∧ ob.token = some tok then none else some (.notCalledOnce k)

/-- No middleware behind a rejecting one is reached: no verifier call, no handler run. -/
def untouched (rest : List (Layer String Tag × LObs)) : Bool :=
  rest.all fun p => p.2.calls == 0 && p.2.seen == .notRun

/-- The property at one middleware the request reaches: `k` its index, `ob` its observation, `rest`
the middlewares behind it with theirs, `ctx` the context of the request entering it. -/
def localClause (hdr : List Char) (o : Obs) (k : Nat) (l : Layer String Tag) (ob : LObs)
    (rest : List (Layer String Tag × LObs)) (ctx : Ctx String Tag) : Option Clause :=
  match specWant (l.input hdr ctx) with
  | .pass _ =>
    if ob.seen = .notRun then some (.notRun k o.status)
    else if ob.seen ≠ .found (.L k) then some (.wrongInfo k ob.seen)
    else (if rest.isEmpty then challengeClause l.opts true o else none) <|> calledClause hdr k ob
  | .reject cause =>
    (if ob.seen ≠ .notRun then some (.ranDespite k cause)
     else if o.status = cause.code then none
     else some (.wrongStatus k cause o.status)) <|>
    challengeClause l.opts false o <|> calledClause hdr k ob <|>
    (if untouched rest then none else some (.behindReached k))

/-- The property, middleware by middleware (outermost first): the first clause violated at a
middleware the request reaches.  Behind an admitting middleware the request carries the verifier's
info on top of its context; behind a rejecting one nothing is reached. -/
def walk (hdr : List Char) (o : Obs) : Nat → List (Layer String Tag × LObs) → Ctx String Tag → Option Clause
  | _, [], _ => none
  | k, (l, ob) :: rest, ctx =>
    localClause hdr o k l ob rest ctx <|>
      match specWant (l.input hdr ctx) with
      | .pass inf => walk hdr o (k + 1) rest (inf :: ctx)
      | .reject _ => none

/-- Did the handler behind the innermost middleware (the final handler) record a run? -/
def lastRan (o : Obs) : Bool :=
  match o.layers.getLast? with
  | some ob => ob.seen != .notRun
  | none => true

/-- **The C14 monitor of one request.** -/
def monitor (r : Req) (o : Obs) : Option Clause :=
  if o.layers.length ≠ r.layers.length then some .malformed
  else if (o.ran == 1) != lastRan o ∨ (o.ran ≠ 0 ∧ o.ran ≠ 1) then some (.ranInconsistent o.ran)
  else walk r.hdr o 0 (r.layers.zip o.layers) r.ctx

/-! ### The former challenge check (string level), kept for the witness in Bridge.lean -/

def isInfix (p s : List Char) : Bool :=
  match s with
  | [] => p.isEmpty
  | _ :: t => p.isPrefixOf s || isInfix p t

/-- The test the string-level monitor applied to the one sent value `w` (rendered parameters `ps`
expected): prefix, every expected parameter an infix, and no `resource_metadata` / `scope=` anywhere
in the value when that parameter is not configured. -/
def oldChalOk (op : Opts String) (ps : List (List Char)) (w : List Char) : Bool :=
  "Bearer ".toList.isPrefixOf w && ps.all (fun p => isInfix p w) &&
  (op.rm != "" || !isInfix "resource_metadata".toList w) &&
  (!op.scopes.isEmpty || !isInfix "scope=".toList w)

/-! ### The model's observation -/

def seenOf : Response String Tag → Seen
  | .next info => .found info.extra
  | .error _ _ _ => .notRun

def lobsOfVisit (v : Visit String Tag) : LObs :=
  { seen := seenOf v.resp, calls := if v.token.isSome then 1 else 0, token := v.token }

def blankLObs : LObs := { seen := .notRun, calls := 0, token := none }

/-- An auth-param of the challenge as name and value (the names are regenerated). -/
def kvOf : Param String → String × String
  | .resourceMetadata u => (Generated.Bearer.paramRM, u)
  | .scope ss => (Generated.Bearer.paramScope, " ".intercalate ss)

/-- What the monitor would be given if the implementation behaved exactly like the model: the
middlewares reached (`visits`), and the response as sent (`sentBy`, not the header map).  `none`:
the model writes nothing (never the case, Bridge.lean). -/
def obsOf (r : Req) : Option Obs :=
  let vs := visits r.hdr r.layers r.ctx
  let lobs := vs.map lobsOfVisit ++ List.replicate (r.layers.length - vs.length) blankLObs
  match stack r.hdr r.layers r.ctx with
  | .handler _ => some { status := 299, ran := 1, layers := lobs, www := [], late := [], body := "inner" }
  | .error code msg ch =>
    (sentBy (rejectCalls code msg ch)).map fun sent =>
      { status := sent.status, ran := 0, layers := lobs
        www := sent.challenges.map fun ps => WVal.chal (ps.map kvOf)
        late := [], body := sent.body }

end Bearer
