import McpModel.Bearer.Bridge
/-!
# Clause soundness and completeness of the C14 monitor (E10)

For every clause the monitor can report (`Clause`) the corresponding clause of the property is stated
as a predicate `P_…` on the record alone — the request (`Req`: `Authorization` value, the stacked
middlewares with their scripted verifiers and options, the incoming context) and what the
IMPLEMENTATION did (`Obs`) — written from the property text with `Credential`, `Layer.Admits` (the
right-hand side of `admit_iff`), `Rejects` (the first failing cause, `status_by_cause`), `Admitted`
(every enclosing middleware admits) and `configured` (the challenge parameters of the options); no
monitor function, no `verify`/`serve`/`stack`.  `sound_<clause>`: whenever the monitor reports the
clause, the predicate fails.  `monitor_sound` packages them (`monitor r o = some cl → ¬ P_of cl r o`),
`monitor_complete` is the converse (silence ⇒ every predicate holds), `model_satisfies_P` shows the
predicates are satisfiable: the model's observation of every tagged request satisfies all of them.

Vocabulary: `At r o k l c ob` — middleware number `k` (0 = outermost) is `l`, the harness observed
`ob` of it, and the request reaches it with context `c`, every enclosing middleware having admitted it.
`Seen.found (.L k)` is the harness's report "the very value the verifier of middleware `k` returned,
contents unchanged" (pointer identity + deep comparison with a snapshot; trusted).
-/
namespace Bearer

/-- Each middleware with what the harness observed of it. -/
def pairs (r : Req) (o : Obs) : List (Layer String Tag × LObs) := r.layers.zip o.layers

def At (r : Req) (o : Obs) (k : Nat) (l : Layer String Tag) (c : Ctx String Tag) (ob : LObs) : Prop :=
  (pairs r o)[k]? = some (l, ob) ∧ Admitted r.hdr (((pairs r o).take k).map (·.1)) r.ctx c

/-! ## The property clauses, as predicates on a record -/

/-- The observation has one entry per middleware. -/
def P_wellformed (r : Req) (o : Obs) : Prop := o.layers.length = r.layers.length

/-- "A handler … runs if and only if": the final handler — the one behind the innermost middleware —
ran once if it recorded a run, and not at all otherwise. -/
def P_final_handler_once (_ : Req) (o : Obs) : Prop :=
  (∀ ob, o.layers.getLast? = some ob → ob.seen ≠ .notRun → o.ran = 1) ∧
  (∀ ob, o.layers.getLast? = some ob → ob.seen = .notRun → o.ran = 0) ∧
  (o.layers = [] → o.ran = 1)

/-- admit_iff, "if": a middleware that the request reaches and whose conditions all hold runs its handler. -/
def P_admit_if (r : Req) (o : Obs) : Prop :=
  ∀ k l c ob info, At r o k l c ob → l.Admits r.hdr c info → ob.seen ≠ .notRun

/-- admit_iff, "only if": a handler runs only behind a middleware whose conditions all hold. -/
def P_admit_only_if (r : Req) (o : Obs) : Prop :=
  ∀ k l c ob, At r o k l c ob → ob.seen ≠ .notRun → ∃ info, l.Admits r.hdr c info

/-- admit_iff: behind a middleware that rejects the request nothing is reached — no verifier
is consulted, no handler runs. -/
def P_nothing_behind_rejection (r : Req) (o : Obs) : Prop :=
  ∀ k l c ob, At r o k l c ob → (¬ ∃ info, l.Admits r.hdr c info) →
    ∀ j p, k < j → (pairs r o)[j]? = some p → p.2.calls = 0 ∧ p.2.seen = .notRun

/-- handler_sees_verifier_info: the handler behind an admitting middleware finds in the request
context the very info that middleware's verifier returned, unchanged. -/
def P_handler_sees_verifier_info (r : Req) (o : Obs) : Prop :=
  ∀ k l c ob info, At r o k l c ob → l.Admits r.hdr c info → ob.seen ≠ .notRun → ob.seen = .found (.L k)

/-- status_by_cause: a request rejected by a middleware is answered with the status of the first
failing cause. -/
def P_status_by_cause (r : Req) (o : Obs) : Prop :=
  ∀ k l c ob cause, At r o k l c ob → Rejects (l.input r.hdr c) cause → o.status = cause.code

/-- verifier_called_iff: a middleware the request reaches consults its verifier exactly once, with the
credential's token, if the credential is well-formed, and not at all otherwise. -/
def P_verifier_called_iff (r : Req) (o : Obs) : Prop :=
  ∀ k l c ob, At r o k l c ob →
    (∀ tok, Credential r.hdr tok → ob.calls = 1 ∧ ob.token = some tok) ∧
    ((¬ ∃ tok, Credential r.hdr tok) → ob.calls = 0)

/-- The parameters the response's challenge is due with: the request is rejected by a middleware
and answered 401 or 403 — the parameters configured in that middleware's options; rejected and
answered otherwise, or admitted by every middleware (the final handler answers) — none. -/
def Due (r : Req) (o : Obs) (ps : List (String × String)) : Prop :=
  (∃ k l c ob, At r o k l c ob ∧ (¬ ∃ info, l.Admits r.hdr c info) ∧
    ps = if o.status = 401 ∨ o.status = 403 then configured l.opts else []) ∨
  (∃ k l c ob, At r o k l c ob ∧ (∃ info, l.Admits r.hdr c info) ∧ k + 1 = (pairs r o).length ∧ ps = [])

/-- The value is a Bearer challenge carrying under `resource_metadata` and under `scope` exactly what `ps` has. -/
def Carries (ps : List (String × String)) (w : WVal) : Prop :=
  ∃ qs, w = .chal qs ∧ valuesOf "resource_metadata" qs = valuesOf "resource_metadata" ps ∧
    valuesOf "scope" qs = valuesOf "scope" ps

/-- challenge_on_401_403: when parameters are due, the response AS SENT has exactly one
`WWW-Authenticate` value, and it carries exactly them. -/
def P_challenge_sent (r : Req) (o : Obs) : Prop :=
  ∀ ps, Due r o ps → ps ≠ [] → ∃ w, o.www = [w] ∧ Carries ps w

/-- challenge_on_401_403: when none are due (400/500, nil options, nothing configured, admitted), the
response as sent has no `WWW-Authenticate` value. -/
def P_no_undue_challenge (r : Req) (o : Obs) : Prop :=
  ∀ ps, Due r o ps → ps = [] → o.www = []

/-- challenge_on_401_403, on the response as sent: the middleware puts nothing into the header map
after the response was written. -/
def P_nothing_added_late (r : Req) (o : Obs) : Prop :=
  ∀ ps, Due r o ps → o.late = []

/-- The predicate a clause refutes. -/
def P_of : Clause → Req → Obs → Prop
  | .malformed => P_wellformed
  | .ranInconsistent _ => P_final_handler_once
  | .notRun _ _ => P_admit_if
  | .ranDespite _ _ => P_admit_only_if
  | .behindReached _ => P_nothing_behind_rejection
  | .wrongInfo _ _ => P_handler_sees_verifier_info
  | .wrongStatus _ _ _ => P_status_by_cause
  | .calledWithout _ => P_verifier_called_iff
  | .notCalledOnce _ => P_verifier_called_iff
  | .chalUnexpected _ => P_no_undue_challenge
  | .chalUnexpectedLate _ => P_nothing_added_late
  | .chalFurtherLate _ => P_nothing_added_late
  | .chalWrong => P_challenge_sent
  | .chalCount _ _ => P_challenge_sent
  | .chalLateOnly _ => P_challenge_sent

/-! ## Where the walk reports -/

theorem orElse_some {α : Type} {a b : Option α} {x : α} (h : (a <|> b) = some x) : a = some x ∨ (a = none ∧ b = some x) := by
  cases a with
  | none => exact .inr ⟨rfl, by simpa using h⟩
  | some y => exact .inl (by simpa using h)

theorem orElse_none {α : Type} {a b : Option α} (h : (a <|> b) = none) : a = none ∧ b = none := by
  cases a <;> simp_all

theorem admits_unique {l : Layer String Tag} {hdr : List Char} {c : Ctx String Tag} {i1 i2 : Info String Tag}
    (h1 : l.Admits hdr c i1) (h2 : l.Admits hdr c i2) : i1 = i2 := by
  obtain ⟨t1, hc1, _, hi1, _⟩ := h1
  obtain ⟨t2, hc2, _, hi2, _⟩ := h2
  have := Credential.unique hc1 hc2; subst this
  rw [hi1] at hi2; cases hi2; rfl

/-- What `specWant` says, in the property's vocabulary (it is a function: exactly one holds). -/
theorem specWant_cases (l : Layer String Tag) (hdr : List Char) (c : Ctx String Tag) :
    (∃ info, specWant (l.input hdr c) = .pass info ∧ l.Admits hdr c info) ∨
    (∃ cause, specWant (l.input hdr c) = .reject cause ∧ Rejects (l.input hdr c) cause ∧
      ¬ ∃ info, l.Admits hdr c info) := by
  cases h : specWant (l.input hdr c) with
  | pass info => exact .inl ⟨info, rfl, (specWant_pass_iff _ _).1 h⟩
  | reject cause =>
    refine .inr ⟨cause, rfl, (specWant_reject_iff _ _).1 h, ?_⟩
    rintro ⟨info, ha⟩
    rw [(specWant_pass_iff (l.input hdr c) info).2 ha] at h; cases h

theorem rejects_not_admits {l : Layer String Tag} {hdr : List Char} {c : Ctx String Tag} {cause : Cause}
    (h : Rejects (l.input hdr c) cause) : ¬ ∃ info, l.Admits hdr c info := by
  rintro ⟨info, ha⟩
  have h1 := (specWant_reject_iff _ _).2 h
  rw [(specWant_pass_iff (l.input hdr c) info).2 ha] at h1; cases h1

theorem rejects_unique {i : Input String Tag} {c1 c2 : Cause} (h1 : Rejects i c1) (h2 : Rejects i c2) : c1 = c2 := by
  have a := (specWant_reject_iff _ _).2 h1
  rw [(specWant_reject_iff _ _).2 h2] at a; cases a; rfl

/-- The walk reports `cl` iff some middleware the request reaches (every one before it admitting and
passing its own checks) violates `cl` locally. -/
theorem walk_some (hdr : List Char) (o : Obs) (cl : Clause) :
    ∀ (rest : List (Layer String Tag × LObs)) (k : Nat) (ctx : Ctx String Tag),
      walk hdr o k rest ctx = some cl →
      ∃ j l ob c, rest[j]? = some (l, ob) ∧ Admitted hdr ((rest.take j).map (·.1)) ctx c ∧
        localClause hdr o (k + j) l ob (rest.drop (j + 1)) c = some cl := by
  intro rest
  induction rest with
  | nil => intro k ctx h; cases h
  | cons p rest ih =>
    obtain ⟨l, ob⟩ := p
    intro k ctx h
    simp only [walk] at h
    rcases orElse_some h with h1 | ⟨_, h2⟩
    · exact ⟨0, l, ob, ctx, rfl, .nil _, h1⟩
    · rcases specWant_cases l hdr ctx with ⟨info, hw, ha⟩ | ⟨cause, hw, _, _⟩
      · rw [hw] at h2
        obtain ⟨j, l', ob', c, hj, hadm, hloc⟩ := ih (k + 1) (info :: ctx) h2
        refine ⟨j + 1, l', ob', c, hj, ?_, ?_⟩
        · exact .cons info ha hadm
        · rw [show k + (j + 1) = k + 1 + j by omega]; exact hloc
      · rw [hw] at h2; cases h2

/-- A silent walk: every middleware the request reaches passes its local checks. -/
theorem walk_none (hdr : List Char) (o : Obs) :
    ∀ (rest : List (Layer String Tag × LObs)) (k : Nat) (ctx : Ctx String Tag),
      walk hdr o k rest ctx = none →
      ∀ j l ob c, rest[j]? = some (l, ob) → Admitted hdr ((rest.take j).map (·.1)) ctx c →
        localClause hdr o (k + j) l ob (rest.drop (j + 1)) c = none := by
  intro rest
  induction rest with
  | nil => intro k ctx _ j l ob c hj; cases hj
  | cons p rest ih =>
    obtain ⟨l0, ob0⟩ := p
    intro k ctx h j l ob c hj hadm
    simp only [walk] at h
    obtain ⟨h1, h2⟩ := orElse_none h
    cases j with
    | zero =>
      simp only [List.getElem?_cons_zero, Option.some.injEq, Prod.mk.injEq] at hj
      obtain ⟨rfl, rfl⟩ := hj
      cases hadm
      exact h1
    | succ j =>
      simp only [List.getElem?_cons_succ] at hj
      simp only [List.take_succ_cons, List.map_cons] at hadm
      cases hadm with
      | cons info ha hr =>
        have hw := (specWant_pass_iff _ _).2 ((Layer.admits_input l0 hdr ctx info).2 ha)
        rw [hw] at h2
        have := ih (k + 1) (info :: ctx) h2 j l ob c hj hr
        rw [show k + (j + 1) = k + 1 + j by omega]
        simpa using this

/-! ## Reading the monitor's verdict on a record -/

theorem pairs_length {r : Req} {o : Obs} (h : o.layers.length = r.layers.length) :
    (pairs r o).length = r.layers.length := by
  simp [pairs, h]

/-- What a report of the monitor means. -/
theorem monitor_some {r : Req} {o : Obs} {cl : Clause} (h : monitor r o = some cl) :
    (cl = .malformed ∧ o.layers.length ≠ r.layers.length) ∨
    (cl = .ranInconsistent o.ran ∧ ((o.ran == 1) != lastRan o ∨ (o.ran ≠ 0 ∧ o.ran ≠ 1))) ∨
    (∃ k l ob c, At r o k l c ob ∧ localClause r.hdr o k l ob ((pairs r o).drop (k + 1)) c = some cl) := by
  simp only [monitor] at h
  split at h
  · cases h; exact .inl ⟨rfl, by assumption⟩
  · split at h
    · cases h; exact .inr (.inl ⟨rfl, by assumption⟩)
    · obtain ⟨j, l, ob, c, hj, hadm, hloc⟩ := walk_some r.hdr o cl _ 0 r.ctx h
      rw [Nat.zero_add] at hloc
      exact .inr (.inr ⟨j, l, ob, c, ⟨hj, hadm⟩, hloc⟩)

theorem monitor_none {r : Req} {o : Obs} (h : monitor r o = none) :
    o.layers.length = r.layers.length ∧ ¬ ((o.ran == 1) != lastRan o ∨ (o.ran ≠ 0 ∧ o.ran ≠ 1)) ∧
    ∀ k l ob c, At r o k l c ob → localClause r.hdr o k l ob ((pairs r o).drop (k + 1)) c = none := by
  simp only [monitor] at h
  split at h
  · cases h
  · rename_i hlen
    split at h
    · cases h
    · rename_i hran
      refine ⟨by simpa using hlen, hran, ?_⟩
      intro k l ob c ⟨hk, hadm⟩
      have := walk_none r.hdr o _ 0 r.ctx h k l ob c hk hadm
      rwa [Nat.zero_add] at this

/-! ## What a local report means -/

/-- The local checks of an admitting middleware. -/
theorem localClause_pass {hdr : List Char} {o : Obs} {k : Nat} {l : Layer String Tag} {ob : LObs}
    {rest : List (Layer String Tag × LObs)} {c : Ctx String Tag} {info : Info String Tag}
    (hw : specWant (l.input hdr c) = .pass info) :
    localClause hdr o k l ob rest c =
      if ob.seen = .notRun then some (.notRun k o.status)
      else if ob.seen ≠ .found (.L k) then some (.wrongInfo k ob.seen)
      else (if rest.isEmpty then challengeClause l.opts true o else none) <|> calledClause hdr k ob := by
  simp only [localClause, hw]

/-- The local checks of a rejecting middleware. -/
theorem localClause_reject {hdr : List Char} {o : Obs} {k : Nat} {l : Layer String Tag} {ob : LObs}
    {rest : List (Layer String Tag × LObs)} {c : Ctx String Tag} {cause : Cause}
    (hw : specWant (l.input hdr c) = .reject cause) :
    localClause hdr o k l ob rest c =
      ((if ob.seen ≠ .notRun then some (.ranDespite k cause)
        else if o.status = cause.code then none
        else some (.wrongStatus k cause o.status)) <|>
       challengeClause l.opts false o <|> calledClause hdr k ob <|>
       (if untouched rest then none else some (.behindReached k))) := by
  simp only [localClause, hw]

/-- A clause of the challenge group. -/
def Clause.isChal : Clause → Bool
  | .chalUnexpected _ | .chalUnexpectedLate _ | .chalFurtherLate _ | .chalWrong | .chalCount _ _ | .chalLateOnly _ => true
  | _ => false

theorem challengeClause_isChal {opts : Option (Opts String)} {adm : Bool} {o : Obs} {cl : Clause}
    (h : challengeClause opts adm o = some cl) : cl.isChal = true := by
  simp only [challengeClause] at h
  split at h
  · split at h
    · cases h; rfl
    · split at h
      · cases h; rfl
      · cases h
  · split at h
    · split at h
      · cases h; rfl
      · split at h
        · cases h
        · cases h; rfl
    · split at h <;> cases h <;> rfl
    · cases h; rfl

theorem calledClause_not_chal {hdr : List Char} {k : Nat} {ob : LObs} {cl : Clause}
    (h : calledClause hdr k ob = some cl) :
    (cl = .calledWithout k ∧ (¬ ∃ tok, Credential hdr tok) ∧ ob.calls ≠ 0) ∨
    (cl = .notCalledOnce k ∧ ∃ tok, Credential hdr tok ∧ ¬ (ob.calls = 1 ∧ ob.token = some tok)) := by
  simp only [calledClause] at h
  cases hc : specCredential hdr with
  | none =>
    rw [hc] at h; simp only [] at h
    split at h
    · cases h
    · cases h; exact .inl ⟨rfl, (specCredential_none _).1 hc, by assumption⟩
  | some tok =>
    rw [hc] at h; simp only [] at h
    split at h
    · cases h
    · cases h; exact .inr ⟨rfl, tok, (specCredential_some _ _).1 hc, by assumption⟩

/-- What the challenge group reports at a middleware: the challenge clause, evaluated for the
admitting innermost middleware or for a rejecting one. -/
def ChalFires (r : Req) (o : Obs) (l : Layer String Tag) (c : Ctx String Tag)
    (rest : List (Layer String Tag × LObs)) (cl : Clause) : Prop :=
  ∃ adm, challengeClause l.opts adm o = some cl ∧
    ((adm = true ∧ (∃ info, l.Admits r.hdr c info) ∧ rest = []) ∨ (adm = false ∧ ¬ ∃ info, l.Admits r.hdr c info))

/-- What it takes for a clause to be reported at middleware `k`. -/
def Fires (r : Req) (o : Obs) (k : Nat) (l : Layer String Tag) (c : Ctx String Tag) (ob : LObs)
    (rest : List (Layer String Tag × LObs)) : Clause → Prop
  | .malformed => False
  | .ranInconsistent _ => False
  | .notRun k' st => k' = k ∧ st = o.status ∧ (∃ info, l.Admits r.hdr c info) ∧ ob.seen = .notRun
  | .wrongInfo k' s => k' = k ∧ s = ob.seen ∧ (∃ info, l.Admits r.hdr c info) ∧ ob.seen ≠ .notRun ∧
      ob.seen ≠ .found (.L k)
  | .ranDespite k' cause => k' = k ∧ Rejects (l.input r.hdr c) cause ∧ ob.seen ≠ .notRun
  | .wrongStatus k' cause st => k' = k ∧ st = o.status ∧ Rejects (l.input r.hdr c) cause ∧ o.status ≠ cause.code
  | .behindReached k' => k' = k ∧ (¬ ∃ info, l.Admits r.hdr c info) ∧ untouched rest = false
  | .calledWithout k' => k' = k ∧ (¬ ∃ tok, Credential r.hdr tok) ∧ ob.calls ≠ 0
  | .notCalledOnce k' => k' = k ∧ ∃ tok, Credential r.hdr tok ∧ ¬ (ob.calls = 1 ∧ ob.token = some tok)
  | .chalUnexpected st => ChalFires r o l c rest (.chalUnexpected st)
  | .chalUnexpectedLate st => ChalFires r o l c rest (.chalUnexpectedLate st)
  | .chalFurtherLate st => ChalFires r o l c rest (.chalFurtherLate st)
  | .chalWrong => ChalFires r o l c rest .chalWrong
  | .chalCount st n => ChalFires r o l c rest (.chalCount st n)
  | .chalLateOnly st => ChalFires r o l c rest (.chalLateOnly st)

theorem fires_of_chal {r : Req} {o : Obs} {k : Nat} {l : Layer String Tag} {c : Ctx String Tag} {ob : LObs}
    {rest : List (Layer String Tag × LObs)} {cl : Clause} (hc : cl.isChal = true)
    (h : ChalFires r o l c rest cl) : Fires r o k l c ob rest cl := by
  cases cl <;> first | exact h | cases hc

theorem fires_of_called {r : Req} {o : Obs} {k : Nat} {l : Layer String Tag} {c : Ctx String Tag} {ob : LObs}
    {rest : List (Layer String Tag × LObs)} {cl : Clause} (h : calledClause r.hdr k ob = some cl) :
    Fires r o k l c ob rest cl := by
  rcases calledClause_not_chal h with ⟨rfl, h1, h2⟩ | ⟨rfl, h1⟩
  · exact ⟨rfl, h1, h2⟩
  · exact ⟨rfl, h1⟩

theorem localClause_fires {r : Req} {o : Obs} {k : Nat} {l : Layer String Tag} {c : Ctx String Tag} {ob : LObs}
    {rest : List (Layer String Tag × LObs)} {cl : Clause}
    (h : localClause r.hdr o k l ob rest c = some cl) : Fires r o k l c ob rest cl := by
  rcases specWant_cases l r.hdr c with ⟨info, hw, ha⟩ | ⟨cause, hw, hrej, hna⟩
  · rw [localClause_pass hw] at h
    split at h
    · cases h; exact ⟨rfl, rfl, ⟨info, ha⟩, by assumption⟩
    · split at h
      · cases h; exact ⟨rfl, rfl, ⟨info, ha⟩, by assumption, by assumption⟩
      · rcases orElse_some h with h1 | ⟨_, h2⟩
        · split at h1
          · rename_i hemp
            exact fires_of_chal (challengeClause_isChal h1)
              ⟨true, h1, .inl ⟨rfl, ⟨info, ha⟩, List.isEmpty_iff.1 hemp⟩⟩
          · cases h1
        · exact fires_of_called h2
  · rw [localClause_reject hw] at h
    rcases orElse_some h with h1 | ⟨_, h2⟩
    · split at h1
      · cases h1; exact ⟨rfl, hrej, by assumption⟩
      · split at h1
        · cases h1
        · cases h1; exact ⟨rfl, rfl, hrej, by assumption⟩
    · rcases orElse_some h2 with h3 | ⟨_, h4⟩
      · exact fires_of_chal (challengeClause_isChal h3) ⟨false, h3, .inr ⟨rfl, hna⟩⟩
      · rcases orElse_some h4 with h5 | ⟨_, h6⟩
        · exact fires_of_called h5
        · split at h6
          · cases h6
          · cases h6
            rename_i hu
            exact ⟨rfl, hna, by simpa using hu⟩

/-- A report of the monitor, read: malformed, the run count, or a clause firing at a middleware the
request reaches. -/
theorem monitor_fires {r : Req} {o : Obs} {cl : Clause} (h : monitor r o = some cl) :
    (cl = .malformed ∧ o.layers.length ≠ r.layers.length) ∨
    (cl = .ranInconsistent o.ran ∧ ((o.ran == 1) != lastRan o ∨ (o.ran ≠ 0 ∧ o.ran ≠ 1))) ∨
    (∃ k l ob c, At r o k l c ob ∧ Fires r o k l c ob ((pairs r o).drop (k + 1)) cl) := by
  rcases monitor_some h with h1 | h2 | ⟨k, l, ob, c, hat, hloc⟩
  · exact .inl h1
  · exact .inr (.inl h2)
  · exact .inr (.inr ⟨k, l, ob, c, hat, localClause_fires hloc⟩)

/-- The deciding middleware of the response's challenge, as the monitor finds it, is the property's. -/
theorem due_of_chalFires {r : Req} {o : Obs} {k : Nat} {l : Layer String Tag} {ob : LObs} {c : Ctx String Tag}
    {cl : Clause} (hat : At r o k l c ob) (h : ChalFires r o l c ((pairs r o).drop (k + 1)) cl) :
    ∃ adm, challengeClause l.opts adm o = some cl ∧ Due r o (expectParams l.opts adm o.status) := by
  obtain ⟨adm, hcc, hd⟩ := h
  refine ⟨adm, hcc, ?_⟩
  rcases hd with ⟨rfl, hadm, hemp⟩ | ⟨rfl, hna⟩
  · refine .inr ⟨k, l, c, ob, hat, hadm, ?_, by simp [expectParams]⟩
    have hlen : ((pairs r o).drop (k + 1)).length = 0 := by rw [hemp]; rfl
    rw [List.length_drop] at hlen
    have hk : k < (pairs r o).length := (List.getElem?_eq_some_iff.1 hat.1).1
    omega
  · exact .inl ⟨k, l, c, ob, hat, hna, by simp [expectParams]⟩

theorem chalOk_iff (ps : List (String × String)) (w : WVal) : chalOk ps w = true ↔ Carries ps w := by
  cases w with
  | chal qs =>
    simp only [chalOk, Bool.and_eq_true, beq_iff_eq, Carries]
    constructor
    · rintro ⟨h1, h2⟩; exact ⟨qs, rfl, h1, h2⟩
    · rintro ⟨qs', h, h1, h2⟩; cases h; exact ⟨h1, h2⟩
  | raw s =>
    simp only [chalOk, Carries, Bool.false_eq_true, false_iff]
    rintro ⟨qs, h, _⟩; cases h

/-! ## Clause soundness -/

theorem sound_malformed (r : Req) (o : Obs) (h : monitor r o = some .malformed) : ¬ P_wellformed r o := by
  rcases monitor_fires h with ⟨_, hl⟩ | ⟨hc, _⟩ | ⟨k, l, ob, c, _, hf⟩
  · exact hl
  · cases hc
  · exact hf.elim

theorem sound_ranInconsistent (r : Req) (o : Obs) (n : Nat) (h : monitor r o = some (.ranInconsistent n)) :
    ¬ P_final_handler_once r o := by
  rcases monitor_fires h with ⟨hc, _⟩ | ⟨_, hcond⟩ | ⟨k, l, ob, c, _, hf⟩
  · cases hc
  · rintro ⟨p1, p2, p3⟩
    simp only [lastRan] at hcond
    cases hl : o.layers.getLast? with
    | none =>
      have : o.layers = [] := List.getLast?_eq_none_iff.1 hl
      have h1 := p3 this
      rw [hl] at hcond; simp [h1] at hcond
    | some ob =>
      rw [hl] at hcond
      by_cases hs : ob.seen = .notRun
      · have h0 := p2 ob hl hs
        simp [h0, hs] at hcond
      · have h1 := p1 ob hl hs
        simp [h1, hs] at hcond
  · exact hf.elim

theorem sound_notRun (r : Req) (o : Obs) (k st : Nat) (h : monitor r o = some (.notRun k st)) :
    ¬ P_admit_if r o := by
  rcases monitor_fires h with ⟨hc, _⟩ | ⟨hc, _⟩ | ⟨k', l, ob, c, hat, _, _, ⟨info, ha⟩, hs⟩
  · cases hc
  · cases hc
  · intro hP; exact hP k' l c ob info hat ha hs

theorem sound_ranDespite (r : Req) (o : Obs) (k : Nat) (cause : Cause) (h : monitor r o = some (.ranDespite k cause)) :
    ¬ P_admit_only_if r o := by
  rcases monitor_fires h with ⟨hc, _⟩ | ⟨hc, _⟩ | ⟨k', l, ob, c, hat, _, hrej, hs⟩
  · cases hc
  · cases hc
  · intro hP; exact rejects_not_admits hrej (hP k' l c ob hat hs)

theorem untouched_false {rest : List (Layer String Tag × LObs)} (h : untouched rest = false) :
    ∃ p ∈ rest, ¬ (p.2.calls = 0 ∧ p.2.seen = .notRun) := by
  simp only [untouched, List.all_eq_false, Bool.and_eq_true, beq_iff_eq] at h
  exact h

theorem sound_behindReached (r : Req) (o : Obs) (k : Nat) (h : monitor r o = some (.behindReached k)) :
    ¬ P_nothing_behind_rejection r o := by
  rcases monitor_fires h with ⟨hc, _⟩ | ⟨hc, _⟩ | ⟨k', l, ob, c, hat, _, hna, hu⟩
  · cases hc
  · cases hc
  · intro hP
    obtain ⟨p, hp, hn⟩ := untouched_false hu
    obtain ⟨i, hi⟩ := List.mem_iff_getElem?.1 hp
    rw [List.getElem?_drop] at hi
    exact hn (hP k' l c ob hat hna (k' + 1 + i) p (by omega) hi)

theorem sound_wrongInfo (r : Req) (o : Obs) (k : Nat) (s : Seen) (h : monitor r o = some (.wrongInfo k s)) :
    ¬ P_handler_sees_verifier_info r o := by
  rcases monitor_fires h with ⟨hc, _⟩ | ⟨hc, _⟩ | ⟨k', l, ob, c, hat, _, _, ⟨info, ha⟩, hs, hne⟩
  · cases hc
  · cases hc
  · intro hP; exact hne (hP k' l c ob info hat ha hs)

theorem sound_wrongStatus (r : Req) (o : Obs) (k : Nat) (cause : Cause) (st : Nat)
    (h : monitor r o = some (.wrongStatus k cause st)) : ¬ P_status_by_cause r o := by
  rcases monitor_fires h with ⟨hc, _⟩ | ⟨hc, _⟩ | ⟨k', l, ob, c, hat, _, _, hrej, hne⟩
  · cases hc
  · cases hc
  · intro hP; exact hne (hP k' l c ob cause hat hrej)

theorem sound_calledWithout (r : Req) (o : Obs) (k : Nat) (h : monitor r o = some (.calledWithout k)) :
    ¬ P_verifier_called_iff r o := by
  rcases monitor_fires h with ⟨hc, _⟩ | ⟨hc, _⟩ | ⟨k', l, ob, c, hat, _, hnc, hne⟩
  · cases hc
  · cases hc
  · intro hP; exact hne ((hP k' l c ob hat).2 hnc)

theorem sound_notCalledOnce (r : Req) (o : Obs) (k : Nat) (h : monitor r o = some (.notCalledOnce k)) :
    ¬ P_verifier_called_iff r o := by
  rcases monitor_fires h with ⟨hc, _⟩ | ⟨hc, _⟩ | ⟨k', l, ob, c, hat, _, tok, hcr, hne⟩
  · cases hc
  · cases hc
  · intro hP; exact hne ((hP k' l c ob hat).1 tok hcr)

/-- What a report of the challenge clause means. -/
theorem challengeClause_some {opts : Option (Opts String)} {adm : Bool} {o : Obs} {cl : Clause}
    (h : challengeClause opts adm o = some cl) :
    (cl = .chalUnexpected o.status ∧ expectParams opts adm o.status = [] ∧ o.www ≠ []) ∨
    (cl = .chalUnexpectedLate o.status ∧ o.late ≠ []) ∨
    (cl = .chalFurtherLate o.status ∧ o.late ≠ []) ∨
    (cl = .chalWrong ∧ expectParams opts adm o.status ≠ [] ∧
      ∃ w, o.www = [w] ∧ chalOk (expectParams opts adm o.status) w = false) ∨
    (cl = .chalCount o.status o.www.length ∧ expectParams opts adm o.status ≠ [] ∧ o.www.length ≠ 1) ∨
    (cl = .chalLateOnly o.status ∧ expectParams opts adm o.status ≠ [] ∧ o.www = []) := by
  simp only [challengeClause] at h
  split at h
  · rename_i he
    have he' := List.isEmpty_iff.1 he
    split at h
    · rename_i hw
      cases h; exact .inl ⟨rfl, he', by intro hx; simp [hx] at hw⟩
    · split at h
      · rename_i hl
        cases h; exact .inr (.inl ⟨rfl, by intro hx; simp [hx] at hl⟩)
      · cases h
  · rename_i he
    have he' : expectParams opts adm o.status ≠ [] := fun hx => he (by rw [hx]; rfl)
    split at h
    · rename_i w hw
      split at h
      · rename_i hl
        cases h; exact .inr (.inr (.inl ⟨rfl, by intro hx; simp [hx] at hl⟩))
      · split at h
        · cases h
        · rename_i hok
          cases h
          exact .inr (.inr (.inr (.inl ⟨rfl, he', w, hw, by simpa using hok⟩)))
    · rename_i hw
      split at h
      · cases h; exact .inr (.inr (.inr (.inr (.inl ⟨by rw [hw]; rfl, he', by rw [hw]; simp⟩))))
      · cases h; exact .inr (.inr (.inr (.inr (.inr ⟨rfl, he', hw⟩))))
    · rename_i h1 h0
      cases h
      refine .inr (.inr (.inr (.inr (.inl ⟨rfl, he', ?_⟩))))
      intro hlen
      obtain ⟨w, hw⟩ := List.length_eq_one_iff.1 hlen
      exact h1 w hw

/-- Reports of the challenge group, read against the property's `Due`. -/
theorem chal_report {r : Req} {o : Obs} {cl : Clause} (hc : cl.isChal = true) (h : monitor r o = some cl) :
    ∃ ps, Due r o ps ∧
      ((cl = .chalUnexpected o.status ∧ ps = [] ∧ o.www ≠ []) ∨
       (cl = .chalUnexpectedLate o.status ∧ o.late ≠ []) ∨
       (cl = .chalFurtherLate o.status ∧ o.late ≠ []) ∨
       (cl = .chalWrong ∧ ps ≠ [] ∧ ∃ w, o.www = [w] ∧ chalOk ps w = false) ∨
       (cl = .chalCount o.status o.www.length ∧ ps ≠ [] ∧ o.www.length ≠ 1) ∨
       (cl = .chalLateOnly o.status ∧ ps ≠ [] ∧ o.www = [])) := by
  rcases monitor_fires h with ⟨rfl, _⟩ | ⟨rfl, _⟩ | ⟨k, l, ob, c, hat, hf⟩
  · cases hc
  · cases hc
  · have hcf : ChalFires r o l c ((pairs r o).drop (k + 1)) cl := by
      cases cl <;> first | exact hf | cases hc
    obtain ⟨adm, hcc, hdue⟩ := due_of_chalFires hat hcf
    exact ⟨_, hdue, challengeClause_some hcc⟩

theorem sound_chalUnexpected (r : Req) (o : Obs) (st : Nat) (h : monitor r o = some (.chalUnexpected st)) :
    ¬ P_no_undue_challenge r o := by
  obtain ⟨ps, hd, hr⟩ := chal_report rfl h
  rcases hr with ⟨_, he, hw⟩ | ⟨hc, _⟩ | ⟨hc, _⟩ | ⟨hc, _⟩ | ⟨hc, _⟩ | ⟨hc, _⟩ <;> first | cases hc | skip
  intro hP; exact hw (hP ps hd he)

theorem sound_chalUnexpectedLate (r : Req) (o : Obs) (st : Nat) (h : monitor r o = some (.chalUnexpectedLate st)) :
    ¬ P_nothing_added_late r o := by
  obtain ⟨ps, hd, hr⟩ := chal_report rfl h
  rcases hr with ⟨hc, _⟩ | ⟨_, hl⟩ | ⟨hc, _⟩ | ⟨hc, _⟩ | ⟨hc, _⟩ | ⟨hc, _⟩ <;> first | cases hc | skip
  intro hP; exact hl (hP ps hd)

theorem sound_chalFurtherLate (r : Req) (o : Obs) (st : Nat) (h : monitor r o = some (.chalFurtherLate st)) :
    ¬ P_nothing_added_late r o := by
  obtain ⟨ps, hd, hr⟩ := chal_report rfl h
  rcases hr with ⟨hc, _⟩ | ⟨hc, _⟩ | ⟨_, hl⟩ | ⟨hc, _⟩ | ⟨hc, _⟩ | ⟨hc, _⟩ <;> first | cases hc | skip
  intro hP; exact hl (hP ps hd)

theorem sound_chalWrong (r : Req) (o : Obs) (h : monitor r o = some .chalWrong) : ¬ P_challenge_sent r o := by
  obtain ⟨ps, hd, hr⟩ := chal_report rfl h
  rcases hr with ⟨hc, _⟩ | ⟨hc, _⟩ | ⟨hc, _⟩ | ⟨_, hne, w, hw, hok⟩ | ⟨hc, _⟩ | ⟨hc, _⟩ <;> first | cases hc | skip
  intro hP
  obtain ⟨w', hw', hcar⟩ := hP ps hd hne
  rw [hw] at hw'; cases hw'
  rw [(chalOk_iff _ _).2 hcar] at hok; cases hok

theorem sound_chalCount (r : Req) (o : Obs) (st n : Nat) (h : monitor r o = some (.chalCount st n)) :
    ¬ P_challenge_sent r o := by
  obtain ⟨ps, hd, hr⟩ := chal_report rfl h
  rcases hr with ⟨hc, _⟩ | ⟨hc, _⟩ | ⟨hc, _⟩ | ⟨hc, _⟩ | ⟨_, hne, hlen⟩ | ⟨hc, _⟩ <;> first | cases hc | skip
  intro hP
  obtain ⟨w', hw', _⟩ := hP ps hd hne
  rw [hw'] at hlen; exact hlen rfl

theorem sound_chalLateOnly (r : Req) (o : Obs) (st : Nat) (h : monitor r o = some (.chalLateOnly st)) :
    ¬ P_challenge_sent r o := by
  obtain ⟨ps, hd, hr⟩ := chal_report rfl h
  rcases hr with ⟨hc, _⟩ | ⟨hc, _⟩ | ⟨hc, _⟩ | ⟨hc, _⟩ | ⟨hc, _⟩ | ⟨_, hne, hw⟩ <;> first | cases hc | skip
  intro hP
  obtain ⟨w', hw', _⟩ := hP ps hd hne
  rw [hw] at hw'; cases hw'

/-- **monitor_sound.** Whatever clause the monitor reports, the corresponding clause of the property
fails on the record. -/
theorem monitor_sound (r : Req) (o : Obs) (cl : Clause) (h : monitor r o = some cl) : ¬ P_of cl r o := by
  cases cl with
  | malformed => exact sound_malformed r o h
  | ranInconsistent n => exact sound_ranInconsistent r o n h
  | notRun k st => exact sound_notRun r o k st h
  | ranDespite k c => exact sound_ranDespite r o k c h
  | behindReached k => exact sound_behindReached r o k h
  | wrongInfo k s => exact sound_wrongInfo r o k s h
  | wrongStatus k c st => exact sound_wrongStatus r o k c st h
  | calledWithout k => exact sound_calledWithout r o k h
  | notCalledOnce k => exact sound_notCalledOnce r o k h
  | chalUnexpected st => exact sound_chalUnexpected r o st h
  | chalUnexpectedLate st => exact sound_chalUnexpectedLate r o st h
  | chalFurtherLate st => exact sound_chalFurtherLate r o st h
  | chalWrong => exact sound_chalWrong r o h
  | chalCount st n => exact sound_chalCount r o st n h
  | chalLateOnly st => exact sound_chalLateOnly r o st h

/-! ## Completeness: a silent monitor means every clause holds -/

theorem challengeClause_none {opts : Option (Opts String)} {adm : Bool} {o : Obs}
    (h : challengeClause opts adm o = none) :
    o.late = [] ∧ (expectParams opts adm o.status = [] → o.www = []) ∧
    (expectParams opts adm o.status ≠ [] → ∃ w, o.www = [w] ∧ Carries (expectParams opts adm o.status) w) := by
  simp only [challengeClause] at h
  split at h
  · rename_i he
    have he' := List.isEmpty_iff.1 he
    split at h
    · cases h
    · rename_i hw
      split at h
      · cases h
      · rename_i hl
        refine ⟨by simpa using hl, fun _ => by simpa using hw, fun hne => absurd he' hne⟩
  · rename_i he
    have he' : expectParams opts adm o.status ≠ [] := fun hx => he (by rw [hx]; rfl)
    split at h
    · rename_i w hw
      split at h
      · cases h
      · rename_i hl
        split at h
        · rename_i hok
          exact ⟨by simpa using hl, fun hx => absurd hx he', fun _ => ⟨w, hw, (chalOk_iff _ _).1 hok⟩⟩
        · cases h
    · split at h <;> cases h
    · cases h

/-- The local checks of a reached middleware, passed. -/
theorem localClause_none {r : Req} {o : Obs} {k : Nat} {l : Layer String Tag} {c : Ctx String Tag} {ob : LObs}
    {rest : List (Layer String Tag × LObs)} (h : localClause r.hdr o k l ob rest c = none) :
    calledClause r.hdr k ob = none ∧
    ((∃ info, l.Admits r.hdr c info) →
      ob.seen = .found (.L k) ∧ (rest = [] → challengeClause l.opts true o = none)) ∧
    (∀ cause, Rejects (l.input r.hdr c) cause →
      ob.seen = .notRun ∧ o.status = cause.code ∧ challengeClause l.opts false o = none ∧ untouched rest = true) := by
  rcases specWant_cases l r.hdr c with ⟨info, hw, ha⟩ | ⟨cause, hw, hrej, hna⟩
  · rw [localClause_pass hw] at h
    split at h
    · cases h
    · split at h
      · cases h
      · rename_i hs
        obtain ⟨h1, h2⟩ := orElse_none h
        refine ⟨h2, fun _ => ⟨by simpa using hs, fun hr => by simpa [hr] using h1⟩, ?_⟩
        intro cause hr
        exact absurd ⟨info, ha⟩ (rejects_not_admits hr)
  · rw [localClause_reject hw] at h
    obtain ⟨h1, h2⟩ := orElse_none h
    obtain ⟨h3, h4⟩ := orElse_none h2
    obtain ⟨h5, h6⟩ := orElse_none h4
    refine ⟨h5, fun ha => absurd ha hna, ?_⟩
    intro cause' hr
    have := rejects_unique hr hrej; subst this
    split at h1
    · cases h1
    · rename_i hs
      split at h1
      · rename_i hst
        refine ⟨by simpa using hs, hst, h3, ?_⟩
        split at h6
        · assumption
        · cases h6
      · cases h1

/-- **monitor_complete.** If the monitor is silent on a record, every clause of the property holds on it. -/
theorem monitor_complete (r : Req) (o : Obs) (h : monitor r o = none) (cl : Clause) : P_of cl r o := by
  obtain ⟨hlen, hran, hloc⟩ := monitor_none h
  have loc : ∀ {k l c ob}, At r o k l c ob → _ := fun {k l c ob} hat => localClause_none (hloc k l ob c hat)
  have hwf : P_wellformed r o := hlen
  have hfin : P_final_handler_once r o := by
    simp only [lastRan] at hran
    refine ⟨?_, ?_, ?_⟩
    · intro ob hl hs
      simp only [hl] at hran
      have : (ob.seen != Seen.notRun) = true := by simpa using hs
      rw [this] at hran
      apply Classical.byContradiction; intro hne
      apply hran; left; simp [hne]
    · intro ob hl hs
      simp only [hl] at hran
      have : (ob.seen != Seen.notRun) = false := by simp [hs]
      rw [this] at hran
      apply Classical.byContradiction; intro hne
      apply hran
      by_cases h1 : o.ran = 1
      · left; simp [h1]
      · right; exact ⟨hne, h1⟩
    · intro hl
      have : o.layers.getLast? = none := by rw [hl]; rfl
      simp only [this] at hran
      apply Classical.byContradiction; intro hne
      apply hran; left; simp [hne]
  have hif : P_admit_if r o := by
    intro k l c ob info hat ha
    have := ((loc hat).2.1 ⟨info, ha⟩).1
    rw [this]; intro hx; cases hx
  have honly : P_admit_only_if r o := by
    intro k l c ob hat hs
    rcases specWant_cases l r.hdr c with ⟨info, _, ha⟩ | ⟨cause, _, hrej, _⟩
    · exact ⟨info, ha⟩
    · exact absurd ((loc hat).2.2 cause hrej).1 hs
  have hbehind : P_nothing_behind_rejection r o := by
    intro k l c ob hat hna j p hj hp
    rcases specWant_cases l r.hdr c with ⟨info, _, ha⟩ | ⟨cause, _, hrej, _⟩
    · exact absurd ⟨info, ha⟩ hna
    · have hu := ((loc hat).2.2 cause hrej).2.2.2
      simp only [untouched, List.all_eq_true, Bool.and_eq_true, beq_iff_eq] at hu
      apply hu p
      apply List.mem_iff_getElem?.2
      refine ⟨j - (k + 1), ?_⟩
      rw [List.getElem?_drop, show k + 1 + (j - (k + 1)) = j by omega]; exact hp
  have hsees : P_handler_sees_verifier_info r o := by
    intro k l c ob info hat ha _
    exact ((loc hat).2.1 ⟨info, ha⟩).1
  have hstatus : P_status_by_cause r o := by
    intro k l c ob cause hat hrej
    exact ((loc hat).2.2 cause hrej).2.1
  have hcalled : P_verifier_called_iff r o := by
    intro k l c ob hat
    have hc := (loc hat).1
    simp only [calledClause] at hc
    constructor
    · intro tok hcr
      rw [(specCredential_some _ _).2 hcr] at hc
      simp only [] at hc
      split at hc
      · assumption
      · cases hc
    · intro hn
      rw [(specCredential_none _).2 hn] at hc
      simp only [] at hc
      split at hc
      · assumption
      · cases hc
  -- the challenge clause evaluated at the deciding middleware
  have hdue : ∀ ps, Due r o ps → ∃ opts adm, challengeClause opts adm o = none ∧ ps = expectParams opts adm o.status := by
    intro ps hd
    rcases hd with ⟨k, l, c, ob, hat, hna, hps⟩ | ⟨k, l, c, ob, hat, hadm, hk, hps⟩
    · rcases specWant_cases l r.hdr c with ⟨info, _, ha⟩ | ⟨cause, _, hrej, _⟩
      · exact absurd ⟨info, ha⟩ hna
      · exact ⟨l.opts, false, ((loc hat).2.2 cause hrej).2.2.1, by rw [hps]; simp [expectParams]⟩
    · have hemp : (pairs r o).drop (k + 1) = [] := by
        apply List.eq_nil_of_length_eq_zero; rw [List.length_drop]; omega
      exact ⟨l.opts, true, ((loc hat).2.1 hadm).2 hemp, by rw [hps]; simp [expectParams]⟩
  have hsent : P_challenge_sent r o := by
    intro ps hd hne
    obtain ⟨opts, adm, hcc, rfl⟩ := hdue ps hd
    exact (challengeClause_none hcc).2.2 hne
  have hundue : P_no_undue_challenge r o := by
    intro ps hd he
    obtain ⟨opts, adm, hcc, rfl⟩ := hdue ps hd
    exact (challengeClause_none hcc).2.1 he
  have hlate : P_nothing_added_late r o := by
    intro ps hd
    obtain ⟨opts, adm, hcc, _⟩ := hdue ps hd
    exact (challengeClause_none hcc).1
  cases cl <;> assumption

/-- The predicates are satisfiable: the observation the model produces for any tagged request
satisfies every one of them. -/
theorem model_satisfies_P (r : Req) (ht : r.Tagged) : ∃ o, obsOf r = some o ∧ ∀ cl, P_of cl r o := by
  obtain ⟨o, ho, hm⟩ := monitor_accepts_model r ht
  exact ⟨o, ho, monitor_complete r o hm⟩

/-! ## Non-vacuity: every clause can be reported -/

section witnesses

private def sc (info : Option (List String × Option Int)) (opts : Option (Opts String)) : Script :=
  { err := none, info := info, opts := opts, now := 10 }
private def op1 : Opts String := { rm := "https://rs/meta", scopes := ["read"], allowMissing := false, skew := 0 }
private def rOk : Req := Req.ofScript "Bearer t".toList [sc (some (["read"], some 20)) (some op1)] none
private def rExpired : Req := Req.ofScript "Bearer t".toList [sc (some (["read"], some 5)) (some op1)] none
private def rNoCred : Req := Req.ofScript "Basic t".toList [sc (some (["read"], some 20)) (some op1)] none
private def r2 : Req :=
  Req.ofScript "Bearer t".toList [sc (some (["read"], some 5)) (some op1), sc (some (["read"], some 20)) none] none
private def lo (s : Seen) (n : Nat) (t : Option String) : LObs := { seen := s, calls := n, token := t.map (·.toList) }
private def okObs : Obs :=
  { status := 299, ran := 1, layers := [lo (.found (.L 0)) 1 (some "t")], www := [], late := [], body := "inner" }
private def due1 : WVal := .chal [("resource_metadata", "https://rs/meta"), ("scope", "read")]
private def rejObs : Obs :=
  { status := 401, ran := 0, layers := [lo .notRun 1 (some "t")], www := [due1], late := [], body := "token expired\n" }

example : monitor rOk okObs = none := by decide
example : monitor rExpired rejObs = none := by decide
example : monitor rOk { okObs with layers := [] } = some .malformed := by decide
example : monitor rOk { okObs with ran := 2 } = some (.ranInconsistent 2) := by decide
example : monitor rOk { rejObs with www := [] } = some (.notRun 0 401) := by decide
example : monitor rExpired okObs = some (.ranDespite 0 .expired) := by decide
example : monitor r2 { rejObs with layers := [lo .notRun 1 (some "t"), lo .notRun 1 (some "t")] } =
    some (.behindReached 0) := by decide
example : monitor rOk { okObs with layers := [lo (.found .up) 1 (some "t")] } = some (.wrongInfo 0 (.found .up)) := by
  decide
example : monitor rExpired { rejObs with status := 403 } = some (.wrongStatus 0 .expired 403) := by decide
example : monitor rNoCred { rejObs with layers := [lo .notRun 1 (some "t")] } = some (.calledWithout 0) := by decide
example : monitor rOk { okObs with layers := [lo (.found (.L 0)) 2 (some "t")] } = some (.notCalledOnce 0) := by decide
example : monitor rOk { okObs with www := [due1] } = some (.chalUnexpected 299) := by decide
example : monitor rOk { okObs with late := [due1] } = some (.chalUnexpectedLate 299) := by decide
example : monitor rExpired { rejObs with late := [due1] } = some (.chalFurtherLate 401) := by decide
example : monitor rExpired { rejObs with www := [.chal [("scope", "read")]] } = some .chalWrong := by decide
example : monitor rExpired { rejObs with www := [.raw "Basic"] } = some .chalWrong := by decide
example : monitor rExpired { rejObs with www := [due1, due1] } = some (.chalCount 401 2) := by decide
example : monitor rExpired { rejObs with www := [] } = some (.chalCount 401 0) := by decide
example : monitor rExpired { rejObs with www := [], late := [due1] } = some (.chalLateOnly 401) := by decide
/-- further parameters are not the property's business -/
example : monitor rExpired { rejObs with www := [.chal [("error", "invalid_token"), ("resource_metadata", "https://rs/meta"),
    ("scope", "read")]] } = none := by decide

end witnesses

end Bearer
