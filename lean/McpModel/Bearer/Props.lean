import McpModel.Bearer.Lemmas
/-!
# C14 — property theorems for the bearer-token middleware (model: `Bearer.serve`, `Bearer.verify`)

Every theorem quantifies over *all* header values, all verifiers (any function from the token to
an outcome), all scope lists, all instants, skews and option records including nil options, and
over any type `α` of further token information.  Nothing is bounded.  The literal statuses
(401/403/400/500), the word "bearer", the field count and the two expiry conditions in the
statements are checked against the constants regenerated from auth/auth.go: if the code changes
one of them, the proofs below stop building.

`eff opts` (Lemmas) reads nil options as the zero options: no required scopes, strict expiry, zero
skew.  `Unexpired exp o now` (Lemmas) is the expiry clause: `exp = none → o.allowMissing`,
`exp = some e → ¬ (e + o.skew < now)`.
-/
namespace Bearer
open Generated.Bearer
variable {σ α : Type} [DecidableEq σ]

/-- The credential is syntactically valid and carries `tok`: `strings.Fields` of the header value
yields exactly two fields, the first being "bearer" up to ASCII case, the second `tok`. -/
def Credential (hdr tok : List Char) : Prop :=
  ∃ sch, fields hdr = [sch, tok] ∧ lowerAscii sch = ['b', 'e', 'a', 'r', 'e', 'r']

/-- `fields` is a function: a header carries at most one credential. -/
theorem Credential.unique {hdr t1 t2 : List Char} (h1 : Credential hdr t1) (h2 : Credential hdr t2) :
    t1 = t2 := by
  obtain ⟨s1, f1, _⟩ := h1
  obtain ⟨s2, f2, _⟩ := h2
  rw [f1] at f2; simp only [List.cons.injEq, and_true] at f2; exact f2.2

/-- **admit_iff.** The inner handler runs, with context value `info`, if and only if the
`Authorization` value is a syntactically valid bearer credential, the verifier — given its token —
returns `info` without error, every required scope is among the granted ones, and the token is
unexpired within the skew (or lacks an expiration and that is allowed). -/
theorem admit_iff (i : Input σ α) (info : Info σ α) :
    serve i = .next info ↔
      ∃ tok, Credential i.header tok ∧
        (i.verifier tok).err = none ∧ (i.verifier tok).info = some info ∧
        (∀ s ∈ (eff i.opts).scopes, s ∈ info.scopes) ∧
        Unexpired info.exp (eff i.opts) i.now := by
  cases hc : credential i.header with
  | none =>
    have hn := (credential_none _).1 hc
    simp only [serve, verify, hc]
    constructor
    · intro h; cases h
    · rintro ⟨tok, ⟨sch, h1, h2⟩, _⟩; exact absurd ⟨sch, tok, h1, h2⟩ hn
  | some tok =>
    have hcr : Credential i.header tok := (credential_some _ _).1 hc
    have collapse : ∀ P : List Char → Prop, (∃ t, Credential i.header t ∧ P t) ↔ P tok := by
      intro P
      constructor
      · rintro ⟨t, h1, h2⟩; rw [← Credential.unique h1 hcr] ; exact h2
      · intro h; exact ⟨tok, hcr, h⟩
    rw [collapse (fun t => (i.verifier t).err = none ∧ (i.verifier t).info = some info ∧
        (∀ s ∈ (eff i.opts).scopes, s ∈ info.scopes) ∧ Unexpired info.exp (eff i.opts) i.now)]
    cases he : (i.verifier tok).err with
    | some e => simp [serve, verify, hc, he]
    | none =>
      cases hi : (i.verifier tok).info with
      | none => simp [serve, verify, hc, he, hi]
      | some inf =>
        cases hms : scopeRejected i.opts inf.scopes with
        | true =>
          have hno : ¬ ∀ s ∈ (eff i.opts).scopes, s ∈ inf.scopes := by
            rw [← scopeRejected_false, hms]; simp
          simp only [serve, verify, hc, he, hi, hms]
          constructor
          · intro h; cases h
          · rintro ⟨_, h3, h4, _⟩
            cases h3; exact absurd h4 hno
        | false =>
          have hyes := (scopeRejected_false _ _).1 hms
          cases hx : expiryRejected inf.exp (eff i.opts) i.now with
          | some p =>
            have hno : ¬ Unexpired inf.exp (eff i.opts) i.now := by
              rw [← expiryRejected_none, hx]; simp
            simp only [serve, verify, hc, he, hi, hms, hx]
            constructor
            · intro h; cases h
            · rintro ⟨_, h3, _, h5⟩
              cases h3; exact absurd h5 hno
          | none =>
            have hun := (expiryRejected_none _ _ _).1 hx
            constructor
            · intro h
              have : inf = info := by simpa [serve, verify, hc, he, hi, hms, hx] using h
              subst this; exact ⟨rfl, rfl, hyes, hun⟩
            · rintro ⟨_, h3, _, _⟩
              cases h3
              simp [serve, verify, hc, he, hi, hms, hx]

/-- **handler_sees_verifier_info.** Whatever the handler finds in the request context is the very
value the verifier returned for the token of the credential — for any type `α` of further token
information, so nothing in it can have been altered — and the verifier was consulted with exactly
that token. -/
theorem handler_sees_verifier_info (i : Input σ α) (info : Info σ α) (h : serve i = .next info) :
    ∃ tok, Credential i.header tok ∧ (i.verifier tok).info = some info ∧ (verify i).2 = some tok := by
  obtain ⟨tok, hcr, _, hi, _⟩ := (admit_iff i info).1 h
  refine ⟨tok, hcr, hi, ?_⟩
  have hc := (credential_some _ _).2 hcr
  simp only [verify, hc]
  repeat' split
  all_goals rfl

/-- The verifier is consulted iff the credential is syntactically valid, and then with its token
(`verify` is the only caller of the verifier: structural fact `bearer.verifier_callers`). -/
theorem verifier_called_iff (i : Input σ α) (tok : List Char) :
    (verify i).2 = some tok ↔ Credential i.header tok := by
  cases hc : credential i.header with
  | none =>
    have hn := (credential_none _).1 hc
    simp only [verify, hc]
    constructor
    · intro h; cases h
    · rintro ⟨sch, h1, h2⟩; exact absurd ⟨sch, tok, h1, h2⟩ hn
  | some t =>
    have hcr : Credential i.header t := (credential_some _ _).1 hc
    have h2 : (verify i).2 = some t := by
      simp only [verify, hc]
      repeat' split
      all_goals rfl
    rw [h2]
    constructor
    · intro h; cases h; exact hcr
    · intro h; rw [Credential.unique h hcr]

/-- **status_by_cause.** Every request that is not admitted is answered according to the first
failing check, in this order: no or ill-formed credential → 401 (the verifier is not consulted);
verifier error → 401 if it is an invalid-token error, else 400 if it is an OAuth error, else 500,
with the error's own text; no error but nil info → 500; a required scope not granted → 403;
otherwise a missing-and-not-allowed or elapsed expiration → 401. -/
theorem status_by_cause (i : Input σ α) :
    ((¬ ∃ tok, Credential i.header tok) →
        ∃ msg ch, serve i = .error 401 msg ch ∧ (verify i).2 = none) ∧
    (∀ tok, Credential i.header tok →
      (∀ e, (i.verifier tok).err = some e →
        ∃ ch, serve i = .error (if e.isInvalid then 401 else if e.isOAuth then 400 else 500) e.msg ch) ∧
      ((i.verifier tok).err = none → (i.verifier tok).info = none →
        ∃ msg ch, serve i = .error 500 msg ch) ∧
      (∀ info, (i.verifier tok).err = none → (i.verifier tok).info = some info →
        ((∃ s ∈ (eff i.opts).scopes, s ∉ info.scopes) → ∃ msg ch, serve i = .error 403 msg ch) ∧
        ((∀ s ∈ (eff i.opts).scopes, s ∈ info.scopes) → ¬ Unexpired info.exp (eff i.opts) i.now →
          ∃ msg ch, serve i = .error 401 msg ch))) := by
  refine ⟨?_, ?_⟩
  · intro hn
    have hc : credential i.header = none :=
      (credential_none _).2 (fun ⟨sch, tok, h1, h2⟩ => hn ⟨tok, sch, h1, h2⟩)
    exact ⟨msgNoBearer, challengeFor i.opts 401, by simp only [serve, verify, hc, stNoBearer], by simp only [verify, hc]⟩
  · intro tok hcr
    have hc := (credential_some _ _).2 hcr
    refine ⟨?_, ?_, ?_⟩
    · intro e he
      exact ⟨challengeFor i.opts (if e.isInvalid then 401 else if e.isOAuth then 400 else 500),
        by simp only [serve, verify, hc, he, errStatus_chain]⟩
    · intro he hi
      exact ⟨msgNilInfo, challengeFor i.opts 500, by simp only [serve, verify, hc, he, hi, stNilInfo]⟩
    · intro info he hi
      refine ⟨?_, ?_⟩
      · intro hs
        have hms := (scopeRejected_true _ _).2 hs
        exact ⟨msgScope, challengeFor i.opts 403, by simp only [serve, verify, hc, he, hi, hms, if_true, stScope]⟩
      · intro hs hu
        have hms := (scopeRejected_false _ _).2 hs
        cases hx : info.exp with
        | none =>
          have ha : (eff i.opts).allowMissing = false := by
            simp only [Unexpired, hx] at hu; simpa using hu
          have := expiryRejected_missing (eff i.opts) i.now ha
          exact ⟨msgMissingExp, challengeFor i.opts 401, by simp [serve, verify, hc, he, hi, hms, hx, this]⟩
        | some e =>
          have hlt : e + (eff i.opts).skew < i.now := by
            simp only [Unexpired, hx] at hu; simpa using hu
          have := expiryRejected_expired e (eff i.opts) i.now hlt
          exact ⟨msgExpired, challengeFor i.opts 401, by simp [serve, verify, hc, he, hi, hms, hx, this]⟩

/-- The only statuses the middleware itself produces. -/
theorem reject_codes (i : Input σ α) (code : Nat) (msg : String) (ch : Option (List (Param σ)))
    (h : serve i = .error code msg ch) : code = 401 ∨ code = 403 ∨ code = 400 ∨ code = 500 := by
  by_cases hcr : ∃ tok, Credential i.header tok
  · obtain ⟨tok, hcr⟩ := hcr
    obtain ⟨h1, h2, h3⟩ := (status_by_cause i).2 tok hcr
    cases he : (i.verifier tok).err with
    | some e =>
      obtain ⟨ch', h'⟩ := h1 e he
      rw [h'] at h; cases h
      cases e.isInvalid <;> cases e.isOAuth <;> simp
    | none =>
      cases hi : (i.verifier tok).info with
      | none => obtain ⟨m, ch', h'⟩ := h2 he hi; rw [h'] at h; cases h; simp
      | some info =>
        obtain ⟨h4, h5⟩ := h3 info he hi
        by_cases hs : ∀ s ∈ (eff i.opts).scopes, s ∈ info.scopes
        · by_cases hu : Unexpired info.exp (eff i.opts) i.now
          · have := (admit_iff i info).2 ⟨tok, hcr, he, hi, hs, hu⟩
            rw [this] at h; cases h
          · obtain ⟨m, ch', h'⟩ := h5 hs hu; rw [h'] at h; cases h; simp
        · have hs' : ∃ s ∈ (eff i.opts).scopes, s ∉ info.scopes := by
            simpa using hs
          obtain ⟨m, ch', h'⟩ := h4 hs'; rw [h'] at h; cases h; simp
  · obtain ⟨m, ch', h', _⟩ := (status_by_cause i).1 hcr
    rw [h'] at h; cases h; simp

/-- **challenge_on_401_403.** A rejection carries a `WWW-Authenticate: Bearer …` challenge exactly
when its status is 401 or 403, the options are non-nil and at least one of the two parameters is
configured; the challenge then lists `resource_metadata` iff a metadata URL is configured and
`scope` iff required scopes are configured, in that order, with the configured values.  Nothing is
added on 400/500 or under nil options.  (The parameter names are `challenge_param_names`.) -/
theorem challenge_on_401_403 (i : Input σ α) (code : Nat) (msg : String)
    (ch : Option (List (Param σ))) (h : serve i = .error code msg ch) :
    ch = (if code = 401 ∨ code = 403 then
            match i.opts with
            | none => none
            | some o =>
              if o.rm = "" ∧ o.scopes = [] then none
              else some ((if o.rm = "" then [] else [Param.resourceMetadata o.rm]) ++
                         (if o.scopes = [] then [] else [Param.scope o.scopes]))
          else none) := by
  have hch : ch = challengeFor i.opts code := by
    simp only [serve] at h
    split at h
    · cases h
    · cases h; rfl
  rw [hch]
  have hcodes : ∀ c : Nat, challengeCodes.contains c = true ↔ (c = 401 ∨ c = 403) := by
    intro c; simp [challengeCodes]
  by_cases hc : code = 401 ∨ code = 403
  · simp only [challengeFor, (hcodes code).2 hc, if_true, hc]
    cases i.opts with
    | none => rfl
    | some o =>
      by_cases h1 : o.rm = "" <;> cases h2 : o.scopes <;> simp [challengeParams, h1, h2]
  · have : challengeCodes.contains code = false := by
      cases hb : challengeCodes.contains code with
      | false => rfl
      | true => exact absurd ((hcodes code).1 hb) hc
    simp only [challengeFor, this, Bool.false_eq_true, if_false, hc]

/-- The parameter names used when the challenge is rendered (regenerated from the `Sprintf`
formats of the closure). -/
theorem challenge_param_names : paramRM = "resource_metadata" ∧ paramScope = "scope" := by decide

/-- **boundary_admitted.** A token whose `expiration + skew` is *exactly* now is still admitted
(the code rejects only when `expiration + skew` is strictly before now)… -/
theorem boundary_admitted (i : Input σ α) (info : Info σ α) (tok : List Char) (e : Int)
    (hcr : Credential i.header tok) (he : (i.verifier tok).err = none)
    (hi : (i.verifier tok).info = some info) (hs : ∀ s ∈ (eff i.opts).scopes, s ∈ info.scopes)
    (hx : info.exp = some e) (hb : e + (eff i.opts).skew = i.now) : serve i = .next info := by
  refine (admit_iff i info).2 ⟨tok, hcr, he, hi, hs, ?_⟩
  simp only [Unexpired, hx]; omega

/-- …and one nanosecond later it is rejected with 401. -/
theorem boundary_plus_one_rejected (i : Input σ α) (info : Info σ α) (tok : List Char) (e : Int)
    (hcr : Credential i.header tok) (he : (i.verifier tok).err = none)
    (hi : (i.verifier tok).info = some info) (hs : ∀ s ∈ (eff i.opts).scopes, s ∈ info.scopes)
    (hx : info.exp = some e) (hb : e + (eff i.opts).skew + 1 = i.now) :
    ∃ msg ch, serve i = .error 401 msg ch := by
  refine (((status_by_cause i).2 tok hcr).2.2 info he hi).2 hs ?_
  simp only [Unexpired, hx]; omega

/-- **nil_opts.** Nil options behave exactly like the zero options. -/
theorem nil_opts (i : Input σ α) :
    serve { i with opts := none } = serve { i with opts := some Opts.zero } := by
  have h1 : ∀ g : List σ, scopeRejected (none : Option (Opts σ)) g = scopeRejected (some Opts.zero) g := by
    intro g; simp [scopeRejected, Opts.zero, missingScope]
  have h2 : ∀ c, challengeFor (none : Option (Opts σ)) c = challengeFor (some Opts.zero) c := by
    intro c; simp [challengeFor, challengeParams, Opts.zero]
  simp only [serve, verify, h1, h2, Option.getD]

/-! ## The request context, stacked middlewares, the response as sent -/

/-- Middleware `l` admits a request with `Authorization` value `hdr` and context `ctx`, with token
info `info`: the conditions of `admit_iff`, for this middleware's verifier and options. -/
def Layer.Admits (l : Layer σ α) (hdr : List Char) (ctx : Ctx σ α) (info : Info σ α) : Prop :=
  ∃ tok, Credential hdr tok ∧
    (l.verifier ctx tok).err = none ∧ (l.verifier ctx tok).info = some info ∧
    (∀ s ∈ (eff l.opts).scopes, s ∈ info.scopes) ∧ Unexpired info.exp (eff l.opts) l.now

theorem Layer.admits_iff (l : Layer σ α) (hdr : List Char) (ctx : Ctx σ α) (info : Info σ α) :
    serve (l.input hdr ctx) = .next info ↔ l.Admits hdr ctx info :=
  admit_iff (l.input hdr ctx) info

/-- Every middleware of `ls` (outermost first) admits the request; `ctx'` is the context the
handler behind the last one receives: each middleware's own token info stored on top of what was
there before. -/
inductive Admitted (hdr : List Char) : List (Layer σ α) → Ctx σ α → Ctx σ α → Prop where
  | nil (ctx : Ctx σ α) : Admitted hdr [] ctx ctx
  | cons {l : Layer σ α} {ls : List (Layer σ α)} {ctx ctx' : Ctx σ α} (info : Info σ α) :
      l.Admits hdr ctx info → Admitted hdr ls (info :: ctx) ctx' → Admitted hdr (l :: ls) ctx ctx'

/-- **stack_handler_iff.** Behind any number of stacked middlewares, and whatever the incoming
request context already holds, the final handler runs iff every middleware admits the request by
its own verifier, scopes and expiry rule. -/
theorem stack_handler_iff (hdr : List Char) (ls : List (Layer σ α)) (ctx ctx' : Ctx σ α) :
    stack hdr ls ctx = .handler ctx' ↔ Admitted hdr ls ctx ctx' := by
  induction ls generalizing ctx with
  | nil =>
    simp only [stack]
    constructor
    · intro h; cases h; exact .nil _
    · intro h; cases h; rfl
  | cons l ls ih =>
    simp only [stack]
    constructor
    · intro h
      cases hs : serve (l.input hdr ctx) with
      | next info =>
        rw [hs] at h
        exact .cons info ((l.admits_iff hdr ctx info).1 hs) ((ih _).1 h)
      | error c m ch => rw [hs] at h; cases h
    · intro h
      cases h with
      | cons info ha hr =>
        rw [(l.admits_iff hdr ctx info).2 ha]
        exact (ih _).2 hr

omit [DecidableEq σ] in
theorem Admitted.append {hdr : List Char} {l1 l2 : List (Layer σ α)} {c1 c2 c3 : Ctx σ α}
    (h1 : Admitted hdr l1 c1 c2) (h2 : Admitted hdr l2 c2 c3) : Admitted hdr (l1 ++ l2) c1 c3 := by
  induction h1 with
  | nil _ => exact h2
  | cons info ha _ ih => exact .cons info ha (ih h2)

omit [DecidableEq σ] in
theorem Admitted.split {hdr : List Char} {l1 l2 : List (Layer σ α)} {c1 c3 : Ctx σ α}
    (h : Admitted hdr (l1 ++ l2) c1 c3) : ∃ c2, Admitted hdr l1 c1 c2 ∧ Admitted hdr l2 c2 c3 := by
  induction l1 generalizing c1 with
  | nil => exact ⟨c1, .nil _, h⟩
  | cons l ls ih =>
    cases h with
    | cons info ha hr =>
      obtain ⟨c2, h1, h2⟩ := ih hr
      exact ⟨c2, .cons info ha h1, h2⟩

/-- **handler_ctx_is_verifier_info.** One middleware on a request with ANY context — empty, or
already carrying a `TokenInfo` from an enclosing middleware or other code: if its handler runs,
`TokenInfoFromContext` in the handler yields exactly the info this middleware's verifier returned
for this request's token (the value the scope and expiry checks were made on), never the value
that was already there; the earlier values are only shadowed. -/
theorem handler_ctx_is_verifier_info (hdr : List Char) (l : Layer σ α) (ctx ctx' : Ctx σ α) :
    stack hdr [l] ctx = .handler ctx' ↔ ∃ info, l.Admits hdr ctx info ∧ ctx' = info :: ctx := by
  rw [stack_handler_iff]
  constructor
  · intro h
    cases h with
    | cons info ha hr => cases hr; exact ⟨info, ha, rfl⟩
  · rintro ⟨info, ha, rfl⟩
    exact .cons info ha (.nil _)

/-- **stack_handler_sees_innermost.** Behind stacked middlewares the handler finds the token info
returned by the verifier of the innermost one (the one it is directly wrapped in), which that
middleware checked against its own scopes and expiry rule. -/
theorem stack_handler_sees_innermost (hdr : List Char) (ls : List (Layer σ α)) (l : Layer σ α)
    (ctx ctx' : Ctx σ α) (h : stack hdr (ls ++ [l]) ctx = .handler ctx') :
    ∃ ctx1 info, Admitted hdr ls ctx ctx1 ∧ l.Admits hdr ctx1 info ∧
      tokenInfoFromContext ctx' = some info ∧ ctx' = info :: ctx1 := by
  obtain ⟨c2, h1, h2⟩ := ((stack_handler_iff hdr _ ctx ctx').1 h).split
  cases h2 with
  | cons info ha hr => cases hr; exact ⟨c2, info, h1, ha, rfl, rfl⟩

omit [DecidableEq σ] in
/-- What was in the context before is still there underneath (shadowed, not altered), and every
middleware adds exactly one value. -/
theorem Admitted.ctx_suffix {hdr : List Char} {ls : List (Layer σ α)} {ctx ctx' : Ctx σ α}
    (h : Admitted hdr ls ctx ctx') : ∃ pre, ctx' = pre ++ ctx ∧ pre.length = ls.length := by
  induction h with
  | nil _ => exact ⟨[], rfl, rfl⟩
  | cons info _ _ ih =>
    obtain ⟨pre, h1, h2⟩ := ih
    exact ⟨pre ++ [info], by simp [h1], by simp [h2]⟩

/-- **stack_error_first.** A stacked request is answered with an error iff some middleware rejects
it after all the enclosing ones admitted it; the answer is that middleware's own (its status by
cause, its own challenge parameters), and no middleware behind it is reached. -/
theorem stack_error_first (hdr : List Char) (ls : List (Layer σ α)) (ctx : Ctx σ α)
    (code : Nat) (msg : String) (ch : Option (List (Param σ))) :
    stack hdr ls ctx = .error code msg ch ↔
      ∃ pre l post ctx1, ls = pre ++ l :: post ∧ Admitted hdr pre ctx ctx1 ∧
        serve (l.input hdr ctx1) = .error code msg ch := by
  induction ls generalizing ctx with
  | nil =>
    simp only [stack]
    constructor
    · intro h; cases h
    · rintro ⟨pre, l, post, _, h, _⟩; cases pre <;> cases h
  | cons l ls ih =>
    simp only [stack]
    cases hs : serve (l.input hdr ctx) with
    | next info =>
      simp only []
      rw [show withTokenInfo ctx info = info :: ctx from rfl, ih]
      constructor
      · rintro ⟨pre, l', post, c1, rfl, ha, he⟩
        exact ⟨l :: pre, l', post, c1, rfl, .cons info ((l.admits_iff hdr ctx info).1 hs) ha, he⟩
      · rintro ⟨pre, l', post, c1, heq, ha, he⟩
        cases pre with
        | nil =>
          cases ha
          simp only [List.nil_append, List.cons.injEq] at heq
          obtain ⟨rfl, rfl⟩ := heq
          rw [hs] at he; cases he
        | cons p pre =>
          simp only [List.cons_append, List.cons.injEq] at heq
          obtain ⟨rfl, rfl⟩ := heq
          cases ha with
          | cons info' ha' hr =>
            have : info' = info := by
              have := (Layer.admits_iff _ hdr ctx info').2 ha'
              rw [hs] at this; cases this; rfl
            subst this
            exact ⟨pre, l', post, c1, rfl, hr, he⟩
    | error c m ch' =>
      simp only []
      constructor
      · intro h; cases h
        exact ⟨[], l, ls, ctx, rfl, .nil _, hs⟩
      · rintro ⟨pre, l', post, c1, heq, ha, he⟩
        cases pre with
        | nil =>
          cases ha
          simp only [List.nil_append, List.cons.injEq] at heq
          obtain ⟨rfl, rfl⟩ := heq
          rw [hs] at he; cases he; rfl
        | cons p pre =>
          simp only [List.cons_append, List.cons.injEq] at heq
          obtain ⟨rfl, rfl⟩ := heq
          cases ha with
          | cons info' ha' hr =>
            have := (Layer.admits_iff _ hdr ctx info').2 ha'
            rw [hs] at this; cases this

/-- **preexisting_ctx_irrelevant.** For a verifier that does not look at the request context, a
`TokenInfo` already present in the context changes neither the decision nor what the handler
finds: with and without it the handler runs in the same cases and sees the same verifier info. -/
theorem preexisting_ctx_irrelevant (hdr : List Char) (l : Layer σ α) (ctx : Ctx σ α)
    (hv : ∀ c, l.verifier c = l.verifier []) (info : Info σ α) :
    stack hdr [l] ctx = .handler (info :: ctx) ↔ stack hdr [l] [] = .handler [info] := by
  have e : l.input hdr ctx = l.input hdr [] := by simp only [Layer.input, hv ctx]
  simp only [stack, withTokenInfo, e]
  cases serve (l.input hdr []) with
  | next i => simp
  | error c m ch => simp

/-- The outcome read off a sequence of visits. -/
def outcomeOfVisits (ctx : Ctx σ α) : List (Visit σ α) → Outcome σ α
  | [] => .handler ctx
  | v :: vs =>
    match v.resp with
    | .next info => outcomeOfVisits (info :: v.ctxIn) vs
    | .error code msg ch => .error code msg ch

/-- The sequence of middlewares reached (`visits`, which is what the driver renders, one entry per
middleware with the token its verifier got) determines the outcome of `stack`: every visited
middleware but the last admitted, the last one decides, and each was entered with the context
left by the one before. -/
theorem visits_outcome (hdr : List Char) (ls : List (Layer σ α)) (ctx : Ctx σ α) :
    outcomeOfVisits ctx (visits hdr ls ctx) = stack hdr ls ctx := by
  induction ls generalizing ctx with
  | nil => rfl
  | cons l ls ih =>
    simp only [visits, stack]
    cases hs : serve (l.input hdr ctx) with
    | next info => simp only [outcomeOfVisits]; exact ih _
    | error c m ch => simp only [outcomeOfVisits]

/-- Each visited middleware's verifier was consulted iff the credential is well-formed, with its
token (`verifier_called_iff`, per middleware). -/
theorem visits_token (hdr : List Char) (ls : List (Layer σ α)) (ctx : Ctx σ α) (v : Visit σ α)
    (hv : v ∈ visits hdr ls ctx) (tok : List Char) : v.token = some tok ↔ Credential hdr tok := by
  induction ls generalizing ctx with
  | nil => simp [visits] at hv
  | cons l ls ih =>
    simp only [visits] at hv
    have key : ({ ctxIn := ctx, token := (verify (l.input hdr ctx)).2, resp := serve (l.input hdr ctx) } :
        Visit σ α).token = some tok ↔ Credential hdr tok := verifier_called_iff (l.input hdr ctx) tok
    cases hs : serve (l.input hdr ctx) with
    | next info =>
      rw [hs] at hv
      simp only [List.mem_cons] at hv
      rcases hv with rfl | hv
      · rw [← hs]; exact key
      · exact ih _ hv
    | error c m ch =>
      rw [hs] at hv
      simp only [List.mem_singleton] at hv
      subst hv
      rw [← hs]; exact key

/-- **challenge_sent.** The rejection as the client receives it: the status and body of
`http.Error`, and the challenge — because the closure adds it to the header map *before*
`http.Error` writes the header — as the one `WWW-Authenticate` value of the sent response. -/
theorem challenge_sent (i : Input σ α) (code : Nat) (msg : String) (ch : Option (List (Param σ)))
    (h : serve i = .error code msg ch) :
    sentBy (wcalls (serve i)) = some { status := code, challenges := ch.toList, body := msg ++ "\n" } := by
  rw [h]
  cases ch <;> rfl

/-- **sent_challenge_on_401_403.** `challenge_on_401_403` for the response as sent: on 401/403 with
a metadata URL or required scopes configured the sent response has exactly one `WWW-Authenticate`
value, carrying exactly the configured parameters; in every other rejection it has none. -/
theorem sent_challenge_on_401_403 (i : Input σ α) (code : Nat) (msg : String)
    (ch : Option (List (Param σ))) (h : serve i = .error code msg ch) :
    ∃ s, sentBy (wcalls (serve i)) = some s ∧ s.status = code ∧
      s.challenges =
        (if code = 401 ∨ code = 403 then
          match i.opts with
          | none => []
          | some o =>
            if o.rm = "" ∧ o.scopes = [] then []
            else [(if o.rm = "" then [] else [Param.resourceMetadata o.rm]) ++
                  (if o.scopes = [] then [] else [Param.scope o.scopes])]
         else []) := by
  refine ⟨_, challenge_sent i code msg ch h, rfl, ?_⟩
  rw [challenge_on_401_403 i code msg ch h]
  by_cases hc : code = 401 ∨ code = 403
  · simp only [hc, if_true]
    cases i.opts with
    | none => rfl
    | some o => by_cases h1 : o.rm = "" ∧ o.scopes = [] <;> simp [h1]
  · simp only [hc, if_false]; rfl

omit [DecidableEq σ] in
/-- **late_challenge_not_sent.** The order of the two writer calls is part of the property: a
challenge added to the header map after `http.Error` is in the map but not in the response. -/
theorem late_challenge_not_sent (code : Nat) (msg : String) (ps : List (Param σ)) :
    sentBy [WCall.httpError msg code, WCall.addChallenge ps] =
      some { status := code, challenges := [], body := msg ++ "\n" } ∧
    sentBy (rejectCalls code msg (some ps)) =
      some { status := code, challenges := [ps], body := msg ++ "\n" } := ⟨rfl, rfl⟩

/-! ## Non-vacuity: both sides of `admit_iff` and every status occur. -/

private def okInfo : Info String Unit := { scopes := ["read", "write"], exp := some 100, extra := () }
private def mkIn (hdr : String) (r : VRes String Unit) (o : Option (Opts String)) (now : Int) :
    Input String Unit := { header := hdr.toList, verifier := fun _ => r, opts := o, now := now }
private def opts1 : Opts String := { rm := "https://rs/meta", scopes := ["read"], allowMissing := false, skew := 30 }

example : serve (mkIn "bEaReR  tok" ⟨none, some okInfo⟩ (some opts1) 130) = .next okInfo := by rfl
example : serve (mkIn "Bearer tok" ⟨none, some okInfo⟩ (some opts1) 131) =
    .error 401 "token expired" (some [.resourceMetadata "https://rs/meta", .scope ["read"]]) := by rfl
example : serve (mkIn "Bearer tok" ⟨none, some okInfo⟩ (some { opts1 with scopes := ["read", "admin"] }) 0) =
    .error 403 "insufficient scope" (some [.resourceMetadata "https://rs/meta", .scope ["read", "admin"]]) := by rfl
example : serve (mkIn "Bearer tok" ⟨some ⟨false, true, "oauth error"⟩, none⟩ (some opts1) 0) =
    .error 400 "oauth error" none := by rfl
example : serve (mkIn "Bearer tok" ⟨none, none⟩ none 0) = .error 500 "token validation failed" none := by rfl
example : serve (mkIn "Basic tok" ⟨none, some okInfo⟩ none 0) = .error 401 "no bearer token" none := by rfl

/-! Stacked middlewares and a pre-populated context: the handler sees the innermost verifier's info
on top of the older values; an inner rejection is answered with the inner middleware's challenge. -/
private def lay (r : VRes String Unit) (o : Option (Opts String)) (now : Int) : Layer String Unit :=
  { verifier := fun _ _ => r, opts := o, now := now }
private def adminInfo : Info String Unit := { scopes := ["admin"], exp := none, extra := () }
private def staleInfo : Info String Unit := { scopes := ["root"], exp := some (-5), extra := () }
private def optsAdmin : Opts String := { rm := "", scopes := ["admin"], allowMissing := true, skew := 0 }

example : stack "Bearer tok".toList
    [lay ⟨none, some okInfo⟩ (some opts1) 0, lay ⟨none, some adminInfo⟩ (some optsAdmin) 0] [staleInfo] =
    .handler [adminInfo, okInfo, staleInfo] := by rfl
example : tokenInfoFromContext [adminInfo, okInfo, staleInfo] = some adminInfo := rfl
example : stack "Bearer tok".toList
    [lay ⟨none, some okInfo⟩ (some opts1) 0, lay ⟨none, some okInfo⟩ (some optsAdmin) 0] [staleInfo] =
    .error 403 "insufficient scope" (some [.scope ["admin"]]) := by rfl
example : stack "Bearer tok".toList [lay ⟨none, some okInfo⟩ (some opts1) 0] [staleInfo] =
    .handler [okInfo, staleInfo] := by rfl
example : sentBy (wcalls (serve (mkIn "Basic tok" ⟨none, some okInfo⟩ (some opts1) 0))) =
    some { status := 401, challenges := [[.resourceMetadata "https://rs/meta", .scope ["read"]]],
           body := "no bearer token\n" } := by rfl

end Bearer
