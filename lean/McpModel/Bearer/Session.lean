import McpModel.Bearer.Monitor
/-!
E10 — the middleware VALUE over its life (C14): `mw := RequireBearerToken(verifier, opts)` applied to
several handlers (`a := mw(h0); b := mw(h1); …`) and histories of requests through the wrappers, one
after the other and interleaved.

The code that exists (auth/auth.go:97-125; structural fact `bearer.middleware_value_shape`):
`RequireBearerToken` does nothing but return `func(handler) http.Handler`; that function does nothing
but return a fresh closure capturing `verifier`, `opts` and ITS OWN `handler`; the closure writes to no
variable outside itself.  So the state of a middleware value is: the options (fixed), and the list of
wrappers made so far (each remembers the handler it was made for).  A request through wrapper `w` is
`Bearer.serve` on the request's own input under these options, and on admission the handler that runs
is the one wrapper `w` was made for.

Concurrency: the closure's run for one request has two atomic sections separated by the call of the
verifier (the only place where it can block): `enter` (read the header, parse the credential) and
`leave` (everything from the verifier's return on, with `time.Now()` read there).  A `Pool` is the
set of requests in flight, a schedule says whose section runs next.

Core Lean only (linked into the driver).
-/
namespace Bearer
open Generated.Bearer

/-! ### One middleware value, many wrappers, a history -/

/-- The state of `mw := RequireBearerToken(verifier, opts)`: the captured options and, per wrapper
made so far (in creation order), the handler it was made for. -/
structure Sess (σ : Type) where
  opts : Option (Opts σ)
  wrappers : List Nat

/-- What happens to a middleware value. -/
inductive Ev (σ α : Type) where
  /-- `mw(h_j)` -/
  | wrap (j : Nat)
  /-- a request through wrapper `w`; `i.opts` is not read (the options are the value's) -/
  | req (w : Nat) (i : Input σ α)

inductive SOut (σ α : Type) where
  /-- `mw(h_j)` returned wrapper number `w` -/
  | wrapped (w : Nat)
  /-- handler `j` ran, with this `TokenInfo` in the request context -/
  | ran (j : Nat) (info : Info σ α)
  | error (code : Nat) (msg : String) (challenge : Option (List (Param σ)))
  /-- no such wrapper (not a behaviour of the code: a malformed history) -/
  | noWrapper

/-- The request as the closure's `verify(r, verifier, opts)` sees it: the options are the captured ones. -/
def Sess.input {σ α : Type} (s : Sess σ) (i : Input σ α) : Input σ α := { i with opts := s.opts }

/-- A request through wrapper `w`. -/
def Sess.serveVia {σ α : Type} [DecidableEq σ] (s : Sess σ) (w : Nat) (i : Input σ α) : SOut σ α :=
  match s.wrappers[w]? with
  | none => .noWrapper
  | some j =>
    match serve (s.input i) with
    | .next info => .ran j info
    | .error code msg ch => .error code msg ch

def Sess.step {σ α : Type} [DecidableEq σ] (s : Sess σ) : Ev σ α → Sess σ × SOut σ α
  | .wrap j => ({ s with wrappers := s.wrappers ++ [j] }, .wrapped s.wrappers.length)
  | .req w i => (s, s.serveVia w i)

/-- A history: the final state and what every event produced. -/
def Sess.run {σ α : Type} [DecidableEq σ] (s : Sess σ) : List (Ev σ α) → Sess σ × List (SOut σ α)
  | [] => (s, [])
  | e :: es =>
    let r := (s.step e).1.run es
    (r.1, (s.step e).2 :: r.2)

/-- The handlers applied in a history, in order. -/
def wrapsOf {σ α : Type} : List (Ev σ α) → List Nat
  | [] => []
  | .wrap j :: es => j :: wrapsOf es
  | .req _ _ :: es => wrapsOf es

/-! ### Several middleware values side by side -/

/-- Several values `RequireBearerToken(…)` (a gateway-wide one, route-level ones), each made with
its own options, and the wrappers made from them: the package has no state of its own (structural
fact `bearer.package_vars_of_auth_go`), so a world is just its values. -/
structure World (σ : Type) where
  vals : List (Option (Opts σ))
  /-- per wrapper: the value it was made from and the handler it was made for -/
  wrappers : List (Nat × Nat)

inductive WEv (σ α : Type) where
  /-- `RequireBearerToken(verifier, opts)` -/
  | make (opts : Option (Opts σ))
  /-- `mw_v(h_j)` -/
  | wrap (v j : Nat)
  | req (w : Nat) (i : Input σ α)

/-- A request through wrapper `w`: the one-value model of the value behind it, alone. -/
def World.serveVia {σ α : Type} [DecidableEq σ] (wd : World σ) (w : Nat) (i : Input σ α) : SOut σ α :=
  match wd.wrappers[w]? with
  | none => .noWrapper
  | some (v, j) =>
    match wd.vals[v]? with
    | none => .noWrapper
    | some o => Sess.serveVia { opts := o, wrappers := [j] } 0 i

def World.step {σ α : Type} [DecidableEq σ] (wd : World σ) : WEv σ α → World σ × SOut σ α
  | .make o => ({ wd with vals := wd.vals ++ [o] }, .wrapped wd.vals.length)
  | .wrap v j => ({ wd with wrappers := wd.wrappers ++ [(v, j)] }, .wrapped wd.wrappers.length)
  | .req w i => (wd, wd.serveVia w i)

def World.run {σ α : Type} [DecidableEq σ] (wd : World σ) : List (WEv σ α) → World σ × List (SOut σ α)
  | [] => (wd, [])
  | e :: es =>
    let r := (wd.step e).1.run es
    (r.1, (wd.step e).2 :: r.2)

def makesOf {σ α : Type} : List (WEv σ α) → List (Option (Opts σ))
  | [] => []
  | .make o :: es => o :: makesOf es
  | _ :: es => makesOf es

def wrapsOfW {σ α : Type} : List (WEv σ α) → List (Nat × Nat)
  | [] => []
  | .wrap v j :: es => (v, j) :: wrapsOfW es
  | _ :: es => wrapsOfW es

/-! ### Requests in flight -/

/-- Where the closure's run for one request stands. -/
inductive Phase (σ α : Type) where
  | idle
  /-- inside `verifier(req.Context(), tok, req)` -/
  | inVerifier (tok : List Char)
  | done (r : Response σ α)

/-- `auth.verify` from the verifier's return on (transliterated like `Bearer.verify`), then the closure. -/
def leave {σ α : Type} [DecidableEq σ] (i : Input σ α) (tok : List Char) : Response σ α :=
  let r := i.verifier tok
  match r.err with
  | some e => .error (errStatus e errChain) e.msg (challengeFor i.opts (errStatus e errChain))
  | none =>
    match r.info with
    | none => .error stNilInfo msgNilInfo (challengeFor i.opts stNilInfo)
    | some info =>
      if scopeRejected i.opts info.scopes then .error stScope msgScope (challengeFor i.opts stScope)
      else
        match expiryRejected info.exp (i.opts.getD Opts.zero) i.now with
        | some (msg, code) => .error code msg (challengeFor i.opts code)
        | none => .next info

/-- The next atomic section of the request `i`. -/
def advance {σ α : Type} [DecidableEq σ] (i : Input σ α) : Phase σ α → Phase σ α
  | .idle =>
    match credential i.header with
    | none => .done (.error stNoBearer msgNoBearer (challengeFor i.opts stNoBearer))
    | some tok => .inVerifier tok
  | .inVerifier tok => .done (leave i tok)
  | .done r => .done r

def advanceN {σ α : Type} [DecidableEq σ] (i : Input σ α) : Nat → Phase σ α → Phase σ α
  | 0, p => p
  | n + 1, p => advanceN i n (advance i p)

/-- The requests in flight through one middleware value (by request number). -/
abbrev Pool (σ α : Type) := Nat → Phase σ α

/-- Request `q` runs its next section; nothing else changes (the closure shares no variable). -/
def Pool.step {σ α : Type} [DecidableEq σ] (reqs : Nat → Input σ α) (p : Pool σ α) (q : Nat) : Pool σ α :=
  fun k => if k = q then advance (reqs q) (p q) else p k

def Pool.run {σ α : Type} [DecidableEq σ] (reqs : Nat → Input σ α) (p : Pool σ α) : List Nat → Pool σ α
  | [] => p
  | q :: sched => Pool.run reqs (Pool.step reqs p q) sched

/-! ### The session monitor -/

/-- The implementation's observation of a request of a session: that of a single request, plus how
often every handler that exists ran for it. -/
structure SObs where
  obs : Obs
  hr : List Nat
deriving DecidableEq, Repr

inductive SClause
  /-- the observation does not have one run count per handler -/
  | malformedRuns
  /-- admit_iff: a handler ran that is not the one this wrapper was made for -/
  | strayHandler (made stray : Nat)
  /-- a clause of the single-request property -/
  | base (c : Clause)
deriving DecidableEq, Repr

def firstStray (made : Nat) : Nat → List Nat → Option Nat
  | _, [] => none
  | j, n :: rest => if j ≠ made ∧ n ≠ 0 then some j else firstStray made (j + 1) rest

/-- **The C14 monitor of one request of a session**: `nh` handlers exist, the request went through
a wrapper made for handler `made`; `r` is the request under the middleware value's options.  Only the
handler the wrapper was made for may run, and for it and everything else the single-request property
holds, with this request's own verifier outcome: whatever happened before or happens meanwhile. -/
def sessMonitor (nh made : Nat) (r : Req) (o : SObs) : Option SClause :=
  if o.hr.length ≠ nh ∨ o.hr[made]? ≠ some o.obs.ran then some .malformedRuns
  else match firstStray made 0 o.hr with
    | some j => some (.strayHandler made j)
    | none => (monitor r o.obs).map .base

/-- One run count per handler: `n` for the handler the wrapper was made for, 0 for the others. -/
def runsOf (nh made n : Nat) : List Nat := (List.range nh).map fun j => if j = made then n else 0

/-- What the session monitor would be given if the implementation behaved like the model. -/
def sessObsOf (nh made : Nat) (r : Req) : Option SObs :=
  (obsOf r).map fun o => { obs := o, hr := runsOf nh made o.ran }

/-- The scripted verifier of a session works until `s.now` and honours its context meanwhile: when
the request (entered at `at_`) loses its client at `cx` before the verifier is through, the verifier
returns `ctx.Err()` — an error that is neither sentinel — at that instant (at once if the context
was already cancelled on entry).  A verifier that has nothing to wait for does not look at the context. -/
def Script.withCancel (at_ : Int) (cx : Option Int) (s : Script) : Script :=
  match cx with
  | some c =>
    if at_ < s.now ∧ c < s.now then
      { s with err := some { isInvalid := false, isOAuth := false, msg := "context canceled" }, info := none, now := max c at_ }
    else s
  | none => s

/-- The request of a `sreq` record: one scripted middleware under the value's options. -/
def Req.ofSession (opts : Option (Opts String)) (hdr : List Char) (s : Script) : Req :=
  Req.ofScript hdr [{ s with opts := opts }] none

end Bearer
