import McpModel.Base.Proto
import McpModel.Bearer.Model
/-!
Driver for E10 (C14).  One record = one request through the real `RequireBearerToken` closure.

op tokens (all `key=value`; strings hex-encoded with an `x` prefix, lists comma-separated, `-` = none/empty):
  `req h=<Authorization values | -> ve=<- | two bits: errors.Is(ErrInvalidToken) errors.Is(ErrOAuth)>
       vm=<err.Error()> vi=<0|1 info non-nil> gs=<granted scopes> ex=<z | ns after the request started>
       op=<n nil options | s> rm=<url> rs=<required scopes> am=<0|1> sk=<skew ns>
       now=<ns after the request started at which the verifier returns>`   (further tokens are ignored)
observation:
  `st=<status> ran=<0|1> info=<same|changed|other|nil|-> vc=<verifier calls> vt=<token of the last call | ->
   www=<WWW-Authenticate values | -> body=<response body>`
The inner handler of the harness answers 299 with body "inner".

The model line is `Bearer.serve` rendered; the monitor is the property itself, written with literal
statuses and names, independent of the regenerated constants and of `Bearer.verify`.
-/
namespace Bearer
open Proto

def kv (toks : List String) (k : String) : Option String :=
  toks.findSome? fun t => if t.startsWith (k ++ "=") then some ((t.drop (k.length + 1)).toString) else none

def unx (s : String) : Option String :=
  if s.startsWith "x" then hexToString ((s.drop 1).toString) else none

def unxList (s : String) : Option (List String) :=
  if s == "-" then some [] else (s.splitOn ",").mapM unx

def xs (s : String) : String := "x" ++ stringToHex s

def xsList (l : List String) : String := if l.isEmpty then "-" else ",".intercalate (l.map xs)

structure Req where
  inp : Input String Unit
  hasInfo : Bool

def parseReq (toks : List String) : Option Req := do
  let h ← (← kv toks "h") |> unxList
  let ve ← kv toks "ve"
  let vm ← (← kv toks "vm") |> unx
  let vi ← kv toks "vi"
  let gs ← (← kv toks "gs") |> unxList
  let ex ← kv toks "ex"
  let op ← kv toks "op"
  let rm ← (← kv toks "rm") |> unx
  let rs ← (← kv toks "rs") |> unxList
  let am ← kv toks "am"
  let sk ← (← kv toks "sk").toInt?
  let now ← (← kv toks "now").toInt?
  let exp : Option Int ← if ex == "z" then some none else ex.toInt?.map some
  let err : Option VErr ←
    if ve == "-" then some none
    else if ve.length == 2 then
      some (some { isInvalid := ve.startsWith "1", isOAuth := ve.endsWith "1", msg := vm })
    else none
  let info : Option (Info String Unit) := if vi == "1" then some { scopes := gs, exp := exp, extra := () } else none
  let opts : Option (Opts String) :=
    if op == "n" then none else some { rm := rm, scopes := rs, allowMissing := am == "1", skew := sk }
  return { inp := { header := (h.headD "").toList, verifier := fun _ => { err := err, info := info },
                    opts := opts, now := now },
           hasInfo := vi == "1" }

/-- `strconv.Quote` (what `%q` prints) for the strings the harness generates: ASCII, plus printable
non-ASCII runes which pass unchanged. -/
def goQuote (s : String) : String :=
  let esc (c : Char) : String :=
    if c == '"' then "\\\"" else if c == '\\' then "\\\\"
    else if c == '\x07' then "\\a" else if c == '\x08' then "\\b" else if c == '\x0c' then "\\f"
    else if c == '\n' then "\\n" else if c == '\r' then "\\r" else if c == '\t' then "\\t"
    else if c == '\x0b' then "\\v"
    else if c.toNat < 0x20 ∨ c.toNat == 0x7f then
      "\\x" ++ String.ofList [hexDigit (c.toNat / 16), hexDigit (c.toNat % 16)]
    else String.singleton c
  "\"" ++ String.join (s.toList.map esc) ++ "\""

def renderParam : Param String → String
  | .resourceMetadata u => Generated.Bearer.paramRM ++ "=" ++ goQuote u
  | .scope ss => Generated.Bearer.paramScope ++ "=" ++ goQuote (" ".intercalate ss)

def renderChallenge (ps : List (Param String)) : String := "Bearer " ++ ", ".intercalate (ps.map renderParam)

def modelObs (r : Req) : String :=
  let vt := match (verify r.inp).2 with
    | some t => s!"vc=1 vt={xs (String.ofList t)}"
    | none => "vc=0 vt=-"
  match serve r.inp with
  | .next _ => s!"st=299 ran=1 info=same {vt} www=- body={xs "inner"}"
  | .error code msg ch =>
    let www := match ch with
      | some ps => xs (renderChallenge ps)
      | none => "-"
    s!"st={code} ran=0 info=- {vt} www={www} body={xs (msg ++ "\n")}"

/-! ### The property monitor -/

inductive Want where
  | pass
  | reject (code : Nat) (cause : String)

/-- The property's credential clause, literally. -/
def specCredential (hdr : List Char) : Option (List Char) :=
  match fields hdr with
  | [sch, tok] => if lowerAscii sch == "bearer".toList then some tok else none
  | _ => none

/-- The property's verdict: admitted iff everything checks out, otherwise the status of the first
failing cause. -/
def specWant (i : Input String Unit) : Want :=
  match specCredential i.header with
  | none => .reject 401 "a missing or ill-formed credential"
  | some tok =>
    let r := i.verifier tok
    match r.err with
    | some e =>
      if e.isInvalid then .reject 401 "a verifier error that is an invalid-token error"
      else if e.isOAuth then .reject 400 "a verifier error that is an OAuth error"
      else .reject 500 "a verifier error of another kind"
    | none =>
      match r.info with
      | none => .reject 500 "a verifier that returns neither info nor error"
      | some inf =>
        let o : Opts String := match i.opts with
          | some o => o
          | none => { rm := "", scopes := [], allowMissing := false, skew := 0 }
        if !(o.scopes.all fun s => inf.scopes.elem s) then .reject 403 "a required scope that was not granted"
        else match inf.exp with
          | none => if o.allowMissing then .pass else .reject 401 "a missing expiration that is not allowed"
          | some e => if e + o.skew < i.now then .reject 401 "an expiration that elapsed beyond the skew" else .pass

def isInfix (p s : List Char) : Bool :=
  match s with
  | [] => p.isEmpty
  | _ :: t => p.isPrefixOf s || isInfix p t

def monitor (r : Req) (impl : String) : Option String :=
  let o := words impl
  match kv o "st", kv o "ran", kv o "info", kv o "vc", kv o "vt", kv o "www" with
  | some st, some ran, some info, some vc, some vt, some www =>
    let i := r.inp
    let want := specWant i
    let verdict : Option String :=
      match want, ran with
      | .pass, "1" =>
        if info == "same" then none
        else some s!"handler_sees_verifier_info: the handler found '{info}' in the request context, not the verifier's token info unchanged"
      | .pass, _ =>
        some s!"admit_iff: handler did not run (status {st}) although credential, verifier, scopes and expiry all check out"
      | .reject _ cause, "1" => some s!"admit_iff: handler ran despite {cause}"
      | .reject code cause, _ =>
        if st == toString code then none
        else some s!"status_by_cause: {cause} must be answered {code}, got {st}"
    let challenge : Option String :=
      let wl := (unxList www).getD ["?"]
      let expectParams : Option (List String) :=
        if st == "401" ∨ st == "403" then
          match i.opts with
          | none => some []
          | some op =>
            some ((if op.rm ≠ "" then ["resource_metadata=" ++ goQuote op.rm] else []) ++
                  (if op.scopes ≠ [] then ["scope=" ++ goQuote (" ".intercalate op.scopes)] else []))
        else if ran == "1" then none else some []
      match expectParams with
      | none => none
      | some [] =>
        if wl.isEmpty then none
        else some s!"challenge_on_401_403: a WWW-Authenticate header although the status is {st}, the options are nil or nothing is configured"
      | some ps =>
        match wl with
        | [w] =>
          if w.startsWith "Bearer " ∧ ps.all (fun p => isInfix p.toList w.toList) ∧
             (i.opts.any (fun op => op.rm == "") → !isInfix "resource_metadata".toList w.toList) ∧
             (i.opts.any (fun op => op.scopes.isEmpty) → !isInfix "scope=".toList w.toList) then none
          else some "challenge_on_401_403: the challenge does not carry exactly the configured resource_metadata / scope parameters"
        | _ => some s!"challenge_on_401_403: expected one WWW-Authenticate value on {st}, found {wl.length}"
    let called : Option String :=
      match specCredential i.header with
      | none => if vc == "0" then none else some "verifier_called_iff: verifier consulted without a well-formed credential"
      | some tok =>
        if vc == "1" ∧ vt == xs (String.ofList tok) then none
        else some "verifier_called_iff: verifier not consulted exactly once with the credential's token"
    verdict <|> challenge <|> called
  | _, _, _, _, _, _ => some s!"bad-observation: {impl}"

def engine : Engine Unit where
  init := ()
  step _ toks impl :=
    match toks with
    | ["reset"] => ((), { model := "ok" })
    | "req" :: rest =>
      match parseReq rest with
      | none => ((), { model := "bad-op" })
      | some r => ((), { model := modelObs r, violated := monitor r impl })
    | _ => ((), { model := "bad-op" })

end Bearer

def main : IO Unit := Proto.run Bearer.engine
