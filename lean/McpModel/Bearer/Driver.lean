import McpModel.Base.Proto
import McpModel.Bearer.Session
/-!
Driver for E10 (C14).  One record = one request through the real `RequireBearerToken` closure.

op tokens (all `key=value`; strings hex-encoded with an `x` prefix, lists comma-separated, `-` = none/empty):
  `req h=<Authorization values | -> ve=<- | two bits: errors.Is(ErrInvalidToken) errors.Is(ErrOAuth)>
       vm=<err.Error()> vi=<0|1 info non-nil> gs=<granted scopes> ex=<z | ns after the request started>
       op=<n nil options | s> rm=<url> rs=<required scopes> am=<0|1> sk=<skew ns>
       now=<ns after the request started at which the verifier returns>`   (further tokens are ignored)
  optional: `nl=<n>` stacked middlewares, outermost first; the keys above describe the outermost, the same
       keys with suffix `.k` (k = 1..n-1) the k-th behind it (`now.k` = ns after the request started at which
       that verifier returns); `up=1 ugs=<scopes> uex=<z|ns>`: the incoming request context already carries
       a TokenInfo (tag `up`); `tr=<rec|wire>` how the response was observed (ignored here)
observation:
  `st=<status> ran=<0|1 final handler> info=<per middleware: what the handler directly behind it found in the
   context: L<j> (the unchanged info of middleware j's verifier) | up | nil | other | changed<j> | - (not run)>
   vc=<per middleware: verifier calls> vt=<per middleware: token of the last call | ->
   www=<WWW-Authenticate values of the response AS SENT | -> late=<values in the writer's header map afterwards
   that were not sent | -> body=<response body>`
The final handler of the harness answers 299 with body "inner"; between two middlewares sits a probe
that only records what it finds in the request context.

Sessions (Session.lean), multi-record cases:
  `reset` | `mw op= rm= rs= am= sk= nh=<handlers that exist>`  a value RequireBearerToken(verifier, opts) (several `mw`
    records: several values side by side, numbered from 0; nh is read from the first)
  | `wrap hd=<j> mv=<v>`  the next wrapper mw_v(h_j) (numbered in creation order; mv defaults to 0)
  | `sreq w=<wrapper> g=<group> at=<entry ns> cx=<ns at which the request's context is cancelled | -> h= ve= … now=`
    one request through wrapper w; the option keys repeat the `mw` record and are NOT read (the value's are used);
    `me= pa= dc=` (method, path and query, decoy headers) are not read either: the model's request has no such
    parts.  Observation: that of a `req` with one middleware (info: L0 = the info the verifier built for THIS request)
    followed by `hr=<per handler: runs for this request>`.

This file is the STRING LAYER only: token parser (`parseReq`, `parseObs`, incl. reading a
`WWW-Authenticate` value into its auth-params), renderer (`renderObs`) and clause texts (`Clause.text`).
The model line is `Bearer.obsOf` (Monitor.lean: `visits`/`stack`/`sentBy`) rendered; the monitor is
`Bearer.monitor` (Monitor.lean), bridged to the model by Bridge.lean (`monitor_accepts_model`) and to
the property text by Sound.lean (`sound_<clause>`, `monitor_complete`).  The string layer is checked at
run time on every record: the model's observation must survive rendering and parsing
(`LIBDISC render/parse` otherwise).
-/
namespace Bearer
open Proto

def kv (toks : List String) (k : String) : Option String :=
  toks.findSome? fun t => if t.startsWith (k ++ "=") then some ((t.drop (k.length + 1)).toString) else none

def unx (s : String) : Option String :=
  if s.startsWith "x" then hexToString ((s.drop 1).toString) else none

def unxList (s : String) : Option (List String) :=
  if s == "-" then some [] else (s.splitOn ",").mapM unx

def xs (s : String) : String := "x" ++ stringToHex s

def xsList (l : List String) : String := if l.isEmpty then "-" else ",".intercalate (l.map xs)

/-! ### Parsing the op tokens into a `Req` -/

/-- One middleware: the keys `ve vm vi gs ex op rm rs am sk now`, with suffix `sfx` ("" for the
outermost, ".k" for the k-th behind it).  `floor` is the instant the previous verifier returned. -/
def parseScript (toks : List String) (sfx : String) (floor : Int) : Option Script := do
  let ve ← kv toks ("ve" ++ sfx)
  let vm ← (← kv toks ("vm" ++ sfx)) |> unx
  let vi ← kv toks ("vi" ++ sfx)
  let gs ← (← kv toks ("gs" ++ sfx)) |> unxList
  let ex ← kv toks ("ex" ++ sfx)
  let op ← kv toks ("op" ++ sfx)
  let rm ← (← kv toks ("rm" ++ sfx)) |> unx
  let rs ← (← kv toks ("rs" ++ sfx)) |> unxList
  let am ← kv toks ("am" ++ sfx)
  let sk ← (← kv toks ("sk" ++ sfx)).toInt?
  let now ← (← kv toks ("now" ++ sfx)).toInt?
  let exp : Option Int ← if ex == "z" then some none else ex.toInt?.map some
  let err : Option VErr ←
    if ve == "-" then some none
    else if ve.length == 2 then
      some (some { isInvalid := ve.startsWith "1", isOAuth := ve.endsWith "1", msg := vm })
    else none
  let info : Option (List String × Option Int) := if vi == "1" then some (gs, exp) else none
  let opts : Option (Opts String) :=
    if op == "n" then none else some { rm := rm, scopes := rs, allowMissing := am == "1", skew := sk }
  -- the scripted verifier sleeps until `now` after the request started (not at all if that is past)
  return { err := err, info := info, opts := opts, now := max now floor }

def parseScripts (toks : List String) : Nat → Nat → Int → Option (List Script)
  | 0, _, _ => some []
  | n + 1, k, floor => do
    let l ← parseScript toks (if k == 0 then "" else s!".{k}") floor
    let rest ← parseScripts toks n (k + 1) l.now
    return l :: rest

def parseReq (toks : List String) : Option Req := do
  let h ← (← kv toks "h") |> unxList
  let nl ← match kv toks "nl" with
    | none => some 1
    | some v => v.toNat?
  if nl == 0 ∨ nl > 8 then none
  let scripts ← parseScripts toks nl 0 0
  let up : Option (List String × Option Int) ←
    match kv toks "up" with
    | some "1" => do
      let ugs ← (← kv toks "ugs") |> unxList
      let uex ← kv toks "uex"
      let exp : Option Int ← if uex == "z" then some none else uex.toInt?.map some
      some (some (ugs, exp))
    | _ => some none
  return Req.ofScript (h.headD "").toList scripts up

/-! ### `WWW-Authenticate` values -/

/-- `strconv.Quote` (what `%q` prints) for the strings the harness generates: ASCII, plus printable
non-ASCII runes which pass unchanged. -/
def goQuote (s : String) : String :=
  let esc (c : Char) : String :=
    if c == '"' then "\\\"" else if c == '\\' then "\\\\"
    else if c == '\x07' then "\\a" else if c == '\x08' then "\\b" else if c == '\x0c' then "\\f"
    else if c == '\n' then "\\n" else if c == '\r' then "\\r" else if c == '\t' then "\\t"
    else if c == '\x0b' then "\\v"
    else if c.toNat < 0x20 ∨ c.toNat == 0x7f then
      "\\x" ++ String.ofList [hexDigit (c.toNat / 16), hexDigit (c.toNat % 16)]
    else String.singleton c
  "\"" ++ String.join (s.toList.map esc) ++ "\""

def hexVal (c : Char) : Option Nat :=
  if '0' ≤ c ∧ c ≤ '9' then some (c.toNat - '0'.toNat)
  else if 'a' ≤ c ∧ c ≤ 'f' then some (c.toNat - 'a'.toNat + 10)
  else if 'A' ≤ c ∧ c ≤ 'F' then some (c.toNat - 'A'.toNat + 10)
  else none

def hexNum (cs : List Char) : Option Nat :=
  cs.foldlM (fun acc c => (hexVal c).map fun d => acc * 16 + d) 0

/-- The inverse of `%q` from just behind the opening quote: the value and what follows the closing
quote.  Escapes: `\a \b \f \n \r \t \v \\ \" \xHH \uHHHH \UHHHHHHHH`. -/
def goUnquote : List Char → List Char → Option (List Char × List Char)
  | [], _ => none
  | '"' :: rest, acc => some (acc.reverse, rest)
  | '\\' :: 'x' :: a :: b :: rest, acc =>
    match hexNum [a, b] with
    | some n => goUnquote rest (Char.ofNat n :: acc)
    | none => none
  | '\\' :: 'u' :: a :: b :: c :: d :: rest, acc =>
    match hexNum [a, b, c, d] with
    | some n => goUnquote rest (Char.ofNat n :: acc)
    | none => none
  | '\\' :: 'U' :: a :: b :: c :: d :: e :: f :: g :: h :: rest, acc =>
    match hexNum [a, b, c, d, e, f, g, h] with
    | some n => goUnquote rest (Char.ofNat n :: acc)
    | none => none
  | '\\' :: c :: rest, acc =>
    let r : Option Char :=
      if c == 'a' then some '\x07' else if c == 'b' then some '\x08' else if c == 'f' then some '\x0c'
      else if c == 'n' then some '\n' else if c == 'r' then some '\r' else if c == 't' then some '\t'
      else if c == 'v' then some '\x0b' else if c == '\\' then some '\\' else if c == '"' then some '"'
      else none
    match r with
    | some x => goUnquote rest (x :: acc)
    | none => none
  | c :: rest, acc => goUnquote rest (c :: acc)

def isNameChar (c : Char) : Bool := c != '=' && c != ',' && c != ' ' && c != '\t' && c != '"'

def skipBlank (cs : List Char) : List Char := cs.dropWhile fun c => c == ' ' || c == '\t'

/-- The auth-params `name="value"` (or `name=token`), separated by commas and optional blanks.
`fuel` bounds the number of parameters. -/
def parseParams : Nat → List Char → Option (List (String × String))
  | 0, _ => none
  | fuel + 1, cs =>
    let cs := skipBlank cs
    let name := cs.takeWhile isNameChar
    if name.isEmpty then none else
    match cs.dropWhile isNameChar with
    | '=' :: '"' :: rest =>
      match goUnquote rest [] with
      | none => none
      | some (v, rest) =>
        match skipBlank rest with
        | [] => some [(String.ofList name, String.ofList v)]
        | ',' :: more => (parseParams fuel more).map ((String.ofList name, String.ofList v) :: ·)
        | _ => none
    | '=' :: rest =>
      let v := rest.takeWhile isNameChar
      match skipBlank (rest.dropWhile isNameChar) with
      | [] => some [(String.ofList name, String.ofList v)]
      | ',' :: more => (parseParams fuel more).map ((String.ofList name, String.ofList v) :: ·)
      | _ => none
    | _ => none

/-- Read one `WWW-Authenticate` value. -/
def parseWVal (s : String) : WVal :=
  if s.startsWith "Bearer " then
    let cs := (s.drop 7).toString.toList
    match parseParams (cs.length + 1) cs with
    | some ps => .chal ps
    | none => .raw s
  else .raw s

def renderWVal : WVal → String
  | .chal ps => "Bearer " ++ ", ".intercalate (ps.map fun p => p.1 ++ "=" ++ goQuote p.2)
  | .raw s => s

/-! ### The observation -/

def csv (l : List String) : String := ",".intercalate l

def renderTag : Tag → String
  | .L k => s!"L{k}"
  | .up => "up"

def renderSeen : Seen → String
  | .notRun => "-"
  | .found t => renderTag t
  | .nil => "nil"
  | .changed w => "changed" ++ w
  | .other s => s

def parseSeen (s : String) : Seen :=
  if s == "-" then .notRun
  else if s == "nil" then .nil
  else if s == "up" then .found .up
  else if s.startsWith "changed" then .changed (s.drop 7).toString
  else if s.startsWith "L" then
    match (s.drop 1).toString.toNat? with
    | some k => .found (.L k)
    | none => .other s
  else .other s

def renderObs (o : Obs) : String :=
  let infos := o.layers.map fun l => renderSeen l.seen
  let vcs := o.layers.map fun l => toString l.calls
  let vts := o.layers.map fun l => match l.token with
    | some t => xs (String.ofList t)
    | none => "-"
  s!"st={o.status} ran={o.ran} info={csv infos} vc={csv vcs} vt={csv vts} www={xsList (o.www.map renderWVal)} late={xsList (o.late.map renderWVal)} body={xs o.body}"

def splitObs (s : String) : List String := if s == "" then [] else s.splitOn ","

def parseObs (impl : String) : Option Obs := do
  let o := words impl
  let st ← (← kv o "st").toNat?
  let ran ← (← kv o "ran").toNat?
  let infos := splitObs (← kv o "info")
  let vcs ← (splitObs (← kv o "vc")).mapM (·.toNat?)
  let vts ← (splitObs (← kv o "vt")).mapM fun t =>
    if t == "-" then some none else (unx t).map fun s => some s.toList
  let www ← (← kv o "www") |> unxList
  let late ← (← kv o "late") |> unxList
  let body := ((kv o "body").bind unx).getD ""
  if infos.length ≠ vcs.length ∨ infos.length ≠ vts.length then none
  let layers : List LObs := (infos.zip (vcs.zip vts)).map fun (a, b, c) => { seen := parseSeen a, calls := b, token := c }
  return { status := st, ran := ran, layers := layers, www := www.map parseWVal, late := late.map parseWVal, body := body }

/-! ### Clause texts (the monitor itself is Monitor.lean) -/

def Cause.text : Cause → String
  | .noCredential => "a missing or ill-formed credential"
  | .invalidToken => "a verifier error that is an invalid-token error"
  | .oauthError => "a verifier error that is an OAuth error"
  | .otherError => "a verifier error of another kind"
  | .nilInfo => "a verifier that returns neither info nor error"
  | .scope => "a required scope that was not granted"
  | .missingExp => "a missing expiration that is not allowed"
  | .expired => "an expiration that elapsed beyond the skew"

/-- `n`: the number of stacked middlewares of the record; `impl`: the observation as received. -/
def Clause.text (n : Nat) (impl : String) (c : Clause) : String :=
  let at_ (k : Nat) : String := if n ≤ 1 then "" else s!" [middleware {k + 1} of {n}, outermost first]"
  match c with
  | .malformed => s!"bad-observation: {impl}"
  | .ranInconsistent ran => s!"admit_iff: the final handler ran {ran} time(s), inconsistent with what it recorded"
  | .notRun k st => s!"admit_iff: handler did not run (status {st}) although credential, verifier, scopes and expiry all check out{at_ k}"
  | .ranDespite k cause => s!"admit_iff: handler ran despite {cause.text}{at_ k}"
  | .behindReached k => s!"admit_iff: a middleware behind the rejecting one was reached{at_ k}"
  | .wrongInfo k seen =>
    let what := match seen with
      | .found .up => "the TokenInfo that was already in the incoming request's context"
      | .nil => "no TokenInfo"
      | .found (.L j) => s!"the TokenInfo of an enclosing middleware's verifier (L{j})"
      | .changed _ => "a TokenInfo whose contents were altered"
      | s => s!"'{renderSeen s}'"
    s!"handler_sees_verifier_info: the handler found {what} in the request context, not the token info its own middleware's verifier returned for this request unchanged{at_ k}"
  | .wrongStatus k cause st => s!"status_by_cause: {cause.text} must be answered {cause.code}, got {st}{at_ k}"
  | .calledWithout k => s!"verifier_called_iff: verifier consulted without a well-formed credential{at_ k}"
  | .notCalledOnce k => s!"verifier_called_iff: verifier not consulted exactly once with the credential's token{at_ k}"
  | .chalUnexpected st => s!"challenge_on_401_403: a WWW-Authenticate header although the status is {st}, the options are nil or nothing is configured"
  | .chalUnexpectedLate st => s!"challenge_on_401_403: a WWW-Authenticate header put into the header map (after the response was written) although the status is {st}, the options are nil or nothing is configured"
  | .chalFurtherLate st => s!"challenge_on_401_403: a further WWW-Authenticate value was added to the header map after the {st} response had been written"
  | .chalWrong => "challenge_on_401_403: the challenge does not carry exactly the configured resource_metadata / scope parameters"
  | .chalCount st cnt => s!"challenge_on_401_403: expected one WWW-Authenticate value on {st}, found {cnt}"
  | .chalLateOnly st => s!"challenge_on_401_403: the {st} response as sent carries no WWW-Authenticate challenge: it was added to the header map only after the status line and headers had been written"

/-- Run-time self-check of the string layer: the model's observation must survive rendering and parsing. -/
def selfCheck (m : Obs) : Option String :=
  if parseObs (renderObs m) == some m then none
  else some "LIBDISC render/parse: the model's observation does not survive the string layer"

/-! ### Sessions: one middleware value, applications, histories of requests (Session.lean) -/

/-- Driver state of a case: the middleware value of the `mw` record (if any) and the number of handlers. -/
structure DState where
  world : World String := { vals := [], wrappers := [] }
  nh : Nat := 0

def SClause.text (impl : String) : SClause → String
  | .malformedRuns => s!"bad-observation: {impl}"
  | .strayHandler made j => s!"admit_iff: the request went through the wrapper made for handler {made}, but handler {j} ran: a handler wrapped by the middleware runs only for requests sent to ITS wrapper"
  | .base c => Clause.text 1 impl c ++ " [one middleware value: earlier and concurrent requests and other wrapped handlers must not matter]"

def renderSObs (o : SObs) : String :=
  renderObs o.obs ++ " hr=" ++ csv (o.hr.map toString)

def parseSObs (impl : String) : Option SObs := do
  let o ← parseObs impl
  let hr ← (splitObs (← kv (words impl) "hr")).mapM (·.toNat?)
  return { obs := o, hr := hr }

def stepSreq (st : DState) (toks : List String) (impl : String) : Proto.Verdict :=
    let wd := st.world
    let parsed : Option (Nat × Req) := do
      let w ← (← kv toks "w").toNat?
      let (v, made) ← wd.wrappers[w]?
      let opts ← wd.vals[v]?
      let at_ ← (← kv toks "at").toInt?
      let h ← (← kv toks "h") |> unxList
      let sc ← parseScript toks "" at_
      let sc := sc.withCancel at_ ((kv toks "cx").bind (·.toInt?))
      return (made, Req.ofSession opts (h.headD "").toList sc)
    match parsed with
    | none => { model := "bad-op" }
    | some (made, r) =>
      match sessObsOf st.nh made r with
      | none => { model := "nothing-written", violated := some "LIBDISC the model writes no response" }
      | some m =>
        let viol : Option String :=
          match parseSObs impl with
          | none => some s!"bad-observation: {impl}"
          | some o => (sessMonitor st.nh made r o).map (SClause.text impl)
        let self : Option String :=
          if parseSObs (renderSObs m) == some m then none
          else some "LIBDISC render/parse: the model's observation does not survive the string layer"
        { model := renderSObs m, violated := viol <|> self }

def engine : Engine DState where
  init := {}
  step st toks impl :=
    match toks with
    | ["reset"] => ({}, { model := "ok" })
    | "mw" :: rest =>
      let parsed : Option (Option (Opts String) × Nat) := do
        let op ← kv rest "op"
        let rm ← (← kv rest "rm") |> unx
        let rs ← (← kv rest "rs") |> unxList
        let am ← kv rest "am"
        let sk ← (← kv rest "sk").toInt?
        let nh ← (← kv rest "nh").toNat?
        return (if op == "n" then none else some { rm := rm, scopes := rs, allowMissing := am == "1", skew := sk }, nh)
      match parsed with
      | some (opts, nh) =>
        ({ world := (st.world.step (α := Tag) (.make opts)).1, nh := if st.world.vals.isEmpty then nh else st.nh }, { model := "ok" })
      | none => (st, { model := "bad-op" })
    | "wrap" :: rest =>
      let v := ((kv rest "mv").bind (·.toNat?)).getD 0
      match (kv rest "hd").bind (·.toNat?) with
      | some j =>
        if j < st.nh ∧ v < st.world.vals.length then
          ({ st with world := (st.world.step (α := Tag) (.wrap v j)).1 }, { model := "ok" })
        else (st, { model := "bad-op" })
      | none => (st, { model := "bad-op" })
    | "sreq" :: rest => (st, stepSreq st rest impl)
    | "req" :: rest =>
      match parseReq rest with
      | none => (st, { model := "bad-op" })
      | some r =>
        match obsOf r with
        | none => (st, { model := "nothing-written", violated := some "LIBDISC the model writes no response" })
        | some m =>
          let viol : Option String :=
            match parseObs impl with
            | none => some s!"bad-observation: {impl}"
            | some o => (monitor r o).map (Clause.text r.layers.length impl)
          (st, { model := renderObs m, violated := viol <|> selfCheck m })
    | _ => (st, { model := "bad-op" })

end Bearer

def main : IO Unit := Proto.run Bearer.engine
