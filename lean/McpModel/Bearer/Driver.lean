import McpModel.Base.Proto
import McpModel.Bearer.Model
/-!
Driver for E10 (C14).  One record = one request through the real `RequireBearerToken` closure.

op tokens (all `key=value`; strings hex-encoded with an `x` prefix, lists comma-separated, `-` = none/empty):
  `req h=<Authorization values | -> ve=<- | two bits: errors.Is(ErrInvalidToken) errors.Is(ErrOAuth)>
       vm=<err.Error()> vi=<0|1 info non-nil> gs=<granted scopes> ex=<z | ns after the request started>
       op=<n nil options | s> rm=<url> rs=<required scopes> am=<0|1> sk=<skew ns>
       now=<ns after the request started at which the verifier returns>`   (further tokens are ignored)
  optional: `nl=<n>` stacked middlewares, outermost first; the keys above describe the outermost, the same
       keys with suffix `.k` (k = 1..n-1) the k-th behind it (`now.k` = ns after the request started at which
       that verifier returns); `up=1 ugs=<scopes> uex=<z|ns>`: the incoming request context already carries
       a TokenInfo (tag `up`); `tr=<rec|wire>` how the response was observed (ignored here)
observation:
  `st=<status> ran=<0|1 final handler> info=<per middleware: what the handler directly behind it found in the
   context: L<j> (the unchanged info of middleware j's verifier) | up | nil | other | changed<j> | - (not run)>
   vc=<per middleware: verifier calls> vt=<per middleware: token of the last call | ->
   www=<WWW-Authenticate values of the response AS SENT | -> late=<values in the writer's header map afterwards
   that were not sent | -> body=<response body>`
The final handler of the harness answers 299 with body "inner"; between two middlewares sits a probe
that only records what it finds in the request context.

The model line is `Bearer.serve` rendered; the monitor is the property itself, written with literal
statuses and names, independent of the regenerated constants and of `Bearer.verify`.
-/
namespace Bearer
open Proto

def kv (toks : List String) (k : String) : Option String :=
  toks.findSome? fun t => if t.startsWith (k ++ "=") then some ((t.drop (k.length + 1)).toString) else none

def unx (s : String) : Option String :=
  if s.startsWith "x" then hexToString ((s.drop 1).toString) else none

def unxList (s : String) : Option (List String) :=
  if s == "-" then some [] else (s.splitOn ",").mapM unx

def xs (s : String) : String := "x" ++ stringToHex s

def xsList (l : List String) : String := if l.isEmpty then "-" else ",".intercalate (l.map xs)

structure Req where
  hdr : List Char
  layers : List (Layer String String)   -- outermost first; a layer's info carries the tag `L<k>`
  ctx : Ctx String String               -- the incoming request context (tag `up`)

/-- One middleware: the keys `ve vm vi gs ex op rm rs am sk now`, with suffix `sfx` ("" for the
outermost, ".k" for the k-th behind it).  `floor` is the instant the previous verifier returned. -/
def parseLayer (toks : List String) (sfx tag : String) (floor : Int) : Option (Layer String String) := do
  let ve ← kv toks ("ve" ++ sfx)
  let vm ← (← kv toks ("vm" ++ sfx)) |> unx
  let vi ← kv toks ("vi" ++ sfx)
  let gs ← (← kv toks ("gs" ++ sfx)) |> unxList
  let ex ← kv toks ("ex" ++ sfx)
  let op ← kv toks ("op" ++ sfx)
  let rm ← (← kv toks ("rm" ++ sfx)) |> unx
  let rs ← (← kv toks ("rs" ++ sfx)) |> unxList
  let am ← kv toks ("am" ++ sfx)
  let sk ← (← kv toks ("sk" ++ sfx)).toInt?
  let now ← (← kv toks ("now" ++ sfx)).toInt?
  let exp : Option Int ← if ex == "z" then some none else ex.toInt?.map some
  let err : Option VErr ←
    if ve == "-" then some none
    else if ve.length == 2 then
      some (some { isInvalid := ve.startsWith "1", isOAuth := ve.endsWith "1", msg := vm })
    else none
  let info : Option (Info String String) := if vi == "1" then some { scopes := gs, exp := exp, extra := tag } else none
  let opts : Option (Opts String) :=
    if op == "n" then none else some { rm := rm, scopes := rs, allowMissing := am == "1", skew := sk }
  -- the scripted verifier sleeps until `now` after the request started (not at all if that is past)
  return { verifier := fun _ _ => { err := err, info := info }, opts := opts, now := max now floor }

def parseLayers (toks : List String) : Nat → Nat → Int → Option (List (Layer String String))
  | 0, _, _ => some []
  | n + 1, k, floor => do
    let l ← parseLayer toks (if k == 0 then "" else s!".{k}") s!"L{k}" floor
    let rest ← parseLayers toks n (k + 1) l.now
    return l :: rest

def parseReq (toks : List String) : Option Req := do
  let h ← (← kv toks "h") |> unxList
  let nl ← match kv toks "nl" with
    | none => some 1
    | some v => v.toNat?
  if nl == 0 ∨ nl > 8 then none
  let layers ← parseLayers toks nl 0 0
  let ctx : Ctx String String ←
    match kv toks "up" with
    | some "1" => do
      let ugs ← (← kv toks "ugs") |> unxList
      let uex ← kv toks "uex"
      let exp : Option Int ← if uex == "z" then some none else uex.toInt?.map some
      some [{ scopes := ugs, exp := exp, extra := "up" }]
    | _ => some []
  return { hdr := (h.headD "").toList, layers := layers, ctx := ctx }

/-- `strconv.Quote` (what `%q` prints) for the strings the harness generates: ASCII, plus printable
non-ASCII runes which pass unchanged. -/
def goQuote (s : String) : String :=
  let esc (c : Char) : String :=
    if c == '"' then "\\\"" else if c == '\\' then "\\\\"
    else if c == '\x07' then "\\a" else if c == '\x08' then "\\b" else if c == '\x0c' then "\\f"
    else if c == '\n' then "\\n" else if c == '\r' then "\\r" else if c == '\t' then "\\t"
    else if c == '\x0b' then "\\v"
    else if c.toNat < 0x20 ∨ c.toNat == 0x7f then
      "\\x" ++ String.ofList [hexDigit (c.toNat / 16), hexDigit (c.toNat % 16)]
    else String.singleton c
  "\"" ++ String.join (s.toList.map esc) ++ "\""

def renderParam : Param String → String
  | .resourceMetadata u => Generated.Bearer.paramRM ++ "=" ++ goQuote u
  | .scope ss => Generated.Bearer.paramScope ++ "=" ++ goQuote (" ".intercalate ss)

def renderChallenge (ps : List (Param String)) : String := "Bearer " ++ ", ".intercalate (ps.map renderParam)

def csv (l : List String) : String := ",".intercalate l

def modelObs (r : Req) : String :=
  let vs := visits r.hdr r.layers r.ctx
  let n := r.layers.length
  let pad (l : List String) (d : String) : List String := l ++ List.replicate (n - l.length) d
  let infos := pad (vs.map fun v => match v.resp with
    | .next info => info.extra
    | .error _ _ _ => "-") "-"
  let vcs := pad (vs.map fun v => if v.token.isSome then "1" else "0") "0"
  let vts := pad (vs.map fun v => match v.token with
    | some t => xs (String.ofList t)
    | none => "-") "-"
  let mid := s!"info={csv infos} vc={csv vcs} vt={csv vts}"
  match stack r.hdr r.layers r.ctx with
  | .handler _ => s!"st=299 ran=1 {mid} www=- late=- body={xs "inner"}"
  | .error code msg ch =>
    -- the response as sent (`sentBy`), not the header map
    match sentBy (rejectCalls code msg ch) with
    | some sent => s!"st={sent.status} ran=0 {mid} www={xsList (sent.challenges.map renderChallenge)} late=- body={xs sent.body}"
    | none => "nothing-written"

/-! ### The property monitor -/

inductive Want where
  | pass
  | reject (code : Nat) (cause : String)

/-- The property's credential clause, literally. -/
def specCredential (hdr : List Char) : Option (List Char) :=
  match fields hdr with
  | [sch, tok] => if lowerAscii sch == "bearer".toList then some tok else none
  | _ => none

/-- The property's verdict: admitted iff everything checks out, otherwise the status of the first
failing cause. -/
def specWant (i : Input String String) : Want :=
  match specCredential i.header with
  | none => .reject 401 "a missing or ill-formed credential"
  | some tok =>
    let r := i.verifier tok
    match r.err with
    | some e =>
      if e.isInvalid then .reject 401 "a verifier error that is an invalid-token error"
      else if e.isOAuth then .reject 400 "a verifier error that is an OAuth error"
      else .reject 500 "a verifier error of another kind"
    | none =>
      match r.info with
      | none => .reject 500 "a verifier that returns neither info nor error"
      | some inf =>
        let o : Opts String := match i.opts with
          | some o => o
          | none => { rm := "", scopes := [], allowMissing := false, skew := 0 }
        if !(o.scopes.all fun s => inf.scopes.elem s) then .reject 403 "a required scope that was not granted"
        else match inf.exp with
          | none => if o.allowMissing then .pass else .reject 401 "a missing expiration that is not allowed"
          | some e => if e + o.skew < i.now then .reject 401 "an expiration that elapsed beyond the skew" else .pass

def isInfix (p s : List Char) : Bool :=
  match s with
  | [] => p.isEmpty
  | _ :: t => p.isPrefixOf s || isInfix p t

/-- What the harness saw of one middleware: what the handler directly behind it found in the
request context (`-`: that handler did not run), how often its verifier was called, with which token. -/
structure LObs where
  info : String
  vc : String
  vt : String

/-- The challenge clause, on the `WWW-Authenticate` values of the response AS SENT (`www`); `late`
are the values found in the writer's header map afterwards that were not sent. -/
def challengeClause (opts : Option (Opts String)) (admitted : Bool) (st www late : String) : Option String :=
  let wl := (unxList www).getD ["?"]
  let ll := (unxList late).getD ["?"]
  let expectParams : List String :=
    if !admitted ∧ (st == "401" ∨ st == "403") then
      match opts with
      | none => []
      | some op =>
        (if op.rm ≠ "" then ["resource_metadata=" ++ goQuote op.rm] else []) ++
        (if op.scopes ≠ [] then ["scope=" ++ goQuote (" ".intercalate op.scopes)] else [])
    else []
  match expectParams with
  | [] =>
    if !wl.isEmpty then
      some s!"challenge_on_401_403: a WWW-Authenticate header although the status is {st}, the options are nil or nothing is configured"
    else if !ll.isEmpty then
      some s!"challenge_on_401_403: a WWW-Authenticate header put into the header map (after the response was written) although the status is {st}, the options are nil or nothing is configured"
    else none
  | ps =>
    match wl with
    | [w] =>
      if !ll.isEmpty then some s!"challenge_on_401_403: a further WWW-Authenticate value was added to the header map after the {st} response had been written"
      else if w.startsWith "Bearer " ∧ ps.all (fun p => isInfix p.toList w.toList) ∧
         (opts.any (fun op => op.rm == "") → !isInfix "resource_metadata".toList w.toList) ∧
         (opts.any (fun op => op.scopes.isEmpty) → !isInfix "scope=".toList w.toList) then none
      else some "challenge_on_401_403: the challenge does not carry exactly the configured resource_metadata / scope parameters"
    | [] =>
      if ll.isEmpty then some s!"challenge_on_401_403: expected one WWW-Authenticate value on {st}, found 0"
      else some s!"challenge_on_401_403: the {st} response as sent carries no WWW-Authenticate challenge: it was added to the header map only after the status line and headers had been written"
    | _ => some s!"challenge_on_401_403: expected one WWW-Authenticate value on {st}, found {wl.length}"

/-- The property, middleware by middleware (outermost first).  `k` is the index of the head of the
list, `n` the number of stacked middlewares, `head` what `TokenInfoFromContext` yields on the
request entering this middleware. -/
def walk (n : Nat) (hdr : List Char) (st www late : String) :
    Nat → List (Layer String String × LObs) → Ctx String String → Option String
  | _, [], _ => none
  | k, (l, o) :: rest, ctx =>
    let at_ := if n ≤ 1 then "" else s!" [middleware {k + 1} of {n}, outermost first]"
    let i := l.input hdr ctx
    let called : Option String :=
      match specCredential hdr with
      | none => if o.vc == "0" then none else some s!"verifier_called_iff: verifier consulted without a well-formed credential{at_}"
      | some tok =>
        if o.vc == "1" ∧ o.vt == xs (String.ofList tok) then none
        else some s!"verifier_called_iff: verifier not consulted exactly once with the credential's token{at_}"
    match specWant i with
    | .pass =>
      let mine := s!"L{k}"
      if o.info == "-" then
        some s!"admit_iff: handler did not run (status {st}) although credential, verifier, scopes and expiry all check out{at_}"
      else if o.info != mine then
        let what :=
          if o.info == "up" then "the TokenInfo that was already in the incoming request's context"
          else if o.info == "nil" then "no TokenInfo"
          else if o.info.startsWith "L" then s!"the TokenInfo of an enclosing middleware's verifier ({o.info})"
          else if o.info.startsWith "changed" then "a TokenInfo whose contents were altered"
          else s!"'{o.info}'"
        some s!"handler_sees_verifier_info: the handler found {what} in the request context, not the token info its own middleware's verifier returned for this request unchanged{at_}"
      else
        let here : Option String :=
          if rest.isEmpty then challengeClause l.opts true st www late else none
        here <|> called <|>
          (match (l.verifier ctx ((specCredential hdr).getD [])).info with
           | some inf => walk n hdr st www late (k + 1) rest (inf :: ctx)
           | none => none)
    | .reject code cause =>
      let verdict : Option String :=
        if o.info != "-" then some s!"admit_iff: handler ran despite {cause}{at_}"
        else if st == toString code then none
        else some s!"status_by_cause: {cause} must be answered {code}, got {st}{at_}"
      let behind : Option String :=
        if rest.all (fun p => p.2.vc == "0" ∧ p.2.info == "-") then none
        else some s!"admit_iff: a middleware behind the rejecting one was reached{at_}"
      verdict <|> challengeClause l.opts false st www late <|> called <|> behind

def splitObs (s : String) : List String := if s == "" then [] else s.splitOn ","

def monitor (r : Req) (impl : String) : Option String :=
  let o := words impl
  match kv o "st", kv o "ran", kv o "info", kv o "vc", kv o "vt", kv o "www", kv o "late" with
  | some st, some ran, some info, some vc, some vt, some www, some late =>
    let infos := splitObs info
    let vcs := splitObs vc
    let vts := splitObs vt
    let n := r.layers.length
    if infos.length ≠ n ∨ vcs.length ≠ n ∨ vts.length ≠ n then some s!"bad-observation: {impl}"
    else
      let obs : List LObs := (infos.zip (vcs.zip vts)).map fun (a, b, c) => { info := a, vc := b, vt := c }
      let lastRan := (infos.getLast?.getD "-") != "-"
      if (ran == "1") != lastRan ∨ (ran != "0" ∧ ran != "1") then
        some s!"admit_iff: the final handler ran {ran} time(s), inconsistent with what it recorded"
      else walk n r.hdr st www late 0 (r.layers.zip obs) r.ctx
  | _, _, _, _, _, _, _ => some s!"bad-observation: {impl}"

def engine : Engine Unit where
  init := ()
  step _ toks impl :=
    match toks with
    | ["reset"] => ((), { model := "ok" })
    | "req" :: rest =>
      match parseReq rest with
      | none => ((), { model := "bad-op" })
      | some r => ((), { model := modelObs r, violated := monitor r impl })
    | _ => ((), { model := "bad-op" })

end Bearer

def main : IO Unit := Proto.run Bearer.engine
