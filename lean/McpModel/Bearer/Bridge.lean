import McpModel.Bearer.Props
import McpModel.Bearer.Monitor
/-!
# Bridge between the C14 monitor and the model (E10)

`monitor_accepts_model`: for EVERY request — any `Authorization` value, any number of stacked
middlewares with any verifiers (functions of the request context and the token), options, instants,
any incoming request context — whose `TokenInfo` values carry their identities (`Req.Tagged`: what
the verifier of middleware `k` returns is tagged `L k`; this is what the harness's pointer comparison
reports), the monitor of Monitor.lean raises no clause on the observation the model produces
(`obsOf`: `visits`/`stack`/`sentBy`).  The proof goes through the property theorems of Props.lean
(`admit_iff`, `status_by_cause`, `verifier_called_iff`, `challenge_on_401_403`, `challenge_sent`):
the monitor's reading of a middleware (`specWant`) is the property's own vocabulary
(`specWant_pass_iff`: `Layer.Admits`; `specWant_reject_iff`: `Rejects`, the first failing cause).

Found by attempting this proof on the former string-level monitor: its challenge test looked for the
NAMES `resource_metadata` / `scope=` anywhere in the header value, so it raised
`challenge_on_401_403: the challenge does not carry exactly …` on a correct response whenever a
required scope or the metadata URL merely contains such a name (`old_challenge_test_false_alarm`,
reproduced on the real middleware: corpus/bearer/param-lookalikes.ops).  The monitor now reads the
value into its auth-params (`WVal.chal`) and compares the values carried under the two names.
-/
namespace Bearer
open Generated.Bearer

/-! ## The monitor's reading is the property's vocabulary -/

theorem specCredential_some (hdr tok : List Char) : specCredential hdr = some tok ↔ Credential hdr tok := by
  have hb : "bearer".toList = ['b', 'e', 'a', 'r', 'e', 'r'] := by decide
  simp only [specCredential, Credential, hb]
  generalize fields hdr = fs
  match fs with
  | [] => simp
  | [a] => simp
  | [a, b] =>
    by_cases h : lowerAscii a = ['b', 'e', 'a', 'r', 'e', 'r']
    · simp only [h, beq_self_eq_true, if_true, Option.some.injEq, List.cons.injEq, and_true]
      constructor
      · intro hb; exact ⟨a, ⟨rfl, hb⟩, h⟩
      · rintro ⟨sch, ⟨_, hb⟩, _⟩; exact hb
    · have hne : (lowerAscii a == ['b', 'e', 'a', 'r', 'e', 'r']) = false := by simpa using h
      simp only [hne, Bool.false_eq_true, if_false, List.cons.injEq, and_true]
      constructor
      · intro hb; cases hb
      · rintro ⟨sch, ⟨ha, _⟩, hl⟩; subst ha; exact absurd hl h
  | a :: b :: c :: r => simp

theorem specCredential_none (hdr : List Char) : specCredential hdr = none ↔ ¬ ∃ tok, Credential hdr tok := by
  constructor
  · rintro h ⟨tok, ht⟩
    rw [(specCredential_some hdr tok).2 ht] at h; cases h
  · intro h
    cases hc : specCredential hdr with
    | none => rfl
    | some tok => exact absurd ⟨tok, (specCredential_some hdr tok).1 hc⟩ h

/-- `c` is the first failing cause of the request `i`, in the order of the property
(`status_by_cause`): written with `Credential`, the verifier's outcome, `eff` and the expiry clause. -/
def Rejects {σ α : Type} (i : Input σ α) : Cause → Prop
  | .noCredential => ¬ ∃ tok, Credential i.header tok
  | .invalidToken => ∃ tok e, Credential i.header tok ∧ (i.verifier tok).err = some e ∧ e.isInvalid = true
  | .oauthError => ∃ tok e, Credential i.header tok ∧ (i.verifier tok).err = some e ∧
      e.isInvalid = false ∧ e.isOAuth = true
  | .otherError => ∃ tok e, Credential i.header tok ∧ (i.verifier tok).err = some e ∧
      e.isInvalid = false ∧ e.isOAuth = false
  | .nilInfo => ∃ tok, Credential i.header tok ∧ (i.verifier tok).err = none ∧ (i.verifier tok).info = none
  | .scope => ∃ tok info, Credential i.header tok ∧ (i.verifier tok).err = none ∧
      (i.verifier tok).info = some info ∧ ∃ s ∈ (eff i.opts).scopes, s ∉ info.scopes
  | .missingExp => ∃ tok info, Credential i.header tok ∧ (i.verifier tok).err = none ∧
      (i.verifier tok).info = some info ∧ (∀ s ∈ (eff i.opts).scopes, s ∈ info.scopes) ∧
      info.exp = none ∧ (eff i.opts).allowMissing = false
  | .expired => ∃ tok info e, Credential i.header tok ∧ (i.verifier tok).err = none ∧
      (i.verifier tok).info = some info ∧ (∀ s ∈ (eff i.opts).scopes, s ∈ info.scopes) ∧
      info.exp = some e ∧ e + (eff i.opts).skew < i.now

/-- The conditions of `admit_iff`. -/
def AdmitsIn {σ α : Type} (i : Input σ α) (info : Info σ α) : Prop :=
  ∃ tok, Credential i.header tok ∧
    (i.verifier tok).err = none ∧ (i.verifier tok).info = some info ∧
    (∀ s ∈ (eff i.opts).scopes, s ∈ info.scopes) ∧ Unexpired info.exp (eff i.opts) i.now

theorem Layer.admits_input {σ α : Type} (l : Layer σ α) (hdr : List Char) (ctx : Ctx σ α) (info : Info σ α) :
    AdmitsIn (l.input hdr ctx) info ↔ l.Admits hdr ctx info := Iff.rfl

/-- The effective options the monitor computes are `eff`. -/
theorem specOpts_eq (o : Option (Opts String)) :
    (match o with
      | some o => o
      | none => ({ rm := "", scopes := [], allowMissing := false, skew := 0 } : Opts String)) = eff o := by
  cases o <;> rfl

theorem scopes_all_iff (req gr : List String) :
    (req.all fun s => gr.elem s) = true ↔ ∀ s ∈ req, s ∈ gr := by
  simp [List.all_eq_true]

/-- The outcome of `specWant`, computed: what the monitor reads once the credential is known. -/
theorem specWant_of_credential (i : Input String Tag) (tok : List Char) (hc : Credential i.header tok) :
    specWant i =
      match (i.verifier tok).err with
      | some e => if e.isInvalid then .reject .invalidToken else if e.isOAuth then .reject .oauthError
                  else .reject .otherError
      | none =>
        match (i.verifier tok).info with
        | none => .reject .nilInfo
        | some inf =>
          if !((eff i.opts).scopes.all fun s => inf.scopes.elem s) then .reject .scope
          else match inf.exp with
            | none => if (eff i.opts).allowMissing then .pass inf else .reject .missingExp
            | some e => if e + (eff i.opts).skew < i.now then .reject .expired else .pass inf := by
  have h := (specCredential_some _ _).2 hc
  cases i with
  | mk hdr ver opts now =>
    cases opts <;> simp only [specWant, h] <;> rfl

theorem Want.pass_inj {a b : Info String Tag} (h : Want.pass a = Want.pass b) : a = b := by
  cases h; rfl

theorem specWant_pass_iff (i : Input String Tag) (info : Info String Tag) :
    specWant i = .pass info ↔ AdmitsIn i info := by
  cases hc : specCredential i.header with
  | none =>
    have hn := (specCredential_none _).1 hc
    simp only [specWant, hc]
    constructor
    · intro h; cases h
    · rintro ⟨tok, h, _⟩; exact absurd ⟨tok, h⟩ hn
  | some tok =>
    have hcr := (specCredential_some _ _).1 hc
    rw [specWant_of_credential i tok hcr]
    constructor
    · intro h
      refine ⟨tok, hcr, ?_⟩
      cases he : (i.verifier tok).err with
      | some e => rw [he] at h; simp only [] at h; split at h <;> (try split at h) <;> cases h
      | none =>
        rw [he] at h; simp only [] at h
        cases hi : (i.verifier tok).info with
        | none => rw [hi] at h; cases h
        | some inf =>
          rw [hi] at h; simp only [] at h
          split at h
          · cases h
          · rename_i hs
            have hs' : ∀ s ∈ (eff i.opts).scopes, s ∈ inf.scopes := by
              apply (scopes_all_iff _ _).1
              simpa using hs
            cases hx : inf.exp with
            | none =>
              rw [hx] at h; simp only [] at h
              split at h
              · rename_i ha
                have := Want.pass_inj h; subst this
                exact ⟨rfl, rfl, hs', by simp only [Unexpired, hx]; exact ha⟩
              · cases h
            | some e =>
              rw [hx] at h; simp only [] at h
              split at h
              · cases h
              · rename_i hlt
                have := Want.pass_inj h; subst this
                exact ⟨rfl, rfl, hs', by simp only [Unexpired, hx]; exact hlt⟩
    · rintro ⟨t, ht, he, hi, hs, hu⟩
      have : t = tok := Credential.unique ht hcr
      subst this
      have hs' : ((eff i.opts).scopes.all fun s => info.scopes.elem s) = true := (scopes_all_iff _ _).2 hs
      rw [he]; simp only []; rw [hi]; simp only [hs', Bool.not_true, Bool.false_eq_true, if_false]
      cases hx : info.exp with
      | none =>
        simp only [Unexpired, hx] at hu
        simp only [hu, if_true]
      | some e =>
        simp only [Unexpired, hx] at hu
        simp only [hu, if_false]

theorem specWant_of_rejects (i : Input String Tag) (c : Cause) (h : Rejects i c) : specWant i = .reject c := by
  cases c <;> simp only [Rejects] at h
  case noCredential =>
    simp only [specWant, (specCredential_none _).2 h]
  case invalidToken =>
    obtain ⟨tok, e, hcr, he, h1⟩ := h
    rw [specWant_of_credential i tok hcr, he]; simp only [h1, if_true]
  case oauthError =>
    obtain ⟨tok, e, hcr, he, h1, h2⟩ := h
    rw [specWant_of_credential i tok hcr, he]; simp only [h1, h2, Bool.false_eq_true, if_false, if_true]
  case otherError =>
    obtain ⟨tok, e, hcr, he, h1, h2⟩ := h
    rw [specWant_of_credential i tok hcr, he]; simp only [h1, h2, Bool.false_eq_true, if_false]
  case nilInfo =>
    obtain ⟨tok, hcr, he, hi⟩ := h
    rw [specWant_of_credential i tok hcr, he]; simp only []; rw [hi]
  case scope =>
    obtain ⟨tok, info, hcr, he, hi, s, hs1, hs2⟩ := h
    have hs' : ((eff i.opts).scopes.all fun s => info.scopes.elem s) = false := by
      cases hb : ((eff i.opts).scopes.all fun s => info.scopes.elem s) with
      | false => rfl
      | true => exact absurd ((scopes_all_iff _ _).1 hb s hs1) hs2
    rw [specWant_of_credential i tok hcr, he]; simp only []; rw [hi]; simp only [hs', Bool.not_false, if_true]
  case missingExp =>
    obtain ⟨tok, info, hcr, he, hi, hs, hx, ha⟩ := h
    have hs' := (scopes_all_iff _ _).2 hs
    rw [specWant_of_credential i tok hcr, he]; simp only []; rw [hi]
    simp only [hs', Bool.not_true, Bool.false_eq_true, if_false, hx, ha]
  case expired =>
    obtain ⟨tok, info, e, hcr, he, hi, hs, hx, hlt⟩ := h
    have hs' := (scopes_all_iff _ _).2 hs
    rw [specWant_of_credential i tok hcr, he]; simp only []; rw [hi]
    simp only [hs', Bool.not_true, Bool.false_eq_true, if_false, hx, hlt, if_true]

theorem rejects_of_specWant (i : Input String Tag) (c : Cause) (h : specWant i = .reject c) : Rejects i c := by
  cases hc : specCredential i.header with
  | none =>
    simp only [specWant, hc] at h
    cases h; exact (specCredential_none _).1 hc
  | some tok =>
    have hcr := (specCredential_some _ _).1 hc
    rw [specWant_of_credential i tok hcr] at h
    cases he : (i.verifier tok).err with
    | some e =>
      rw [he] at h; simp only [] at h
      cases h1 : e.isInvalid <;> cases h2 : e.isOAuth <;>
        simp only [h1, h2, Bool.false_eq_true, if_false, if_true] at h <;> cases h
      · exact ⟨tok, e, hcr, he, h1, h2⟩
      · exact ⟨tok, e, hcr, he, h1, h2⟩
      · exact ⟨tok, e, hcr, he, h1⟩
      · exact ⟨tok, e, hcr, he, h1⟩
    | none =>
      rw [he] at h; simp only [] at h
      cases hi : (i.verifier tok).info with
      | none => rw [hi] at h; cases h; exact ⟨tok, hcr, he, hi⟩
      | some inf =>
        rw [hi] at h; simp only [] at h
        by_cases hs : ∀ s ∈ (eff i.opts).scopes, s ∈ inf.scopes
        · have hs' := (scopes_all_iff _ _).2 hs
          simp only [hs', Bool.not_true, Bool.false_eq_true, if_false] at h
          cases hx : inf.exp with
          | none =>
            rw [hx] at h; simp only [] at h
            cases ha : (eff i.opts).allowMissing
            · simp only [ha, Bool.false_eq_true, if_false] at h; cases h
              exact ⟨tok, inf, hcr, he, hi, hs, hx, ha⟩
            · simp only [ha, if_true] at h; cases h
          | some e =>
            rw [hx] at h; simp only [] at h
            by_cases hlt : e + (eff i.opts).skew < i.now
            · simp only [hlt, if_true] at h; cases h
              exact ⟨tok, inf, e, hcr, he, hi, hs, hx, hlt⟩
            · simp only [hlt, if_false] at h; cases h
        · have hs' : ((eff i.opts).scopes.all fun s => inf.scopes.elem s) = false := by
            cases hb : ((eff i.opts).scopes.all fun s => inf.scopes.elem s) with
            | false => rfl
            | true => exact absurd ((scopes_all_iff _ _).1 hb) hs
          simp only [hs', Bool.not_false, if_true] at h; cases h
          have hex : ∃ s ∈ (eff i.opts).scopes, s ∉ inf.scopes := by simpa using hs
          exact ⟨tok, inf, hcr, he, hi, hex⟩

/-- The monitor reads "rejected for cause `c`" exactly when `c` is the first failing cause. -/
theorem specWant_reject_iff (i : Input String Tag) (c : Cause) : specWant i = .reject c ↔ Rejects i c :=
  ⟨rejects_of_specWant i c, specWant_of_rejects i c⟩

/-! ## The model's answer to a rejected request -/

/-- The challenge decision of the property (`challenge_on_401_403`), as a list of parameters. -/
def dueParams (opts : Option (Opts String)) (code : Nat) : List (Param String) :=
  if code = 401 ∨ code = 403 then
    match opts with
    | none => []
    | some o => (if o.rm = "" then [] else [Param.resourceMetadata o.rm]) ++
                (if o.scopes = [] then [] else [Param.scope o.scopes])
  else []

/-- A request rejected for cause `c` is answered by the model with `c`'s status and, as the
challenge, exactly the due parameters (from `status_by_cause` and `challenge_on_401_403`). -/
theorem serve_of_rejects (i : Input String Tag) (c : Cause) (h : Rejects i c) :
    ∃ msg ch, serve i = .error c.code msg ch ∧
      ch.toList = (if dueParams i.opts c.code = [] then [] else [dueParams i.opts c.code]) := by
  have key : ∃ msg ch, serve i = .error c.code msg ch := by
    have sbc := status_by_cause i
    cases c <;> simp only [Rejects] at h
    case noCredential =>
      obtain ⟨msg, ch, h1, _⟩ := sbc.1 h
      exact ⟨msg, ch, h1⟩
    case invalidToken =>
      obtain ⟨tok, e, hcr, he, h1⟩ := h
      obtain ⟨ch, h2⟩ := (sbc.2 tok hcr).1 e he
      exact ⟨e.msg, ch, by rw [h2]; simp [h1, Cause.code]⟩
    case oauthError =>
      obtain ⟨tok, e, hcr, he, h1, h2⟩ := h
      obtain ⟨ch, h3⟩ := (sbc.2 tok hcr).1 e he
      exact ⟨e.msg, ch, by rw [h3]; simp [h1, h2, Cause.code]⟩
    case otherError =>
      obtain ⟨tok, e, hcr, he, h1, h2⟩ := h
      obtain ⟨ch, h3⟩ := (sbc.2 tok hcr).1 e he
      exact ⟨e.msg, ch, by rw [h3]; simp [h1, h2, Cause.code]⟩
    case nilInfo =>
      obtain ⟨tok, hcr, he, hi⟩ := h
      exact (sbc.2 tok hcr).2.1 he hi
    case scope =>
      obtain ⟨tok, info, hcr, he, hi, hs⟩ := h
      exact ((sbc.2 tok hcr).2.2 info he hi).1 hs
    case missingExp =>
      obtain ⟨tok, info, hcr, he, hi, hs, hx, ha⟩ := h
      refine ((sbc.2 tok hcr).2.2 info he hi).2 hs ?_
      simp only [Unexpired, hx, ha]; exact Bool.false_ne_true
    case expired =>
      obtain ⟨tok, info, e, hcr, he, hi, hs, hx, hlt⟩ := h
      refine ((sbc.2 tok hcr).2.2 info he hi).2 hs ?_
      simp only [Unexpired, hx]; exact fun hn => hn hlt
  obtain ⟨msg, ch, hs⟩ := key
  refine ⟨msg, ch, hs, ?_⟩
  rw [challenge_on_401_403 i c.code msg ch hs]
  simp only [dueParams]
  by_cases hc : c.code = 401 ∨ c.code = 403
  · simp only [hc, if_true]
    cases i.opts with
    | none => rfl
    | some o => by_cases h1 : o.rm = "" <;> by_cases h2 : o.scopes = [] <;> simp [h1, h2]
  · simp only [hc, if_false]; rfl

/-! ## The monitor accepts the model's observation -/

theorem kvOf_configured (opts : Option (Opts String)) (code : Nat) (hc : code = 401 ∨ code = 403) :
    (dueParams opts code).map kvOf = configured opts := by
  have hn : paramRM = "resource_metadata" ∧ paramScope = "scope" := challenge_param_names
  simp only [dueParams, hc, if_true, configured]
  cases opts with
  | none => rfl
  | some o => by_cases h1 : o.rm = "" <;> by_cases h2 : o.scopes = [] <;> simp [h1, h2, kvOf, hn.1, hn.2]

/-- The challenge clause is silent on the sent response the model produces for a rejection. -/
theorem challengeClause_accepts (opts : Option (Opts String)) (o : Obs)
    (hw : o.www = (if dueParams opts o.status = [] then [] else [dueParams opts o.status]).map
            fun ps => WVal.chal (ps.map kvOf))
    (hl : o.late = []) : challengeClause opts false o = none := by
  by_cases hc : o.status = 401 ∨ o.status = 403
  · have he : expectParams opts false o.status = (dueParams opts o.status).map kvOf := by
      rw [kvOf_configured opts _ hc]; simp [expectParams, hc]
    by_cases hd : dueParams opts o.status = []
    · simp only [challengeClause, he, hd, hl] at hw ⊢
      simp [hw]
    · have hne : ((dueParams opts o.status).map kvOf).isEmpty = false := by
        cases hq : dueParams opts o.status with
        | nil => exact absurd hq hd
        | cons a t => rfl
      simp only [hd, if_false, List.map_cons, List.map_nil] at hw
      simp only [challengeClause, he, hne, Bool.false_eq_true, if_false, hw, hl, List.isEmpty_nil,
        Bool.not_true, chalOk, beq_self_eq_true, Bool.and_self, if_true]
  · have he : expectParams opts false o.status = [] := by simp [expectParams, hc]
    have hd : dueParams opts o.status = [] := by simp [dueParams, hc]
    simp only [hd, if_true, List.map_nil] at hw
    simp [challengeClause, he, hw, hl]

/-- The identities: whatever the verifier of the `j`-th middleware of the list returns is tagged `L (k+j)`. -/
def Tagged : Nat → List (Layer String Tag) → Prop
  | _, [] => True
  | k, l :: ls => (∀ ctx tok info, (l.verifier ctx tok).info = some info → info.extra = Tag.L k) ∧ Tagged (k + 1) ls

/-- The domain of the bridge: the record's `TokenInfo` values carry their identities. -/
def Req.Tagged (r : Req) : Prop := Bearer.Tagged 0 r.layers

/-- The per-middleware observations of the model (as in `obsOf`). -/
def lobsFrom (hdr : List Char) (ls : List (Layer String Tag)) (ctx : Ctx String Tag) : List LObs :=
  (visits hdr ls ctx).map lobsOfVisit ++ List.replicate (ls.length - (visits hdr ls ctx).length) blankLObs

theorem lobsFrom_cons (hdr : List Char) (l : Layer String Tag) (ls : List (Layer String Tag)) (ctx : Ctx String Tag) :
    lobsFrom hdr (l :: ls) ctx =
      lobsOfVisit { ctxIn := ctx, token := (verify (l.input hdr ctx)).2, resp := serve (l.input hdr ctx) } ::
        (match serve (l.input hdr ctx) with
         | .next info => lobsFrom hdr ls (info :: ctx)
         | .error _ _ _ => List.replicate ls.length blankLObs) := by
  simp only [lobsFrom, visits]
  cases serve (l.input hdr ctx) with
  | next info => simp [withTokenInfo]
  | error c m ch => simp

theorem lobsFrom_length (hdr : List Char) (ls : List (Layer String Tag)) (ctx : Ctx String Tag) :
    (lobsFrom hdr ls ctx).length = ls.length := by
  induction ls generalizing ctx with
  | nil => rfl
  | cons l ls ih =>
    rw [lobsFrom_cons]
    cases serve (l.input hdr ctx) with
    | next info => simp [ih]
    | error c m ch => simp

/-- The response part of an observation is the one the model sends for this outcome. -/
def Answers (o : Obs) : Outcome String Tag → Prop
  | .handler _ => o.www = [] ∧ o.late = []
  | .error code _ ch => o.status = code ∧ o.www = ch.toList.map (fun ps => WVal.chal (ps.map kvOf)) ∧ o.late = []

theorem calledClause_model (hdr : List Char) (l : Layer String Tag) (ctx : Ctx String Tag) (k : Nat) (s : Seen) :
    calledClause hdr k { seen := s, calls := if (verify (l.input hdr ctx)).2.isSome then 1 else 0,
                         token := (verify (l.input hdr ctx)).2 } = none := by
  simp only [calledClause]
  cases hc : specCredential hdr with
  | none =>
    have hn := (specCredential_none _).1 hc
    cases hv : (verify (l.input hdr ctx)).2 with
    | none => simp
    | some t => exact absurd ⟨t, (verifier_called_iff (l.input hdr ctx) t).1 hv⟩ hn
  | some tok =>
    have hv := (verifier_called_iff (l.input hdr ctx) tok).2 ((specCredential_some _ _).1 hc)
    simp [hv]

theorem untouched_blank (ls : List (Layer String Tag)) :
    untouched (ls.zip (List.replicate ls.length blankLObs)) = true := by
  simp only [untouched, List.all_eq_true]
  intro p hp
  have := (List.of_mem_zip hp).2
  rw [List.mem_replicate] at this
  rw [this.2]; rfl

/-- The walk is silent on the model's observation of any tagged chain. -/
theorem walk_accepts (hdr : List Char) (o : Obs) :
    ∀ (ls : List (Layer String Tag)) (k : Nat) (ctx : Ctx String Tag), Tagged k ls → Answers o (stack hdr ls ctx) →
      walk hdr o k (ls.zip (lobsFrom hdr ls ctx)) ctx = none := by
  intro ls
  induction ls with
  | nil => intro k ctx _ _; rfl
  | cons l ls ih =>
    intro k ctx ht ha
    rw [lobsFrom_cons]
    simp only [List.zip_cons_cons, walk, localClause]
    cases hw : specWant (l.input hdr ctx) with
    | pass inf =>
      have hadm := (specWant_pass_iff _ _).1 hw
      have hs : serve (l.input hdr ctx) = .next inf := (admit_iff _ _).2 hadm
      obtain ⟨tok, hcr, _, hi, _⟩ := hadm
      have htag : inf.extra = Tag.L k := ht.1 ctx tok inf hi
      simp only [stack, hs, withTokenInfo] at ha
      simp only [hs, lobsOfVisit, seenOf, htag]
      have hcall := calledClause_model hdr l ctx k (.found (.L k))
      simp only [reduceCtorEq, if_false, ne_eq, not_true_eq_false, hcall]
      have hrec := ih (k + 1) (inf :: ctx) ht.2 ha
      cases ls with
      | nil =>
        simp only [stack, Answers] at ha
        simp [challengeClause, expectParams, ha.1, ha.2, lobsFrom, visits, walk]
      | cons l' ls' =>
        rw [lobsFrom_cons] at hrec ⊢
        simp only [List.zip_cons_cons, List.isEmpty_cons, Bool.false_eq_true, if_false]
        simpa using hrec
    | reject c =>
      have hrej := (specWant_reject_iff _ _).1 hw
      obtain ⟨msg, ch, hs, hch⟩ := serve_of_rejects _ c hrej
      simp only [stack, hs, Answers] at ha
      obtain ⟨hst, hwww, hlate⟩ := ha
      simp only [hs, lobsOfVisit, seenOf]
      have hcall := calledClause_model hdr l ctx k .notRun
      have hchal : challengeClause l.opts false o = none := by
        apply challengeClause_accepts _ _ _ hlate
        rw [hwww, hch, hst]; rfl
      simp [hst, hchal, hcall, untouched_blank]

/-- The model always writes a response; its observation has one entry per middleware. -/
theorem obsOf_some (r : Req) : ∃ o, obsOf r = some o ∧ o.layers = lobsFrom r.hdr r.layers r.ctx ∧
    Answers o (stack r.hdr r.layers r.ctx) ∧
    ((∃ c, stack r.hdr r.layers r.ctx = .handler c) → o.ran = 1) ∧
    ((¬ ∃ c, stack r.hdr r.layers r.ctx = .handler c) → o.ran = 0) := by
  simp only [obsOf]
  cases hs : stack r.hdr r.layers r.ctx with
  | handler c => exact ⟨_, rfl, rfl, ⟨rfl, rfl⟩, fun _ => rfl, fun h => absurd ⟨c, rfl⟩ h⟩
  | error code msg ch =>
    cases ch with
    | none =>
      refine ⟨_, rfl, rfl, ⟨rfl, rfl, rfl⟩, ?_, fun _ => rfl⟩
      rintro ⟨_, h⟩; cases h
    | some ps =>
      refine ⟨_, rfl, rfl, ⟨rfl, rfl, rfl⟩, ?_, fun _ => rfl⟩
      rintro ⟨_, h⟩; cases h

/-- The final handler's record in the model's observation: it ran iff every middleware admitted. -/
theorem lastRan_model (hdr : List Char) :
    ∀ (ls : List (Layer String Tag)) (ctx : Ctx String Tag),
      ((match (lobsFrom hdr ls ctx).getLast? with
        | some ob => ob.seen != .notRun
        | none => true) = true) ↔ ∃ c, stack hdr ls ctx = .handler c := by
  intro ls
  induction ls with
  | nil => intro ctx; simp [lobsFrom, visits, stack]
  | cons l ls ih =>
    intro ctx
    rw [lobsFrom_cons]
    simp only [stack]
    cases hs : serve (l.input hdr ctx) with
    | next info =>
      simp only [withTokenInfo]
      rw [← ih (info :: ctx)]
      cases hl : lobsFrom hdr ls (info :: ctx) with
      | nil =>
        have := lobsFrom_length hdr ls (info :: ctx)
        rw [hl] at this
        have : ls = [] := List.length_eq_zero_iff.1 this.symm
        subst this
        simp [lobsOfVisit, seenOf]
      | cons a t => simp [List.getLast?_cons_cons]
    | error c m ch =>
      simp only [lobsOfVisit, seenOf]
      constructor
      · intro h
        exfalso
        cases ls with
        | nil => simp at h
        | cons a t =>
          simp only [List.length_cons, List.replicate_succ, List.getLast?_cons_cons] at h
          have : (blankLObs :: List.replicate t.length blankLObs).getLast? = some blankLObs := by
            rw [← List.replicate_succ, List.getLast?_replicate]; simp
          rw [this] at h
          simp [blankLObs] at h
      · rintro ⟨c', h⟩; cases h

/-- **monitor_accepts_model.** On the observation the model produces for ANY tagged request the
monitor raises no clause. -/
theorem monitor_accepts_model (r : Req) (ht : r.Tagged) : ∃ o, obsOf r = some o ∧ monitor r o = none := by
  obtain ⟨o, ho, hl, ha, hran1, hran0⟩ := obsOf_some r
  refine ⟨o, ho, ?_⟩
  have hlen : o.layers.length = r.layers.length := by rw [hl, lobsFrom_length]
  have hlast := lastRan_model r.hdr r.layers r.ctx
  rw [← hl] at hlast
  simp only [monitor, hlen, ne_eq, not_true_eq_false, if_false]
  have hcons : ¬ ((o.ran == 1) != lastRan o ∨ (o.ran ≠ 0 ∧ o.ran ≠ 1)) := by
    by_cases hh : ∃ c, stack r.hdr r.layers r.ctx = .handler c
    · have h1 : lastRan o = true := hlast.2 hh
      simp [hran1 hh, h1]
    · have h1 : lastRan o = false := by
        cases hb : lastRan o with
        | false => rfl
        | true => exact absurd (hlast.1 hb) hh
      simp [hran0 hh, h1]
  simp only [hcons, if_false]
  rw [hl]
  exact walk_accepts r.hdr o r.layers 0 r.ctx ht ha

/-! ## The domain is the harness's: scripted requests are tagged; the hypothesis is needed -/

theorem layersFrom_tagged : ∀ (ss : List Script) (k : Nat), Tagged k (layersFrom k ss) := by
  intro ss
  induction ss with
  | nil => intro k; trivial
  | cons s ss ih =>
    intro k
    refine ⟨?_, ih (k + 1)⟩
    intro ctx tok info h
    simp only [Script.layer] at h
    cases hi : s.info with
    | none => rw [hi] at h; cases h
    | some p => rw [hi] at h; cases h; rfl

/-- Every request the driver builds from a record is in the domain of `monitor_accepts_model`. -/
theorem ofScript_tagged (hdr : List Char) (ss : List Script) (up : Option (List String × Option Int)) :
    (Req.ofScript hdr ss up).Tagged := layersFrom_tagged ss 0

/-- Without the identities the statement fails: a verifier whose info is tagged like the value already
in the context is reported as `handler_sees_verifier_info` on the model's own observation. -/
theorem monitor_rejects_untagged_model :
    ∃ r o, obsOf r = some o ∧ monitor r o = some (.wrongInfo 0 (.found .up)) :=
  ⟨{ hdr := "Bearer t".toList
     layers := [{ verifier := fun _ _ => { err := none, info := some { scopes := [], exp := none, extra := .up } }
                  opts := some { rm := "", scopes := [], allowMissing := true, skew := 0 }, now := 0 }]
     ctx := [] }, _, rfl, by decide⟩

/-! ## The false alarm of the former challenge test -/

/-- A correct 403 challenge for the single required scope `resource_metadata` (no metadata URL
configured) — the value the model and the real middleware send — failed the string-level test
(no `resource_metadata` anywhere in the value when no URL is configured), and so did a correct 401
challenge whose metadata URL contains `scope=` when no scope is required.  The typed test accepts both. -/
theorem old_challenge_test_false_alarm :
    oldChalOk { rm := "", scopes := ["resource_metadata"], allowMissing := false, skew := 0 }
        ["scope=\"resource_metadata\"".toList] "Bearer scope=\"resource_metadata\"".toList = false ∧
    chalOk (configured (some { rm := "", scopes := ["resource_metadata"], allowMissing := false, skew := 0 }))
        (.chal [("scope", "resource_metadata")]) = true ∧
    oldChalOk { rm := "https://rs.example/prm?scope=a", scopes := [], allowMissing := false, skew := 0 }
        ["resource_metadata=\"https://rs.example/prm?scope=a\"".toList]
        "Bearer resource_metadata=\"https://rs.example/prm?scope=a\"".toList = false ∧
    chalOk (configured (some { rm := "https://rs.example/prm?scope=a", scopes := [], allowMissing := false, skew := 0 }))
        (.chal [("resource_metadata", "https://rs.example/prm?scope=a")]) = true := by
  refine ⟨by decide, by decide, by decide, by decide⟩

example : (Req.ofScript "Bearer t".toList
    [{ err := none, info := some (["a"], none), opts := none, now := 0 }] none).Tagged := ofScript_tagged _ _ _

end Bearer
