#!/usr/bin/env python3
"""Measure which statements of /repo the correspondence harnesses actually execute.

  tools/gocover.py [--tier quick|thorough] [--seed N] [--engines a,b,...] [--out facts/coverage.json]

For every stream of every engine (engines/*.json) the harness is built exactly as `./check` builds it
(`go1.26 test -c -tags verif -overlay …`) plus `-cover -coverpkg=<all SDK packages>`, run once with
`-test.coverprofile`, and the profiles are merged.  The result says, per non-test source file and per function
of the SDK, how many statements the harnesses of which engines reached.  It is a map of what the
correspondence can see — a function no harness reaches is "modelled at most, never compared" — and is
copied into DESIGN.md (table `coverage`) by tools/designtables.py.  It decides nothing: the drivers are not
run, only the Go side.  Python stdlib only; scratch files live under .build/cover and are removed.
"""
import sys, os, json, subprocess, re, glob, argparse, shutil, collections, time
from concurrent.futures import ThreadPoolExecutor

V = os.path.dirname(os.path.dirname(os.path.abspath(__file__)))
REPO = os.environ.get("VERIF_REPO", "/repo")
GOENV = dict(os.environ, GOFLAGS="-mod=readonly", GOPROXY="off", GOSUMDB="off", GOTOOLCHAIN="local")
GO = "go1.26"
MOD = "github.com/modelcontextprotocol/go-sdk"
PKGS = ["mcp", "internal/jsonrpc2", "auth", "oauthex", "internal/json", "internal/util", "internal/authutil",
        "internal/xcontext", "jsonrpc"]


def sh(cmd, cwd=None, env=None, timeout=3600):
    p = subprocess.run(cmd, cwd=cwd, env=env or GOENV, stdout=subprocess.PIPE, stderr=subprocess.STDOUT, text=True,
                       errors="replace", timeout=timeout)
    return p.returncode, p.stdout


def one(e, s, tmp, tier, seed):
    g = s.get("go") or e.get("go")
    key = "%s-%s" % (e["name"], s["name"])
    binp = os.path.join(tmp, key + ".test")
    ov = {"Replace": {}}
    pkgdir = g["pkg"].lstrip("./")
    for f in g["files"]:
        ov["Replace"][os.path.join(REPO, pkgdir, os.path.basename(f))] = os.path.join(V, f)
    for dst, src in g.get("extra_overlay", {}).items():
        ov["Replace"][os.path.join(REPO, dst)] = os.path.join(V, src)
    ovp = os.path.join(tmp, key + ".overlay.json")
    json.dump(ov, open(ovp, "w"))
    coverpkg = ",".join(MOD + "/" + p for p in PKGS)
    rc, out = sh([GO, "test", "-c", "-vet=off", "-tags", "verif", "-overlay", ovp, "-cover", "-covermode=set",
                  "-coverpkg=" + coverpkg, "-o", binp, g["pkg"]], cwd=REPO)
    if rc != 0:
        return key, None, "build failed: " + out[-400:]
    prof = os.path.join(tmp, key + ".prof")
    env = dict(GOENV, VERIF_OUT=os.path.join(tmp, key + ".rec"), VERIF_SEED=str(seed), VERIF_TIER=tier,
               VERIF_PROPERTY=(s.get("properties") or e.get("properties") or ["C00"])[0],
               VERIF_CORPUS=os.path.join(V, "corpus", e["name"]))
    tmo = s.get("timeout_thorough", 2400) if tier == "thorough" else s.get("timeout_quick", 600)
    t0 = time.time()
    rc, out = sh([binp, "-test.run", "^" + g["test"] + "$", "-test.count=1", "-test.timeout", "%ds" % tmo,
                  "-test.coverprofile", prof], cwd=os.path.join(REPO, pkgdir), env=env, timeout=tmo + 120)
    os.remove(binp)
    if not os.path.exists(prof):
        return key, None, "no profile (rc=%d): %s" % (rc, out[-300:])
    return key, prof, "rc=%d %.0fs" % (rc, time.time() - t0)


def funcs_of(path):
    """[(name, startline, endline)] of top-level funcs/methods, by a small brace-matching scan (good enough for gofmt'ed code)."""
    res, lines = [], open(path, errors="replace").read().split("\n")
    i = 0
    while i < len(lines):
        m = re.match(r"func (\([^)]*\) )?([A-Za-z_0-9]+)", lines[i])
        if m:
            recv = re.sub(r"^\(\w*\s*\*?|\)\s*$|\[.*\]", "", m.group(1) or "").strip()
            name = (recv + "." if recv else "") + m.group(2)
            j = i
            while j < len(lines) and lines[j] != "}" and not (j == i and lines[i].rstrip().endswith("}") and "{" in lines[i]):
                j += 1
            res.append((name, i + 1, j + 1))
            i = j
        i += 1
    return res


def main():
    ap = argparse.ArgumentParser()
    ap.add_argument("--tier", default="quick")
    ap.add_argument("--seed", type=int, default=1)
    ap.add_argument("--engines", default="")
    ap.add_argument("--out", default=os.path.join(V, "facts", "coverage.json"))
    ap.add_argument("--jobs", type=int, default=6)
    a = ap.parse_args()
    tmp = os.path.join(V, ".build", "cover")
    shutil.rmtree(tmp, ignore_errors=True)
    os.makedirs(tmp)
    engines = [json.load(open(p)) for p in sorted(glob.glob(os.path.join(V, "engines", "*.json")))]
    if a.engines:
        engines = [e for e in engines if e["name"] in a.engines.split(",")]
    jobs = [(e, s) for e in engines for s in e.get("streams", [])]
    # blocks[file][(sl,sc,el,ec,n)] = set(engines that hit it)
    blocks = collections.defaultdict(dict)
    status = {}
    with ThreadPoolExecutor(a.jobs) as ex:
        for (e, s), (key, prof, msg) in zip(jobs, ex.map(lambda j: one(j[0], j[1], tmp, a.tier, a.seed), jobs)):
            status[key] = msg
            print("[gocover]", key, msg, file=sys.stderr, flush=True)
            if not prof:
                continue
            for l in open(prof):
                m = re.match(r"(.+):(\d+)\.(\d+),(\d+)\.(\d+) (\d+) (\d+)$", l.strip())
                if not m:
                    continue
                f = m.group(1)
                if not f.startswith(MOD + "/"):
                    continue
                f = f[len(MOD) + 1:]
                if f.endswith("_test.go") or "/verif_o" in f:
                    continue
                k = tuple(int(x) for x in m.group(2, 3, 4, 5, 6))
                hit = blocks[f].setdefault(k, set())
                if int(m.group(7)) > 0:
                    hit.add(e["name"])
    doc = {"tier": a.tier, "seed": a.seed, "streams": status, "files": {}}
    tot = cov = 0
    for f in sorted(blocks):
        bl = blocks[f]
        n = sum(k[4] for k in bl)
        c = sum(k[4] for k, h in bl.items() if h)
        tot += n
        cov += c
        fdoc = {"statements": n, "reached": c, "functions_unreached": [], "functions_partial": []}
        src = os.path.join(REPO, f)
        if os.path.exists(src):
            for name, sl, el in funcs_of(src):
                inb = [(k, h) for k, h in bl.items() if sl <= k[0] <= el]
                fn = sum(k[4] for k, _ in inb)
                fc = sum(k[4] for k, h in inb if h)
                if fn and fc == 0:
                    fdoc["functions_unreached"].append("%s (%d)" % (name, fn))
                elif fn and fc < fn:
                    fdoc["functions_partial"].append("%s %d/%d" % (name, fc, fn))
        by = collections.Counter()
        for k, h in bl.items():
            for en in h:
                by[en] += k[4]
        fdoc["by_engine"] = dict(sorted(by.items()))
        doc["files"][f] = fdoc
    doc["total"] = {"statements": tot, "reached": cov}
    json.dump(doc, open(a.out, "w"), indent=1, sort_keys=True)
    shutil.rmtree(tmp, ignore_errors=True)
    print("[gocover] %d of %d statements reached (%.1f%%) -> %s" % (cov, tot, 100.0 * cov / max(tot, 1), a.out))


if __name__ == "__main__":
    main()
