#!/bin/sh
# tools/seedlane.sh <PID>:<srcdir>:<seed-id> ...   — confirm + check new seeded changes one after another
# (run inside a `vp run` snapshot; artefacts and meta.json go to /verif/seeded via SEED_DEST)
export SEED_DEST=/verif/seeded
for t in "$@"; do
  pid=${t%%:*}; rest=${t#*:}; src=${rest%%:*}; sid=${rest#*:}
  tools/seedcheck.py "$pid" "$src" "$sid" auto ./... 2>&1 | tail -2
done
