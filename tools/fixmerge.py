#!/usr/bin/env python3
"""After merging an engine branch: normalise the additive files (lakefile exe list, root imports)."""
import re
p='lean/lakefile.toml'
s=open(p).read()
names=re.findall(r'name = "(drv_[a-z0-9_]+)"\s*\nroot = "([A-Za-z0-9_.]+)"',s)
head='name = "McpModel"\nversion = "0.1.0"\ndefaultTargets = ["McpModel"]\n\n[[lean_lib]]\nname = "McpModel"\n'
seen=[]
for n,r in names:
    if n not in [x[0] for x in seen]: seen.append((n,r))
open(p,'w').write(head+''.join('\n[[lean_exe]]\nname = "%s"\nroot = "%s"\n'%(n,r) for n,r in seen))
p='lean/McpModel.lean'
keep=[]
for l in open(p).read().split('\n'):
    if l.startswith('import') and l.endswith('.Driver'): continue
    if l in keep and l.startswith('import'): continue
    keep.append(l)
open(p,'w').write('\n'.join(keep))
print(len(seen),'drivers')
