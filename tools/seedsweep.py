#!/usr/bin/env python3
"""Re-run the quick checks against seeded changes that are already confirmed (seeded/<id>/patch.diff).

  tools/seedsweep.py [--out FILE] [--also] <seed-id> ...      (or `all`, or a property id such as C07)

For every seed: scratch worktree of /repo with the patch applied, `VERIF_REPO=<wt> ./check <PID> --tier quick`
for the seed's own property (with --also: every property recorded under meta.json:checks), worktree removed.
Results go to FILE (JSON, one entry per seed; default .build/sweep.json) — meta.json is only rewritten with
--write-meta. Meant to run inside a `vp run` snapshot (which has its own lean/ and .build/), several
snapshots in parallel on disjoint seed lists: two checks in ONE /verif directory would race on the
regenerated files.
"""
import sys, os, subprocess, json, re, time, glob

V = os.path.dirname(os.path.dirname(os.path.abspath(__file__)))
ENV = dict(os.environ, GOFLAGS="-mod=readonly", GOPROXY="off", GOSUMDB="off", GOTOOLCHAIN="local")


def sh(cmd, cwd=None, timeout=3600):
    p = subprocess.run(cmd, shell=True, cwd=cwd, env=ENV, stdout=subprocess.PIPE, stderr=subprocess.STDOUT, text=True, timeout=timeout)
    return p.returncode, p.stdout


def one(sid, pids, tag):
    d = os.path.join(V, "seeded", sid)
    rw = "/tmp/sw-%s-%s" % (tag, sid)
    sh("git -C /repo worktree remove --force %s" % rw)
    rc, out = sh("git -C /repo worktree add -q %s HEAD" % rw)
    assert rc == 0, out
    res = {}
    try:
        rc, out = sh("git apply %s" % os.path.join(d, "patch.diff"), cwd=rw)
        if rc != 0:
            return {"error": "patch does not apply: " + out[-300:]}
        for p in pids:
            t0 = time.time()
            rc, out = sh("VERIF_REPO=%s ./check %s --tier quick" % (rw, p), cwd=V)
            vio = [l for l in out.splitlines() if l.startswith("VIOLATION")]
            r = {"exit": rc, "violation_line": vio[0] if vio else None, "wall_s": round(time.time() - t0, 1)}
            if vio:
                m = re.search(r"replay=(\S+)", vio[0])
                if m and os.path.exists(m.group(1)):
                    try:
                        doc = json.load(open(m.group(1)))
                        r["kind"] = doc.get("kind")
                        r["clause"] = (doc.get("monitor") or {}).get("violated_clause")
                        r["broken_obligations"] = [b if isinstance(b, str) else b.get("name") for b in doc.get("broken_obligations", [])][:6]
                    except Exception:
                        pass
            if rc not in (0, 1):
                r["tail"] = out[-600:]
            res[p] = r
    finally:
        sh("git -C /repo worktree remove --force %s" % rw)
    return res


def main():
    args = sys.argv[1:]
    outp, also, wm = os.path.join(V, ".build", "sweep.json"), False, False
    while args and args[0].startswith("--"):
        a = args.pop(0)
        if a == "--out":
            outp = args.pop(0)
        elif a == "--also":
            also = True
        elif a == "--write-meta":
            wm = True
    ids = []
    allids = sorted(os.path.basename(os.path.dirname(p)) for p in glob.glob(os.path.join(V, "seeded", "*", "patch.diff")))
    for a in args:
        if a == "all":
            ids += allids
        elif re.fullmatch(r"C\d\d", a):
            ids += [i for i in allids if i.startswith(a + "-")]
        else:
            ids.append(a)
    tag = str(os.getpid())
    os.makedirs(os.path.dirname(outp), exist_ok=True)
    allres = {}
    for sid in ids:
        extra = []
        if ":" in sid:          # <seed-id>:C09,C11 — also run these properties' checks
            sid, ex = sid.split(":", 1)
            extra = ex.split(",")
        mp = os.path.join(V, "seeded", sid, "meta.json")
        meta = json.load(open(mp)) if os.path.exists(mp) else {"property": sid[:3], "checks": {}}
        pids = [meta["property"]]
        if also:
            pids += [p for p in meta.get("checks", {}) if p not in pids]
        pids += [p for p in extra if p not in pids]
        res = one(sid, pids, tag)
        allres[sid] = res
        json.dump(allres, open(outp, "w"), indent=1)
        own = res.get(meta["property"], {})
        print(sid, "exit=%s" % own.get("exit"), (own.get("violation_line") or "")[-60:], (own.get("clause") or "")[:120], flush=True)
        if wm and "error" not in res:
            meta.setdefault("checks", {}).update(res)
            meta["detected"] = any(v["exit"] == 1 for v in meta["checks"].values())
            meta["detected_with_failing_input"] = any(v["exit"] == 1 and v.get("violation_line") and "no-failing-input-found" not in v["violation_line"] for v in meta["checks"].values())
            json.dump(meta, open(mp, "w"), indent=1)
    sh("git checkout -- evidence", cwd=V)


if __name__ == "__main__":
    main()
