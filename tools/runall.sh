#!/bin/sh
# tools/runall.sh [tier] — every property's check, one after another (two checks in one /verif dir must not overlap)
cd "$(dirname "$0")/.."
tier=${1:-quick}
for i in 01 02 03 04 05 06 07 08 09 10 11 12 13 14 15 16 17 18 19 20; do
  ./check C$i --tier $tier 2>&1 | grep -E "^(VIOLATION|KNOWN-FINDING|\[check\] C)" | cut -c1-300
done
