#!/usr/bin/env python3
"""Confirm a seeded change and run the checks against it.

  tools/seedcheck.py <PID> <src-dir with patch.diff, demo_test.go, notes.md> <seed-id> <pkgdir for demo> [test packages...]

1. in a scratch worktree of /repo: demo passes without the patch; with the patch the code builds, the
   existing tests of the given packages pass, and the demo fails;
2. copies the artefacts to /verif/seeded/<seed-id>/;
3. applies the patch to /repo, runs ./check <PID> --tier quick, reverts /repo;
4. writes meta.json (what it breaks is taken from notes.md's first lines).
"""
import sys, os, subprocess, shutil, json, re, time

V = os.path.dirname(os.path.dirname(os.path.abspath(__file__)))
ENV = dict(os.environ, GOFLAGS="-mod=readonly", GOPROXY="off", GOSUMDB="off", GOTOOLCHAIN="local")


def sh(cmd, cwd=None, timeout=1800):
    p = subprocess.run(cmd, shell=True, cwd=cwd, env=ENV, stdout=subprocess.PIPE, stderr=subprocess.STDOUT, text=True, timeout=timeout)
    return p.returncode, p.stdout


def main():
    pid, src, sid, pkgdir = sys.argv[1:5]
    if pkgdir == "auto":
        m = re.search(r"^PACKAGE:\s*(\S+)", open(os.path.join(src, "notes.md")).read(), re.M)
        pkgdir = m.group(1).strip("./") if m else "mcp"
    pkgs = sys.argv[5:] or ["./" + pkgdir + "/"]
    also = os.environ.get("SEED_ALSO", "").split()   # further properties to run the checks for
    wt = "/tmp/sc-" + sid
    sh("git -C /repo worktree remove --force %s" % wt)
    rc, out = sh("git -C /repo worktree add -q %s HEAD" % wt)
    assert rc == 0, out
    meta = {"id": sid, "property": pid, "ran": []}
    try:
        demo = os.path.join(src, "demo_test.go")
        dst = os.path.join(wt, pkgdir, "zz_seed_demo_test.go")
        shutil.copy(demo, dst)
        names = re.findall(r"^func (Test\w+)\(", open(demo).read(), re.M)
        run = "go1.26 test ./%s/ -count=1 -run '^(%s)$'" % (pkgdir, "|".join(names))
        rc0, out0 = sh(run, cwd=wt)
        meta["demo_without_change"] = "pass" if rc0 == 0 else "FAIL"
        rc, out = sh("git apply %s" % os.path.join(src, "patch.diff"), cwd=wt)
        assert rc == 0, out
        rc, out = sh("go1.26 build ./...", cwd=wt)
        meta["builds"] = rc == 0
        rc1, out1 = sh(run, cwd=wt)
        meta["demo_with_change"] = "fail" if rc1 != 0 else "PASS(unexpected)"
        os.remove(dst)
        rc2, out2 = sh("go1.26 test %s -count=1" % " ".join(pkgs), cwd=wt)
        if rc2 != 0:
            # the repository has tests that fail now and then on a loaded machine on the UNCHANGED tree as well
            # (TestStreamableStateful_DiscoverDoesNotLeakSession: 1-6 % at the baseline commit): re-run the
            # failing tests alone; they count as passing if 5 of 5 re-runs pass
            failed = sorted(set(re.findall(r"^--- FAIL: (\w+)", out2, re.M)))
            fpk = sorted(set(re.findall(r"^FAIL\s+(\S+)\s", out2, re.M)))
            if failed and fpk and not re.search(r"^panic:|\[build failed\]", out2, re.M):
                pk = " ".join("./" + f.split("go-sdk/", 1)[1] + "/" if "go-sdk/" in f else "./" for f in fpk)
                rc3, out3 = sh("go1.26 test %s -count=5 -run '^(%s)$'" % (pk, "|".join(failed)), cwd=wt)
                meta["existing_tests_rerun"] = {"tests": failed, "result": "pass 5/5" if rc3 == 0 else "FAIL"}
                if rc3 == 0:
                    rc2 = 0
        meta["existing_tests_with_change"] = "pass" if rc2 == 0 else "FAIL"
        meta["ran"] += [run + " (without / with change)", "go1.26 test %s -count=1 (with change)" % " ".join(pkgs)]
        if rc2 != 0:
            meta["existing_tests_output"] = out2[-1500:]
    finally:
        sh("git -C /repo worktree remove --force %s" % wt)
    d = os.path.join(os.environ.get("SEED_DEST", os.path.join(V, "seeded")), sid)   # SEED_DEST: when run from a `vp run` snapshot, write to /verif/seeded
    os.makedirs(d, exist_ok=True)
    for f in ("patch.diff", "demo_test.go", "notes.md"):
        if os.path.exists(os.path.join(src, f)):
            shutil.copy(os.path.join(src, f), os.path.join(d, f))
    notes = open(os.path.join(src, "notes.md")).read() if os.path.exists(os.path.join(src, "notes.md")) else ""
    meta["needs_to_manifest"] = notes[:1200]
    # run the checks against it: in a scratch worktree (VERIF_REPO), so that concurrent runs against
    # /repo are not disturbed; equivalent to `git -C /repo apply` … `git -C /repo checkout -- .`
    rw = "/tmp/sc-" + sid + "-run"
    sh("git -C /repo worktree remove --force %s" % rw)
    rc, out = sh("git -C /repo worktree add -q %s HEAD" % rw)
    assert rc == 0, out
    rc, out = sh("git apply %s" % os.path.join(d, "patch.diff"), cwd=rw)
    assert rc == 0, out
    res = {}
    try:
        for p in [pid] + also:
            t0 = time.time()
            rc, out = sh("VERIF_REPO=%s ./check %s --tier quick" % (rw, p), cwd=V, timeout=3600)
            vio = [l for l in out.splitlines() if l.startswith("VIOLATION")]
            res[p] = {"exit": rc, "violation_line": vio[0] if vio else None, "wall_s": round(time.time() - t0, 1)}
            if vio:
                m = re.search(r"replay=(\S+)", vio[0])
                if m and os.path.exists(m.group(1)):
                    try:
                        r = json.load(open(m.group(1)))
                        res[p]["kind"] = r.get("kind")
                        res[p]["clause"] = (r.get("monitor") or {}).get("violated_clause")
                        res[p]["broken_obligations"] = [b if isinstance(b, str) else b.get("name") for b in r.get("broken_obligations", [])][:6]
                    except Exception:
                        pass
    finally:
        sh("git -C /repo worktree remove --force %s" % rw)
        sh("git checkout -- evidence", cwd=V)
    meta["checks"] = res
    meta["detected"] = any(v["exit"] == 1 for v in res.values())
    meta["detected_with_failing_input"] = any(v["exit"] == 1 and v.get("violation_line") and "no-failing-input-found" not in v["violation_line"] for v in res.values())
    json.dump(meta, open(os.path.join(d, "meta.json"), "w"), indent=1)
    print(json.dumps({k: meta[k] for k in ("id", "demo_without_change", "demo_with_change", "existing_tests_with_change", "detected", "detected_with_failing_input")}))
    print(json.dumps(res))


if __name__ == "__main__":
    main()
