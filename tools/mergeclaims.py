#!/usr/bin/env python3
"""tools/mergeclaims.py <file> — resolve a conflicted tools/claims/<PID>.json during a merge: per member, take
the side that changed; if both changed and theirs extends the base, append what theirs added to ours; otherwise
keep ours and append theirs in brackets."""
import json, subprocess, sys
f = sys.argv[1]
g = lambda n: json.loads(subprocess.check_output(["git", "show", ":%d:%s" % (n, f)]))
base, ours, theirs = g(1), g(2), g(3)
out = {}
for k in ours:
    o, t, b = ours[k], theirs.get(k, ""), base.get(k, "")
    if o == t or t == b:
        out[k] = o
    elif o == b:
        out[k] = t
    elif t.startswith(b):
        out[k] = o + t[len(b):]
    elif o.startswith(b):
        out[k] = t + o[len(b):]
    else:
        out[k] = o + " [" + t + "]"
        print("both rewrote", k)
json.dump(out, open(f, "w"), indent=1, ensure_ascii=False)
