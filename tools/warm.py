#!/usr/bin/env python3
"""Warm the Go build cache: compile every harness once (results discarded)."""
import json, glob, os, subprocess, tempfile, shutil
V = os.path.dirname(os.path.dirname(os.path.abspath(__file__)))
REPO = os.environ.get("VERIF_REPO", "/repo")
env = dict(os.environ, GOFLAGS="-mod=readonly", GOPROXY="off", GOSUMDB="off", GOTOOLCHAIN="local")
tmp = tempfile.mkdtemp(prefix="verif-warm-")
try:
    for p in sorted(glob.glob(os.path.join(V, "engines", "*.json"))):
        e = json.load(open(p))
        for s in e.get("streams", []):
            g = s.get("go") or e.get("go")
            if not g:
                continue
            ov = {"Replace": {os.path.join(REPO, g["pkg"].lstrip("./"), os.path.basename(f)): os.path.join(V, f) for f in g["files"]}}
            for dst, src in g.get("extra_overlay", {}).items():
                ov["Replace"][os.path.join(REPO, dst)] = os.path.join(V, src)
            ovp = os.path.join(tmp, "ov.json")
            json.dump(ov, open(ovp, "w"))
            subprocess.run(["go1.26", "test", "-c", "-vet=off", "-tags", "verif", "-overlay", ovp, "-o", os.path.join(tmp, "h.test"), g["pkg"]],
                           cwd=REPO, env=env, stdout=subprocess.DEVNULL, stderr=subprocess.DEVNULL)
finally:
    shutil.rmtree(tmp, ignore_errors=True)
