#!/usr/bin/env python3
"""Regenerate the tables of DESIGN.md §0 that are derived from committed data:
   <!-- BEGIN:findings --> … <!-- END:findings -->   from known_findings.json
   <!-- BEGIN:seeded -->   … <!-- END:seeded -->     from seeded/*/meta.json + notes.md
   <!-- BEGIN:engines -->  … <!-- END:engines -->    from engines/*.json + MANIFEST.json
   <!-- BEGIN:coverage --> … <!-- END:coverage -->   from facts/coverage.json (tools/gocover.py)
"""
import json, glob, os, re

V = os.path.dirname(os.path.dirname(os.path.abspath(__file__)))


def findings():
    k = json.load(open(os.path.join(V, "known_findings.json")))
    rows = ["| key | property | disposition | what failed on the real code |", "|---|---|---|---|"]
    def keyn(f):
        m = re.match(r"F(\d+)", f["key"])
        return int(m.group(1)) if m else 999
    for f in sorted(k["findings"], key=keyn):
        if f["status"] == "fixed":
            disp = "fixed in /repo `%s`" % f["commit"]
            what = re.sub(r"^fixed: property=\S+ \S+ ", "", f.get("record", ""))
        else:
            disp = "known finding (KNOWN-FINDING line, exit 0)"
            what = f.get("what", "")
        what = what.replace("|", "\\|").replace("\n", " ")
        rows.append("| %s | %s | %s | %s |" % (f["key"], f["property"], disp, what))
    return "\n".join(rows)


def seeded():
    rows = ["| id | the change (author's title) | demo without / with | repo tests with change | `./check` result (quick tier) |", "|---|---|---|---|---|"]
    for d in sorted(glob.glob(os.path.join(V, "seeded", "*")), key=lambda x: [int(t) if t.isdigit() else t for t in re.split(r"(\d+)", os.path.basename(x))]):
        mp = os.path.join(d, "meta.json")
        if not os.path.exists(mp):
            continue
        m = json.load(open(mp))
        title = ""
        np_ = os.path.join(d, "notes.md")
        if os.path.exists(np_):
            for line in open(np_):
                line = line.strip()
                if line and not line.startswith("PACKAGE:"):
                    title = re.sub(r"^#+\s*", "", line)
                    title = re.sub(r"^(C\d\d[ -/]*)?(mutant )?m\d\s*[—-]\s*", "", title, flags=re.I)
                    break
        res = []
        for p, r in (m.get("checks") or {}).items():
            if r["exit"] == 0:
                res.append("%s: **missed** (exit 0)" % p)
            elif r.get("violation_line") and "no-failing-input-found" in r["violation_line"]:
                ob = ", ".join((r.get("broken_obligations") or [])[:3])
                res.append("%s: exit 1, no-failing-input-found (broken: %s)" % (p, ob or r.get("kind")))
            else:
                res.append("%s: exit 1, failing input; clause “%s”" % (p, (r.get("clause") or r.get("kind") or "").replace("|", "\\|")[:150]))
        rows.append("| %s | %s | %s / %s | %s | %s |" % (
            m["id"], title.replace("|", "\\|")[:140], m.get("demo_without_change"), m.get("demo_with_change"),
            m.get("existing_tests_with_change"), "<br>".join(res)))
    return "\n".join(rows)


def engines():
    man = json.load(open(os.path.join(V, "MANIFEST.json")))
    rows = ["| engine | properties | Lean modules (lean/McpModel/…) | theorems registered | correspondence streams (Go package) | structural facts |", "|---|---|---|---|---|---|"]
    for f in sorted(glob.glob(os.path.join(V, "engines", "*.json"))):
        e = json.load(open(f))
        props = sorted(e.get("theorems", {}).keys())
        nthm = len({t for ts in e.get("theorems", {}).values() for t in ts})
        dirs = ", ".join(e.get("lean", {}).get("dirs", []))
        streams = []
        if e.get("streams"):
            for s in e["streams"]:
                g = s.get("go") or e.get("go") or {}
                streams.append("%s→%s (%s)" % (s.get("name"), "/".join(s.get("properties", [])), g.get("pkg", "")))
        else:
            streams.append("(%s)" % (e.get("go", {}).get("pkg", "")))
        nf = 0
        for fn in e.get("facts", []):
            fp = os.path.join(V, "facts", fn + ".expected.json")
            if os.path.exists(fp):
                nf += len(json.load(open(fp)))
        rows.append("| %s | %s | %s | %d | %s | %d |" % (e["name"], ", ".join(props), dirs, nthm, "; ".join(streams), nf))
    return "\n".join(rows)


def theorems():
    props = {}
    for f in sorted(glob.glob(os.path.join(V, "engines", "*.json"))):
        e = json.load(open(f))
        for pid, ts in e.get("theorems", {}).items():
            props.setdefault(pid, []).append((e["name"], ts))
    out = []
    for pid in sorted(props):
        out.append("**%s**" % pid)
        for name, ts in props[pid]:
            out.append("- engine `%s` (%d): %s" % (name, len(ts), ", ".join("`%s`" % t for t in ts)))
        out.append("")
    return "\n".join(out)


def coverage():
    cp = os.path.join(V, "facts", "coverage.json")
    if not os.path.exists(cp):
        return "(run tools/gocover.py)"
    d = json.load(open(cp))
    out = ["| file of /repo | statements reached / all | engines whose harness reaches it (statements) | functions no harness reaches |", "|---|---|---|---|"]
    for f, v in sorted(d["files"].items()):
        if v["statements"] < 5:
            continue
        eng = ", ".join("%s %d" % (k, n) for k, n in sorted(v["by_engine"].items(), key=lambda kv: -kv[1])[:6])
        un = ", ".join(v["functions_unreached"][:12]) + (" …(%d more)" % (len(v["functions_unreached"]) - 12) if len(v["functions_unreached"]) > 12 else "")
        out.append("| %s | %d / %d | %s | %s |" % (f, v["reached"], v["statements"], eng, un))
    t = d["total"]
    out.append("| **total** | **%d / %d (%.1f %%)** | tier %s, seed %s | |" % (t["reached"], t["statements"], 100.0 * t["reached"] / max(1, t["statements"]), d.get("tier"), d.get("seed")))
    return "\n".join(out)


def waves():
    out = []
    for f in sorted(glob.glob(os.path.join(V, "notes", "agents", "*-w[0-9].md"))):
        txt = open(f).read().strip().split("\n")
        body = []
        for l in txt:
            if l.startswith("#"):
                l = "#### " + l.lstrip("#").strip()
            body.append(l)
        out.append("\n".join(body))
        out.append("")
    return "\n".join(out)


def main():
    p = os.path.join(V, "DESIGN.md")
    s = open(p).read()
    for name, fn in (("findings", findings), ("seeded", seeded), ("engines", engines), ("theorems", theorems), ("coverage", coverage), ("waves", waves)):
        b, e = "<!-- BEGIN:%s -->" % name, "<!-- END:%s -->" % name
        if b in s and e in s:
            i, j = s.index(b) + len(b), s.index(e)
            s = s[:i] + "\n" + fn() + "\n" + s[j:]
    open(p, "w").write(s)


if __name__ == "__main__":
    main()
