#!/usr/bin/env python3
"""Regenerates MANIFEST.json from engines/*.json and tools/claims.json (per-property level text)."""
import json, glob, os
V = os.path.dirname(os.path.dirname(os.path.abspath(__file__)))
claims = {os.path.basename(p)[:-5]: json.load(open(p)) for p in glob.glob(os.path.join(V, "tools", "claims", "*.json"))}
engines = [json.load(open(p)) for p in sorted(glob.glob(os.path.join(V, "engines", "*.json")))]
props = [json.loads(l) for l in open(os.path.join(V, "properties.jsonl"))]
serving = {}
for e in engines:
    for s in e.get("streams", []):
        for p in s["properties"]:
            serving.setdefault(p, [])
            if e["name"] not in serving[p]:
                serving[p].append(e["name"])
    for p in e.get("theorems", {}):
        serving.setdefault(p, [])
        if e["name"] not in serving[p]:
            serving[p].append(e["name"])
checks, na = [], []
for pr in props:
    pid = pr["id"]
    c = claims.get(pid)
    if pid in serving and c and c.get("claimed", True):
        checks.append({
            "property_id": pid,
            "quick_cmd": "./check %s --tier quick" % pid,
            "thorough_cmd": "./check %s --tier thorough" % pid,
            "evidence_file": "/verif/evidence/%s.json" % pid,
            "replay_cmd_template": "./check %s --replay {path}" % pid,
            "engine": "+".join(serving[pid]),
            "level_claimed": {"category": "proof", "text": c["text"], "design_ref": c.get("design_ref", "DESIGN.md §5 " + pid)},
            "level_note": c["note"],
            "technique": c.get("technique", "Lean 4 theorems over an executable model + differential correspondence check against the Go implementation"),
        })
    else:
        na.append({"property_id": pid, "reason": (c or {}).get("na_reason", "machinery for this property is not built yet (see DESIGN.md §8); no claim is made")})
m = {
    "version": 1,
    "setup_cmd": "./setup.sh",
    "hooks": {"guard": "verif", "enable": "go1.26 test -c -tags verif -overlay <overlay.json> (harness files are grafted in from /verif/go/harness; hooks in /repo are behind //go:build verif)",
              "baseline_off_cmd": json.load(open("/root/.vp/BASELINE.json"))["cmd"] if os.path.exists("/root/.vp/BASELINE.json") else "go test ./...",
              "source_commits": json.load(open(os.path.join(V, "tools", "hook_commits.json"))) if os.path.exists(os.path.join(V, "tools", "hook_commits.json")) else [],
              "add_only": True},
    "engines": [{"name": e["name"], "path": "lean/McpModel/%s + go/harness" % (e["lean"].get("dirs", ["?"])[0]),
                 "serves_properties": sorted({p for s in e.get("streams", []) for p in s["properties"]} | set(e.get("theorems", {}).keys())),
                 "kind_free_text": e.get("design_ref", "")} for e in engines],
    "checks": checks,
    "not_applicable": na,
    "notes": "All checks: ./check <ID> --tier quick|thorough (python3 stdlib orchestrator). Level 'proof' = Lean 4 theorems over a model + a checked tie (regenerated tables and/or differential correspondence) to /repo's working tree; see DESIGN.md.",
}
json.dump(m, open(os.path.join(V, "MANIFEST.json"), "w"), indent=1)
print("MANIFEST.json: %d checks, %d not_applicable" % (len(checks), len(na)))
