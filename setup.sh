#!/bin/sh
# Build the framework from files on disk only (offline). Run once after a fresh restore, cwd=/verif.
set -e
cd "$(dirname "$0")"
export GOFLAGS=-mod=readonly GOPROXY=off GOSUMDB=off GOTOOLCHAIN=local
mkdir -p .build evidence replays
(cd go/extract && go1.26 build -o ../../.build/extract .)
./.build/extract -repo "${VERIF_REPO:-/repo}" -out "$(pwd)"
(cd lean && lake build && for x in $(sed -n 's/^name = "\(drv_[a-z0-9_]*\)"/\1/p' lakefile.toml); do lake build "$x"; done)
# warm the Go build cache for the harness packages
python3 tools/warm.py || true
echo setup done
